INIT Init
NEXT Next
INVARIANT InvIndependent
CHECK_DEADLOCK FALSE
