-------------------------------- MODULE GlomGroup --------------------------------
(* Group mode (property C16) as a machine.                                           *)
(*                                                                                   *)
(* A Group spec in the fragment the property talks about is a chain of levels         *)
(*     [Limit(n)]  {key_1: {key_2: ... leaf}}                                         *)
(* written as a sequence of level records (position = identity of the spec node):    *)
(*     [op:"limit", n]               top level only                                   *)
(*     [op:"dict", key: kf]          one {key_spec: sub} level                         *)
(*     [op:"list"|"last"|"agg", agg, val]   leaf: [val] / bare val (last value wins) /  *)
(*                                   First Max Min Avg Count Sum(val) Flatten(val) Merge(val), *)
(*                                   where val may itself be a Group (nested evaluation)       *)
(* A Limit(n) may also sit directly above the leaf, under the key levels (one quota per *)
(* bucket); leaves also include Sample(n) and the two-value list [val, val * 10].       *)
(* Items are integers VInt(i), words VStr(w) or pairs VTup(<<int, word>>) (orderable,   *)
(* non-numeric: what Max / Min / First compare), objects with a hostile __eq__ ([k:"any", i]: equal *)
(* to everything, [k:"strict", i]: comparing with a foreign object raises), or IdVal(l) = "the integer id() of the dict / list     *)
(* spec object at level l" (the values that collide with accumulator-tree keys).      *)
(* The spec nodes, aggregators and key specs of different levels are distinct objects. *)
(*                                                                                   *)
(* PART 1 (law) is written from the property statement and the Group / aggregator     *)
(* docstrings: RefGroup is the dictionary a hand-written bucketing loop builds.       *)
(* PART 2 (mechanism) transcribes glom/grouping.py and the group-mode half of         *)
(* glom/reduction.py: ONE accumulator tree per evaluation, a Python dict keyed by     *)
(* id(spec) of dict / list specs, by aggregator objects, by key-spec objects (STOP     *)
(* marks) and by (id(spec), bucket key) pairs, whose values are sub-trees,            *)
(* accumulators and marks.  (Until glom fd673fd the bucket key itself was the tree     *)
(* key and could collide with id(spec); until b769243 the "stops immediately" base     *)
(* case ignored a top-level Limit: both historic mechanisms are kept as mutants.)      *)
(* PART 3 is the machine: NewEvaluation / Feed(item) / Finish over a stack of          *)
(* evaluations of the same spec object sharing one object heap.                        *)
(* PART 4 states the laws over the machine state.                                     *)
EXTENDS GlomData

CONSTANTS Fixes,     \* subset of {"stop", "skiptrace"}: candidate repairs applied to the
                     \* transcribed mechanism ({} = the code as it is)
          Mutant     \* "none" | "carry" | "avgint" | "limit1" | "firstlast" | "curagg" | "minnum" | "sampledrop" |
                     \* "list2swap" | "eqskip" | "eager" | "idkeys" | "sumswap" | "rawbucket" | "nobase":
                     \* wrong mechanisms the laws must reject (vacuity check); the last two are
                     \* the mechanisms of glom before fd673fd / b769243

\* ================================================================================
\* vocabulary
\* ================================================================================
LimitL(n)          == [op |-> "limit", n |-> n]
DictL(kf)          == [op |-> "dict", key |-> kf]
LeafL(op, agg, vf) == [op |-> op, agg |-> agg, val |-> vf]
SampleL(n)         == [op |-> "agg", agg |-> "Sample", val |-> "ident", n |-> n]     \* Sample(n)
VTup(items)        == [k |-> "tup", items |-> items]                               \* a Python tuple item

\* orderable non-numeric items: the words (TLC cannot index or compare strings: tables)
Words     == {"a", "ab", "b", "ba"}
WordRank  == [w \in Words |-> CASE w = "a" -> 1 [] w = "ab" -> 2 [] w = "b" -> 3 [] w = "ba" -> 4]
WordLen   == [w \in Words |-> IF w \in {"a", "b"} THEN 1 ELSE 2]
WordFirst == [w \in Words |-> IF w \in {"a", "ab"} THEN "a" ELSE "b"]
\* Python's  a < b  on two items of the same kind (ints, strings, tuples compared item by item)
RECURSIVE Lt(_, _), LexLt(_, _, _)
Lt(a, b) ==
  CASE a.k = "int" -> a.i < b.i
    [] a.k = "str" -> WordRank[a.s] < WordRank[b.s]
    [] a.k = "tup" -> LexLt(a.items, b.items, 1)
LexLt(p, q, i) ==
  IF i > Len(p) \/ i > Len(q) THEN Len(p) < Len(q)
  ELSE IF p[i] = q[i] THEN LexLt(p, q, i + 1) ELSE Lt(p[i], q[i])

IdVal(l)      == [k |-> "id", n |-> l]          \* id(spec node l): a Python int
AggKey(l)     == [k |-> "aggobj", n |-> l]      \* the aggregator / Limit object itself as dict key
KeySpecKey(l) == [k |-> "keyspec", n |-> l]     \* the key-spec object itself as dict key
BucketKey(l, key) == [k |-> "bucket", n |-> l, key |-> key]   \* the tuple (id(spec node l), key)
VExc(s)       == [k |-> "exc", s |-> s]
IsExc(v)      == v.k = "exc"

DList(s) == [k |-> "list", items |-> s]         \* structural (deep) values of results
DDict(s) == [k |-> "dict", items |-> s]

\* Python's == between dict keys: numbers are equal by value whatever their type (1 == 1.0 == True,
\* 0 == False), (id, key) pairs item by item, anything else only with itself; the dict keeps the key
\* object that came first.  A list / dict value is unhashable: using it as a key raises TypeError.
NumLike(v) == v.k \in {"int", "bool", "frac"}
NumVal(v)  == CASE v.k = "int" -> <<v.i, 1>> [] v.k = "bool" -> <<IF v.b THEN 1 ELSE 0, 1>> [] v.k = "frac" -> <<v.n, v.d>>
RECURSIVE PyEq(_, _)
PyEq(a, b) ==
  IF NumLike(a) /\ NumLike(b) THEN NumVal(a) = NumVal(b)
  ELSE IF a.k = "bucket" /\ b.k = "bucket" THEN a.n = b.n /\ PyEq(a.key, b.key)
  ELSE a = b
Unhashable(v) == v.k \in {"list", "dict"}
RECURSIVE PFind(_, _, _)
PFind(items, key, i) == IF i > Len(items) THEN 0 ELSE IF PyEq(items[i][1], key) THEN i ELSE PFind(items, key, i + 1)
PHas(items, key) == PFind(items, key, 1) # 0
PGet(items, key) == items[PFind(items, key, 1)][2]
PSet(items, key, val) ==
  IF PHas(items, key) THEN [items EXCEPT ![PFind(items, key, 1)][2] = val] ELSE Append(items, <<key, val>>)

RECURSIVE Gcd(_, _)
Gcd(a, b) == IF b = 0 THEN a ELSE Gcd(b, a % b)
Norm(n, d) == LET g == Gcd(n, d) IN VFrac(n \div g, d \div g)      \* n >= 0, d > 0

Take(s, n) == SubSeq(s, 1, IF n < Len(s) THEN n ELSE Len(s))

\* key functions (T-expressions / callables of the harness library)
KeyApply(kf, x) ==
  CASE kf = "ident"   -> x                                          \* T
    [] kf = "mod2"    -> VInt(x.i % 2)                              \* T % 2
    [] kf = "half"    -> VInt(x.i \div 2)                           \* lambda t: t // 2
    [] kf = "const"   -> VInt(7)                                    \* lambda t: 7
    [] kf = "skip0"   -> IF x.i = 0 THEN SKIP ELSE VInt(x.i % 2)    \* SKIP-producing
    [] kf = "skipodd" -> IF x.i % 2 = 1 THEN SKIP ELSE x            \* SKIP-producing
    [] kf = "len"     -> VInt(IF x.k = "str" THEN WordLen[x.s] ELSE Len(x.items))      \* len
    [] kf = "first"   -> IF x.k = "str" THEN VStr(WordFirst[x.s]) ELSE x.items[1]      \* T[0]

\* value functions
ValApply(vf, x) ==
  CASE vf = "ident" -> x                                            \* T
    [] vf = "inc"   -> VInt(x.i + 1)                                \* T + 1 / lambda
    [] vf = "x10"   -> VInt(x.i * 10)                               \* T * 10 / lambda
    [] vf = "skip3" -> IF x.i % 4 = 3 THEN SKIP ELSE x              \* SKIP-producing value
\* what Flatten's / Merge's subspec makes of an item
PairElems(x) == <<x, VInt(x.i + 10)>>                               \* [t, t + 10]
KvPairs(x)   == << <<VInt(x.i % 2), x>>, <<VStr("v"), x>> >>        \* {t % 2: t, 'v': t}

\* sub-specs of Sum / Flatten / Merge that are themselves a Group, evaluated on the item
\* (then a small list, [t, t + 10]): a nested evaluation, worth what the law says of it
RECURSIVE RefGroup(_, _)
InnerKinds == {"gsum", "gcount", "gbsum"}
InnerSpec(vf) ==
  CASE vf = "gsum"   -> <<LeafL("agg", "Sum", "ident")>>                      \* Group(Sum())
    [] vf = "gcount" -> <<DictL("mod2"), LeafL("agg", "Count", "ident")>>     \* Group({T % 2: Count()})
    [] vf = "gbsum"  -> <<DictL("mod2"), LeafL("agg", "Sum", "ident")>>       \* Group({T % 2: Sum()})
InnerValue(vf, x) == RefGroup(InnerSpec(vf), PairElems(x))
SumAddend(vf, x)  == IF vf \in InnerKinds THEN InnerValue(vf, x).i ELSE ValApply(vf, x).i
FlatElems(vf, x)  ==                      \* list += value: its elements (keys of a dict)
  IF vf \in InnerKinds THEN LET d == InnerValue(vf, x) IN [i \in 1..Len(d.items) |-> d.items[i][1]]
  ELSE PairElems(x)
MergePairs(vf, x) == IF vf \in InnerKinds THEN InnerValue(vf, x).items ELSE KvPairs(x)

\* Sum(init=str) / Sum(init=tuple): addition that is not commutative - concatenation, in encounter order
CatKinds == {"cats", "catt"}
CatInit(vf) == IF vf = "cats" THEN VStr("") ELSE VTup(<<>>)
CatAdd(a, b) == IF a.k = "str" THEN VStr(a.s \o b.s) ELSE VTup(a.items \o b.items)      \* a + b
RECURSIVE CatAll(_, _, _)
CatAll(acc, xs, i) == IF i > Len(xs) THEN acc ELSE CatAll(CatAdd(acc, xs[i]), xs, i + 1)

RECURSIVE SumVals(_, _)
SumVals(vf, xs) == IF xs = <<>> THEN 0 ELSE SumAddend(vf, Head(xs)) + SumVals(vf, Tail(xs))
RECURSIVE MaxOf(_, _, _)
MaxOf(xs, i, m) == IF i > Len(xs) THEN m ELSE MaxOf(xs, i + 1, IF Lt(m, xs[i]) THEN xs[i] ELSE m)   \* max(xs)
RECURSIVE MinOf(_, _, _)
MinOf(xs, i, m) == IF i > Len(xs) THEN m ELSE MinOf(xs, i + 1, IF Lt(xs[i], m) THEN xs[i] ELSE m)   \* min(xs)
RECURSIVE Dedup(_, _)
Dedup(s, acc) ==
  IF s = <<>> THEN acc
  ELSE Dedup(Tail(s), IF \E i \in 1..Len(acc) : PyEq(acc[i], Head(s)) THEN acc ELSE Append(acc, Head(s)))
RECURSIVE UpdateAll(_, _)
UpdateAll(items, pairs) ==          \* dict.update: existing keys keep their place, last writer wins
  IF pairs = <<>> THEN items ELSE UpdateAll(PSet(items, Head(pairs)[1], Head(pairs)[2]), Tail(pairs))
RECURSIVE ConcatMap(_, _)
ConcatMap(vf, xs) == IF xs = <<>> THEN <<>> ELSE FlatElems(vf, Head(xs)) \o ConcatMap(vf, Tail(xs))
RECURSIVE MergeAll(_, _, _)
MergeAll(vf, items, xs) ==
  IF xs = <<>> THEN items ELSE MergeAll(vf, UpdateAll(items, MergePairs(vf, Head(xs))), Tail(xs))

\* ================================================================================
\* PART 1.  The law: what a hand-written loop builds
\* ================================================================================
\* SKIP drops an item: an item for which a key function (or the value function of a
\* [val] / bare-val leaf) yields SKIP leaves no trace
RECURSIVE Survives(_, _, _)
Survives(spec, l, x) ==
  LET L == spec[l] IN
  IF L.op = "dict" THEN KeyApply(L.key, x) # SKIP /\ Survives(spec, l + 1, x)
  ELSE IF L.op = "limit" THEN Survives(spec, l + 1, x)
  ELSE IF L.op \in {"list", "last"} THEN ValApply(L.val, x) # SKIP
  ELSE TRUE

\* Python reference of a leaf over the items routed to it, in encounter order
RefLeaf(L, xs) ==
  CASE L.op = "list" -> DList([i \in 1..Len(xs) |-> ValApply(L.val, xs[i])])
    [] L.op = "list2" ->                 \* [val, T * 10]: both values of every item, item by item
         DList([i \in 1..(2 * Len(xs)) |-> IF i % 2 = 1 THEN ValApply(L.val, xs[(i + 1) \div 2])
                                                        ELSE ValApply("x10", xs[i \div 2])])
    [] L.op = "last" -> IF xs = <<>> THEN VNone ELSE ValApply(L.val, xs[Len(xs)])
    [] L.op = "agg" ->
         CASE L.agg = "Count"   -> VInt(Len(xs))                       \* len(xs)
           [] L.agg = "Sample"  -> IF L.n = 0 THEN DList(<<>>)   \* a sample of no values
                                   ELSE DList(xs)          \* n out of no more than n values: all of them
           [] L.agg = "Sum"     -> IF L.val \in CatKinds THEN CatAll(CatInit(L.val), xs, 1)     \* reduce(add, xs, init())
                                   ELSE VInt(SumVals(L.val, xs))       \* sum(val(x) for x in xs)
           [] L.agg = "Flatten" -> DList(ConcatMap(L.val, xs))              \* list(chain.from_iterable(..))
           [] L.agg = "Merge"   -> DDict(MergeAll(L.val, <<>>, xs))         \* d = {}; d.update(..) ...
           [] OTHER ->
                IF xs = <<>> THEN VNone                                \* first / max / min / mean of nothing
                ELSE CASE L.agg = "First" -> xs[1]
                       [] L.agg = "Max"   -> MaxOf(xs, 2, xs[1])
                       [] L.agg = "Min"   -> MinOf(xs, 2, xs[1])
                       [] L.agg = "Avg"   -> Norm(SumVals("ident", xs), Len(xs))   \* sum(xs) / len(xs), a float

\* bucketing: keys in order of first occurrence, each bucket holds the sub-result over
\* the items routed to it, in encounter order
RECURSIVE RefAt(_, _, _)
RefAt(spec, l, xs) ==
  LET L == spec[l] IN
  IF L.op = "dict" THEN
    LET ks == Dedup([i \in 1..Len(xs) |-> KeyApply(L.key, xs[i])], <<>>)
        Routed(key) == LET Here(x) == PyEq(KeyApply(L.key, x), key) IN SelectSeq(xs, Here)
    IN DDict([j \in 1..Len(ks) |-> <<ks[j], RefAt(spec, l + 1, Routed(ks[j]))>>])
  ELSE IF L.op = "limit" THEN RefAt(spec, l + 1, Take(xs, L.n))     \* per bucket: the first n routed here
  ELSE RefLeaf(L, xs)

Body(spec)      == IF spec[1].op = "limit" THEN 2 ELSE 1
Passed(spec, xs) ==      \* a top-level Limit(n) passes the first n items on
  IF spec[1].op = "limit" THEN Take(xs, spec[1].n) ELSE xs
Kept(spec, xs)  == LET Surv(x) == Survives(spec, Body(spec), x) IN SelectSeq(Passed(spec, xs), Surv)
\* like a dict, the loop fails with TypeError on the first key that cannot be hashed
HashFail(spec, xs) ==
  LET ps == Passed(spec, xs) IN
  \E i \in 1..Len(ps) : \E l \in 1..Len(spec) :
     /\ spec[l].op = "dict" /\ Unhashable(KeyApply(spec[l].key, ps[i]))
     /\ \A m \in 1..(l - 1) : spec[m].op = "dict" => KeyApply(spec[m].key, ps[i]) # SKIP
RefGroup(spec, xs) ==                                              \* (declared RECURSIVE above)
  IF HashFail(spec, xs) THEN VExc("TypeError") ELSE RefAt(spec, Body(spec), Kept(spec, xs))
\* the reference is defined (the law constrains the result) unless a bare aggregator / bare
\* value has received no item at all
\* ... and unless a Sample(n) leaf has been offered more than n values (then it is random)
KeyPath(sp, x) == [l \in 1..Len(sp) |-> IF sp[l].op = "dict" THEN KeyApply(sp[l].key, x) ELSE VNone]
SamePath(sp, x, y) == \A l \in 1..Len(sp) : PyEq(KeyPath(sp, x)[l], KeyPath(sp, y)[l])
SampleFits(spec, xs) ==
  LET L == spec[Len(spec)]  ks == Kept(spec, xs) IN
  L.op = "agg" /\ L.agg = "Sample" /\ L.n > 0 =>
    \A i \in 1..Len(ks) : Cardinality({j \in 1..Len(ks) : SamePath(spec, ks[j], ks[i])}) <= L.n
RefDefined(spec, xs) ==
  \/ HashFail(spec, xs)
  \/ /\ spec[Body(spec)].op \in {"dict", "list", "list2"} \/ Kept(spec, xs) # <<>>
     /\ SampleFits(spec, xs)

\* A lazy source that fails (raises) when asked for the item after xs.  The hand-written loop
\* takes items one at a time and is finished once a top-level Limit(n) has passed n values on
\* or a top-level First() has its value: it then never touches the rest of the source.
NoCap == 999
TopCap(sp) ==
  LET a == IF sp[1].op = "limit" THEN sp[1].n ELSE NoCap
      L == sp[Body(sp)]
      b == IF L.op = "agg" /\ L.agg = "First" THEN 1 ELSE NoCap
  IN IF a < b THEN a ELSE b
RefEval(sp, xs, faulted) ==
  IF ~faulted \/ Len(xs) > TopCap(sp) \/ HashFail(sp, xs) THEN RefGroup(sp, xs) ELSE VExc("SourceError")
\* (whether the loop looks at the source once more after the value that fills it is not decided)
RefEvalDefined(sp, xs, faulted) ==
  IF ~faulted \/ Len(xs) > TopCap(sp) \/ HashFail(sp, xs) THEN RefDefined(sp, xs) ELSE Len(xs) < TopCap(sp)

\* ================================================================================
\* PART 2.  The mechanism: glom/grouping.py, glom/reduction.py (group mode)
\* ================================================================================
\* objects of one Group evaluation: heap cells of class "dict" / "list"
\* (mutant "idkeys": the accumulator dicts tell keys apart by type as well: 1, 1.0, True)
DHas(h, a, key)      == IF Mutant = "idkeys" THEN HasKey(h[a].items, key) ELSE PHas(h[a].items, key)
DGet(h, a, key)      == IF Mutant = "idkeys" THEN Lookup(h[a].items, key) ELSE PGet(h[a].items, key)
DSet(h, a, key, val) == [h EXCEPT ![a].items = IF Mutant = "idkeys" THEN SetKey(@, key, val) ELSE PSet(@, key, val)]
NewAddr(h)           == Len(h) + 1

R(h, r) == [h |-> h, r |-> r]
\* GROUP() returns the accumulator of the dict / list spec (repair "skiptrace": SKIP while
\* nothing has been accepted into it, so that a dropped item leaves no empty bucket behind)
RetAcc(h, acc) == IF "skiptrace" \in Fixes /\ h[acc.a].items = <<>> THEN R(h, SKIP) ELSE R(h, acc)

\* ---- First / Max / Min / Avg .agg(target, tree);  Fold._agg / Merge._agg -----------
AggEval(h, ta, l, L, x) ==
  LET me == AggKey(l)  has == DHas(h, ta, me) IN
  \* Fold.glomit evaluates its sub-spec first; a sub-spec that is a Group is a nested evaluation
  \* with its own accumulator tree and its own CUR_AGG = None (mutant "curagg": not reset, the
  \* inner Sum / Count inherit the outer aggregator's marker, fold the single item and fail)
  CASE L.val \in InnerKinds /\ Mutant = "curagg" -> R(h, VExc("FoldError"))
    [] L.agg = "First" ->
         IF Mutant = "firstlast" THEN R(h, x)
         ELSE IF ~has THEN R(DSet(h, ta, me, STOP), x)           \* tree[self] = STOP; return target
         ELSE R(h, STOP)
    [] L.agg = "Max" ->
         IF ~has \/ Lt(DGet(h, ta, me), x) THEN R(DSet(h, ta, me, x), x) ELSE R(h, DGet(h, ta, me))
    [] L.agg = "Min" ->                    \* (mutant "minnum": folds from float('inf'), numbers only)
         IF Mutant = "minnum" /\ x.k # "int" THEN R(h, VExc("TypeError"))
         ELSE IF ~has \/ Lt(x, DGet(h, ta, me)) THEN R(DSet(h, ta, me, x), x) ELSE R(h, DGet(h, ta, me))
    [] L.agg = "Sample" ->                 \* tree[self] = [num_seen, sample]; reservoir of size n
         LET h1  == IF has THEN h
                    ELSE LET hs == Append(h, Cell("list", <<>>)) IN
                         DSet(Append(hs, Cell("list", <<VInt(0), VRef(NewAddr(h))>>)), ta, me, VRef(NewAddr(hs)))
             a   == DGet(h1, ta, me).a
             smp == h1[a].items[2]
             h2  == IF Len(h1[smp.a].items) < L.n /\ ~(Mutant = "sampledrop" /\ h1[a].items[1].i = 0)
                    THEN [h1 EXCEPT ![smp.a].items = Append(@, x)]
                    ELSE h1      \* full: replaces sample[random.randint(0, num_seen)] if < n (outside the law)
         IN R([h2 EXCEPT ![a].items[1] = VInt(@.i + 1)], smp)
    [] L.agg = "Avg" ->                                           \* tree[self] = [sum, count]
         LET h1  == IF has THEN h
                    ELSE DSet(Append(h, Cell("list", <<VInt(0), VInt(0)>>)), ta, me, VRef(NewAddr(h)))
             a   == DGet(h1, ta, me).a
             s   == h1[a].items[1].i + x.i
             n   == h1[a].items[2].i + 1
         IN R([h1 EXCEPT ![a].items = <<VInt(s), VInt(n)>>],
              IF Mutant = "avgint" THEN Norm(s \div n, 1) ELSE Norm(s, n))
    [] L.agg = "Sum" ->                                           \* tree[self] = init(); iadd
         LET cur == IF has THEN DGet(h, ta, me) ELSE IF L.val \in CatKinds THEN CatInit(L.val) ELSE VInt(0)
             nv  == IF L.val \in CatKinds                        \* op(tree[self], target)  (mutant "sumswap": swapped)
                    THEN (IF Mutant = "sumswap" THEN CatAdd(x, cur) ELSE CatAdd(cur, x))
                    ELSE VInt(cur.i + SumAddend(L.val, x))
         IN R(DSet(h, ta, me, nv), nv)
    [] L.agg = "Count" ->
         LET cur == IF has THEN DGet(h, ta, me) ELSE VInt(0)
             nv  == VInt(cur.i + 1)
         IN R(DSet(h, ta, me, nv), nv)
    [] L.agg = "Flatten" ->                                       \* list accumulator, extended in place
         LET h1  == IF has THEN h ELSE DSet(Append(h, Cell("list", <<>>)), ta, me, VRef(NewAddr(h)))
             acc == DGet(h1, ta, me)
         IN R([h1 EXCEPT ![acc.a].items = @ \o FlatElems(L.val, x)], acc)
    [] L.agg = "Merge" ->                                         \* dict accumulator, updated in place
         LET h1  == IF has THEN h ELSE DSet(Append(h, Cell("dict", <<>>)), ta, me, VRef(NewAddr(h)))
             acc == DGet(h1, ta, me)
         IN R([h1 EXCEPT ![acc.a].items = UpdateAll(@, MergePairs(L.val, x))], acc)

\* ---- _glom(target = x, spec node l, scope) with scope[ACC_TREE] = cell ta ------------
RECURSIVE GEval(_, _, _, _, _)
GEval(spec, h, ta, l, x) ==
  LET L == spec[l] IN
  CASE L.op = "limit" ->                                           \* Limit.glomit
         LET me  == AggKey(l)
             h1  == IF DHas(h, ta, me) THEN h                     \* tree[self] = [0, {}]
                    ELSE LET hs == Append(h, Cell("dict", <<>>))
                             hl == Append(hs, Cell("list", <<VInt(0), VRef(NewAddr(h))>>))
                         IN DSet(hl, ta, me, VRef(NewAddr(hs)))
             la  == DGet(h1, ta, me).a
             sub == h1[la].items[2].a                              \* scope[ACC_TREE] = tree[self][1]
             cnt == h1[la].items[1].i + 1
             h2  == [h1 EXCEPT ![la].items[1] = VInt(cnt)]
         IN IF (IF Mutant = "limit1" THEN cnt >= L.n ELSE cnt > L.n) THEN R(h2, STOP)
            ELSE GEval(spec, h2, sub, l + 1, x)
    [] L.op = "dict" ->                                            \* GROUP(), dict branch
         LET sid == IdVal(l)
             h1  == IF DHas(h, ta, sid) THEN h                    \* acc = tree[id(spec)] = {}
                    ELSE DSet(Append(h, Cell("dict", <<>>)), ta, sid, VRef(NewAddr(h)))
             acc == DGet(h1, ta, sid)
             ksk == KeySpecKey(l)
         IN IF DHas(h1, ta, ksk) /\ DGet(h1, ta, ksk) = STOP      \* key spec marked done: nothing
            THEN R(h1, STOP)                                       \*   else to do => STOP
            ELSE
              LET key == KeyApply(L.key, x) IN
              IF key = SKIP THEN RetAcc(h1, acc)
              ELSE IF Unhashable(key) THEN R(h1, VExc("TypeError"))   \* key not in acc: unhashable type
              ELSE
                LET bk  == IF Mutant = "rawbucket" THEN key ELSE BucketKey(l, key)   \* bucket = (_spec_id, key)
                    h2  == IF ~DHas(h1, acc.a, key)                \* if key not in acc: tree[bucket] = {}
                           THEN DSet(Append(h1, Cell("dict", <<>>)), ta, bk, VRef(NewAddr(h1)))
                           ELSE h1
                IN IF ~DHas(h2, ta, bk) THEN R(h2, VExc("KeyError"))      \* scope[ACC_TREE] = tree[bucket]
                   ELSE
                     LET res == GEval(spec, h2, DGet(h2, ta, bk).a, l + 1, x) IN
                     IF IsExc(res.r) THEN res
                     ELSE IF res.r = STOP THEN
                       IF "stop" \in Fixes THEN RetAcc(res.h, acc) \* repair: only this bucket is done
                       ELSE R(DSet(res.h, ta, ksk, STOP), STOP)    \* tree[keyspec] = STOP; done stays True
                     ELSE IF res.r = SKIP THEN RetAcc(res.h, acc)
                     ELSE R(DSet(res.h, acc.a, key, res.r), acc)   \* acc[key] = result
    [] L.op = "list" ->                                            \* GROUP(), list branch
         LET sid == IdVal(l)
             h1  == IF DHas(h, ta, sid) THEN h
                    ELSE DSet(Append(h, Cell("list", <<>>)), ta, sid, VRef(NewAddr(h)))
             acc == DGet(h1, ta, sid)
             v   == ValApply(L.val, x)
         \* `result is not SKIP`: identity (mutant "eqskip": ==, which an equal-to-everything value satisfies)
         IN IF v = SKIP \/ (Mutant = "eqskip" /\ v.k = "any") THEN RetAcc(h1, acc)
            ELSE R([h1 EXCEPT ![acc.a].items = Append(@, v)], acc)
    [] L.op = "list2" ->                                           \* GROUP(), list branch, two value specs
         LET sid == IdVal(l)
             h1  == IF DHas(h, ta, sid) THEN h
                    ELSE DSet(Append(h, Cell("list", <<>>)), ta, sid, VRef(NewAddr(h)))
             acc == DGet(h1, ta, sid)
             vs  == IF Mutant = "list2swap" THEN <<ValApply("x10", x), ValApply(L.val, x)>>
                    ELSE <<ValApply(L.val, x), ValApply("x10", x)>>
         IN R([h1 EXCEPT ![acc.a].items = @ \o vs], acc)
    [] L.op = "last" -> R(h, ValApply(L.val, x))                   \* T-expression / callable
    [] L.op = "agg"  -> AggEval(h, ta, l, L, x)

\* ---- Group.glomit: one evaluation = [items, root, ret, stopped] ----------------------
\* base case "the spec stops immediately": look through a Limit, then type(base)() for
\* dict / list, else None
BaseLevel(spec) == IF Mutant = "nobase" THEN 1 ELSE Body(spec)
EvNew(spec, h, root) ==
  LET h1 == IF root = 0 THEN Append(h, Cell("dict", <<>>)) ELSE h     \* scope[ACC_TREE] = {}
      rt == IF root = 0 THEN NewAddr(h) ELSE root
      b  == spec[BaseLevel(spec)].op
  IN IF b \in {"dict", "list", "list2"}
     THEN [h |-> Append(h1, Cell(IF b = "dict" THEN "dict" ELSE "list", <<>>)),
           ev |-> [items |-> <<>>, root |-> rt, ret |-> VRef(NewAddr(h1)), stopped |-> FALSE, faulted |-> FALSE]]
     ELSE [h |-> h1, ev |-> [items |-> <<>>, root |-> rt, ret |-> VNone, stopped |-> FALSE, faulted |-> FALSE]]

\* the loop body   last, ret = ret, scope[glom](t, self.spec, scope);  if ret is STOP: return last
EvFeed(spec, h, ev, x) ==
  IF ev.stopped THEN [h |-> h, ev |-> [ev EXCEPT !.items = Append(@, x)]]   \* already returned
  ELSE LET res == GEval(spec, h, ev.root, 1, x) IN
       IF res.r = STOP THEN [h |-> res.h, ev |-> [ev EXCEPT !.items = Append(@, x), !.stopped = TRUE]]
       ELSE IF res.r = SKIP /\ "skiptrace" \in Fixes                  \* repair: if ret is SKIP: ret = last
       THEN [h |-> res.h, ev |-> [ev EXCEPT !.items = Append(@, x)]]
       ELSE IF IsExc(res.r)
       THEN [h |-> res.h, ev |-> [ev EXCEPT !.items = Append(@, x), !.stopped = TRUE, !.ret = res.r]]
       ELSE [h |-> res.h, ev |-> [ev EXCEPT !.items = Append(@, x), !.ret = res.r]]

\* the source raises when the loop asks it for the next item: for t in target_iter(..) propagates it -
\* unless Group.glomit has already returned (the items are pulled one at a time; mutant "eager":
\* the whole source is drained before the first item is grouped)
EvFault(ev) ==
  IF ev.stopped /\ Mutant # "eager" THEN [ev EXCEPT !.faulted = TRUE]
  ELSE [ev EXCEPT !.faulted = TRUE, !.stopped = TRUE, !.ret = VExc("SourceError")]

\* structural value of a result
RECURSIVE DeepV(_, _)
DeepV(h, v) ==
  IF ~IsRef(v) THEN v
  ELSE LET c == h[v.a] IN
       IF c.cls = "dict"
       THEN DDict([i \in 1..Len(c.items) |-> <<c.items[i][1], DeepV(h, c.items[i][2])>>])
       ELSE DList([i \in 1..Len(c.items) |-> DeepV(h, c.items[i])])

\* cells reachable from a value
RECURSIVE ReachV(_, _, _), ReachSeq(_, _, _, _)
ReachV(h, v, seen) ==
  IF ~IsRef(v) \/ v.a \in seen THEN seen
  ELSE LET c == h[v.a]
           kids == IF c.cls = "dict" THEN [i \in 1..Len(c.items) |-> c.items[i][2]] ELSE c.items
       IN ReachSeq(h, kids, 1, seen \cup {v.a})
ReachSeq(h, kids, i, seen) ==
  IF i > Len(kids) THEN seen ELSE ReachSeq(h, kids, i + 1, ReachV(h, kids[i], seen))

\* ================================================================================
\* PART 3.  The machine
\* ================================================================================
VARIABLES spec,     \* the Group spec object (one object, re-used by every evaluation)
          heap,     \* objects created by evaluations (accumulator trees, accumulators, results)
          evals,    \* every evaluation started so far: [items, root, ret, stopped, open, out, pred, def]
          stack,    \* indices of the evaluations in progress, innermost last (nesting)
          hist      \* actions taken (replayed into the real library)
gvars == <<spec, heap, evals, stack, hist>>

Decorate(sp, h, ev, open) ==          \* what the harness compares: out = mechanism, pred = law
  [items |-> ev.items, root |-> ev.root, ret |-> ev.ret, stopped |-> ev.stopped, open |-> open,
   faulted |-> ev.faulted, out |-> DeepV(h, ev.ret),
   pred |-> RefEval(sp, ev.items, ev.faulted), def |-> RefEvalDefined(sp, ev.items, ev.faulted)]

\* Group.glomit entry: fresh ACC_TREE (mutant "carry": the tree lives on the spec object)
NewEvaluation ==
  LET carried == IF Mutant = "carry" /\ Len(evals) > 0 THEN evals[1].root ELSE 0
      n == EvNew(spec, heap, carried)
  IN /\ heap' = n.h
     /\ evals' = Append(evals, Decorate(spec, n.h, n.ev, TRUE))
     /\ stack' = Append(stack, Len(evals) + 1)
     /\ hist' = Append(hist, [a |-> "new"])

\* one iteration of the loop of the innermost evaluation in progress
Feed(x) ==
  /\ stack # <<>>
  /\ LET e == stack[Len(stack)]
         n == EvFeed(spec, heap, evals[e], x)
     IN /\ heap' = n.h
        /\ evals' = [evals EXCEPT ![e] = Decorate(spec, n.h, n.ev, TRUE)]
  /\ hist' = Append(hist, [a |-> "feed", x |-> x])
  /\ UNCHANGED stack

\* the (lazy) target of the innermost evaluation raises instead of yielding its next item
Fault ==
  /\ stack # <<>>
  /\ LET e == stack[Len(stack)] IN
     /\ ~evals[e].faulted
     /\ evals' = [evals EXCEPT ![e] = Decorate(spec, heap, EvFault(evals[e]), TRUE)]
  /\ hist' = Append(hist, [a |-> "fault"])
  /\ UNCHANGED <<heap, stack>>

\* the target is exhausted: Group.glomit returns ret
Finish ==
  /\ stack # <<>>
  /\ evals' = [evals EXCEPT ![stack[Len(stack)]].open = FALSE]
  /\ stack' = SubSeq(stack, 1, Len(stack) - 1)
  /\ hist' = Append(hist, [a |-> "fin"])
  /\ UNCHANGED heap

\* ================================================================================
\* PART 4.  Laws
\* ================================================================================
\* the regions of the two recorded findings (declarative, on spec and items only)
NKeyLevels(sp) == Cardinality({l \in 1..Len(sp) : sp[l].op = "dict"})
Leaf(sp)       == sp[Len(sp)]
\* (F1) a node that answers STOP once it is full - First() (capacity 1) or a Limit(n) - sits
\* under a key level and some bucket is offered more values than that
BucketPath(sp, x) == KeyPath(sp, x)
NestedLimit(sp) == {l \in (Body(sp) + 1)..Len(sp) : sp[l].op = "limit"}
RegionFirstStop(sp, xs) ==
  /\ NKeyLevels(sp) >= 1
  /\ LET ks == Kept(sp, xs)
         Offered(i) == Cardinality({j \in 1..Len(ks) : SamePath(sp, ks[j], ks[i])})
     IN \/ Leaf(sp).op = "agg" /\ Leaf(sp).agg = "First" /\ \E i \in 1..Len(ks) : Offered(i) > 1
        \/ \E l \in NestedLimit(sp) : \E i \in 1..Len(ks) : Offered(i) > sp[l].n
\* (F2) an item that passes the first key level is dropped (SKIP) further down, where the
\* enclosing level has already created its bucket
RegionSkipTrace(sp, xs) ==
  LET d == Body(sp) ps == Passed(sp, xs) IN
  /\ sp[d].op = "dict" /\ sp[d + 1].op # "last"
  /\ \E i \in 1..Len(ps) : KeyApply(sp[d].key, ps[i]) # SKIP /\ ~Survives(sp, d, ps[i])
InFindingRegion(sp, xs) == RegionFirstStop(sp, xs) \/ RegionSkipTrace(sp, xs)

\* L1: after NewEvaluation and after every Feed, for every evaluation (in progress,
\* suspended by a nested one, or finished) the result is the reference grouping of the
\* items that evaluation has consumed
EvalAgrees(e) == evals[e].def => evals[e].out = evals[e].pred
LawRefGroup == \A e \in 1..Len(evals) : EvalAgrees(e)
\* the same, outside the regions of the recorded findings
LawRefGroupOutsideFindings ==
  \A e \in 1..Len(evals) : EvalAgrees(e) \/ InFindingRegion(spec, evals[e].items)
\* L2: accumulation state lives for one evaluation only: nothing reachable from one
\* evaluation's tree or result is reachable from another's, and a new evaluation starts
\* with an empty tree
Owned(e) == ReachV(heap, evals[e].ret, ReachV(heap, VRef(evals[e].root), {}))
LawEvalsDisjoint ==
  \A e1, e2 \in 1..Len(evals) : e1 < e2 => Owned(e1) \cap Owned(e2) = {}
LawFreshAtNew ==
  \A e \in 1..Len(evals) : evals[e].items = <<>> => heap[evals[e].root].items = <<>>
====================================================================================
