--------------------------------- MODULE Trace_C17 ---------------------------------
(* code -> spec for C17.  Every row of the ndjson file is one execution recorded from the  *)
(* real library on a pipeline / source TLC did not choose:                                  *)
(*   {pipe, srcd, kmax, horizon,                                                            *)
(*    obs: {outs, ended, pulled (source events after glom() and after every next() call),  *)
(*          budget (the instrumented infinite source was asked beyond the horizon),        *)
(*          ev (interleaving of source pulls "p"/"x", "b" = glom() returned, consumer       *)
(*              "e"/"f"), mech (whether ev is to be stepped through the pull machine)},      *)
(*    term: one terminal call on the same pipeline: first(key, default) or all()}            *)
(* Each row is first judged by the LAW (Part A of GlomStream: outputs = reference            *)
(* composition, END where the reference ends, pulled <= DemandLA), then its event            *)
(* interleaving is stepped through the pull machine (Part B), action by action.             *)
(* Printed: {"reject": i, "clause": c} - "outputs", "end", "laziness", "first", "all",        *)
(* "exception" (obs.exc: a pipeline the law calls well-typed raised) are                      *)
(* violations of the law; "drift:*" means only the mechanism model                            *)
(* disagrees - and finally {"done": n, "skipped": ill-typed rows}.                           *)
EXTENDS GlomStream, Json, IOUtils

Rows == ndJsonDeserialize(IOEnv.TRACE_FILE)

VARIABLES i, tst, verdict, rej, nskip
tvars == <<i, tst, verdict, rej, nskip, pipe, srcd, kmax, loc, pos, srcEnded, outs, fin, ctl, built, nreq, ev, objs, cells, bhist>>

Min2(a, b) == IF a < b THEN a ELSE b

\* ---- the law on one recorded row -----------------------------------------------------------
RECURSIVE LastDetermined(_, _, _)
LastDetermined(demLA, ncalls, k) ==      \* largest k <= ncalls whose answer is determined inside the horizon
  IF k < ncalls /\ demLA[k + 2] # INF THEN LastDetermined(demLA, ncalls, k + 1) ELSE k

OutsAgree(P, o, kd) ==
  /\ SubSeq(o.outs, 1, Min2(kd, Len(o.outs))) = SubSeq(P.xs, 1, Min2(kd, P.n))
  /\ (o.ended /\ Len(o.outs) + 1 <= kd) => (P.ended /\ P.n = Len(o.outs))
  /\ (P.ended /\ P.n < kd) => (o.ended /\ Len(o.outs) = P.n)

JudgeAgainst(P, r) ==
  LET o == r.obs
      ncalls == Len(o.pulled) - 1
      kd == LastDetermined(P.demLA, ncalls, 0)
  IN IF ~OutsAgree(P, o, kd)
     THEN (IF SubSeq(o.outs, 1, Min2(kd, Len(o.outs))) # SubSeq(P.xs, 1, Min2(kd, P.n)) THEN "outputs" ELSE "end")
     ELSE IF \E k \in 0..kd : o.pulled[k + 1] > P.demLA[k + 1] THEN "laziness"
     ELSE IF o.budget /\ ncalls + 1 <= r.kmax /\ P.demLA[ncalls + 2] # INF THEN "laziness"
     ELSE ""

\* the terminal call recorded with the row: term = [kind "first" | "all" | "none", idx (first: index into
\* FirstVariants), v (first: the value; all: the list as a list value), pulled, budget]
TermVerdict(pr, t) ==
  IF t.kind = "first"
  THEN LET f == pr.first[t.idx] IN
       IF ~f.det \/ f.demLA = INF THEN ""
       ELSE IF t.budget THEN "laziness"
       ELSE IF t.v # f.v THEN "first"
       ELSE IF t.pulled > f.demLA THEN "laziness" ELSE ""
  ELSE IF t.kind = "all"
  THEN IF ~pr.all.det \/ pr.all.demLA = INF THEN ""
       ELSE IF t.budget THEN "laziness"
       ELSE IF t.v # VList(pr.xs) THEN "all"
       ELSE IF t.pulled > pr.all.demLA THEN "laziness" ELSE ""
  ELSE ""

LawVerdict(r) ==
  LET pr == Predict(r.pipe, r.srcd, r.kmax, r.horizon) IN
  IF pr.bad \/ pr.demLA[1] = INF THEN "skip"
  ELSE IF r.obs.exc THEN "exception"          \* a well-typed pipeline raised
  ELSE LET v == JudgeAgainst(pr, r) IN IF v # "" THEN v ELSE TermVerdict(pr, r.term)

\* ---- stepping -------------------------------------------------------------------------------
Row == Rows[i]
NoBuild == objs = <<>> /\ cells = <<>> /\ bhist = <<>>
Init == /\ i = 1 /\ tst = "idle" /\ verdict = "" /\ rej = "" /\ nskip = 0
        /\ pipe = <<>> /\ srcd = [kind |-> "fin", items |-> <<>>] /\ kmax = 0 /\ loc = <<>> /\ pos = 0
        /\ srcEnded = FALSE /\ outs = <<>> /\ fin = "run" /\ ctl = IdleCtl /\ built = 0 /\ nreq = 0 /\ ev = <<>>
        /\ NoBuild
KeepPull == UNCHANGED <<pipe, srcd, kmax, loc, pos, srcEnded, outs, fin, ctl, built, nreq, ev>>
KeepBuild == UNCHANGED <<objs, cells, bhist>>

Judge == /\ tst = "idle" /\ rej = "" /\ i <= Len(Rows)
         /\ verdict' = LawVerdict(Row) /\ tst' = "judged"
         /\ UNCHANGED <<i, rej, nskip>> /\ KeepPull /\ KeepBuild
Skip == /\ tst = "judged" /\ verdict = "skip"
        /\ i' = i + 1 /\ nskip' = nskip + 1 /\ tst' = "idle"
        /\ UNCHANGED <<verdict, rej>> /\ KeepPull /\ KeepBuild
Reject(c) == /\ rej' = c /\ tst' = "rejected" /\ UNCHANGED <<i, verdict, nskip>> /\ KeepPull /\ KeepBuild
LawReject == tst = "judged" /\ verdict \notin {"", "skip"} /\ Reject(verdict)
Ack == /\ tst = "rejected" /\ rej' = "" /\ tst' = "idle" /\ i' = i + 1
       /\ UNCHANGED <<verdict, nskip>> /\ KeepPull /\ KeepBuild
LawOnly == /\ tst = "judged" /\ verdict = "" /\ ~Row.obs.mech
           /\ i' = i + 1 /\ tst' = "idle" /\ UNCHANGED <<verdict, rej, nskip>> /\ KeepPull /\ KeepBuild
MechStart == /\ tst = "judged" /\ verdict = "" /\ Row.obs.mech
             /\ StartRun(Row.pipe, Row.srcd, Len(Row.obs.pulled) - 1)
             /\ tst' = "run" /\ UNCHANGED <<i, verdict, rej, nskip>> /\ KeepBuild
Following == IsPrefixOf(ev, Row.obs.ev)
MechStep == /\ tst = "run" /\ Following /\ ~Halted /\ PullStep
            /\ UNCHANGED <<i, tst, verdict, rej, nskip>> /\ KeepBuild
MechDrift == tst = "run" /\ ~Following /\ Reject("drift:interleaving")
MechDone == /\ tst = "run" /\ Following /\ Halted
            /\ IF ev = Row.obs.ev /\ outs = Row.obs.outs
               THEN /\ i' = i + 1 /\ tst' = "idle" /\ UNCHANGED <<verdict, rej, nskip>> /\ KeepPull /\ KeepBuild
               ELSE Reject("drift:final")
Next == Judge \/ Skip \/ LawReject \/ Ack \/ LawOnly \/ MechStart \/ MechStep \/ MechDrift \/ MechDone

Check ==
  /\ rej # "" => PrintT(ToJson([reject |-> i, clause |-> rej]))
  /\ (i > Len(Rows) /\ tst = "idle") => PrintT(ToJson([done |-> Len(Rows), skipped |-> nskip]))
====================================================================================
