---------------------------------- MODULE MC_C12 ----------------------------------
(* Bounded universe for C12 (delete).  Init picks a target (as MC_C11); Choose picks a    *)
(* path in every addressing style whose parent or final element is present or absent at   *)
(* every position, ignore_missing, and the deletion fault (a cell whose __delitem__ /       *)
(* __delattr__ raises, a read-only property, immutable cells are part of the targets).      *)
(*   MC_C12.cfg        NEXT Next      : the machine GlomMutate (FetchParent.. -> Del),        *)
(*                                     laws checked in every intermediate state              *)
(*   MC_C12_cases.cfg  NEXT NextCases : every case run to its end in one step, dumped for     *)
(*                                     the replay into the real library                      *)
EXTENDS GlomMutate

CONSTANTS MaxSpine, LevelClasses, LeafOpts, SideOpts,
          Alpha,          \* "small" | "full": step alphabet for paths of length <= 2
          Alpha3,         \* "none" | "p" | "small": alphabet for paths of length 3
          Stars           \* "no" | "also" | "only": paths with the wildcard '*' among the parent segments; "deep": only '**' paths

VARIABLE exp             \* what the law expects for the case (Ref(case))
vars == <<mvars, exp>>

Leaf(nm) == CASE nm = "none" -> VNone [] nm = "int" -> VInt(7) [] nm = "str" -> VStr("s")
              [] nm = "edict" -> VRef(-1) [] nm = "elist" -> VRef(-2) [] nm = "fset" -> VRef(-3)
Key1(cls) == IF cls = "idict" THEN VInt(0) ELSE VStr("a")
Key2(cls) == IF cls = "idict" THEN VInt(1) ELSE VStr("b")
PyCls(cls) == IF cls = "idict" THEN "dict" ELSE cls
Extra == 4               \* cells n+1: {}, n+2: [], n+3: frozenset({1}), n+4: a sibling of another type
\* side "mixobj" / "mixdict" / "mixlist": the second entry of every level is cell n+4, an attribute
\* object / dict / list holding the same keys ("a", "0", index 0) as the levels do, so that a
\* wildcard over a level matches destinations of different types (different handlers)

MkHeap(levels, leaf, side) ==
  LET n == Len(levels)
      fix(v) == IF IsRef(v) /\ v.a < 0 THEN VRef(n - v.a) ELSE v
      first(i) == IF i < n THEN VRef(i + 1) ELSE fix(leaf)
      second(i) == CASE side = "shared" -> first(i) [] side = "empty" -> VRef(n + 1)
                     [] side \in {"mixobj", "mixdict", "mixlist"} -> VRef(n + 4) [] OTHER -> VNone
      mix == CASE side = "mixdict" -> Cell("dict", << <<VStr("a"), VInt(1)>>, <<VStr("0"), VInt(2)>>, <<VStr("b"), VInt(3)>> >>)
               [] side = "mixlist" -> Cell("list", <<VInt(1), VInt(2)>>)
               [] OTHER -> Cell("obj", << <<VStr("a"), VInt(1)>>, <<VStr("0"), VInt(2)>>, <<VStr("b"), VInt(3)>> >>)
      \* side "twin": the root's second entry is a twin of its first: a parallel spine of cells n+Extra+1..
      \* (levels 2..n, then a twin of a container leaf) EQUAL to the original spine but made of distinct cells
      tw(i) == n + Extra + i - 1
      twinleaf == IF IsRef(leaf) /\ leaf.a \in {-1, -2} THEN VRef(n + Extra + n) ELSE fix(leaf)
      one(c, v) == IF c \in {"list", "tuple"} THEN Cell(c, <<v>>) ELSE Cell(PyCls(c), << <<Key1(c), v>> >>)
      two(c, v, w) == IF c \in {"list", "tuple"} THEN Cell(c, <<v, w>>)
                      ELSE Cell(PyCls(c), << <<Key1(c), v>>, <<Key2(c), w>> >>)
      cell(i) == LET c == levels[i] IN
                 IF side = "twin" THEN (IF i = 1 THEN two(c, first(1), IF n >= 2 THEN VRef(tw(2)) ELSE twinleaf)
                                        ELSE one(c, first(i)))
                 ELSE IF side = "absent" THEN one(c, first(i)) ELSE two(c, first(i), second(i))
      twin(i) == one(levels[i], IF i < n THEN VRef(tw(i + 1)) ELSE twinleaf)       \* i in 2..n
      ntwin == IF side = "twin" /\ n >= 1 THEN n ELSE 0
  IN [i \in 1..(n + Extra + ntwin) |->
        IF i <= n THEN cell(i)
        ELSE IF i = n + 1 THEN Cell("dict", <<>>)
        ELSE IF i = n + 2 THEN Cell("list", <<>>)
        ELSE IF i = n + 3 THEN Cell("frozenset", <<VInt(1)>>)
        ELSE IF i = n + 4 THEN mix
        ELSE IF i < n + Extra + n THEN twin(i - n - Extra + 1)
        ELSE Cell(IF IsRef(leaf) /\ leaf.a = -2 THEN "list" ELSE "dict", <<>>)]
Root(levels, leaf) == LET n == Len(levels) IN
  IF n > 0 THEN VRef(1) ELSE IF IsRef(leaf) THEN VRef(n - leaf.a) ELSE leaf

\* ---- paths -------------------------------------------------------------------------
SmallParent == {Step("P", VStr("a")), Step("P", VStr("x")), Step("P", VStr("0")),
                Step("[", VStr("a")), Step("[", VStr("x")), Step("[", VInt(0)),
                Step(".", VStr("a")), Step(".", VStr("x"))}
SmallFinal == SmallParent \cup {Step("P", VStr("5")), Step("[", VInt(5)), Step("[", VInt(-1)), Step(".", VStr("r")),
                                Step("P", VStr("b")), Step("[", VInt(1))}
FullParent == SmallParent \cup {Step("P", VStr("5")), Step("[", VInt(5)), Step("P", VInt(0)), Step("P", VStr("-1")),
                                Step("[", VInt(1)), Step("P", VStr("b"))}
FullFinal == FullParent \cup SmallFinal \cup {Step("[", VStr("b")), Step(".", VStr("b")), Step("P", VStr("1")),
                                              Step("P", VInt(1)), Step("P", VInt(5)), Step("[", VStr("0"))}
PParent == {Step("P", VStr("a")), Step("P", VStr("x")), Step("P", VStr("0"))}
PFinal == PParent \cup {Step("P", VStr("5"))}

Parent2 == IF Alpha = "small" THEN SmallParent ELSE FullParent
Final2 == IF Alpha = "small" THEN SmallFinal ELSE FullFinal
Parent3 == CASE Alpha3 = "p" -> PParent [] Alpha3 = "small" -> SmallParent [] OTHER -> {}
Final3 == CASE Alpha3 = "p" -> PFinal [] Alpha3 = "small" -> SmallFinal [] OTHER -> {}
Paths2 == {<<f>> : f \in Final2} \cup {<<p, f>> : p \in Parent2, f \in Final2}
Paths3 == {<<p, q, f>> : p \in Parent3, q \in Parent3, f \in Final3}
X == Step("x", VNone)                                   \* the wildcard '*'
XX == Step("X", VNone)                                  \* the wildcard '**'
DeepPaths == {<<XX, f>> : f \in Final2} \cup {<<p, XX, f>> : p \in Parent2, f \in Final2}
             \cup {<<XX, p, f>> : p \in Parent2, f \in Final2}
StarPaths == {<<X, f>> : f \in Final2} \cup {<<X, X, f>> : f \in Final2}
             \cup {<<p, X, f>> : p \in Parent2, f \in Final2} \cup {<<X, p, f>> : p \in Parent2, f \in Final2}
\* boundary indices of the 1- and 2-element lists of the targets (-len-1, -len, len-1, len, len+1) and the
\* falsy key ''
EdgeFinal == {Step("[", VInt(-3)), Step("[", VInt(-2)), Step("[", VInt(2)), Step("[", VInt(3)),
              Step("P", VStr("-2")), Step("P", VStr("2")), Step("P", VStr("1")), Step("[", VStr("")), Step("P", VStr(""))}
EdgeParent == {Step("P", VStr("a")), Step("[", VStr("a")), Step("[", VInt(0))}
EdgePaths == {<<f>> : f \in EdgeFinal} \cup {<<p, f>> : p \in EdgeParent, f \in EdgeFinal}
PathsFor(h) == (IF Stars \in {"only", "deep"} THEN {} ELSE EdgePaths) \cup
               (IF Stars \in {"only", "deep"} THEN {} ELSE IF Len(h) - Extra >= 2 THEN Paths2 \cup Paths3 ELSE Paths2)
               \cup (IF Stars \in {"no", "deep"} THEN {} ELSE StarPaths) \cup (IF Stars = "deep" THEN DeepPaths ELSE {})

\* ---- faults ---------------------------------------------------------------------------
NoFlags(h) == [a \in 1..Len(h) |-> ""]
Applicable(cls) == CASE cls \in {"dict", "list"} -> {"dfault"} [] cls = "obj" -> {"dfault", "prop", "slots"} [] OTHER -> {}
OneFlag(h) == UNION {{[a \in 1..Len(h) |-> IF a = b THEN f ELSE ""] : f \in Applicable(h[b].cls)} : b \in 1..(Len(h) - Extra)}

Blank == [kind |-> "delete", heap0 |-> <<>>, flags |-> <<>>, root |-> VNone, steps |-> <<>>,
          val |-> [k |-> "lit", v |-> VNone, steps |-> <<>>], missing |-> "none", facfail |-> 0, ignore |-> FALSE]

Init ==
  \E n \in 0..MaxSpine : \E levels \in [1..n -> LevelClasses] : \E leaf \in LeafOpts :
   \E side \in (IF n = 0 THEN {"absent"} ELSE SideOpts) :
    /\ case = [Blank EXCEPT !.heap0 = MkHeap(levels, Leaf(leaf), side), !.root = Root(levels, Leaf(leaf))]
    /\ pc = "init" /\ heap = case.heap0 /\ cur = VNone /\ idx = 0 /\ val = VNone /\ stk = <<>> /\ nfac = 0
    /\ log = <<>> /\ out = NoOut /\ queue = <<>> /\ memo = 0 /\ exp = Expect(TRUE, "", FALSE, <<>>, VNone)

ForEachCase(Do(_)) ==
  \E steps \in PathsFor(case.heap0) : \E ig \in BOOLEAN : \E fl \in {NoFlags(case.heap0)} \cup OneFlag(case.heap0) :
    \* (a slotted object has no __dict__, so a wildcard finds no children in it)
    (HasStar(steps) => \A a \in 1..Len(fl) : fl[a] # "slots") /\
    Do([case EXCEPT !.flags = fl, !.steps = steps, !.ignore = ig])

Choose  == pc = "init" /\ ForEachCase(LAMBDA c : Become(Start(c)) /\ exp' = Ref(c))
RunCase == pc = "init" /\ ForEachCase(LAMBDA c : Become(RunToEnd(Start(c))) /\ exp' = Ref(c))

\* one disjunct per machine action (named so that TLC's coverage reports each of them)
A_FetchParent == FetchParent /\ UNCHANGED exp
A_Del         == Del /\ UNCHANGED exp
Next == Choose \/ A_FetchParent \/ A_Del
NextCases == RunCase
====================================================================================
