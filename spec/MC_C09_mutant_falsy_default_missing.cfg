INIT Init
NEXT Next
INVARIANT Fragment
INVARIANT Decides
INVARIANT Result
INVARIANT Unchanged
INVARIANT ErrClass
INVARIANT Default
INVARIANT Again
CHECK_DEADLOCK FALSE
CONSTANTS
  Mutant = "falsy_default_missing"
  TDepth = 1
  PDepth = 1
  Wide = FALSE
