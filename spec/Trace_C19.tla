--------------------------------- MODULE Trace_C19 ---------------------------------
(* code -> spec for C19.  Every row of the ndjson file is one recorded execution of the *)
(* real command line (a `python -m glom` child process, or glom.cli.main in-process) on  *)
(* a configuration TLC did not choose:                                                   *)
(*   cfg    the abstract configuration (GlomCli!Cfg0 shape without r), classified by the  *)
(*          harness from the concrete argv / files / stdin                                *)
(*   lib    what the real library does for every candidate (channel, parse route):        *)
(*          [sel, route, res, mj, mr, me] - res as in cfg.r.res; mj / mr / me: the         *)
(*          observed stdout equals json.dumps(result, indent, sort_keys) / str(result),    *)
(*          resp. names the GlomError class                                                *)
(*   events the audit events caused by the spec text: "compile" / "exec" / "effect"        *)
(*   obs    [exit: "0" | "1" | "usage" | "crash" | "other", outempty: BOOLEAN,              *)
(*           rc: process status "0" | "1" | "other" | "-" (in-process), err: stderr         *)
(*           "empty" | "text"]                                                              *)
(* The machine of GlomCli is stepped through its actions on the recorded configuration    *)
(* (the library outcome is revealed from lib for the channel and route the machine chose)  *)
(* and the recorded execution is judged three times: no Exec / side-effect event outside    *)
(* python-full; the LAWS (evaluated on the configuration alone, independent of the          *)
(* machine); the MECHANISM (exit status, output term, event sequence).  Rejected rows are    *)
(* printed as {"reject": i, "clause": c}: clauses "law:*" are violations of the property,    *)
(* "drift:*" say the mechanism part of the spec no longer describes cli.py.                  *)
EXTENDS GlomCli, Json, IOUtils

Rows == ndJsonDeserialize(IOEnv.TRACE_FILE)
VARIABLE i

RowCfg(row) == [f |-> row.cfg.f, s |-> row.cfg.s, t |-> row.cfg.t, l |-> row.cfg.l,
                r |-> [res |-> "na", dbg |-> row.cfg.r.dbg], p |-> row.cfg.p]
RowM0(k) == M0(RowCfg(Rows[k]), <<"f", "s", "t", "l", "p">>)
NoCand(sl, rt) == [sel |-> sl, route |-> rt, res |-> "na", mj |-> FALSE, mr |-> FALSE, me |-> FALSE]
Cand(row, sl, rt) ==
  LET ix == {j \in 1..Len(row.lib) : row.lib[j].sel = sl /\ row.lib[j].route = rt} IN
  IF ix = {} THEN NoCand(sl, rt) ELSE row.lib[CHOOSE j \in ix : TRUE]

Init == i = 1 /\ m = RowM0(1)

\* the library's outcome for the channel and route the machine has chosen
TraceRevealR == m.pc = "run" /\ ~Known("r")
                /\ Reveal("r", [res |-> Cand(Rows[i], OutSel, m.route).res, dbg |-> Rows[i].cfg.r.dbg])
Stuck == /\ m.pc # "done" /\ ~(m.pc = "run" /\ ~Known("r")) /\ ~ENABLED CliNext
         /\ m' = [m EXCEPT !.pc = "done", !.exit = "stuck"]
Next ==
  \/ m.pc # "done" /\ i' = i /\ (TraceRevealR \/ CliNext \/ Stuck)
  \/ m.pc = "done" /\ i <= Len(Rows) /\ i' = i + 1
     /\ m' = IF i < Len(Rows) THEN RowM0(i + 1) ELSE m

HasEv(row, e) == \E j \in 1..Len(row.events) : row.events[j] = e
OutMatches(o, row) ==
  CASE o.k = "none"   -> row.obs.outempty
    [] o.k = "json"   -> Cand(row, o.sel, o.route).mj
    [] o.k = "raw"    -> Cand(row, o.sel, o.route).mr
    [] o.k = "errmsg" -> Cand(row, o.sel, o.route).me
    [] OTHER          -> TRUE

\* 1. "never executed" outside python-full
ExecVerdict(row) ==
  IF NormS(row.cfg.s.fmt) = "python-full" THEN ""
  ELSE IF HasEv(row, "exec") THEN "law:exec-outside-python-full"
  ELSE IF HasEv(row, "effect") THEN "law:side-effect-outside-python-full"
  ELSE ""
\* 2. the laws, from the configuration alone
LawVerdict(row) ==
  LET c == RowCfg(row)
      open == LawSpec(c) = "unspecified" \/ LawChannel(c) = "unspecified" \/ c.f.argv # "ok"
      e == LawOutcomeR(c, IF open THEN "na" ELSE Cand(row, LawSel(c), LawSpec(c)).res) IN
  CASE e.k = "unspecified" -> ""
    [] e.k = "machinery"   -> "machinery:no-candidate"
    [] e.k = "argv"    -> IF row.obs.exit # "usage" THEN "law:argv-usage-error"
                          ELSE IF ~row.obs.outempty THEN "law:output-despite-bad-argv" ELSE ""
    [] e.k = "usage"   -> IF row.obs.exit # "usage" THEN "law:target-usage-error"
                          ELSE IF ~row.obs.outempty THEN "law:output-despite-bad-target" ELSE ""
    [] e.k = "glomerr" -> IF row.obs.exit # "1" THEN "law:glomerror-exit-status"
                          ELSE IF ~OutMatches(e.out, row) THEN "law:glomerror-message" ELSE ""
    [] e.k = "result"  -> IF row.obs.exit # "0" THEN "law:result-exit-status"
                          ELSE IF ~OutMatches(e.out, row) THEN "law:result-output" ELSE ""
\* 3. the mechanism
MechVerdict(row) ==
  IF m.exit = "stuck" THEN "drift:stuck"
  ELSE IF m.exit # "unspec" /\ m.exit # row.obs.exit THEN "drift:exit"
  ELSE IF ~OutMatches(m.out, row) THEN "drift:output"
  ELSE IF m.evs # row.events THEN "drift:events"
  ELSE IF m.rc # "-" /\ row.obs.rc # "-" /\ m.rc # row.obs.rc THEN "drift:status"
  ELSE IF m.err # "-" /\ m.err # row.obs.err THEN "drift:stderr"
  ELSE ""
Verdict(row) ==
  IF ExecVerdict(row) # "" THEN ExecVerdict(row)
  ELSE IF LawVerdict(row) # "" THEN LawVerdict(row)
  ELSE MechVerdict(row)

Check ==
  IF i > Len(Rows) THEN PrintT(ToJson([done |-> Len(Rows)]))
  ELSE IF m.pc = "done"
       THEN LET v == Verdict(Rows[i]) IN v = "" \/ PrintT(ToJson([reject |-> i, clause |-> v]))
       ELSE TRUE
====================================================================================
