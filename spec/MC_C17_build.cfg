INIT InitBuild
NEXT NextBuild
INVARIANT LawExtends
INVARIANT LawFresh
PROPERTY LawFrame
CHECK_DEADLOCK FALSE
