---------------------------------- MODULE MC_C18 ----------------------------------
(* Bounded universe for C18.                                                          *)
(* kind = "seq":  a path of n distinguishable steps (step j is abstractly the number  *)
(*   j; the harness realises it as a P / attr / item / call / wildcard step by j) and  *)
(*   one sequence operation with every index / slice triple over the in-range and      *)
(*   out-of-range domain; pred = the resulting sequence of steps or IndexError.        *)
(* kind = "expr": a T expression (<= MaxOps recorded operations over literal kinds:   *)
(*   ints, strings with quotes and dots, None, floats, tuples, slices, builtins, and  *)
(*   nested T arguments), rooted at T, S or A; pred = Outcome on each probe target     *)
(*   (T-rooted only), which the reconstructed objects (eval(repr), pickle) must        *)
(*   reproduce.                                                                        *)
EXTENDS GlomRepr

CONSTANTS MaxN, MaxOps

Steps(n) == [j \in 1..n |-> j]
Bnd(n) == {VNone} \cup {VInt(i) : i \in (-(n + 1))..(n + 1)}
StepVals == {VNone, VInt(1), VInt(2), VInt(3), VInt(-1), VInt(-2)}

O(op, arg) == [op |-> op, arg |-> arg]
NoKw == <<>>
TN == TArg(<<O(".", VStr("n"))>>)
ExprAlphabet == {
  O(".", VStr("n")), O(".", VStr("l")), O(".", VStr("echo")), O(".", VStr("__class__")), O(".", VStr("_x")), O(".", VStr("__x")), O(".", VStr("__x_")),
  O("[", Lit(VInt(0))), O("[", Lit(VInt(-1))), O("[", Lit(VInt(1))), O("[", Lit(VFrac(1, 1))), O("[", Lit(VStr("k"))), O("[", Lit(VStr("it's"))), O("[", Lit(VStr("a.b"))),
  O("[", Lit(VStr("q\"d"))), O("[", Lit(VStr("b'\"q"))), O("[", Lit(VStr("s\\'\"t"))), O("[", Lit(VNone)), O("[", Lit(VFrac(1, 2))), O("[", TN),
  O("[", SliceArg(VInt(0), VInt(1), VNone)), O("[", SliceArg(VNone, VNone, VInt(-1))), O("[", SliceArg(VInt(1), VNone, VNone)),
  O("[", SliceArg(VNone, VInt(2), VInt(2))),
  O("[", [a |-> "tuple", items |-> <<>>]), O("[", [a |-> "tuple", items |-> <<Lit(VInt(1))>>]),
  O("[", [a |-> "tuple", items |-> <<Lit(VInt(1)), Lit(VStr("k"))>>]),
  O("[", [a |-> "tuple", items |-> <<SliceArg(VInt(0), VInt(1), VNone), Lit(VInt(2))>>]),
  O("(", [args |-> <<>>, kwargs |-> NoKw]),
  O("(", [args |-> <<Lit(VInt(1)), Lit(VStr("s"))>>, kwargs |-> NoKw]),
  O("(", [args |-> <<TN>>, kwargs |-> << <<"kw", Lit(VNone)>> >>]),
  O("(", [args |-> <<Lit(VFn("len"))>>, kwargs |-> << <<"a", Lit(VFrac(-3, 2))>>, <<"b", TN>> >>]),
  O("(", [args |-> << [a |-> "tuple", items |-> <<Lit(VInt(1)), TN>>], [a |-> "list", items |-> <<Lit(VStr("x"))>>] >>, kwargs |-> NoKw]),
  O("x", VNone), O("X", VNone), O("P", VStr("n")), O("P", VStr("a.b")), O("P", VInt(2)) }
Roots == {"T", "S", "A"}
AOk(o) == o.op \in {".", "[", "P"}          \* operations allowed on an A (assignment) path
\* the fixed probe heap of MC_C02 is re-used for "evaluates identically"
Probe == <<
  Cell("obj", << <<VStr("n"), VInt(3)>>, <<VStr("l"), VRef(2)>>, <<VStr("echo"), VFn("echo")>>, <<VStr("_x"), VStr("s")>> >>),
  Cell("list", <<VInt(1), VInt(2), VRef(3)>>),
  Cell("dict", << <<VStr("k"), VInt(5)>>, <<VStr("a.b"), VRef(1)>>, <<VInt(0), VStr("uv")>>, <<VStr("it's"), VNone>> >>) >>
ProbeTargets == <<VRef(1), VRef(2), VRef(3), VInt(6)>>

VARIABLES kind, n, oper, root, ops, pred
vars == <<kind, n, oper, root, ops, pred>>

SeqPred(nn, op) ==
  CASE op.o = "index"  -> SeqIndex1(Steps(nn), op.i)
    [] op.o = "slice"  -> [ok |-> TRUE, steps |-> SeqSlice(Steps(nn), op.sl)]
    [] op.o = "concat" -> [ok |-> TRUE, steps |-> SeqConcat(Steps(nn), [j \in 1..op.m |-> 10 + j])]
    [] op.o = "startswith" -> [ok |-> SeqStartsWith(Steps(nn), op.q), steps |-> <<>>]
    [] op.o = "len" -> [ok |-> TRUE, steps |-> Steps(nn)]

Init ==
  /\ kind = "init" /\ n = 0 /\ oper = [o |-> "none"] /\ root = "T" /\ ops = <<>> /\ pred = [ok |-> TRUE]
PickSeq ==
  /\ kind = "init" /\ kind' = "seq" /\ UNCHANGED <<root, ops>>
  /\ n' \in 0..MaxN
  /\ \/ \E i \in (-(n' + 2))..(n' + 2) : oper' = [o |-> "index", i |-> i]
     \/ \E lo \in Bnd(n'), hi \in Bnd(n'), st \in StepVals : oper' = [o |-> "slice", sl |-> VSlice(lo, hi, st)]
     \/ \E m \in 0..2 : oper' = [o |-> "concat", m |-> m]
     \/ \E m \in 0..(n' + 1) : \E alt \in BOOLEAN :
          oper' = [o |-> "startswith",
                   q |-> [j \in 1..m |-> IF alt /\ j = m THEN 99 ELSE j]]
     \/ oper' = [o |-> "len"]
  /\ pred' = SeqPred(n', oper')
\* grow an expression one operation at a time (all prefixes are states)
ExprPred(r, os) ==
  IF r = "T" THEN [j \in 1..Len(ProbeTargets) |-> Outcome(Probe, ProbeTargets[j], os)] ELSE <<>>
PickRoot ==
  /\ kind = "init" /\ kind' = "expr" /\ root' \in Roots /\ ops' = <<>> /\ UNCHANGED <<n, oper>>
  /\ pred' = [ok |-> TRUE, outs |-> ExprPred(root', <<>>)]
Extend ==
  /\ kind = "expr" /\ Len(ops) < MaxOps /\ UNCHANGED <<kind, n, oper, root>>
  /\ \E o \in ExprAlphabet : (root = "A" => AOk(o)) /\ ops' = Append(ops, o)
  /\ pred' = [ok |-> TRUE, outs |-> ExprPred(root, ops')]
Next == PickSeq \/ PickRoot \/ Extend

\* ---- laws on the model ------------------------------------------------------------------
\* slicing and indexing compose like on tuples: p[i] = p[i:i+1] for in-range i >= 0;
\* p[:] = p; reversing twice is the identity; len(p[lo:hi]) <= len(p)
SeqLaws ==
  kind = "seq" =>
    /\ (oper.o = "index" /\ pred.ok /\ oper.i >= 0 =>
          pred.steps = SeqSlice(Steps(n), VSlice(VInt(oper.i), VInt(oper.i + 1), VNone)))
    /\ (oper.o = "index" => (pred.ok <=> oper.i \in (-n)..(n - 1)))
    /\ (oper.o = "slice" => /\ Len(pred.steps) <= n
                            /\ \A j \in 1..Len(pred.steps) : pred.steps[j] \in 1..n
                            /\ (oper.sl.st.k = "none" \/ (oper.sl.st.k = "int" /\ oper.sl.st.i > 0) =>
                                  \A j \in 1..(Len(pred.steps) - 1) : pred.steps[j] < pred.steps[j + 1])
                            /\ (oper.sl.st.k = "int" /\ oper.sl.st.i < 0 =>
                                  \A j \in 1..(Len(pred.steps) - 1) : pred.steps[j] > pred.steps[j + 1]))
    /\ (oper.o = "slice" /\ oper.sl = VSlice(VNone, VNone, VNone) => pred.steps = Steps(n))
    /\ (oper.o = "slice" /\ oper.sl = VSlice(VNone, VNone, VInt(-1)) =>
          SeqSlice(pred.steps, VSlice(VNone, VNone, VInt(-1))) = Steps(n))
    /\ (oper.o = "concat" => SeqStartsWith(pred.steps, Steps(n)) /\ Len(pred.steps) = n + oper.m)
====================================================================================
