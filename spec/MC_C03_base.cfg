INIT Init
NEXT Next
INVARIANT Laws
INVARIANT Once
CHECK_DEADLOCK FALSE
