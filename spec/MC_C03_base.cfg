INIT Init
NEXT Next
INVARIANT Laws
INVARIANT Once
INVARIANT TopLaw
CHECK_DEADLOCK FALSE
