INIT Init
NEXT Next
INVARIANT OneLevelPerWildcard
INVARIANT MissesTolerated
INVARIANT ExpandedOnce
INVARIANT Purity
CHECK_DEADLOCK FALSE
