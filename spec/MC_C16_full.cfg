INIT Init
NEXT Next
INVARIANT LawRefGroup
INVARIANT LawEvalsDisjoint
INVARIANT LawFreshAtNew
CHECK_DEADLOCK FALSE
