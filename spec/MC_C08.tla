---------------------------------- MODULE MC_C08 ----------------------------------
(* Bounded universe for C08 (a): every nesting of the mode wrappers {Auto, Fill, Match}  *)
(* up to depth MaxDepth placed at every step position of tuples, Pipes, dict values,      *)
(* Coalesce branches and Switch cases / match-dict entries, with mode probes before,      *)
(* after and inside.  Phase 0 picks the tree (by constructor choice), phase 1 runs the    *)
(* call (all leaves succeed) and then replays its actions one by one so that the frame     *)
(* table invariants are evaluated in every intermediate state.                             *)
EXTENDS GlomFrames

CONSTANTS MaxDepth,     \* depth of the trees
          SecondDepth,  \* depth bound of the second child at the top level (thins depth-3 universes)
          Replay        \* TRUE: replay the actions one by one (intermediate-state invariants)

P == N("probe", "", <<>>)
Wrap(m, t) == N(m, "", <<t>>)
Modes == {"auto", "fill", "match", "group"}
ST == N("stop", "", <<>>)
SQ == N("starq", "", <<>>)
CL == N("call", "", <<>>)      \* a plain callable: called in AUTO / FILL positions, a literal only for the argument interpreter
LazyIn(m, a) == N("pipe", "", <<N(m, "", <<N("iter", "", <<a>>)>>), N("consume", "", <<>>)>>)

\* trees by constructor choice; W(d): a "wrapped thing" of depth <= d
RECURSIVE Trees(_)
Trees(d) ==
  IF d = 0 THEN {P}
  ELSE LET S == Trees(d - 1) IN
       {P}
       \cup {Wrap(m, t) : m \in Modes, t \in S} \cup {Wrap("group", ST)}
       \cup {N(k, "", <<a, b>>) : k \in {"tup", "pipe"}, a \in S, b \in S}
       \cup {N("dict", "", <<a, b>>) : a \in S, b \in S}
       \cup {N("coal", "", <<a>>) : a \in S}
       \cup {N("switch", "", <<a, b>>) : a \in S, b \in S}
       \cup {N("mdict", "", <<a, b>>) : a \in S, b \in S}

\* raw containers under MATCH are patterns against the target and mdict needs MATCH:
\* keep only trees that are meaningful (a static condition on the tree)
RECURSIVE NoDict(_)
NoDict(t) == t.k \notin {"dict", "mdict"} /\ \A i \in 1..Len(t.c) : NoDict(t.c[i])
RECURSIVE NoGroup(_)
NoGroup(t) == t.k # "group" /\ \A i \in 1..Len(t.c) : NoGroup(t.c[i])
RECURSIVE WellModed(_, _)
WellModed(t, mode) ==
  /\ (t.k \in {"tup", "dict"} => mode \notin {"MATCH", "GROUP"})   \* there they are patterns / accumulators
  /\ (t.k = "mdict" => mode = "MATCH" /\ NoDict(t.c[1]) /\ NoGroup(t.c[1]))   \* key result hashable, key target a string
  /\ (t.k = "stop" => FALSE)
  /\ (t.k = "call" => mode \in {"AUTO", "FILL"})         \* (a predicate under Match, an aggregator under Group)
  /\ (t.k = "consume" => mode \in {"AUTO", "FILL"})      \* `list` is a callable there (a type pattern under Match)
  /\ \A i \in 1..Len(t.c) :
        \/ (t.k = "group" /\ t.c[i].k = "stop")          \* STOP directly under Group ends its iteration
        \/ WellModed(t.c[i], IF t.k \in Modes THEN ModeOf(t.k) ELSE mode)

VARIABLES tree, run, k, table, phase
vars == <<tree, run, k, table, phase>>

\* the smaller trees are materialised as a set (cheap); the top level is chosen by constructor
Top == Trees(MaxDepth - 1)
Init == /\ phase = 0 /\ k = 0 /\ table = <<>> /\ run = [log |-> <<>>, acts |-> <<>>, out |-> "none", law |-> <<>>]
        /\ tree = P
Pick ==
  /\ phase = 0 /\ phase' = 1 /\ k' = 0
  /\ \/ \E t \in Top : tree' = t
     \/ \E m \in Modes, t \in Top : tree' = Wrap(m, t)
     \/ \E kk \in {"tup", "pipe", "dict", "switch", "mdict"}, a \in Top, b \in Trees(SecondDepth) :
           tree' = N(kk, "", <<a, b>>) \/ tree' = N(kk, "", <<b, a>>)
     \/ \E a \in Top : tree' = N("coal", "", <<a>>)
     \* lazily evaluated sub-specs: a wrapped Iter(..) whose generator is consumed by a LATER chain step, i.e.
     \* after the chain has moved on from the wrapper's frame: the sub-spec still runs in the wrapper's mode
     \/ \E m \in Modes \ {"group"}, m2 \in Modes \ {"group"}, a \in Trees(SecondDepth) :
          \/ tree' = LazyIn(m, a)
          \/ tree' = Wrap(m2, LazyIn(m, a))
          \/ tree' = N("pipe", "", <<LazyIn(m, a), P>>)
     \* a chain step whose argument spec fails for every element below a wildcard (the failures are misses):
     \* the argument interpreter is over when the step is, whatever happened inside
     \/ \E a \in Trees(SecondDepth), m \in Modes :
          \/ tree' = N("pipe", "", <<SQ, a>>) \/ tree' = N("pipe", "", <<P, SQ, a>>)
          \/ tree' = Wrap(m, N("pipe", "", <<SQ, a>>)) \/ tree' = N("tup", "", <<SQ, a>>)
     \* plain callables and plain containers holding them, standing directly as the step after a wrapper / after
     \* the wildcard step whose argument spec failed: they are interpreted in the mode of the position (called),
     \* not by whatever interpreter the previous step used last
     \/ \E a \in Top, kk \in {"pipe", "tup"} :
          \/ tree' = N(kk, "", <<a, CL>>) \/ tree' = N(kk, "", <<a, N("dict", "", <<CL, P>>)>>)
          \/ tree' = N("dict", "", <<CL, a>>)
     \/ \E m \in {"auto", "fill"}, kk \in {"pipe", "tup"}, b \in {CL, N("dict", "", <<CL, P>>), N("dict", "", <<P, CL>>), N("tup", "", <<CL, P>>)} :
          \/ tree' = N(kk, "", <<SQ, b>>) \/ tree' = N(kk, "", <<CL, SQ, b>>) \/ tree' = N(kk, "", <<SQ, P, b>>)
          \/ tree' = Wrap(m, N("pipe", "", <<SQ, b>>)) \/ tree' = N("pipe", "", <<Wrap(m, SQ), b>>)
          \/ tree' = N("pipe", "", <<P, N(kk, "", <<SQ, b>>)>>)
          \/ tree' = N("switch", "", <<SQ, b>>) \/ tree' = N("pipe", "", <<SQ, N("coal", "", <<b>>)>>)
  /\ WellModed(tree', "AUTO")
  /\ LET r == Start(tree', <<>>, <<>>) IN
       run' = [log |-> r.st.log, acts |-> r.st.acts, out |-> r.out,
               law |-> [i \in 1..Len(r.st.log) |-> LexMode(tree', r.st.log[i].p, "AUTO")]]
  /\ table' = <<RootFrame(<<0>>, <<>>)>>
\* replay of the recorded actions on a frame table (the state effect of each action)
ApplyAct(tb, a) ==
  CASE a.a = "enter" -> [Append(tb, Frame(a.par, a.path, a.mode, a.minmode, a.tgt)) EXCEPT ![a.par].last = a.f]
    [] a.a = "setmode" -> [tb EXCEPT ![a.f].mode = a.m]
    [] a.a = "argmode" -> [tb EXCEPT ![a.f].minmode = a.on]
    [] a.a = "bind" -> [tb EXCEPT ![a.f].binds = Append(@, <<a.name, a.val>>)]
    [] a.a = "chain" -> [tb EXCEPT ![a.to].nopy = TRUE, ![a.to].cerrs = <<>>,
                                   ![a.to].mode = IF Mutant = "modeleak" THEN @ ELSE tb[a.from].mode,
                                   ![a.to].minmode = IF Mutant = "modeleak" THEN @ ELSE tb[a.from].minmode]
    [] OTHER -> tb
StepAct ==
  /\ Replay /\ phase = 1 /\ k < Len(run.acts) /\ k' = k + 1
  /\ table' = ApplyAct(table, run.acts[k + 1])
  /\ UNCHANGED <<tree, run, phase>>
Next == Pick \/ StepAct

\* ---- laws -----------------------------------------------------------------------------------
\* C08: every frame is entered in the mode lexically in force at its node
ModeLaw == phase = 1 => ModeLexical(tree, run.acts)
\* and what the probes report is the lexical mode
ProbeLaw == phase = 1 => \A i \in 1..Len(run.log) : run.log[i].v = LexMode(tree, run.log[i].p, "AUTO")
\* in every intermediate state: a frame that is still on the Python stack (not chained
\* from) keeps the mode its own node dictates: wrapper frames carry their wrapper's mode,
\* all others the lexical mode
FrameModes ==
  phase = 1 => \A f \in 2..Len(table) :
     LET nd == IF \E j \in 1..Len(table[f].path) : table[f].path[j] = 0 THEN P ELSE NodeAt(tree, table[f].path) IN
     ~table[f].nopy =>
        \/ table[f].mode = LexMode(tree, table[f].path, "AUTO")
        \/ nd.k \in Modes /\ table[f].mode = ModeOf(nd.k)
\* argument mode is never left switched on once the call has finished
ArgModeRestored == (Replay /\ phase = 1 /\ k = Len(run.acts)) => \A f \in 1..Len(table) : ~table[f].minmode
====================================================================================
