---------------------------------- MODULE MC_C11 ----------------------------------
(* Bounded universe for C11 (assign).  Init picks a target (spine of container levels  *)
(* of every class with shared / empty side entries and scalar, empty-container or        *)
(* immutable leaves); Choose picks the rest of the case: a destination path whose prefix *)
(* exists or stops existing at every segment in every addressing style, the value         *)
(* (literal / Spec / T / the target itself), missing= (none / dict / list / object         *)
(* factory, raising on its k-th call) and the fault flags.                                *)
(*   MC_C11.cfg        NEXT Next      : the machine GlomMutate, one action per step, laws   *)
(*                                     checked in every intermediate state                 *)
(*   MC_C11_cases.cfg  NEXT NextCases : every case run to its end in one step; the dumped    *)
(*                                     states (case, exp, out, heap, log) are replayed into  *)
(*                                     the real library                                     *)
(* With Reuse = TRUE the spec object of a finished case is evaluated once more on every     *)
(* other target of the universe (Again / RunAgain): the second evaluation must obey the same  *)
(* law as if the spec were fresh -- the prefix may stop existing at a different segment.      *)
(* by hand: tlc -config MC_C11.cfg MC_C11.tla needs the CONSTANTS of harness/c11.py TIERS.   *)
EXTENDS GlomMutate

CONSTANTS MaxSpine,       \* nested container levels (0 = scalar / leaf root)
          LevelClasses,   \* subset of {"dict", "idict", "list", "tuple", "obj"}
          LeafOpts,       \* subset of {"none", "int", "str", "edict", "elist", "fset"}
          SideOpts,       \* subset of {"absent", "none", "shared", "empty", "mixobj", "mixdict", "mixlist"}
          Alpha,          \* "tiny" | "small" | "full": step alphabet for paths of length <= 2
          Alpha3,         \* "none" | "p" | "small": alphabet for paths of length 3
          Reuse,          \* BOOLEAN: the same Assign spec object is evaluated a second time, on another target
          Profiles        \* subset of {"plain", "vals", "miss", "missval", "missflag", "star", "dstar", "starmiss", "reuse", "litval", "edge", "falsyval"}

VARIABLES exp,           \* what the law expects for the case (Ref(case))
          round,         \* 1: first evaluation of the spec object, 2: second evaluation (Reuse)
          prev          \* history for the replay: case / expectation of the first evaluation
vars == <<mvars, exp, round, prev>>

Leaf(nm) == CASE nm = "none" -> VNone [] nm = "int" -> VInt(7) [] nm = "str" -> VStr("s")
              [] nm = "edict" -> VRef(-1) [] nm = "elist" -> VRef(-2) [] nm = "fset" -> VRef(-3)
Key1(cls) == IF cls = "idict" THEN VInt(0) ELSE VStr("a")
Key2(cls) == IF cls = "idict" THEN VInt(1) ELSE VStr("b")
PyCls(cls) == IF cls = "idict" THEN "dict" ELSE cls
Extra == 4               \* cells n+1: {}, n+2: [], n+3: frozenset({1}), n+4: a sibling of another type
\* side "mixobj" / "mixdict" / "mixlist": the second entry of every level is cell n+4, an attribute
\* object / dict / list holding the same keys ("a", "0", index 0) as the levels do, so that a
\* wildcard over a level matches destinations of different types (different handlers)

MkHeap(levels, leaf, side) ==
  LET n == Len(levels)
      fix(v) == IF IsRef(v) /\ v.a < 0 THEN VRef(n - v.a) ELSE v
      first(i) == IF i < n THEN VRef(i + 1) ELSE fix(leaf)
      second(i) == CASE side = "shared" -> first(i) [] side = "empty" -> VRef(n + 1)
                     [] side \in {"mixobj", "mixdict", "mixlist"} -> VRef(n + 4) [] OTHER -> VNone
      mix == CASE side = "mixdict" -> Cell("dict", << <<VStr("a"), VInt(1)>>, <<VStr("0"), VInt(2)>>, <<VStr("b"), VInt(3)>> >>)
               [] side = "mixlist" -> Cell("list", <<VInt(1), VInt(2)>>)
               [] OTHER -> Cell("obj", << <<VStr("a"), VInt(1)>>, <<VStr("0"), VInt(2)>>, <<VStr("b"), VInt(3)>> >>)
      \* side "twin": the root's second entry is a twin of its first: a parallel spine of cells n+Extra+1..
      \* (levels 2..n, then a twin of a container leaf) EQUAL to the original spine but made of distinct cells
      tw(i) == n + Extra + i - 1
      twinleaf == IF IsRef(leaf) /\ leaf.a \in {-1, -2} THEN VRef(n + Extra + n) ELSE fix(leaf)
      one(c, v) == IF c \in {"list", "tuple"} THEN Cell(c, <<v>>) ELSE Cell(PyCls(c), << <<Key1(c), v>> >>)
      two(c, v, w) == IF c \in {"list", "tuple"} THEN Cell(c, <<v, w>>)
                      ELSE Cell(PyCls(c), << <<Key1(c), v>>, <<Key2(c), w>> >>)
      cell(i) == LET c == levels[i] IN
                 IF side = "twin" THEN (IF i = 1 THEN two(c, first(1), IF n >= 2 THEN VRef(tw(2)) ELSE twinleaf)
                                        ELSE one(c, first(i)))
                 ELSE IF side = "absent" THEN one(c, first(i)) ELSE two(c, first(i), second(i))
      twin(i) == one(levels[i], IF i < n THEN VRef(tw(i + 1)) ELSE twinleaf)       \* i in 2..n
      ntwin == IF side = "twin" /\ n >= 1 THEN n ELSE 0
  IN [i \in 1..(n + Extra + ntwin) |->
        IF i <= n THEN cell(i)
        ELSE IF i = n + 1 THEN Cell("dict", <<>>)
        ELSE IF i = n + 2 THEN Cell("list", <<>>)
        ELSE IF i = n + 3 THEN Cell("frozenset", <<VInt(1)>>)
        ELSE IF i = n + 4 THEN mix
        ELSE IF i < n + Extra + n THEN twin(i - n - Extra + 1)
        ELSE Cell(IF IsRef(leaf) /\ leaf.a = -2 THEN "list" ELSE "dict", <<>>)]
Root(levels, leaf) == LET n == Len(levels) IN
  IF n > 0 THEN VRef(1) ELSE IF IsRef(leaf) THEN VRef(n - leaf.a) ELSE leaf

\* ---- paths -------------------------------------------------------------------------
SmallParent == {Step("P", VStr("a")), Step("P", VStr("x")), Step("P", VStr("0")),
                Step("[", VStr("a")), Step("[", VStr("x")), Step("[", VInt(0)),
                Step(".", VStr("a")), Step(".", VStr("x"))}
SmallFinal == SmallParent \cup {Step("P", VStr("5")), Step("[", VInt(5)), Step("[", VInt(-1)), Step(".", VStr("r"))}
FullParent == SmallParent \cup {Step("P", VStr("5")), Step("[", VInt(5)), Step("P", VInt(0)), Step("P", VStr("-1")),
                                Step("[", VInt(1)), Step("P", VStr("b"))}
TinyParent == {Step("P", VStr("a")), Step("P", VStr("x")), Step("[", VStr("a"))}
TinyFinal == TinyParent \cup {Step(".", VStr("a"))}
\* boundary indices of the 1- and 2-element lists of the targets (-len-1, -len, len-1, len, len+1) and the
\* falsy key ''
EdgeFinal == {Step("[", VInt(-3)), Step("[", VInt(-2)), Step("[", VInt(1)), Step("[", VInt(2)), Step("[", VInt(3)),
              Step("P", VStr("-2")), Step("P", VStr("2")), Step("P", VStr("1")), Step("[", VStr("")), Step("P", VStr(""))}
EdgePaths == {<<f>> : f \in EdgeFinal} \cup {<<p, f>> : p \in TinyParent, f \in EdgeFinal}
TinyPaths2 == {<<f>> : f \in TinyFinal} \cup {<<p, f>> : p \in TinyParent, f \in TinyFinal}
FullFinal == FullParent \cup SmallFinal \cup EdgeFinal \cup {Step("[", VStr("b")), Step(".", VStr("b"))}
PParent == {Step("P", VStr("a")), Step("P", VStr("x")), Step("P", VStr("0"))}
PFinal == PParent \cup {Step("P", VStr("5"))}

Parent2 == CASE Alpha = "tiny" -> TinyParent [] Alpha = "small" -> SmallParent [] OTHER -> FullParent
Final2 == CASE Alpha = "tiny" -> TinyFinal [] Alpha = "small" -> SmallFinal [] OTHER -> FullFinal
Parent3 == CASE Alpha3 = "p" -> PParent [] Alpha3 = "small" -> SmallParent [] OTHER -> {}
Final3 == CASE Alpha3 = "p" -> PFinal [] Alpha3 = "small" -> SmallFinal [] OTHER -> {}

Paths2 == {<<f>> : f \in Final2} \cup {<<p, f>> : p \in Parent2, f \in Final2}
Paths3 == {<<p, q, f>> : p \in Parent3, q \in Parent3, f \in Final3}
X == Step("x", VNone)                                   \* the wildcard '*'
XX == Step("X", VNone)                                  \* the wildcard '**'
DeepPaths == {<<XX, f>> : f \in Final2} \cup {<<p, XX, f>> : p \in Parent2, f \in Final2}
             \cup {<<XX, p, f>> : p \in Parent2, f \in Final2}
StarPaths == {<<X, f>> : f \in Final2} \cup {<<X, X, f>> : f \in Final2}
             \cup {<<p, X, f>> : p \in Parent2, f \in Final2} \cup {<<X, p, f>> : p \in Parent2, f \in Final2}
\* three-segment paths (two absent segments, two factory calls) for the profiles with missing=;
\* for the others only when the target is deep enough to have a parent at depth 2
\* a wildcard AFTER a segment that may be absent, with missing=: the absent segments up to the wildcard
\* are created, the wildcard then ranges over a new empty container
W == {X, XX}
StarMissPaths == {<<p, w, f>> : p \in Parent2, w \in W, f \in TinyFinal}
                 \cup {<<p, q, w, f>> : p \in TinyParent, q \in TinyParent, w \in W, f \in TinyFinal}
PathsFor(prof, h) == IF prof = "edge" THEN EdgePaths ELSE IF prof = "falsyval" THEN TinyPaths2
                     ELSE IF prof = "star" THEN StarPaths ELSE IF prof = "dstar" THEN DeepPaths
                     ELSE IF prof = "starmiss" THEN StarMissPaths ELSE IF prof \in {"miss", "missval", "missflag", "reuse", "litval"} \/ Len(h) - Extra >= 2 THEN Paths2 \cup Paths3 ELSE Paths2

\* ---- values, missing, faults ---------------------------------------------------------
Lit(v) == [k |-> "lit", v |-> v, steps |-> <<>>]
VSpec(steps) == [k |-> "spec", v |-> VNone, steps |-> steps]
VT(steps) == [k |-> "t", v |-> VNone, steps |-> steps]
OtherVals == {VT(<<>>), VSpec(<<Step("P", VStr("a"))>>), VSpec(<<Step("P", VStr("0"))>>),
              VT(<<Step("[", VStr("b"))>>)}
\* literal container values (rebuilt by argument mode): own cells, vref = reference between them
VRf(a) == [k |-> "vref", a |-> a]
TLeaf == [k |-> "t", steps |-> <<>>]                        \* a T inside the literal: the target
LitC(a, cells) == [k |-> "lit", v |-> VRf(a), steps |-> <<>>, cells |-> cells]
LitVals ==
  { LitC(1, << Cell("list", <<VInt(1), VRf(1)>>) >>),                                   \* val = [1, val]
    LitC(1, << Cell("list", <<VRf(2)>>), Cell("dict", << <<VStr("back"), VRf(1)>> >>) >>),   \* list -> dict -> list
    LitC(2, << Cell("list", <<VRf(2)>>), Cell("dict", << <<VStr("back"), VRf(1)>> >>) >>),   \* same, entered at the dict
    LitC(1, << Cell("list", <<VRf(2), VRf(2)>>), Cell("list", <<VInt(0), VInt(0)>>) >>),     \* [row, row]
    LitC(1, << Cell("dict", << <<VStr("p"), VRf(2)>>, <<VStr("q"), VRf(2)>>, <<VStr("t"), TLeaf>> >>),
               Cell("dict", << <<VStr("k"), VInt(1)>> >>) >>),                               \* aliased dict + T leaf
    LitC(1, << Cell("dict", << <<VStr("me"), VRf(1)>>, <<VStr("l"), VRf(2)>> >>), Cell("list", <<VRf(2), VRf(1)>>) >>) }
\* falsy values are ordinary values: 0, '', False, None, and the empty literals [] and {}
FalsyVals == {Lit(VInt(0)), Lit(VStr("")), Lit(VBool(FALSE)), Lit(VNone),
              LitC(1, << Cell("list", <<>>) >>), LitC(1, << Cell("dict", <<>>) >>)}
Miss(m, f) == [m |-> m, f |-> f]
NoMiss == {Miss("none", 0)}
Factories == {Miss("dict", f) : f \in 0..2} \cup {Miss("obj", f) : f \in 0..1} \cup {Miss("list", 0)}
             \cup {Miss("sdict", 0)}                 \* a factory handing out one shared dict

NoFlags(h) == [a \in 1..Len(h) |-> ""]
Applicable(cls) == CASE cls \in {"dict", "list"} -> {"wfault"} [] cls = "obj" -> {"wfault", "prop", "slots"} [] OTHER -> {}
\* (a slotted object has no __dict__, so a wildcard finds no children in it: no "slots" flag on wildcard paths)
NoSlots(F) == {fl \in F : \A a \in 1..Len(fl) : fl[a] # "slots"}
OneFlag(h) == UNION {{[a \in 1..Len(h) |-> IF a = b THEN f ELSE ""] : f \in Applicable(h[b].cls)} : b \in 1..(Len(h) - Extra)}

ValsFor(prof) == CASE prof = "vals" -> OtherVals
                   [] prof = "missval" -> {VT(<<>>), VSpec(<<Step("P", VStr("a"))>>), VT(<<Step("[", VStr("b"))>>)}
                   [] prof = "litval" -> LitVals
                   [] prof = "falsyval" -> FalsyVals
                   [] OTHER -> {Lit(VInt(9))}
MissFor(prof) == CASE prof \in {"plain", "vals", "star", "dstar"} -> NoMiss
                   [] prof = "starmiss" -> {Miss("dict", 0), Miss("dict", 1), Miss("obj", 0), Miss("list", 0)} [] prof = "miss" -> Factories
                   [] prof = "reuse" -> {Miss("dict", 0), Miss("obj", 0)}
                   [] prof \in {"litval", "falsyval", "edge"} -> {Miss("none", 0), Miss("dict", 0)}
                   [] OTHER -> {Miss("dict", 0)}
FlagsFor(prof, h) == CASE prof = "plain" -> {NoFlags(h)} \cup OneFlag(h) [] prof = "missflag" -> OneFlag(h)
                       [] prof \in {"star", "dstar"} -> {NoFlags(h)} \cup NoSlots(OneFlag(h))
                       [] OTHER -> {NoFlags(h)}

Blank == [kind |-> "assign", heap0 |-> <<>>, flags |-> <<>>, root |-> VNone, steps |-> <<>>, val |-> Lit(VNone),
          missing |-> "none", facfail |-> 0, ignore |-> FALSE]

Init ==
  \E n \in 0..MaxSpine : \E levels \in [1..n -> LevelClasses] : \E leaf \in LeafOpts :
   \E side \in (IF n = 0 THEN {"absent"} ELSE SideOpts) :
    /\ case = [Blank EXCEPT !.heap0 = MkHeap(levels, Leaf(leaf), side), !.root = Root(levels, Leaf(leaf))]
    /\ pc = "init" /\ heap = case.heap0 /\ cur = VNone /\ idx = 0 /\ val = VNone /\ stk = <<>> /\ nfac = 0
    /\ log = <<>> /\ out = NoOut /\ queue = <<>> /\ memo = 0 /\ exp = Expect(TRUE, "", FALSE, <<>>, VNone)
    /\ round = 1 /\ prev = [case |-> Blank, exp |-> Expect(TRUE, "", FALSE, <<>>, VNone)]

ForEachCase(Do(_)) ==
  \E prof \in Profiles : \E steps \in PathsFor(prof, case.heap0) : \E vs \in ValsFor(prof) : \E mk \in MissFor(prof) :
    \E fl \in FlagsFor(prof, case.heap0) :
      Do([case EXCEPT !.flags = fl, !.steps = steps, !.val = vs, !.missing = mk.m, !.facfail = mk.f])

Choose  == pc = "init" /\ ForEachCase(LAMBDA c : Become(Start(c)) /\ exp' = Ref(c)) /\ UNCHANGED <<round, prev>>
RunCase == pc = "init" /\ ForEachCase(LAMBDA c : Become(RunToEnd(Start(c))) /\ exp' = Ref(c)) /\ UNCHANGED <<round, prev>>

\* the same spec object (steps, val, missing: everything but the target) on a second target
ForEachSecond(Do(_)) ==
  \E n \in 0..MaxSpine : \E levels \in [1..n -> LevelClasses] : \E leaf \in LeafOpts :
   \E side \in (IF n = 0 THEN {"absent"} ELSE SideOpts) :
     LET h == MkHeap(levels, Leaf(leaf), side) IN
     Do([case EXCEPT !.heap0 = h, !.root = Root(levels, Leaf(leaf)), !.flags = NoFlags(h)])
Second(c) == exp' = Ref(c) /\ round' = 2 /\ prev' = [case |-> case, exp |-> exp]
Again    == Reuse /\ pc = "done" /\ round = 1 /\ ForEachSecond(LAMBDA c : Become(StartAgain(c, memo)) /\ Second(c))
RunAgain == Reuse /\ pc = "done" /\ round = 1 /\ ForEachSecond(LAMBDA c : Become(RunToEnd(StartAgain(c, memo))) /\ Second(c))

\* one disjunct per machine action (named so that TLC's coverage reports each of them)
A_EvalVal     == EvalVal /\ UNCHANGED <<exp, round, prev>>
A_FetchParent == FetchParent /\ UNCHANGED <<exp, round, prev>>
A_FactoryCall == FactoryCall /\ UNCHANGED <<exp, round, prev>>
A_BuildTail   == BuildTail /\ UNCHANGED <<exp, round, prev>>
A_Store       == Store /\ UNCHANGED <<exp, round, prev>>
NextOnce == Choose \/ A_EvalVal \/ A_FetchParent \/ A_FactoryCall \/ A_BuildTail \/ A_Store
Next == NextOnce \/ Again        \* (MC_C11_cov.cfg uses NextOnce: TLC -coverage runs out of memory on Again)
NextCases == RunCase \/ RunAgain
====================================================================================
