INIT Init
NEXT Next
CONSTRAINT Check
CHECK_DEADLOCK FALSE
