INIT Init
NEXT NextOnce
INVARIANT NoEarlyWrite
INVARIANT AttachLast
INVARIANT FactoryLaw
INVARIANT Outcome
INVARIANT ExecRegistryOnly
INVARIANT SpecCarriesNothing
INVARIANT NeverReplaced
INVARIANT ReadBack
CHECK_DEADLOCK FALSE
