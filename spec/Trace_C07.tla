--------------------------------- MODULE Trace_C07 ---------------------------------
(* code -> spec for C07: rows {tree, caller, log, gbinds} recorded from real runs of random  *)
(* deeper trees.  Law level: every S.x reader logged what the static visibility rule says;   *)
(* every S.globals reader the latest A.globals assignment executed before it.  Mechanism      *)
(* level ("drift..."): the log equals the log of GlomFrames!Start on the same tree.            *)
EXTENDS GlomFrames, Json, IOUtils

Rows == ndJsonDeserialize(IOEnv.TRACE_FILE)
VARIABLE i
Init == i = 1
Next == i <= Len(Rows) /\ i' = i + 1

\* containers built during the call are abstracted to <<"t", -1>> on the observed side
SameVal(mv, ov) == IF Head(mv) = "t" /\ Len(mv) > 1 /\ mv[2] < 0 /\ mv[2] # -3
                   THEN Head(ov) = "t" /\ Len(ov) > 1 /\ ov[2] = -1
                   ELSE Len(mv) = Len(ov) /\ Head(mv) = Head(ov) /\ Tail(mv) = Tail(ov)
Verdict(r) ==
  LET m == Start(r.tree, <<>>, IF r.caller THEN << <<"x", <<"c">> >> >> ELSE <<>>)
      mlog == SelectSeq(m.st.log, LAMBDA e : e.what # "refuse")
      Kind(j) == NodeAt(r.tree, r.log[j].p).k
      Name(j) == NodeAt(r.tree, r.log[j].p).a IN
  IF \E j \in 1..Len(r.log) : Kind(j) = "read" /\ ~ReadAgrees(r.tree, r.log[j], Name(j), r.caller /\ Name(j) = "x") THEN "visibility"
  ELSE IF Len(r.log) # Len(mlog) THEN "readers-run"
  ELSE IF \E j \in 1..Len(r.log) : r.log[j].p # mlog[j].p THEN "specs-run"
  ELSE IF \E j \in 1..Len(r.log) : Kind(j) = "gread"
        /\ ~GlobalAgrees(m.st.acts, [mlog[j] EXCEPT !.v = r.log[j].v], Name(j)) /\ ~SameVal(mlog[j].v, r.log[j].v) THEN "globals"
  ELSE IF \E j \in 1..Len(r.log) : Kind(j) = "vread"
        /\ ~VarsAgrees(r.tree, m.st.acts, [mlog[j] EXCEPT !.v = r.log[j].v], Name(j)) /\ ~SameVal(mlog[j].v, r.log[j].v) THEN "vars"
  ELSE IF \E j \in 1..Len(r.log) : ~SameVal(mlog[j].v, r.log[j].v) THEN "drift-log"
  ELSE IF (m.out = "ok") # (r.out = "ok") THEN "drift-outcome"
  ELSE ""
Check ==
  IF i <= Len(Rows)
  THEN LET v == Verdict(Rows[i]) IN v = "" \/ PrintT(ToJson([reject |-> i, clause |-> v]))
  ELSE PrintT(ToJson([done |-> Len(Rows)]))
====================================================================================
