INIT Init
NEXT Next
INVARIANT Fragment
INVARIANT Decides
INVARIANT Result
INVARIANT Errs
INVARIANT Defaults
INVARIANT Rejects
INVARIANT Passthrough
INVARIANT ShortCircuit
INVARIANT CtorLaw
INVARIANT Unorderable
INVARIANT HistoryFree
CHECK_DEADLOCK FALSE
CONSTANTS
  Mutant = "or_skips_falsy_result"
  Depth = 1
  Wide = FALSE
