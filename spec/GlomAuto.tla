--------------------------------- MODULE GlomAuto ---------------------------------
(* Evaluation of glom specs in Auto mode (with Fill mode and argument mode as far   *)
(* as they are reachable from it): dict / OrderedDict, list, tuple, Pipe, callables, *)
(* Val, Spec, Coalesce, Call, Invoke, Ref, string paths and T attr/item steps        *)
(* (properties C03, C08).                                                            *)
(*                                                                                   *)
(* PART 1 is the mechanism: a state-passing evaluator  Eval(st, env, target, spec)   *)
(* structured like glom/core.py (one operator per dispatch case / handler loop).     *)
(*   st  = [heap, log, unk, div]   heap grows by the cells the evaluation builds,     *)
(*         log is the call log of the user callables (name, positional, keyword       *)
(*         arguments) in the order they were invoked; unk is raised when the          *)
(*         evaluation leaves the modelled fragment of Python (such cases are dropped  *)
(*         by the harness, never compared); div when Ref recursion ran out of fuel.   *)
(*   env = [mode, minmode, refs, fuel, mut]  what a scope frame carries downwards:    *)
(*         MODE, MIN_MODE, the Ref bindings in force, recursion fuel and the name of  *)
(*         a deliberately wrong mechanism variant ("none" = faithful).                *)
(*   result = [st, ok, v, exc]                                                        *)
(* PART 2 is the canonical outcome (value graph up to renaming of fresh cells).       *)
(* PART 3 states the laws of C03 declaratively, separately from the mechanism.        *)
(*                                                                                   *)
(* Spec ASTs are JSON-native records  [op |-> ..., ...]:                              *)
(*   path(text, segs)  t(steps)  const(v)  fn(name)  val(v)                            *)
(*   dict(ordered, keys, kids)   keys[i] = [lit |-> TRUE, v] | [lit |-> FALSE, s]      *)
(*   list(kids)  tuple(kids)  pipe(kids)  spec(kids)  fill(kids)  auto(kids)           *)
(*   coalesce(kids, dflt, skip, skipexc)                                               *)
(*        dflt = [kind: "none"] | [kind: "arg", a: spec] | [kind: "factory", name]     *)
(*        skip = [kind: "none"] | [kind: "val", v] | [kind: "tuple", vs] | [kind: "pred", name] *)
(*   call(func, args, kwargs)      three specs evaluated in argument mode              *)
(*   invoke(func, chunks)          chunks[i] = [c: "C"|"S"|"*", args, kw]               *)
(*   ref(name, def, kids)                                                              *)
(*   inspect(kids, rec, echo, bp, pm)   Inspect(x, recursive=, echo=, breakpoint=, post_mortem=) *)
(*   set(kids, frozen)                  a set / frozenset used as a spec (Fill / argument mode)   *)
(*   sget(name, form)  sset(names, kids)  aset(name)     S.v / S['v'],  S(v=arg),  A.v            *)
(*   specs(kids, scope)                 Spec(x, scope={name: value})                              *)
(*   ntuple(kids)                       a namedtuple instance used as a (chain) spec              *)
(* Heap cells beyond GlomData's: eqall / eqraise (attribute objects with a hostile __eq__),       *)
(* gen ([cls, items, pulled]: a one-shot iterator).                                               *)
(* The top-level call  glom(target, spec, default=, skip_exc=, scope=)  is RunTop.                *)
EXTENDS GlomAccess

\* =====================================================================================
\* PART 1 - mechanism
\* =====================================================================================
\* out: what Inspect printed (target / output reports); bind: the names the last S(..) / A.x
\* step stored in its own scope (read by the chain that step belongs to)
St0(heap)   == [heap |-> heap, log |-> <<>>, unk |-> FALSE, div |-> FALSE, out |-> <<>>, bind |-> <<>>, grefs |-> <<>>]
ROk(st, v)  == [st |-> st, ok |-> TRUE, v |-> v, exc |-> ""]
RErr(st, e) == [st |-> st, ok |-> FALSE, v |-> VNone, exc |-> e]
Unk(st)     == [st EXCEPT !.unk = TRUE]
UnkIf(st, c) == IF c THEN Unk(st) ELSE st
Build(st, cls, items) ==                     \* a container glom creates: a fresh cell
  LET st2 == [st EXCEPT !.heap = Append(@, Cell(cls, items))] IN ROk(st2, VRef(Len(st2.heap)))

NoTrace == [on |-> FALSE, rec |-> FALSE, echo |-> FALSE, bp |-> "", pm |-> ""]
Env0(fuel, mut) == [mode |-> "auto", minmode |-> "none", refs |-> <<>>, fuel |-> fuel, mut |-> mut,
                    trace |-> NoTrace, scope |-> <<>>]

\* ---- exception classes ------------------------------------------------------------------
Supers(e) ==
  CASE e = "PathAccessError"    -> {e, "GlomError", "AttributeError", "KeyError", "IndexError", "LookupError", "Exception"}
    [] e = "CoalesceError"      -> {e, "GlomError", "Exception"}
    [] e = "UnregisteredTarget" -> {e, "GlomError", "Exception"}
    [] e = "GlomError"          -> {e, "Exception"}
    [] e \in {"KeyError", "IndexError"} -> {e, "LookupError", "Exception"}
    [] OTHER                    -> {e, "Exception"}
Catches(classes, e) == \E c \in 1..Len(classes) : classes[c] \in Supers(e)

\* ---- Python value semantics the evaluator needs ----------------------------------------------
IsNum(v) == v.k \in {"int", "bool"}
NumOf(v) == IF v.k = "int" THEN v.i ELSE IF v.b THEN 1 ELSE 0
PyEq(a, b) == IF IsNum(a) /\ IsNum(b) THEN NumOf(a) = NumOf(b) ELSE a = b
\* attribute objects, among them two with a hostile __eq__: "eqall" claims to be equal to everything,
\* "eqraise" raises TypeError when compared with anything that is not of its own class
ObjLike == {"obj", "eqall", "eqraise"}
\* v == s  /  v in (.., s, ..)  as Coalesce's skip option performs it, s a scalar or one of the two
\* skip-only values [k: "elist"] / [k: "edict"] (an empty list / dict literal): "t", "f" or "raise"
SkipEq(heap, v, s) ==
  IF IsRef(v) THEN
    LET c == heap[v.a] IN
    CASE c.cls = "eqall"   -> "t"
      [] c.cls = "eqraise" -> "raise"
      [] s.k = "elist"     -> IF c.cls = "list" /\ c.items = <<>> THEN "t" ELSE "f"
      [] s.k = "edict"     -> IF c.cls \in {"dict", "odict"} /\ c.items = <<>> THEN "t" ELSE "f"
      [] OTHER             -> "f"
  ELSE IF PyEq(v, s) THEN "t" ELSE "f"
\* one-shot iterators: a "gen" cell yields its items once; pulled counts what has been taken
IsGen(heap, v) == IsRef(v) /\ heap[v.a].cls = "gen"
Pull(st, v, n) ==          \* n more items have been pulled from v
  IF IsGen(st.heap, v)
  THEN [st EXCEPT !.heap[v.a] = [@ EXCEPT !.items = SubSeq(@, n + 1, Len(@)), !.pulled = @ + n]]
  ELSE st
\* == between two distinct containers is structural in Python: not modelled
EqUnknown(heap, a, b) ==
  IsRef(a) /\ IsRef(b) /\ a # b /\ heap[a.a].cls # "obj" /\ heap[b.a].cls # "obj"

RECURSIVE PyFindKey(_, _, _)
PyFindKey(items, key, i) ==
  IF i > Len(items) THEN 0 ELSE IF PyEq(items[i][1], key) THEN i ELSE PyFindKey(items, key, i + 1)
\* d[key] = val on an insertion-ordered dict: an equal key keeps its place (and its first spelling)
PySetKey(items, key, val) ==
  LET j == PyFindKey(items, key, 1) IN
  IF j = 0 THEN Append(items, <<key, val>>) ELSE [items EXCEPT ![j] = <<items[j][1], val>>]

\* hashable / not / outside the fragment (tuples and frozensets hash structurally)
HashKind(heap, v) ==
  IF ~IsRef(v) THEN "yes"
  ELSE LET c == heap[v.a].cls IN
       IF c \in {"list", "dict", "odict", "set"} THEN "no" ELSE IF c \in {"obj", "gen"} THEN "yes" ELSE "unk"

Truthy(heap, v) ==
  CASE v.k = "bool" -> v.b
    [] v.k = "int"  -> v.i # 0
    [] v.k = "str"  -> v.s # ""
    [] v.k = "none" -> FALSE
    [] v.k = "ref"  -> heap[v.a].cls \in ObjLike \cup {"gen"} \/ Len(heap[v.a].items) > 0
    [] OTHER        -> TRUE
TruthUnknown(v) == v.k = "sent"

Keys(items) == [i \in 1..Len(items) |-> items[i][1]]
Res(ok, v, exc, unk) == [ok |-> ok, v |-> v, exc |-> exc, unk |-> unk]

\* the 'iterate' handler of the default registry: anything with __iter__ except str
Iterate(heap, v) ==
  IF ~IsRef(v) THEN Res(FALSE, <<>>, "UnregisteredTarget", FALSE)
  ELSE LET c == heap[v.a] IN
       CASE c.cls \in {"list", "tuple", "gen"} -> Res(TRUE, c.items, "", FALSE)
         [] c.cls \in {"dict", "odict"}     -> Res(TRUE, Keys(c.items), "", FALSE)
         [] c.cls \in {"set", "frozenset"}  -> Res(TRUE, c.items, "", Len(c.items) > 1)   \* hash order
         [] OTHER                           -> Res(FALSE, <<>>, "UnregisteredTarget", FALSE)

\* Python's  f(*v)  /  list.extend(v)
Unpack(heap, v) ==
  IF IsRef(v) THEN
    LET c == heap[v.a] IN
    CASE c.cls \in {"list", "tuple", "gen"} -> Res(TRUE, c.items, "", FALSE)      \* (a generator is drained: see Pull)
      [] c.cls \in {"dict", "odict"}     -> Res(TRUE, Keys(c.items), "", FALSE)
      [] c.cls \in {"set", "frozenset"}  -> Res(TRUE, c.items, "", Len(c.items) > 1)
      [] OTHER                           -> Res(FALSE, <<>>, "TypeError", FALSE)
  ELSE IF v.k = "str" THEN
    IF v.s \in DOMAIN StrChars
    THEN Res(TRUE, [i \in 1..Len(StrChars[v.s]) |-> VStr(StrChars[v.s][i])], "", FALSE)
    ELSE Res(TRUE, <<>>, "", TRUE)
  ELSE Res(FALSE, <<>>, "TypeError", FALSE)

AllStrKeys(items) == \A i \in 1..Len(items) : items[i][1].k = "str"
\* Python's  f(**v): a mapping whose keys are all strings
KwUnpack(heap, v) ==
  IF IsRef(v) /\ heap[v.a].cls \in {"dict", "odict"} /\ AllStrKeys(heap[v.a].items)
  THEN Res(TRUE, heap[v.a].items, "", FALSE) ELSE Res(FALSE, <<>>, "TypeError", FALSE)
\* Python's  dict.update(v)
UpdUnpack(heap, v) ==
  IF IsRef(v) THEN
    LET c == heap[v.a] IN
    CASE c.cls \in {"dict", "odict"} -> Res(TRUE, c.items, "", FALSE)
      [] c.cls \in ObjLike          -> Res(FALSE, <<>>, "TypeError", FALSE)
      [] OTHER                       -> Res(c.items = <<>>, <<>>, "TypeError", c.items # <<>> \/ c.cls = "gen")
  ELSE IF v.k = "str" THEN Res(v.s = "", <<>>, "ValueError", v.s # "")
  ELSE Res(FALSE, <<>>, "TypeError", FALSE)

RECURSIVE UpdateAll(_, _, _)
UpdateAll(acc, items, i) ==
  IF i > Len(items) THEN acc ELSE UpdateAll(PySetKey(acc, items[i][1], items[i][2]), items, i + 1)

HasName(kw, name) == \E j \in 1..Len(kw) : kw[j][1] = name

\* ---- the library of user callables -------------------------------------------------------
\* every invocation is logged first (the instrumented callables of the harness do the same),
\* then the body runs; a wrong arity is Python's TypeError
LogCall(st, name, args, kw) ==
  [st EXCEPT !.log = Append(@, [fn |-> name, args |-> args, kw |-> kw])]

FnApply(st, name, args, kw) ==
  LET s1 == LogCall(st, name, args, kw)
      x  == args[1]
      h  == s1.heap
  IN
  IF name = "echo" THEN                  \* returns [list(args), dict(kwargs)]
    LET n == Len(h)
        s2 == [s1 EXCEPT !.heap = h \o <<Cell("list", args), Cell("dict", kw),
                                           Cell("list", <<VRef(n + 1), VRef(n + 2)>>)>>]
    IN ROk(s2, VRef(n + 3))
  ELSE IF name = "mk0" THEN
    IF args = <<>> /\ kw = <<>> THEN ROk(s1, VInt(0)) ELSE RErr(s1, "TypeError")
  ELSE IF name = "pair" THEN             \* def pair(x, y=7): return [x, y]
    LET nx == Len(args) >= 1  ny == Len(args) >= 2
        kx == HasName(kw, VStr("x"))  ky == HasName(kw, VStr("y"))
        bad == \/ Len(args) > 2
               \/ \E i \in 1..Len(kw) : kw[i][1] \notin {VStr("x"), VStr("y")}
               \/ (nx /\ kx) \/ (ny /\ ky) \/ (~nx /\ ~kx)
        xv == IF nx THEN args[1] ELSE Lookup(kw, VStr("x"))
        yv == IF ny THEN args[2] ELSE IF ky THEN Lookup(kw, VStr("y")) ELSE VInt(7)
    IN IF bad THEN RErr(s1, "TypeError") ELSE Build(s1, "list", <<xv, yv>>)
  ELSE IF Len(args) # 1 \/ kw # <<>> THEN
    \* one-parameter functions (parameter name is not one of the keyword names in use)
    RErr(s1, "TypeError")
  ELSE CASE name = "ident"    -> ROk(s1, x)
         [] name = "inc"      -> IF IsNum(x) THEN ROk(s1, VInt(NumOf(x) + 1)) ELSE RErr(s1, "TypeError")
         [] name = "size"     -> IF IsRef(x) THEN
                                   IF h[x.a].cls \in ObjLike \cup {"gen"} THEN RErr(s1, "TypeError") ELSE ROk(s1, VInt(Len(h[x.a].items)))
                                 ELSE IF x.k = "str" THEN
                                   IF x.s \in DOMAIN StrChars THEN ROk(s1, VInt(Len(StrChars[x.s])))
                                   ELSE ROk(Unk(s1), VInt(0))
                                 ELSE RErr(s1, "TypeError")
         [] name = "is_none"  -> ROk(s1, VBool(x = VNone))
         [] name = "is_int"   -> ROk(s1, VBool(IsNum(x)))
         [] name = "Tagged"   -> Build(s1, "obj", << <<VStr("x"), x>> >>)   \* a CLASS (which itself defines glomit): a callable
                                                                            \* like any other, the new instance is the result
         [] name = "ret_None" -> ROk(s1, VNone)
         [] name = "ret_SKIP" -> ROk(s1, SKIP)
         [] name = "ret_STOP" -> ROk(s1, STOP)
         [] name = "raise_KeyError"   -> RErr(s1, "KeyError")
         [] name = "raise_ValueError" -> RErr(s1, "ValueError")
         [] name = "raise_GlomError"  -> RErr(s1, "GlomError")
         [] OTHER -> RErr(Unk(s1), "TypeError")

\* calling whatever a func position evaluated to
Apply(st, fv, args, kw) ==
  IF fv.k = "fn" THEN FnApply(st, fv.s, args, kw) ELSE RErr(st, "TypeError")

\* ---- T / path steps -------------------------------------------------------------------------
\* GlomData models integer indexing only for the strings of StrChars
TEvalPlain(st, t, steps) ==
  LET p == PathEval(st.heap, t, steps) IN
  IF p.ok THEN ROk(st, p.v)
  ELSE LET risky == /\ p.idx >= 0
                    /\ steps[p.idx + 1].op = "[" /\ IsNum(steps[p.idx + 1].arg)
                    /\ LET c == PathEval(st.heap, t, SubSeq(steps, 1, p.idx)).v
                       IN c.k = "str" /\ c.s \notin DOMAIN StrChars
       IN RErr(UnkIf(st, risky), p.err)

\* ---- Inspect's trace callback around one evaluation -----------------------------------------
\* before: report the target (echo), call the breakpoint hook; result [st, ok, exc]
TraceIn(st, tr, t) ==
  LET s1 == IF tr.echo THEN [st EXCEPT !.out = Append(@, [k |-> "in", v |-> t])] ELSE st IN
  IF tr.bp = "" THEN [st |-> s1, ok |-> TRUE, exc |-> ""]
  ELSE LET b == FnApply(s1, tr.bp, <<>>, <<>>) IN [st |-> b.st, ok |-> b.ok, exc |-> b.exc]
TraceOut(st, tr, v) == IF tr.echo THEN [st EXCEPT !.out = Append(@, [k |-> "out", v |-> v])] ELSE st
\* a literal evaluated through scope[glom] (T step arguments, template keys): traced, value itself
RECURSIVE TraceLits(_, _, _, _, _)
TraceLits(st, tr, t, vals, i) ==
  IF ~tr.on \/ i > Len(vals) THEN [st |-> st, ok |-> TRUE, exc |-> ""]
  ELSE LET a == TraceIn(st, tr, t) IN
       IF ~a.ok THEN a ELSE TraceLits(TraceOut(a.st, tr, vals[i]), tr, t, vals, i + 1)

TEval(st, env, t, steps) ==
  LET p == PathEval(st.heap, t, steps)
      done == IF p.ok THEN Len(steps) ELSE IF p.idx >= 0 THEN p.idx + 1 ELSE 0   \* steps whose argument was evaluated
      lits == TraceLits(UnkIf(st, env.trace.on /\ ~p.ok /\ p.idx < 0), env.trace, t,
                        [i \in 1..done |-> steps[i].arg], 1) IN
  IF ~lits.ok THEN RErr(lits.st, lits.exc)
  ELSE TEvalPlain(lits.st, t, steps)

PathSteps(segs) == [i \in 1..Len(segs) |-> Step("P", VStr(segs[i]))]

\* ---- the dispatcher and the handlers ----------------------------------------------------------
GlomitOps == {"val", "spec", "specs", "pipe", "coalesce", "call", "invoke", "ref", "fill", "auto", "inspect"}
TOps == {"t", "sget", "sset", "aset"}            \* TType objects (T / S / A rooted)

\* chain_child re-parents the next step of a chain under the previous step's scope: whatever
\* that step stored in its own scope (a mode switch, a Ref binding) would be seen by the next
\* step.  That is the subject of C07 / C08; here such chains are outside the fragment.
Leaky(s) == s.op \in {"fill", "auto", "specs"} \/ (s.op = "ref" /\ s.def) \/ (s.op = "inspect" /\ s.rec)
\* ... with one documented exception: the names S(v=..) / A.v store are meant to be seen by the
\* following steps of the chain
Binds(s) == s.op \in {"sset", "aset"}
Bound(env, s, st) == IF Binds(s) THEN [env EXCEPT !.scope = st.bind \o @] ELSE env

\* Invoke: a keyword is supplied by the last constants()/specs() call that mentions it
Current(env, chunks, i, name) ==
  IF env.mut = "invoke_first"
  THEN ~\E j \in 1..(i - 1) : chunks[j].c \in {"C", "S"} /\ HasName(chunks[j].kw, name)
  ELSE ~\E j \in (i + 1)..Len(chunks) : chunks[j].c \in {"C", "S"} /\ HasName(chunks[j].kw, name)

\* Invoke.star(args=None, kwargs=None), Call(func, args=None, kwargs=None): None means "not given"
IsNoneConst(s) == s.op = "const" /\ s.v = VNone
StarAbsent(x) == x = <<>> \/ IsNoneConst(x[1])
CallArgs(s)   == IF IsNoneConst(s.args) THEN [op |-> "tuple", kids |-> <<>>] ELSE s.args
CallKwargs(s) == IF IsNoneConst(s.kwargs) THEN [op |-> "dict", ordered |-> FALSE, keys |-> <<>>, kids |-> <<>>] ELSE s.kwargs

ArgEnv(env) == [env EXCEPT !.minmode = "arg"]
\* `val is SKIP`: the sentinels are recognised by identity (mutant: by ==, which a hostile object satisfies)
IsSkip(env, st, v) == v = SKIP \/ (env.mut = "sentinel_by_eq" /\ IsRef(v) /\ st.heap[v.a].cls = "eqall")

RECURSIVE Eval(_, _, _, _), EvalCore(_, _, _, _), Traced(_, _, _, _), TRooted(_, _, _, _), AutoMode(_, _, _, _), Literal(_, _, _, _), Glomit(_, _, _, _),
          DictLoop(_, _, _, _, _, _), ListLoop(_, _, _, _, _, _, _), TupleLoop(_, _, _, _, _),
          LitSeq(_, _, _, _, _, _, _), LitDict(_, _, _, _, _, _), CoalLoop(_, _, _, _, _),
          EagerRest(_, _, _, _, _), CallEval(_, _, _, _), InvokeEval(_, _, _, _),
          ChunkLoop(_, _, _, _, _, _, _, _), EvalSeq(_, _, _, _, _, _), EvalKw(_, _, _, _, _, _, _, _)

\* _glom: T first, then objects with glomit (both reset MIN_MODE), then the mode function
Eval(st, env, t, s) ==
  IF st.div THEN RErr(st, "RecursionError")
  ELSE IF env.trace.on THEN Traced(st, env, t, s)          \* scope[glom] is Inspect's callback here
  ELSE EvalCore(st, env, t, s)

\* Inspect._trace: report, breakpoint, the real evaluation, post-mortem hook on failure, report;
\* unless recursive the callback removes itself for everything below
Traced(st, env, t, s) ==
  LET tr == env.trace
      a  == TraceIn(st, tr, t) IN
  IF ~a.ok THEN RErr(a.st, a.exc) ELSE
  LET cenv == IF tr.rec THEN env ELSE [env EXCEPT !.trace = NoTrace]
      r0 == EvalCore(a.st, cenv, t, s)
      r  == IF env.mut = "inspect_twice" THEN EvalCore(r0.st, cenv, t, s) ELSE r0 IN
  IF r.ok THEN [r EXCEPT !.st = TraceOut(r.st, tr, r.v)]
  ELSE IF tr.pm = "" THEN r
  ELSE LET p == FnApply(r.st, tr.pm, <<>>, <<>>) IN IF p.ok THEN RErr(p.st, r.exc) ELSE RErr(p.st, p.exc)

EvalCore(st, env, t, s) ==
  IF s.op \in TOps THEN TRooted(st, env, t, s)
  ELSE IF s.op \in GlomitOps THEN Glomit(st, [env EXCEPT !.minmode = "none"], t, s)
  ELSE IF env.minmode = "arg" \/ env.mode = "fill" THEN Literal(st, env, t, s)
  ELSE AutoMode(st, env, t, s)

\* _t_eval with root T, S or A
TRooted(st, env, t, s) ==
  CASE s.op = "t"    -> TEval(st, env, t, s.steps)
    [] s.op = "sget" ->                          \* S.name (no argument evaluation) / S['name']
         LET lits == TraceLits(st, env.trace, t, IF s.form = "[" THEN <<VStr(s.name)>> ELSE <<>>, 1)
             j == FindKey(env.scope, s.name, 1) IN
         IF ~lits.ok THEN RErr(lits.st, lits.exc)
         ELSE IF j = 0 THEN RErr(lits.st, "PathAccessError") ELSE ROk(lits.st, env.scope[j][2])
    [] s.op = "sset" ->                          \* S(name=arg, ..): values in argument mode; target passes through
         LET vs == EvalSeq(st, ArgEnv(env), t, s.kids, 1, <<>>) IN
         IF ~vs.ok THEN vs
         ELSE ROk([vs.st EXCEPT !.bind = [i \in 1..Len(s.names) |-> <<s.names[Len(s.names) + 1 - i], vs.v[Len(s.names) + 1 - i]>>]], t)
    [] OTHER         -> ROk([st EXCEPT !.bind = << <<s.name, t>> >>], t)     \* A.name

\* AUTO
AutoMode(st, env, t, s) ==
  CASE s.op = "path"  -> TEval(st, env, t, PathSteps(s.segs))
    [] s.op = "dict"  -> DictLoop(st, env, t, s, 1, <<>>)
    [] s.op = "list"  ->
         IF s.kids = <<>> THEN RErr(st, "IndexError")          \* spec[0]
         ELSE LET it == Iterate(st.heap, t) IN
              IF ~it.ok THEN RErr(st, it.exc)
              ELSE ListLoop(UnkIf(st, it.unk), env, it.v, s.kids[1], 1, <<>>, t)
    [] s.op \in {"tuple", "ntuple"} -> TupleLoop(st, env, t, s.kids, 1)       \* isinstance(spec, tuple)
    [] s.op = "fn"    -> FnApply(st, s.name, <<t>>, <<>>)
    [] OTHER          -> RErr(st, "TypeError")                  \* not a spec

\* _handle_dict: value first; SKIP drops the entry; a T / Spec key is evaluated afterwards
DictLoop(st, env, t, s, i, acc) ==
  IF i > Len(s.kids) THEN Build(st, IF s.ordered THEN "odict" ELSE "dict", acc)
  ELSE LET r == Eval(st, env, t, s.kids[i]) key == s.keys[i] IN
       IF ~r.ok THEN r
       ELSE IF IsSkip(env, r.st, r.v) \/ (env.mut = "dict_stop_skips" /\ r.v = STOP) THEN DictLoop(r.st, env, t, s, i + 1, acc)
       ELSE IF key.lit THEN DictLoop(r.st, env, t, s, i + 1, PySetKey(acc, key.v, r.v))
       ELSE LET kr == Eval(r.st, env, t, key.s) IN
            IF ~kr.ok THEN kr
            ELSE LET hk == HashKind(kr.st.heap, kr.v) IN
                 IF hk = "no" THEN RErr(kr.st, "TypeError")
                 ELSE DictLoop(UnkIf(kr.st, hk = "unk"), env, t, s, i + 1, PySetKey(acc, kr.v, r.v))

\* _handle_list
\* (src: the iterated target; a one-shot iterator is pulled item by item, nothing beyond a STOP)
ListLoop(st, env, items, sub, i, acc, src) ==
  IF i > Len(items) THEN Build(st, "list", acc)
  ELSE LET r == Eval(Pull(st, src, 1), env, items[i], sub) IN
       IF ~r.ok THEN r
       ELSE IF IsSkip(env, r.st, r.v) THEN ListLoop(r.st, env, items, sub, i + 1, acc, src)
       ELSE IF r.v = STOP THEN Build(IF env.mut = "list_drains_after_stop" THEN Pull(r.st, src, Len(items) - i) ELSE r.st, "list", acc)
       ELSE ListLoop(r.st, env, items, sub, i + 1, Append(acc, r.v), src)

\* _handle_tuple (also Pipe)
TupleLoop(st, env, res, kids, i) ==
  IF i > Len(kids) THEN ROk(st, res)
  ELSE LET r == Eval(UnkIf(st, i < Len(kids) /\ Leaky(kids[i])), env, res, kids[i]) IN
       IF ~r.ok THEN r
       ELSE IF r.v = SKIP THEN
              (IF env.mut = "tuple_skip_breaks" THEN ROk(r.st, res) ELSE TupleLoop(r.st, env, res, kids, i + 1))
       ELSE IF r.v = STOP THEN ROk(r.st, res)
       ELSE TupleLoop(r.st, IF env.mut = "sset_not_forward" THEN env ELSE Bound(env, kids[i], r.st), r.v, kids, i + 1)

\* FILL and the argument mode: plain containers are templates, everything else is a value;
\* FILL calls callables with the target, argument mode passes them on as they are
Literal(st, env, t, s) ==
  CASE s.op = "path"  -> ROk(st, VStr(s.text))
    [] s.op = "const" -> ROk(st, s.v)
    [] s.op = "fn"    -> IF env.minmode = "arg" THEN ROk(st, VFn(s.name)) ELSE FnApply(st, s.name, <<t>>, <<>>)
    [] s.op = "list"  -> LitSeq(st, env, t, s.kids, "list", 1, <<>>)
    [] s.op = "tuple" -> LitSeq(st, env, t, s.kids, "tuple", 1, <<>>)
    [] s.op = "dict"  -> IF s.ordered THEN RErr(Unk(st), "TypeError")     \* returned as the spec object itself
                         ELSE LitDict(st, env, t, s, 1, <<>>)
    [] s.op = "set"   ->                     \* type(spec)([recurse(v) for v in spec]); the spec's own iteration order
         IF Len(s.kids) > 1 THEN RErr(Unk(st), "TypeError")                \* (hash order) is modelled for <= 1 element
         ELSE LET r == LitSeq(st, env, t, s.kids, "list", 1, <<>>) IN
              IF ~r.ok THEN r
              ELSE LET vs == r.st.heap[r.v.a].items
                       hk == IF vs = <<>> THEN "yes" ELSE HashKind(r.st.heap, vs[1]) IN
                   IF hk = "no" THEN RErr(r.st, "TypeError")
                   ELSE Build(UnkIf(r.st, hk = "unk"),
                              IF env.mut = "set_as_list" THEN "list" ELSE IF s.frozen THEN "frozenset" ELSE "set", vs)
    [] OTHER          -> RErr(Unk(st), "TypeError")

LitSeq(st, env, t, kids, cls, i, acc) ==
  IF i > Len(kids) THEN Build(st, cls, acc)
  ELSE LET r == Eval(st, env, t, kids[i]) IN
       IF r.ok THEN LitSeq(r.st, env, t, kids, cls, i + 1, Append(acc, r.v)) ELSE r

\* {recurse(key): recurse(val) for key, val in spec.items()}
LitDict(st, env, t, s, i, acc) ==
  IF i > Len(s.kids) THEN Build(st, "dict", acc)
  ELSE LET key == s.keys[i]
           lk == TraceLits(st, env.trace, t, <<key.v>>, 1)           \* recurse(key) on a literal key
           kr == IF key.lit THEN (IF lk.ok THEN ROk(lk.st, key.v) ELSE RErr(lk.st, lk.exc)) ELSE Eval(st, env, t, key.s) IN
       IF ~kr.ok THEN kr
       ELSE LET r == Eval(kr.st, env, t, s.kids[i]) IN
            IF ~r.ok THEN r
            ELSE LET hk == HashKind(r.st.heap, kr.v) IN
                 IF hk = "no" THEN RErr(r.st, "TypeError")
                 ELSE LitDict(UnkIf(r.st, hk = "unk"), env, t, s, i + 1, PySetKey(acc, kr.v, r.v))

\* objects with a glomit method; env already has MIN_MODE reset
Glomit(st, env, t, s) ==
  CASE s.op = "val"  -> ROk(st, s.v)
    [] s.op = "spec" -> Eval(st, env, t, s.kids[1])
    [] s.op = "specs" -> Eval(st, [env EXCEPT !.scope = s.scope \o @], t, s.kids[1])     \* scope.update(self.scope)
    [] s.op = "inspect" ->                    \* the wrapped spec is evaluated through the trace callback
         Eval(st, [env EXCEPT !.trace = [on |-> TRUE, rec |-> s.rec, echo |-> s.echo, bp |-> s.bp, pm |-> s.pm]], t, s.kids[1])
    [] s.op = "pipe" -> TupleLoop(st, env, t, s.kids, 1)
    [] s.op = "fill" -> Eval(st, [env EXCEPT !.mode = "fill"], t, s.kids[1])
    [] s.op = "auto" -> Eval(st, [env EXCEPT !.mode = "auto"], t, s.kids[1])
    [] s.op = "ref"  ->                       \* names are lexical: Ref(name, x) is visible inside x only (the binding lives
         \* in the Ref's own scope frame), an inner definition of the same name shadows the outer one until
         \* its own sub-spec is finished, and a use that no definition encloses is a KeyError
         IF s.def THEN Eval(IF env.mut = "ref_global" THEN [st EXCEPT !.grefs = << <<s.name, s.kids[1]>> >> \o @] ELSE st,
                            [env EXCEPT !.refs = << <<s.name, s.kids[1]>> >> \o @], t, s.kids[1])
         ELSE LET refs == IF env.mut = "ref_global" THEN st.grefs ELSE env.refs      \* (mutant: names registered call-wide)
                  j == FindKey(refs, s.name, 1) IN
              IF j = 0 THEN RErr(st, "KeyError")            \* no definition encloses this use
              ELSE IF env.fuel = 0 THEN RErr([st EXCEPT !.div = TRUE], "RecursionError")
              ELSE Eval(st, [env EXCEPT !.fuel = @ - 1], t, refs[j][2])
    [] s.op = "coalesce" -> CoalLoop(st, env, t, s, 1)
    [] s.op = "call"     -> CallEval(st, env, t, s)
    [] s.op = "invoke"   -> InvokeEval(st, env, t, s)

\* does the skip option reject this value?  a predicate is a user callable: logged, may raise
SkipTest(st, sk, v) ==
  CASE sk.kind = "val"   -> LET e == SkipEq(st.heap, v, sk.v) IN
                            [st |-> st, ok |-> e # "raise", hit |-> e = "t", exc |-> IF e = "raise" THEN "TypeError" ELSE ""]
    [] sk.kind = "tuple" -> \* v in (..): identity or == against each member in turn
                            LET raises == \E j \in 1..Len(sk.vs) : SkipEq(st.heap, v, sk.vs[j]) = "raise"
                                hits   == \E j \in 1..Len(sk.vs) : SkipEq(st.heap, v, sk.vs[j]) = "t" IN
                            [st |-> st, ok |-> ~raises, hit |-> hits /\ ~raises, exc |-> IF raises THEN "TypeError" ELSE ""]
    [] sk.kind = "pred"  -> LET r == FnApply(st, sk.name, <<v>>, <<>>) IN
                            IF r.ok THEN [st |-> UnkIf(r.st, TruthUnknown(r.v)), ok |-> TRUE,
                                          hit |-> Truthy(r.st.heap, r.v), exc |-> ""]
                            ELSE [st |-> r.st, ok |-> FALSE, hit |-> FALSE, exc |-> r.exc]
    [] OTHER             -> [st |-> st, ok |-> TRUE, hit |-> FALSE, exc |-> ""]

\* Coalesce.glomit: try the alternatives in turn; both the sub-evaluation and the skip test are
\* inside the try block
CoalLoop(st, env, t, s, i) ==
  IF i > Len(s.kids) THEN
    CASE s.dflt.kind = "arg"     -> Eval(st, ArgEnv(env), t, s.dflt.a)
      [] s.dflt.kind = "factory" -> FnApply(st, s.dflt.name, <<>>, <<>>)
      [] OTHER                   -> RErr(st, "CoalesceError")
  ELSE LET r == Eval(st, env, t, s.kids[i]) IN
       IF r.ok THEN
         LET k == SkipTest(r.st, s.skip, r.v) IN
         IF ~k.ok THEN (IF Catches(s.skipexc, k.exc) THEN CoalLoop(k.st, env, t, s, i + 1) ELSE RErr(k.st, k.exc))
         ELSE IF k.hit THEN CoalLoop(k.st, env, t, s, i + 1)
         ELSE IF env.mut = "coalesce_eager" THEN ROk(EagerRest(k.st, env, t, s, i + 1), r.v)
         ELSE ROk(k.st, r.v)
       ELSE IF Catches(s.skipexc, r.exc) THEN CoalLoop(r.st, env, t, s, i + 1)
       ELSE r
\* (mutant only) evaluate the remaining alternatives for their effects
EagerRest(st, env, t, s, i) ==
  IF i > Len(s.kids) THEN st ELSE EagerRest(Eval(st, env, t, s.kids[i]).st, env, t, s, i + 1)

\* Call.glomit:  r(func)(*r(args), **r(kwargs))  with r = arg_val.  Python evaluates the three
\* operands left to right and only then unpacks them for the call
CallEval(st, env, t, s) ==
  LET f == Eval(st, ArgEnv(env), t, s.func) IN
  IF ~f.ok THEN f ELSE
  LET a == Eval(f.st, ArgEnv(env), t, CallArgs(s)) IN
  IF ~a.ok THEN a ELSE
  LET k == Eval(a.st, ArgEnv(env), t, CallKwargs(s)) IN
  IF ~k.ok THEN k ELSE
  LET ua == Unpack(k.st.heap, a.v)
      uk == KwUnpack(k.st.heap, k.v) IN
  IF ~ua.ok \/ ~uk.ok THEN RErr(UnkIf(k.st, IsGen(k.st.heap, a.v)), "TypeError")
  ELSE Apply(Pull(UnkIf(k.st, ua.unk), a.v, Len(ua.v)), f.v, ua.v, uk.v)

\* Invoke.glomit
InvokeEval(st, env, t, s) ==
  LET f == IF s.func.op = "fn" THEN ROk(st, VFn(s.func.name)) ELSE Eval(st, env, t, s.func) IN
  IF ~f.ok THEN f ELSE ChunkLoop(f.st, env, t, s, f.v, 1, <<>>, <<>>)

ChunkLoop(st, env, t, s, fv, i, args, kw) ==
  IF i > Len(s.chunks) THEN
    (IF AllStrKeys(kw) THEN Apply(st, fv, args, kw) ELSE RErr(st, "TypeError"))
  ELSE LET c == s.chunks[i] IN
    CASE c.c = "C" ->
           LET mine == SelectSeq(c.kw, LAMBDA p : Current(env, s.chunks, i, p[1])) IN
           ChunkLoop(st, env, t, s, fv, i + 1, args \o c.args, UpdateAll(kw, mine, 1))
      [] c.c = "S" ->
           LET a == EvalSeq(st, env, t, c.args, 1, <<>>) IN
           IF ~a.ok THEN a ELSE
           LET k == EvalKw(a.st, env, t, s.chunks, i, c.kw, 1, <<>>) IN
           IF ~k.ok THEN k ELSE
           ChunkLoop(k.st, env, t, s, fv, i + 1, args \o a.v, UpdateAll(kw, k.v, 1))
      [] OTHER ->                                                 \* star(args=, kwargs=)
           LET noa == StarAbsent(c.args)  nok == StarAbsent(c.kw)
               st0 == UnkIf(st, noa /\ nok)                      \* star() without either is refused by the constructor
               a == IF noa THEN ROk(st0, VNone) ELSE Eval(st0, env, t, c.args[1]) IN
           IF ~a.ok THEN a ELSE
           LET ua == IF noa THEN Res(TRUE, <<>>, "", FALSE) ELSE Unpack(a.st.heap, a.v) IN
           IF ~ua.ok THEN RErr(a.st, ua.exc) ELSE
           LET a2 == IF noa THEN a.st ELSE Pull(UnkIf(a.st, ua.unk), a.v, Len(ua.v))          \* list.extend drains
               k == IF nok THEN ROk(a2, VNone) ELSE Eval(a2, env, t, c.kw[1]) IN
           IF ~k.ok THEN k ELSE
           LET uk == IF nok THEN Res(TRUE, <<>>, "", FALSE) ELSE UpdUnpack(k.st.heap, k.v) IN
           IF ~uk.ok THEN RErr(UnkIf(k.st, uk.unk), uk.exc) ELSE
           ChunkLoop(UnkIf(k.st, uk.unk), env, t, s, fv, i + 1, args \o ua.v, UpdateAll(kw, uk.v, 1))

\* [recurse(arg) for arg in args]; the result's v is the sequence of values
EvalSeq(st, env, t, specs, i, acc) ==
  IF i > Len(specs) THEN ROk(st, acc)
  ELSE LET r == Eval(st, env, t, specs[i]) IN
       IF r.ok THEN EvalSeq(r.st, env, t, specs, i + 1, Append(acc, r.v)) ELSE r
\* {k: recurse(v) for k, v in kwargs.items() if this chunk is the current supplier of k}
EvalKw(st, env, t, chunks, ci, kw, i, acc) ==
  IF i > Len(kw) THEN ROk(st, acc)
  ELSE IF ~Current(env, chunks, ci, kw[i][1]) THEN EvalKw(st, env, t, chunks, ci, kw, i + 1, acc)
  ELSE LET r == Eval(st, env, t, kw[i][2]) IN
       IF r.ok THEN EvalKw(r.st, env, t, chunks, ci, kw, i + 1, Append(acc, <<kw[i][1], r.v>>)) ELSE r

Fuel == 8
\* glom.glom(target, spec, default=, skip_exc=, scope=)
\*   opts = [dflt |-> <<>> | <<value>>, skipexc |-> <<>> | <<classes>>, scope |-> pairs]
\* an exception of a skip_exc class (GlomError when only a default is given) is replaced by the
\* default as it stands (None when only skip_exc is given); without both, errors pass through
NoOpts == [dflt |-> <<>>, skipexc |-> <<>>, scope |-> <<>>]
TopEnv(opts, mut) == [Env0(Fuel, mut) EXCEPT !.scope = opts.scope]
RunTop(heap, root, spec, opts, mut) ==
  LET r == Eval(St0(heap), TopEnv(opts, mut), root, spec)
      hasd == opts.dflt # <<>> \/ opts.skipexc # <<>>
      dv   == IF opts.dflt # <<>> THEN opts.dflt[1] ELSE VNone
      cls  == IF opts.skipexc # <<>> THEN opts.skipexc[1] ELSE <<"GlomError">> IN
  IF r.ok \/ ~hasd \/ r.st.div THEN r
  ELSE IF Catches(cls, r.exc) \/ mut = "top_default_any" THEN ROk(r.st, dv) ELSE r
Run(heap, root, spec, mut) == RunTop(heap, root, spec, NoOpts, mut)

\* =====================================================================================
\* PART 2 - canonical outcome: what the harness can observe, with the cells glom built
\* numbered in the order a depth-first walk from the call log's arguments (in call order)
\* and then from the result first meets them
\* =====================================================================================
RECURSIVE InSeq(_, _, _)
InSeq(sq, x, i) == IF i > Len(sq) THEN 0 ELSE IF sq[i] = x THEN i ELSE InSeq(sq, x, i + 1)

RECURSIVE Flat(_, _)          \* k1 v1 k2 v2 ... of an association list
Flat(items, i) == IF i > Len(items) THEN <<>> ELSE <<items[i][1], items[i][2]>> \o Flat(items, i + 1)
CellVals(c) == IF c.cls \in MapClasses THEN Flat(c.items, 1) ELSE c.items

RECURSIVE LogVals(_, _)
LogVals(log, i) == IF i > Len(log) THEN <<>> ELSE log[i].args \o Flat(log[i].kw, 1) \o LogVals(log, i + 1)

RECURSIVE Walk(_, _, _, _)
Walk(heap, n0, todo, order) ==
  IF todo = <<>> THEN order
  ELSE LET v == Head(todo) IN
       IF IsRef(v) /\ v.a > n0 /\ InSeq(order, v.a, 1) = 0
       THEN Walk(heap, n0, CellVals(heap[v.a]) \o Tail(todo), Append(order, v.a))
       ELSE Walk(heap, n0, Tail(todo), order)

Outcome(r, n0) ==
  LET heap  == r.st.heap
      outs  == [i \in 1..Len(r.st.out) |-> r.st.out[i].v]
      order == Walk(heap, n0, LogVals(r.st.log, 1) \o outs \o (IF r.ok THEN <<r.v>> ELSE <<>>), <<>>)
      cv(v) == IF IsRef(v) /\ v.a > n0 THEN [k |-> "new", a |-> InSeq(order, v.a, 1)] ELSE v
      cpairs(items) == [i \in 1..Len(items) |-> <<cv(items[i][1]), cv(items[i][2])>>]
      cvals(items)  == [i \in 1..Len(items) |-> cv(items[i])]
      ccell(c) == Cell(c.cls, IF c.cls \in MapClasses THEN cpairs(c.items) ELSE cvals(c.items))
      \* the empty tuple is a singleton in Python: its identity says nothing
      etuple == \E i \in 1..Len(order) : heap[order[i]].cls \in {"tuple", "frozenset"} /\ heap[order[i]].items = <<>>
  IN [ok    |-> r.ok,
      v     |-> cv(r.v),
      exc   |-> r.exc,
      log   |-> [i \in 1..Len(r.st.log) |->
                   [fn |-> r.st.log[i].fn, args |-> cvals(r.st.log[i].args), kw |-> cpairs(r.st.log[i].kw)]],
      gens  |-> LET gs == SelectSeq([a \in 1..n0 |-> a], LAMBDA a : heap[a].cls = "gen") IN
                [j \in 1..Len(gs) |-> <<gs[j], heap[gs[j]].pulled>>],     \* how far each one-shot iterator was pulled
      out   |-> [i \in 1..Len(r.st.out) |-> [k |-> r.st.out[i].k, v |-> cv(r.st.out[i].v)]],
      cells |-> [i \in 1..Len(order) |-> ccell(heap[order[i]])],
      skip  |-> IF r.st.div THEN "div" ELSE IF r.st.unk \/ etuple THEN "unk" ELSE ""]

\* =====================================================================================
\* PART 3 - the laws of C03, written from the property statement.  They speak about Eval
\* only as a black box applied to a node and to its parts: the result of a composite is
\* determined by the results of its sub-specs, evaluated once each, left to right (the state,
\* and with it the call log, is threaded through the parts in reading order).
\* =====================================================================================
FreshCell(r, st) == r.ok /\ IsRef(r.v) /\ r.v.a > Len(st.heap)
NewLog(r, st) == SubSeq(r.st.log, Len(st.log) + 1, Len(r.st.log))

\* parts evaluated one after the other against given targets, the state threaded through; stops
\* after the first failure (how = "Failed") or the first failure / STOP result ("FailedOrStop");
\* returns the results obtained so far
Halts(how, r) == ~r.ok \/ (how = "FailedOrStop" /\ r.v = STOP)
RECURSIVE Thread(_, _, _, _, _, _)
Thread(st, env, ts, ss, how, i) ==
  IF i > Len(ss) THEN <<>>
  ELSE LET r == Eval(st, env, ts[i], ss[i]) IN
       IF Halts(how, r) THEN <<r>> ELSE <<r>> \o Thread(r.st, env, ts, ss, how, i + 1)
LastSt(rs, st) == IF rs = <<>> THEN st ELSE rs[Len(rs)].st

\* (L1) a tuple / Pipe feeds each step's result to the next: glom(t, (a, rest..)) is
\*      glom(glom(t, a), rest); a SKIP step is left out, STOP ends the chain
ChainLaw(st, env, t, s, W) ==
  IF s.kids = <<>> THEN W = ROk(st, t)
  ELSE LET A == Eval(st, env, t, s.kids[1])
           rest == [s EXCEPT !.kids = Tail(s.kids)] IN
       IF ~A.ok THEN W = A
       ELSE IF A.v = SKIP THEN W = Eval(A.st, env, t, rest)
       ELSE IF A.v = STOP THEN W = ROk(A.st, t)
       ELSE W = Eval(A.st, Bound(env, s.kids[1], A.st), A.v, rest)     \* (L11) S(..) / A.x bind for the rest of the chain

\* (L2) a dict spec yields a new dict of the same type with the same keys in the same order
\*      holding the sub-results, minus the entries whose sub-result is SKIP
\*      (stated for literal, pairwise different keys; the state is threaded between entries)
LitKeys(s) == \A i \in 1..Len(s.keys) : s.keys[i].lit /\ \A j \in 1..(i - 1) : ~PyEq(s.keys[i].v, s.keys[j].v)
DictLaw(st, env, t, s, W) ==
  LET n  == Len(s.kids)
      rs == Thread(st, env, [i \in 1..n |-> t], s.kids, "Failed", 1)
      m  == Len(rs) IN
  IF m > 0 /\ ~rs[m].ok THEN W = rs[m]
  ELSE /\ FreshCell(W, st)
       /\ W.st.log = LastSt(rs, st).log
       /\ LET c == W.st.heap[W.v.a]
              kept == SelectSeq([i \in 1..n |-> i], LAMBDA i : rs[i].v # SKIP) IN
          /\ c.cls = (IF s.ordered THEN "odict" ELSE "dict")
          /\ c.items = [j \in 1..Len(kept) |-> <<s.keys[kept[j]].v, rs[kept[j]].v>>]

\* (L3) a list spec maps its sub-spec over the target's iteration, in order, leaving out SKIP
\*      results and ending at the first STOP
ListLaw(st, env, t, s, W) ==
  LET it == Iterate(st.heap, t) IN
  IF ~it.ok THEN W = RErr(st, it.exc)
  ELSE LET n  == Len(it.v)
           rs == Thread(st, env, it.v, [i \in 1..n |-> s.kids[1]], "FailedOrStop", 1)
           m  == Len(rs) IN
       \* a one-shot iterator is pulled exactly as far as items were evaluated: all of it, or up to
       \* and including the item that failed or yielded STOP
       /\ (IsGen(st.heap, t) => W.st.heap[t.a].pulled = st.heap[t.a].pulled + m)
       /\ IF m > 0 /\ ~rs[m].ok
          THEN (IF IsGen(st.heap, t) THEN ~W.ok /\ W.exc = rs[m].exc /\ W.st.log = rs[m].st.log ELSE W = rs[m])
          ELSE /\ FreshCell(W, st)
               /\ W.st.log = LastSt(rs, st).log
               /\ LET c == W.st.heap[W.v.a]
                      kept == SelectSeq([i \in 1..m |-> i], LAMBDA i : rs[i].v \notin {SKIP, STOP}) IN
                  /\ c.cls = "list"
                  /\ c.items = [j \in 1..Len(kept) |-> rs[kept[j]].v]

\* (L4) Coalesce: the first alternative that neither raises a skip_exc exception nor yields a
\*      skipped value wins and nothing after it is evaluated (the log ends with that
\*      alternative); an exception outside skip_exc propagates; when every alternative is
\*      rejected: the default (argument mode), the factory's result, or CoalesceError
Rejected(s, r) ==                \* r: result of one alternative followed by its skip test
  IF r.ok THEN r.hit ELSE Catches(s.skipexc, r.exc)
AltUnit(st, env, t, s, i) ==
  LET r == Eval(st, env, t, s.kids[i]) IN
  IF ~r.ok THEN [st |-> r.st, ok |-> FALSE, v |-> VNone, exc |-> r.exc, hit |-> FALSE]
  ELSE LET k == SkipTest(r.st, s.skip, r.v) IN
       [st |-> k.st, ok |-> k.ok, v |-> IF k.ok THEN r.v ELSE VNone, exc |-> k.exc, hit |-> k.hit]
RECURSIVE AltThread(_, _, _, _, _)
AltThread(st, env, t, s, i) ==
  IF i > Len(s.kids) THEN <<>>
  ELSE LET u == AltUnit(st, env, t, s, i) IN
       IF Rejected(s, u) THEN <<u>> \o AltThread(u.st, env, t, s, i + 1) ELSE <<u>>
CoalesceLaw(st, env, t, s, W) ==
  LET us == AltThread(st, env, t, s, 1)
      m  == Len(us) IN
  IF m > 0 /\ ~Rejected(s, us[m])
  THEN W = [st |-> us[m].st, ok |-> us[m].ok, v |-> us[m].v, exc |-> us[m].exc]
  ELSE LET st2 == LastSt(us, st) IN
       CASE s.dflt.kind = "arg"     -> W = Eval(st2, ArgEnv(env), t, s.dflt.a)
         [] s.dflt.kind = "factory" -> W = FnApply(st2, s.dflt.name, <<>>, <<>>)
         [] OTHER                   -> W = RErr(st2, "CoalesceError")

\* (L5) a callable receives the current target, once
FnLaw(st, t, s, W) ==
  /\ NewLog(W, st) = <<[fn |-> s.name, args |-> <<t>>, kw |-> <<>>]>>
  /\ W = FnApply(st, s.name, <<t>>, <<>>)

\* (L6) Call: func, args, kwargs are evaluated (argument mode) in that order, each once; the
\*      first failure ends the evaluation; then the function is called exactly once with
\*      those values:  func(*args, **kwargs)
CallLaw(st, env, t, s, W) ==
  LET rs == Thread(st, ArgEnv(env), <<t, t, t>>, <<s.func, CallArgs(s), CallKwargs(s)>>, "Failed", 1)
      m  == Len(rs) IN
  IF ~rs[m].ok THEN W = rs[m]                                \* a part failed: nothing after it
  ELSE LET st3 == rs[3].st
           ua == Unpack(st3.heap, rs[2].v)  uk == KwUnpack(st3.heap, rs[3].v) IN
       IF ua.ok /\ uk.ok /\ rs[1].v.k = "fn"
       THEN /\ NewLog(W, st3) = <<[fn |-> rs[1].v.s, args |-> ua.v, kw |-> uk.v]>>
            /\ W = FnApply(Pull(UnkIf(st3, ua.unk), rs[2].v, Len(ua.v)), rs[1].v.s, ua.v, uk.v)   \* (*args drains an iterator)
       ELSE ~W.ok /\ W.exc = "TypeError" /\ W.st.log = st3.log           \* not callable with these values

\* (L7) Invoke: the parts are evaluated chunk by chunk in the order written, a keyword given
\*      twice is taken from the later constants()/specs() chunk and the overridden spec is not
\*      evaluated; star() arguments are stacked in order; then one call
LaterWins(chunks, i, name) ==
  ~\E q \in (i + 1)..Len(chunks) : chunks[q].c \in {"C", "S"} /\ HasName(chunks[q].kw, name)
ChunkParts(chunks, i) ==
  LET c == chunks[i] IN
  IF c.c = "C" THEN <<>>
  ELSE IF c.c = "S" THEN
    LET cur == SelectSeq(c.kw, LAMBDA p : LaterWins(chunks, i, p[1])) IN
    c.args \o [j \in 1..Len(cur) |-> cur[j][2]]
  ELSE (IF StarAbsent(c.args) THEN <<>> ELSE c.args) \o (IF StarAbsent(c.kw) THEN <<>> ELSE c.kw)
RECURSIVE CatParts(_, _)
CatParts(chunks, i) == IF i > Len(chunks) THEN <<>> ELSE ChunkParts(chunks, i) \o CatParts(chunks, i + 1)
InvokeParts(s) ==                \* the specs that are evaluated, in reading order
  (IF s.func.op = "fn" THEN <<>> ELSE <<s.func>>) \o CatParts(s.chunks, 1)
InvokeLaw(st, env, t, s, W) ==
  LET parts == InvokeParts(s)
      n  == Len(parts)
      rs == Thread(st, env, [i \in 1..n |-> t], parts, "Failed", 1)
      m  == Len(rs)
      good == IF m > 0 /\ ~rs[m].ok THEN m - 1 ELSE m        \* parts that evaluated successfully
      after(j) == IF j = 0 THEN st ELSE rs[j].st IN
  \* (states are compared by their call logs: draining a one-shot iterator in star() changes the heap;
  \*  when a part's value IS such an iterator, later parts may see it drained: not judged here)
  \/ \E i \in 1..Len(rs) : rs[i].ok /\ IsGen(rs[i].st.heap, rs[i].v)
  \/ m > 0 /\ ~rs[m].ok /\ ~W.ok /\ W.exc = rs[m].exc /\ W.st.log = rs[m].st.log     \* a part failed: that failure, nothing later
  \/ \E j \in 0..good :                                      \* the values of parts 1..j cannot be combined
       ~W.ok /\ W.exc \in {"TypeError", "ValueError"} /\ W.st.log = after(j).log
  \/ /\ good = n                                             \* every part once, in order, then the one call
     /\ Len(NewLog(W, after(n))) = 1
     /\ SubSeq(W.st.log, 1, Len(after(n).log)) = after(n).log
     /\ (s.func.op = "fn" => NewLog(W, after(n))[1].fn = s.func.name)

\* (L9) Inspect(x) is transparent: outcome, call log and built values are those of x; with echo
\*      it reports the target before and the output after (nothing after a failure); the
\*      breakpoint hook is called first, the post-mortem hook only after a failure
Prefix(a, b) == Len(a) <= Len(b) /\ SubSeq(b, 1, Len(a)) = a
InspectLaw(st, env, t, s, W) ==
  LET X == Eval(st, env, t, s.kids[1])                       \* the wrapped spec on its own
      new == SubSeq(W.st.out, Len(st.out) + 1, Len(W.st.out))
      quiet == {"", "mk0", "echo"} IN                        \* hooks that cannot fail
  /\ (s.bp = "" /\ s.pm = "" =>
        /\ W.ok = X.ok /\ W.v = X.v /\ W.exc = X.exc /\ W.st.log = X.st.log /\ W.st.heap = X.st.heap
        /\ (~s.rec => new = (IF s.echo THEN <<[k |-> "in", v |-> t]>> ELSE <<>>)
                           \o SubSeq(X.st.out, Len(st.out) + 1, Len(X.st.out))
                           \o (IF s.echo /\ X.ok THEN <<[k |-> "out", v |-> X.v]>> ELSE <<>>)))
  /\ (s.echo /\ s.bp \in quiet => new # <<>> /\ new[1] = [k |-> "in", v |-> t]
                                   /\ (W.ok => new[Len(new)] = [k |-> "out", v |-> W.v]))
  /\ (s.bp \in quiet /\ s.pm \in quiet => W.ok = X.ok /\ W.exc = X.exc)
  /\ (s.bp # "" => NewLog(W, st) # <<>> /\ NewLog(W, st)[1] = [fn |-> s.bp, args |-> <<>>, kw |-> <<>>])
  /\ (~s.rec /\ s.bp \in quiet /\ s.pm \in quiet =>
        Len(NewLog(W, st)) = (IF s.bp = "" THEN 0 ELSE 1) + Len(NewLog(X, st))
                             + (IF s.pm # "" /\ ~X.ok THEN 1 ELSE 0))

\* (L10) a set / frozenset is not an Auto-mode spec; as a Fill / argument template it yields a new
\*       set of the same type holding the sub-results
SetLaw(st, env, t, s, W, lit) ==
  IF ~lit THEN W = RErr(st, "TypeError")
  ELSE Len(s.kids) <= 1 =>
       LET rs == Thread(st, env, [i \in 1..Len(s.kids) |-> t], s.kids, "Failed", 1) IN
       IF rs # <<>> /\ ~rs[1].ok THEN W = rs[1]
       ELSE IF rs # <<>> /\ HashKind(rs[1].st.heap, rs[1].v) = "no" THEN ~W.ok /\ W.exc = "TypeError"
       ELSE /\ FreshCell(W, st)
            /\ W.st.heap[W.v.a] = Cell(IF s.frozen THEN "frozenset" ELSE "set", [i \in 1..Len(rs) |-> rs[i].v])
            /\ W.st.log = LastSt(rs, st).log

\* (L11) scope: S.name / S['name'] read the innermost binding in force (top-level scope=,
\*       Spec(.., scope=), S(..) / A.x of an earlier step of an enclosing chain); a missing name is a
\*       PathAccessError; S(name=arg) evaluates arg in argument mode, A.name takes the target; both
\*       pass the target through
SgetLaw(st, env, t, s, W) ==
  LET j == FindKey(env.scope, s.name, 1) IN
  /\ W.st.log = st.log
  /\ IF j = 0 THEN ~W.ok /\ W.exc = "PathAccessError" ELSE W.ok /\ W.v = env.scope[j][2]
SsetLaw(st, env, t, s, W) ==
  LET rs == Thread(st, ArgEnv(env), [i \in 1..Len(s.kids) |-> t], s.kids, "Failed", 1)
      m  == Len(rs) IN
  IF m > 0 /\ ~rs[m].ok THEN W = rs[m]
  ELSE /\ W.ok /\ W.v = t /\ W.st.log = LastSt(rs, st).log
       /\ \A i \in 1..Len(s.names) : \E j \in 1..Len(W.st.bind) : W.st.bind[j] = <<s.names[i], rs[i].v>>

\* (L13) Ref: a use stands for the sub-spec of the innermost enclosing definition of its name
\*       (evaluated where the use stands, still inside that definition); without one it is a KeyError
RECURSIVE Innermost(_, _, _)
Innermost(refs, name, i) == IF i > Len(refs) THEN 0 ELSE IF refs[i][1] = name THEN i ELSE Innermost(refs, name, i + 1)
RefUseLaw(st, env, t, s, W) ==
  LET j == Innermost(env.refs, s.name, 1) IN
  IF j = 0 THEN W = RErr(st, "KeyError")
  ELSE W = Eval(st, [env EXCEPT !.fuel = @ - 1], t, env.refs[j][2])

\* ---- every node of a spec tree, with the target and state it actually receives ------------
NodeLaw(st, env, t, s, W) ==
  LET genv == [env EXCEPT !.minmode = "none"]
      lit  == env.minmode = "arg" \/ env.mode = "fill" IN
  CASE s.op = "pipe"                   -> ChainLaw(st, genv, t, s, W)
    [] s.op \in {"tuple", "ntuple"} /\ ~lit -> ChainLaw(st, env, t, s, W)
    [] s.op = "dict" /\ ~lit /\ LitKeys(s) -> DictLaw(st, env, t, s, W)
    [] s.op = "list" /\ ~lit /\ s.kids # <<>> -> ListLaw(st, env, t, s, W)
    [] s.op = "fn" /\ env.minmode # "arg" -> FnLaw(st, t, s, W)
    [] s.op = "coalesce"               -> CoalesceLaw(st, genv, t, s, W)
    [] s.op = "call"                   -> CallLaw(st, genv, t, s, W)
    [] s.op = "invoke"                 -> InvokeLaw(st, genv, t, s, W)
    [] s.op = "val"                    -> W = ROk(st, s.v)
    [] s.op = "spec"                   -> W = Eval(st, genv, t, s.kids[1])
    [] s.op = "specs"                  -> W = Eval(st, [genv EXCEPT !.scope = s.scope \o @], t, s.kids[1])
    [] s.op = "inspect"                -> InspectLaw(st, genv, t, s, W)
    [] s.op = "set"                    -> SetLaw(st, env, t, s, W, lit)
    [] s.op = "ref" /\ s.def          -> W = Eval(st, [genv EXCEPT !.refs = << <<s.name, s.kids[1]>> >> \o @], t, s.kids[1])
    [] s.op = "ref" /\ ~s.def /\ env.fuel > 0 -> RefUseLaw(st, genv, t, s, W)
    [] s.op = "sget"                   -> SgetLaw(st, env, t, s, W)
    [] s.op = "sset"                   -> SsetLaw(st, env, t, s, W)
    [] s.op = "aset"                   -> W.ok /\ W.v = t /\ W.st.bind = << <<s.name, t>> >> /\ W.st.log = st.log
    [] OTHER                           -> TRUE

\* the law holds at this node for the state and target it receives and, recursively, at its
\* parts with the states and targets *they* receive: the first part directly, the later ones
\* through the remainder of the composite (a chain without its first step, a dict without its
\* first entry, a Coalesce without its first alternative)
RECURSIVE Lawful(_, _, _, _)
Lawful(st, env0, t, s) ==
  LET env == [env0 EXCEPT !.trace = NoTrace]     \* (the laws are about the evaluation itself, reports aside)
      W == Eval(st, env, t, s)
      genv == [env EXCEPT !.minmode = "none"]
      lit  == env.minmode = "arg" \/ env.mode = "fill"
      cenv == IF s.op \in GlomitOps THEN genv ELSE env
      rest == [s EXCEPT !.kids = Tail(s.kids)]
      A == Eval(st, cenv, t, s.kids[1]) IN
  /\ NodeLaw(st, env, t, s, W)
  /\ CASE s.op = "pipe" \/ (s.op \in {"tuple", "ntuple"} /\ ~lit) ->
            s.kids # <<>> =>
              /\ Lawful(st, cenv, t, s.kids[1])
              /\ (A.ok /\ A.v # STOP => Lawful(A.st, IF A.v = SKIP THEN env ELSE Bound(env, s.kids[1], A.st),
                                              IF A.v = SKIP THEN t ELSE A.v, rest))
       [] s.op = "dict" /\ ~lit /\ LitKeys(s) ->
            s.kids # <<>> =>
              /\ Lawful(st, env, t, s.kids[1])
              /\ (A.ok => Lawful(A.st, env, t, [rest EXCEPT !.keys = Tail(s.keys)]))
       [] s.op = "coalesce" ->
            s.kids # <<>> =>
              /\ Lawful(st, genv, t, s.kids[1])
              /\ LET u == AltUnit(st, genv, t, s, 1) IN Rejected(s, u) => Lawful(u.st, env, t, rest)
       [] s.op \in {"spec", "inspect"} -> Lawful(st, genv, t, s.kids[1])
       [] s.op = "specs" -> Lawful(st, [genv EXCEPT !.scope = s.scope \o @], t, s.kids[1])
       [] s.op = "sset" -> s.kids # <<>> => Lawful(st, ArgEnv(env), t, s.kids[1])
       [] s.op = "ref" /\ s.def /\ ~st.div -> Lawful(st, [genv EXCEPT !.refs = << <<s.name, s.kids[1]>> >> \o @], t, s.kids[1])
       [] s.op = "fill" -> Lawful(st, [genv EXCEPT !.mode = "fill"], t, s.kids[1])
       [] s.op = "auto" -> Lawful(st, [genv EXCEPT !.mode = "auto"], t, s.kids[1])
       [] s.op \in {"list", "tuple", "set"} /\ lit -> s.kids # <<>> => Lawful(st, env, t, s.kids[1])
       [] s.op = "call" ->
            LET parts == <<s.func, CallArgs(s), CallKwargs(s)>>
                rs == Thread(st, ArgEnv(genv), <<t, t, t>>, parts, "Failed", 1) IN
            \A i \in 1..Len(rs) : Lawful(IF i = 1 THEN st ELSE rs[i - 1].st, ArgEnv(genv), t, parts[i])
       [] s.op = "invoke" ->
            LET parts == InvokeParts(s)
                rs == Thread(st, genv, [i \in 1..Len(parts) |-> t], parts, "Failed", 1) IN
            \A i \in 1..Len(rs) : Lawful(IF i = 1 THEN st ELSE rs[i - 1].st, genv, t, parts[i])
       [] s.op = "list" /\ ~lit /\ s.kids # <<>> ->
            LET it == Iterate(st.heap, t) IN
            it.ok /\ it.v # <<>> => Lawful(st, env, it.v[1], s.kids[1])
       [] OTHER -> TRUE

\* (L8) evaluated once: a spec without list iteration and without Ref invokes each callable
\*      position at most once
RECURSIVE FnSlots(_)
RECURSIVE SumSlots(_, _)
SumSlots(ss, i) == IF i > Len(ss) THEN 0 ELSE FnSlots(ss[i]) + SumSlots(ss, i + 1)
FnSlots(s) ==
  CASE s.op = "fn" -> 1
    [] s.op \in {"tuple", "ntuple", "pipe", "spec", "specs", "fill", "auto", "list", "set", "sset"} -> SumSlots(s.kids, 1)
    [] s.op = "inspect" -> SumSlots(s.kids, 1) + (IF s.bp = "" THEN 0 ELSE 1) + (IF s.pm = "" THEN 0 ELSE 1)
    [] s.op = "dict" -> SumSlots(s.kids, 1) + SumSlots([i \in 1..Len(s.keys) |->
                                                  IF s.keys[i].lit THEN [op |-> "const"] ELSE s.keys[i].s], 1)
    [] s.op = "coalesce" -> SumSlots(s.kids, 1) + Len(s.kids) * (IF s.skip.kind = "pred" THEN 1 ELSE 0)
                            + (IF s.dflt.kind = "factory" THEN 1 ELSE IF s.dflt.kind = "arg" THEN FnSlots(s.dflt.a) ELSE 0)
    [] s.op = "call" -> 1 + FnSlots(s.func) + FnSlots(s.args) + FnSlots(s.kwargs)
    [] s.op = "invoke" -> 1 + SumSlots(InvokeParts(s), 1)
    [] OTHER -> 0
RECURSIVE Iterates(_)
Iterates(s) ==
  CASE s.op \in {"list", "ref"} -> TRUE
    [] s.op = "inspect" -> (s.rec /\ (s.bp # "" \/ s.pm # "")) \/ Iterates(s.kids[1])     \* hooks run at every level
    [] s.op \in {"tuple", "ntuple", "pipe", "spec", "specs", "fill", "auto", "coalesce", "set", "sset"} ->
         \E i \in 1..Len(s.kids) : Iterates(s.kids[i])
    [] s.op = "dict" -> \/ \E i \in 1..Len(s.kids) : Iterates(s.kids[i])
                        \/ \E i \in 1..Len(s.keys) : ~s.keys[i].lit /\ Iterates(s.keys[i].s)
    [] s.op = "call" -> Iterates(s.func) \/ Iterates(s.args) \/ Iterates(s.kwargs)
    [] s.op = "invoke" -> LET p == InvokeParts(s) IN \E i \in 1..Len(p) : Iterates(p[i])
    [] OTHER -> FALSE
OnceLaw(heap, root, s, mut) ==
  ~Iterates(s) => Len(Run(heap, root, s, mut).st.log) <= FnSlots(s)
====================================================================================
