\* spec mutant: the mechanism variant "firstkey_nested_top" (see GlomErrors.tla) must violate a law
CONSTANTS
  Mutant = "firstkey_nested_top"
  MinDepth = 0
  MaxDepth = 1
  Rich = TRUE
  KwMode = "full"
INIT Init
NEXT Next
INVARIANT CatalogueOK
INVARIANT VerdictConsistent
INVARIANT InvClassKept
INVARIANT InvGlomIfRebuildable
INVARIANT InvSubtype
INVARIANT InvDefaultSelective
INVARIANT InvDebug
INVARIANT InvBase
INVARIANT CreatedAreDocumented
PROPERTY PassThroughLaw
PROPERTY TransparentLaw
CHECK_DEADLOCK FALSE
