---------------------------------- MODULE MC_C05 ----------------------------------
(* Bounded universe for C05: spec shapes (linear nestings, chains, branches, branches    *)
(* inside chains inside branches) by constructor choice x every plan of leaf failures:    *)
(* the environment decides at every leaf execution whether it fails, so every position of *)
(* a single planted failure and every pattern of earlier recovered failures is explored.  *)
(* For every failing call the rendering of the error trace is computed from the frame      *)
(* table and the five laws are evaluated against the dynamic parent chain.                 *)
EXTENDS GlomTrace

CONSTANTS MaxDepth, SecondDepth, MaxLeaves,
          Rich,     \* TRUE: all leaf / composite kinds; FALSE: the core kinds only (used for the deeper universe)
          Alien     \* TRUE: a failing leaf raises either a GlomError or an exception of a foreign class

Leafs == {N("new", "", <<>>), N("same", "", <<>>)} \cup (IF Rich THEN {N("copy", "", <<>>), N("smiss", "", <<>>)} ELSE {})
Bin == {"tup", "pipe", "dict", "coal", "or", "and", "switch"} \cup (IF Rich THEN {"coalskip"} ELSE {})
RECURSIVE Trees(_)
Trees(d) ==
  IF d = 0 THEN Leafs
  ELSE LET S == Trees(d - 1) IN
       Leafs \cup {N(k, "", <<a, b>>) : k \in Bin, a \in S, b \in S} \cup {N("not", "", <<a>>) : a \in S}
             \cup {N("fill", "", <<a>>) : a \in S}

Lazy(a) == N("pipe", "", <<N("iter", "", <<a>>), N("consume", "", <<>>)>>)
Ty == N("typ", "", <<>>)
Skp == N("skp", "", <<>>)
Fates == IF Alien THEN {"ok", "err", "alien"} ELSE {"ok", "err"}
\* a plan is canonical when it is exactly as long as the number of leaf executions it drives
VARIABLES tree, plan, res, phase
vars == <<tree, plan, res, phase>>
Top == Trees(MaxDepth - 1)
None == [out |-> "none"]
Init == phase = 0 /\ tree = N("new", "", <<>>) /\ plan = <<>> /\ res = None

Outcome(t, p) ==
  LET r == Start(t, p, <<>>) IN
  IF r.out # "err" THEN [out |-> r.out, used |-> r.st.leaf]
  ELSE LET fr == r.st.frames
           lines == TraceLines(fr, r.e)
           n == TraceN(fr, r.e)
       IN [out |-> "err", used |-> r.st.leaf, org |-> fr[r.org].path, rootn |-> r.st.errs[r.e].n, rootglom |-> r.st.errs[r.e].glom,
           lines |-> [i \in 1..Len(lines) |->
                        [d |-> lines[i].d, kind |-> lines[i].kind, marks |-> lines[i].marks,
                         path |-> fr[lines[i].f].path, tgt |-> fr[lines[i].f].tgt,
                         eorg |-> IF lines[i].kind = "E" THEN fr[r.st.errs[lines[i].e].org].path ELSE <<>>,
                         en |-> IF lines[i].kind = "E" THEN r.st.errs[lines[i].e].n ELSE 0]],
           proj |-> Projection(fr, r.st.errs, lines),
           laws |-> [first |-> FirstIsRootTarget(fr, n), spine |-> SpineLaw(fr, n, r.org),
                     target |-> TargetLaw(fr, n, r.org), branch |-> BranchLaw(fr, n),
                     berr |-> BranchErrorLaw(fr, r.st.errs, n, r.e), abandoned |-> AbandonedShown(fr, n, r.e)]]
PickTree ==
  /\ phase = 0 /\ phase' = 1 /\ plan' = <<>>
  /\ \/ \E t \in Top : tree' = t
     \/ \E k \in Bin, a \in Top, b \in Trees(SecondDepth) : tree' = N(k, "", <<a, b>>) \/ tree' = N(k, "", <<b, a>>)
     \/ \E a \in Top : tree' = N("not", "", <<a>>) \/ tree' = N("fill", "", <<a>>)
     \* lazily evaluated sub-specs: Pipe(Iter(a), list) where the root target flows in unchanged
     \/ \E a \in Trees(SecondDepth) :
          \/ tree' = Lazy(a) \/ tree' = N("not", "", <<Lazy(a)>>)
          \/ \E k \in {"coal", "or", "and", "switch", "dict", "pipe"}, b \in Trees(SecondDepth) :
                tree' = N(k, "", <<Lazy(a), b>>) \/ (k # "pipe" /\ tree' = N(k, "", <<b, Lazy(a)>>))
     \* chains with a step that answers SKIP before the step that fails
     \/ \E a \in Leafs, b \in Leafs, k \in {"tup", "pipe"} :
          \/ tree' = N(k, "", <<Skp, a>>) \/ tree' = N(k, "", <<a, Skp, b>>)
          \/ tree' = N("coal", "", <<N(k, "", <<Skp, a>>), b>>) \/ tree' = N(k, "", <<Skp, N("coal", "", <<a, b>>)>>)
     \* Match mode: plain types as alternatives of Or / And (each attempt is a scope of its own and a branch of the trace)
     \/ \E b \in Leafs \cup {Ty}, k \in {"or", "and"} :
          \/ tree' = N("match", "", <<N(k, "", <<Ty, b>>)>>) \/ tree' = N("match", "", <<N(k, "", <<b, Ty>>)>>)
          \/ tree' = N("match", "", <<N(k, "", <<Ty, N("or", "", <<Ty, b>>)>>)>>)
          \/ b # Ty /\ tree' = N("pipe", "", <<b, N("match", "", <<N(k, "", <<Ty, Ty>>)>>)>>)
  /\ res' = Outcome(tree', <<>>)
\* the environment decides leaf by leaf: while the run consumed more leaf executions than the plan
\* covers (uncovered leaves succeed), it fixes the fate of the next one
Decide ==
  /\ phase = 1 /\ res.used > Len(plan) /\ Len(plan) < MaxLeaves
  /\ \E o \in Fates : plan' = Append(plan, o)
  /\ res' = Outcome(tree, plan')
  /\ UNCHANGED <<tree, phase>>
Next == PickTree \/ Decide

Failed == phase = 1 /\ res.out = "err" /\ res.used <= Len(plan)
FirstLaw == Failed => res.laws.first
SpineLawInv == Failed => res.laws.spine
TargetLawInv == Failed => res.laws.target
BranchLawInv == Failed => res.laws.branch
BranchErrorInv == Failed => res.laws.berr
AbandonedInv == Failed => res.laws.abandoned
====================================================================================
