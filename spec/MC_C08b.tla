---------------------------------- MODULE MC_C08b ---------------------------------
(* Universe for C08 (b): every literal container graph over NCells cells of the classes  *)
(* {dict, list, tuple, set, frozenset} with up to two items each drawn from strings,      *)
(* numbers, T, Spec(T), a callable and references -- forward references only for Fill     *)
(* mode, any reference between lists / dicts (self-reference, mutual cycles) in argument  *)
(* position.  pred = the rebuilt graph (result heap cells beyond the spec's own cells).   *)
EXTENDS GlomShape

CONSTANTS NCells
Tgt == VStr("TGT")
Scalars == {VInt(1), VStr("s"), TLeaf, SLeaf, OLeaf, VFn("tag")}
Hashable == {VInt(1), VStr("s"), TLeaf, VFn("tag")}
\* hand-written graphs: container-valued dict keys (tuples / frozensets holding T leaves), and cycles in
\* which a T leaf with an operation is visited before the back reference
FamilyFill == {
  << Cell("dict", << <<VRef(2), VInt(1)>>, <<VStr("a"), VRef(3)>> >>), Cell("tuple", <<TLeaf, VStr("s")>>), Cell("list", <<OLeaf>>) >>,
  << Cell("dict", << <<VRef(2), VRef(3)>> >>), Cell("frozenset", <<TLeaf>>), Cell("tuple", <<OLeaf, VRef(4)>>), Cell("set", <<VInt(1)>>) >> }
FamilyArg == FamilyFill \cup {
  << Cell("list", <<OLeaf, VRef(1)>>) >>,
  << Cell("dict", << <<VStr("a"), OLeaf>>, <<VStr("b"), VRef(1)>>, <<VStr("c"), VRef(2)>> >>), Cell("list", <<SLeaf, VRef(1), VRef(2)>>) >>,
  << Cell("list", <<VRef(2), VRef(1)>>), Cell("tuple", <<OLeaf, VRef(1)>>) >> }

VARIABLES heap, pos, pred, phase
vars == <<heap, pos, pred, phase>>

Classes == {"dict", "list", "tuple", "set", "frozenset"}
\* legal item values of cell a of class cls when evaluated at position p
Vals(a, cls, p) ==
  IF cls \in {"set", "frozenset"} THEN Hashable
  ELSE Scalars \cup {VRef(b) : b \in (a + 1)..NCells} \cup
       (IF p = "arg" /\ cls \in {"list", "dict"} THEN {VRef(b) : b \in 1..a} ELSE {})
ItemSeqs(a, cls, p) ==
  LET V == Vals(a, cls, p) IN {<<>>} \cup {<<v>> : v \in V} \cup {<<v, w>> : v \in V, w \in V}
MkCell(cls, vals) ==
  IF cls = "dict" THEN Cell("dict", [i \in 1..Len(vals) |-> <<IF i = 1 THEN VStr("a") ELSE TLeaf, vals[i]>>])
  ELSE Cell(cls, vals)
\* set items must stay distinct after replacement
SetOk(cls, vals) == cls \in {"set", "frozenset"} => (Len(vals) = 2 => vals[1] # vals[2])
\* a back reference may only point at a list or dict (tuples / sets cannot contain themselves)
BackOk(cells) == \A a \in 1..Len(cells) : \A i \in 1..Len(cells[a].items) :
   LET v == IF cells[a].cls = "dict" THEN cells[a].items[i][2] ELSE cells[a].items[i] IN
   (IsRef(v) /\ v.a <= a) => cells[v.a].cls \in {"list", "dict"}

Init == phase = 0 /\ heap = <<>> /\ pos = "fill" /\ pred = [cells |-> <<>>, v |-> VNone]
Pick ==
  /\ phase = 0 /\ phase' = 1
  /\ pos' \in {"fill", "arg"}
  /\ \/ \E cls \in [1..NCells -> Classes] : \E its \in [1..NCells -> UNION {ItemSeqs(a, c, pos') : a \in 1..NCells, c \in Classes}] :
          /\ \A a \in 1..NCells : its[a] \in ItemSeqs(a, cls[a], pos') /\ SetOk(cls[a], its[a])
          /\ heap' = [a \in 1..NCells |-> MkCell(cls[a], its[a])]
          /\ BackOk(heap')
     \/ heap' \in (IF pos' = "fill" THEN FamilyFill ELSE FamilyArg)
  /\ LET r == IF pos' = "fill" THEN FillV(heap', VRef(1), Tgt) ELSE ArgV(heap', VRef(1), Tgt, <<>>) IN
       pred' = [cells |-> r.heap, v |-> r.v]
Next == Pick

ShapeLaw == phase = 1 => SameShape(heap, VRef(1), pred.cells, pred.v, Tgt, pos = "arg", 2 * Len(heap) + 2)
FreshLaw == phase = 1 => AllFresh(pred.cells, pred.v, Len(heap), 2 * Len(heap) + 2)
SpecUntouched == phase = 1 => SubSeq(pred.cells, 1, Len(heap)) = heap
====================================================================================
