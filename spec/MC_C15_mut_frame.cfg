INIT Init
NEXT Next
INVARIANT InvFrame
INVARIANT InvNoInputAcc
CHECK_DEADLOCK FALSE
