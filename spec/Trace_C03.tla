--------------------------------- MODULE Trace_C03 ---------------------------------
(* code -> spec for C03: every row of the ndjson file is one execution recorded from   *)
(* the real library on an input TLC did not choose (random nested targets, random       *)
(* type-directed spec trees of depth <= 5 with instrumented callables):                 *)
(*   {heap, root, spec, opts, obs}  with obs = {ok, v, exc, log, out, cells}             *)
(* (opts: top-level default / skip_exc / scope; out: what Inspect reported)              *)
(* The same GlomAuto!Eval that TLC model-checks is evaluated on the recorded input and  *)
(* every observable C03 names is compared with what the library did: outcome, returned  *)
(* value (graph up to renaming of the cells glom built), error class, call log (order,  *)
(* count, arguments).  Rejected rows are printed with the failing clause; rows the      *)
(* model places outside its fragment are printed as skip:<reason>; the run ends with    *)
(* {"done": n}.                                                                          *)
EXTENDS GlomAuto, Json, IOUtils

Rows == ndJsonDeserialize(IOEnv.TRACE_FILE)
VARIABLE i
Init == i = 1
Next == i <= Len(Rows) /\ i' = i + 1

Verdict(r) ==
  LET p == Outcome(RunTop(r.heap, r.root, r.spec, r.opts, "none"), Len(r.heap)) o == r.obs IN
  IF p.skip # "" THEN "skip:" \o p.skip
  ELSE IF p.ok # o.ok THEN "outcome"
  ELSE IF p.exc # o.exc THEN "errclass"
  ELSE IF p.log # o.log THEN "calllog"
  ELSE IF p.out # o.out THEN "reports"
  ELSE IF p.gens # o.gens THEN "pulls"
  ELSE IF p.v # o.v THEN "value"
  ELSE IF p.cells # o.cells THEN "cells"
  ELSE ""

Check ==
  IF i <= Len(Rows)
  THEN LET v == Verdict(Rows[i]) IN v = "" \/ PrintT(ToJson([reject |-> i, clause |-> v]))
  ELSE PrintT(ToJson([done |-> Len(Rows)]))
====================================================================================
