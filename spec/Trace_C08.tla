--------------------------------- MODULE Trace_C08 ---------------------------------
(* code -> spec for C08 (a): rows {tree, log (probe reports), enters (hook events)}      *)
(* recorded from real runs of random deeper trees.  Law level (rejected = violation):    *)
(* every probe reports the lexical mode; every recorded frame was entered in the lexical *)
(* mode of its node.  Mechanism level (rejected = "drift..."): the recorded enter events  *)
(* are exactly the enter actions of GlomFrames!Start on the same tree.  Plain callable   *)
(* leaves (kind "call") log "CALLED": which of them ran, in which order, is "probes-run". *)
EXTENDS GlomFrames, Json, IOUtils

Rows == ndJsonDeserialize(IOEnv.TRACE_FILE)
VARIABLE i
Init == i = 1
Next == i <= Len(Rows) /\ i' = i + 1

Enters(acts) == SelectSeq(acts, LAMBDA a : a.a = "enter")
Verdict(r) ==
  LET m == Start(r.tree, <<>>, <<>>)
      me == Enters(m.st.acts) IN
  IF (m.out = "ok") # (r.out = "ok") THEN "outcome"
  ELSE IF \E j \in 1..Len(r.log) : r.log[j].v # "CALLED" /\ r.log[j].v # LexMode(r.tree, r.log[j].p, "AUTO") THEN "probe-mode"
  ELSE IF \E j \in 1..Len(r.enters) : r.enters[j].mode # LexMode(r.tree, r.enters[j].path, "AUTO") THEN "enter-mode"
  ELSE IF Len(r.log) # Len(m.st.log) \/ \E j \in 1..Len(r.log) : r.log[j].p # m.st.log[j].p THEN "probes-run"
  ELSE IF Len(me) # Len(r.enters) THEN "drift-frames"
  ELSE IF \E j \in 1..Len(me) : me[j].f # r.enters[j].f \/ me[j].par # r.enters[j].par \/ me[j].path # r.enters[j].path
                                 \/ me[j].minmode # r.enters[j].minmode THEN "drift-enter"
  ELSE ""
Check ==
  IF i <= Len(Rows)
  THEN LET v == Verdict(Rows[i]) IN v = "" \/ PrintT(ToJson([reject |-> i, clause |-> v]))
  ELSE PrintT(ToJson([done |-> Len(Rows)]))
====================================================================================
