--------------------------------- MODULE Trace_C15 ---------------------------------
(* code -> spec for C15.  Every row of the ndjson file is one history recorded from the  *)
(* real library on an input TLC did not choose (random object graphs: longer, deeper,     *)
(* mixed element shapes, sharing; random reduction specs): {heap0, root, wrap, sp,         *)
(* obs: [evaluation 1, evaluation 2], frame, indep}.  The two evaluations of the machine   *)
(* are re-run on the recorded input and every observable the property names is judged:     *)
(*   "frame" / "independent" - the harness saw an input cell change / two results share     *)
(*                             a fresh mutable object                                       *)
(*   "value"                 - result value or exception class differs from the plain-      *)
(*                             Python reference (RefOutcome)                                *)
(*   "inits"                 - init() not called afresh during an eager evaluation          *)
(*   "drift"                 - the law holds but the transcribed mechanism says otherwise   *)
EXTENDS GlomReduce, Json, IOUtils

Rows == ndJsonDeserialize(IOEnv.TRACE_FILE)
VARIABLE i
TInit == i = 1
TNext == i <= Len(Rows) /\ i' = i + 1

Same3(a, b) == a.ok = b.ok /\ a.v = b.v /\ a.exc = b.exc
Verdict(r) ==
  LET p1 == RefShownK(r.heap0, r.root, r.sp, 1)
      p2 == RefShownK(r.heap0, r.root, r.sp, 2)
      mi == MinInits(r.heap0, r.root, r.sp)
      m1 == MEval(r.heap0, r.root, r.sp, VNone)
      m2 == MEval(m1.h, r.root, r.sp, m1.acc)
      s1 == Shown(IF r.sp.init = "shlist" THEN m1.h ELSE m2.h, m1)  s2 == Shown(m2.h, m2)
  IN IF ~r.frame THEN "frame"
     ELSE IF ~r.indep THEN "independent"
     ELSE IF ~Same3(r.obs[1], p1) \/ ~Same3(r.obs[2], p2) THEN "value"
     ELSE IF r.obs[1].inits >= 0 /\ (r.obs[1].inits < mi \/ r.obs[2].inits < mi) THEN "inits"
     ELSE IF ~Same3(r.obs[1], s1) \/ ~Same3(r.obs[2], s2) THEN "drift"
     ELSE ""

Check ==
  IF i <= Len(Rows)
  THEN LET v == Verdict(Rows[i]) IN v = "" \/ PrintT(ToJson([reject |-> i, clause |-> v]))
  ELSE PrintT(ToJson([done |-> Len(Rows)]))
====================================================================================
