--------------------------------- MODULE Trace_C13 ---------------------------------
(* code -> spec for C13.  The ndjson file holds one header row and then one row per     *)
(* behaviour recorded from the real library on class families TLC did not choose:       *)
(*   header    {sub, inst, auto,    the class relations of the (random) universe, as     *)
(*              mro}                                                                       *)
(*                                  observed with issubclass / isinstance / the real      *)
(*                                  autodiscovery functions                               *)
(*             {known_order, init}  iteration order of register_op's known-type set in    *)
(*                                  the recording process, projected initial default tree  *)
(*   behaviour {regs, events}       events: {"a":"new",r} | {"a":"reg",r,t,ops,exact,off,      *)
(*                                  tree,map} | {"a":"look",r,t,op,obs,cached}             *)
(*                                  | {"a":"regop",r,op,byname,order,tree,map}             *)
(* The machine of GlomRegistry is stepped through the events with its own actions        *)
(* (Register / Lookup / NewGlommer); after each step                                     *)
(*   LAW        the handler observed through glom() (obs = the handler tags consistent    *)
(*              with the public observation) must be in LAllowed -> "reject" line;        *)
(*   MECHANISM  (only where the recorder could read the private representation: flags     *)
(*              mech / memo) handler handed out by the mechanism, projected map / tree /   *)
(*              memo must equal the recorded ones -> "drift" line (no violation).         *)
EXTENDS GlomRegistry, Json, IOUtils

Rows == ndJsonDeserialize(IOEnv.TRACE_FILE)
Hdr == Rows[1]
TraceUniverse ==
  [sub  |-> [t \in DOMAIN Hdr.sub |-> Range(Hdr.sub[t])],
   inst |-> [t \in DOMAIN Hdr.inst |-> Range(Hdr.inst[t])],
   mro  |-> Hdr.mro,
   auto |-> Hdr.auto]

VARIABLES i, j, verdict
tvars == <<regs, hist, i, j, verdict>>

StartRegs(k) ==
  IF k > Len(Rows) THEN <<>>
  ELSE [r \in Range(Rows[k].regs) |->
          IF r = "default" THEN PristineFor("default", Hdr.known_order) ELSE Dead(RegKind[r])]

V(kind, clause, label) == [kind |-> kind, clause |-> clause, label |-> label]
Init ==
  /\ i = 2 /\ j = 0 /\ hist = <<>> /\ regs = StartRegs(2)
  /\ verdict = IF ~Hdr.mech \/ PristineFor("default", Hdr.known_order).tree = Hdr.init THEN <<>>
               ELSE << V("drift", "init-tree", "") >>

\* judge a lookup event against the state before it (R) and what the mechanism handed out (h)
JudgeLook(R, e, h) ==
  LET allowed == LAllowed(R, e.t, e.op)
      obs     == Range(e.obs)
      law     == IF obs \cap allowed # {} THEN <<>> ELSE << V("law", "nearest", "") >>
      mech    == (IF h \in obs THEN <<>> ELSE << V("drift", "mech-handler", "") >>)
                 \o (IF ~e.memo \/ e.cached = h THEN <<>> ELSE << V("drift", "mech-memo", "") >>)
  IN law \o mech
JudgeReg(R1, e) ==
  IF ~e.mech THEN <<>>       \* the private representation could not be read: nothing to compare
  ELSE (IF R1.tree = e.tree THEN <<>> ELSE << V("drift", "mech-tree", "") >>)
       \o (IF R1.map = e.map THEN <<>> ELSE << V("drift", "mech-map", "") >>)

Step ==
  /\ i <= Len(Rows) /\ j < Len(Rows[i].events)
  /\ LET e == Rows[i].events[j + 1] IN
     \/ /\ e.a = "reg" /\ Register(e.r, e.t, e.ops, e.exact, e.off)
        /\ verdict' = JudgeReg(regs'[e.r], e)
     \/ /\ e.a = "look" /\ Lookup(e.r, e.t, e.op)
        /\ verdict' = JudgeLook(regs[e.r], e, hist'[Len(hist')].h)
     \/ /\ e.a = "regop" /\ RegisterOpAct(e.r, e.op, e.byname, e.order)
        /\ verdict' = JudgeReg(regs'[e.r], e)
     \/ /\ e.a = "new" /\ NewGlommer(e.r, Hdr.known_order)
        /\ verdict' = IF ~e.mech \/ regs'[e.r].tree = e.tree THEN <<>> ELSE << V("drift", "new-tree", "") >>
  /\ j' = j + 1 /\ i' = i
NextRow ==
  /\ i <= Len(Rows) /\ j = Len(Rows[i].events)
  /\ i' = i + 1 /\ j' = 0 /\ hist' = <<>> /\ regs' = StartRegs(i + 1) /\ verdict' = <<>>
Next == Step \/ NextRow

Check ==
  /\ \A k \in 1..Len(verdict) :
       IF verdict[k].kind = "law"
       THEN PrintT(ToJson([reject |-> i, event |-> j, clause |-> verdict[k].clause, label |-> verdict[k].label]))
       ELSE PrintT(ToJson([drift |-> i, event |-> j, clause |-> verdict[k].clause]))
  /\ (i > Len(Rows) => PrintT(ToJson([done |-> Len(Rows)])))
====================================================================================
