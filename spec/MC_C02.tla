---------------------------------- MODULE MC_C02 ----------------------------------
(* Bounded universe for C02.  The environment grows a T expression one recorded       *)
(* operation at a time (action Extend): every operation of the alphabet is tried after  *)
(* every prefix that succeeded, so each prefix "succeeds or fails" at every position;    *)
(* after a failure one more operation may be recorded (ExtendFailed) to check that the  *)
(* first failure is the one that surfaces.  pred holds the observable outcome the       *)
(* specification predicts for the expression recorded so far.                           *)
EXTENDS GlomT

CONSTANTS MaxOps,        \* length bound of successful prefixes that are extended
          Level          \* operand alphabet: 0 tiny (representatives), 1 reduced, 2 full

\* ---- the target heap (fixed): an attribute object, a list, a dict, a tuple --------------
Heap0 == <<
  Cell("obj", << <<VStr("n"), VInt(3)>>, <<VStr("z"), VInt(0)>>, <<VStr("m"), VInt(-2)>>,
                 <<VStr("s"), VStr("s")>>, <<VStr("l"), VRef(2)>>, <<VStr("d"), VRef(3)>>,
                 <<VStr("t"), VRef(4)>>, <<VStr("none"), VNone>>,
                 <<VStr("echo"), VFn("echo")>>, <<VStr("first"), VFn("first")>>,
                 <<VStr("boom"), VFn("boom")>>, <<VStr("seven"), VFn("seven")>> >>),
  Cell("list", <<VInt(1), VInt(2), VRef(3)>>),
  Cell("dict", << <<VStr("k"), VInt(5)>>, <<VStr("o"), VRef(1)>>, <<VInt(0), VStr("uv")>> >>),
  Cell("tuple", <<VInt(4), VRef(2)>>),
  \* a callable attribute object (calling it returns "called"); its attribute `none` is None, `n` is 3
  Cell("cobj", << <<VStr("none"), VNone>>, <<VStr("n"), VInt(3)>>, <<VStr("l"), VRef(2)>> >>) >>
Targets == {VRef(1), VRef(2), VRef(3), VRef(5), VInt(6), VInt(-3), VStr("s"), VNone}

O(op, arg) == [op |-> op, arg |-> arg]
TN == TArg(<<O(".", VStr("n"))>>)            \* T.n    (3 on the object, fails elsewhere)
TZ == TArg(<<O(".", VStr("z"))>>)            \* T.z    (0)
TK == TArg(<<O("[", Lit(VStr("k")))>>)       \* T['k'] (5 on the dict)
SN == SpecArg(<<O(".", VStr("n"))>>)         \* Spec(T.n)

AttrOps == {O(".", VStr(a)) : a \in {"n", "z", "s", "l", "d", "t", "echo", "first", "boom", "seven", "x", "none", "lazy"} \cup
                                     (IF Level >= 2 THEN {"m"} ELSE {})}
TL == TArg(<<O(".", VStr("l"))>>)            \* T.l    (a list on the object: unhashable as an index)
ItemArgs == {Lit(VInt(0)), Lit(VInt(-1)), Lit(VInt(5)), Lit(VStr("k")), Lit(VStr("x")), TN, TZ, TL,
             [a |-> "list", items |-> <<Lit(VStr("k"))>>],
             [a |-> "tuple", items |-> <<Lit(VInt(0))>>],          \* T[(0,)]: a one-element tuple is not its element
             SliceArg(VInt(0), VInt(1), VNone), SliceArg(VNone, VNone, VInt(-1)), SliceArg(VNone, VInt(0), VNone)} \cup
            (IF Level >= 2 THEN {Lit(VStr("o")), Lit(VNone), TK, SN, SliceArg(VInt(1), VNone, VNone),
                           SliceArg(VInt(-1), VInt(0), VInt(-1)), SliceArg(VNone, VInt(5), VInt(2)),
                           SliceArg(VNone, VNone, VInt(0))} ELSE {})
ItemOps == {O("[", a) : a \in ItemArgs}
NoKw == <<>>
CallOps == {O("(", [args |-> <<>>, kwargs |-> NoKw]),
            O("(", [args |-> <<Lit(VInt(1))>>, kwargs |-> NoKw]),
            O("(", [args |-> <<TN, Lit(VStr("lit"))>>, kwargs |-> NoKw]),
            O("(", [args |-> <<TK>>, kwargs |-> << <<"kw", TZ>> >>]),
            O("(", [args |-> << [a |-> "list", items |-> <<TN, Lit(VInt(2))>>] >>, kwargs |-> NoKw])} \cup
           (IF Level >= 2 THEN {O("(", [args |-> <<SN>>, kwargs |-> << <<"a", Lit(VNone)>>, <<"b", TN>> >>]),
                          O("(", [args |-> << [a |-> "dict", items |-> << <<Lit(VStr("q")), TN>> >>],
                                              [a |-> "tuple", items |-> <<TZ>>] >>, kwargs |-> NoKw]),
                          O("(", [args |-> <<Lit(VFn("seven")), Lit(VRef(1))>>, kwargs |-> NoKw])} ELSE {})
BinOps == {"+", "-", "*", "/", "#", "%", ":", "&", "|", "^"}
\* 1 and 1.0 are equal but different literals (int vs float): both must be replayed faithfully
BinArgs == {Lit(VInt(2)), Lit(VInt(0)), TN, Lit(VStr("s")), Lit(VInt(1)), Lit(VFrac(1, 1)),
            [a |-> "list", items |-> <<Lit(VInt(9))>>]} \cup
           (IF Level >= 2 THEN {Lit(VInt(-2)), Lit(VInt(3)), TZ, [a |-> "list", items |-> <<Lit(VInt(9))>>], Lit(VNone)} ELSE {})
ArithOps == {O(b, a) : b \in BinOps, a \in BinArgs} \cup {O("~", VNone), O("_", VNone)}
\* "lazy": the harness's object class defines it as a property whose getter raises AttributeError -- for the
\* expression that is an attribute that cannot be had, like "x"
TinyAttr == {O(".", VStr(a)) : a \in {"n", "l", "d", "echo", "boom", "x", "none", "lazy"}}
TinyItem == {O("[", a) : a \in {Lit(VInt(0)), Lit(VStr("k")), TN, TL, [a |-> "tuple", items |-> <<Lit(VInt(0))>>], SliceArg(VNone, VNone, VInt(-1)), SliceArg(VNone, VInt(0), VNone)}}
TinyArith == {O(b, a) : b \in {"+", "*", "#", "%", ":", "&"},
                        a \in {Lit(VInt(2)), Lit(VInt(0)), Lit(VFrac(1, 1)), TN, [a |-> "list", items |-> <<Lit(VInt(9))>>]}} \cup {O("~", VNone)}
Alphabet == IF Level = 0 THEN TinyAttr \cup TinyItem \cup CallOps \cup TinyArith
            ELSE AttrOps \cup ItemOps \cup CallOps \cup ArithOps
\* what may be recorded after the first failure (kept small: the outcome must not change)
AfterFail == {O(".", VStr("n")), O("[", Lit(VInt(0))), O("+", Lit(VInt(2))), O("(", [args |-> <<>>, kwargs |-> NoKw]),
              O("#", Lit(VInt(2)))}

VARIABLES target, ops, pred, failedAt
vars == <<target, ops, pred, failedAt>>

Init == /\ target \in Targets /\ ops = <<>> /\ failedAt = 0
        /\ pred = Outcome(Heap0, target, <<>>)
Extend ==
  /\ pred.ok /\ Len(ops) < MaxOps
  /\ \E o \in Alphabet :
       /\ ops' = Append(ops, o)
       /\ pred' = Outcome(Heap0, target, ops')
       /\ failedAt' = IF pred'.ok THEN 0 ELSE Len(ops')
  /\ UNCHANGED target
ExtendFailed ==
  /\ ~pred.ok /\ pred.err # "OUT_OF_MODEL" /\ failedAt = Len(ops)
  /\ \E o \in AfterFail :
       /\ ops' = Append(ops, o)
       /\ pred' = Outcome(Heap0, target, ops')
  /\ UNCHANGED <<target, failedAt>>
Next == Extend \/ ExtendFailed

\* ---- laws ---------------------------------------------------------------------------------
\* the first operation that fails is the one that surfaces, whatever is recorded after it
FirstFailureSurfaces == [][~pred.ok /\ pred.err # "OUT_OF_MODEL" => pred' = pred]_vars
\* a PathAccessError carries the position of the failing operation of the top-level expression,
\* unless it comes from a nested T argument (then it carries the position inside that argument)
IndexInRange == (~pred.ok /\ pred.err = "PathAccessError") => pred.idx \in 0..(Len(ops) - 1)
\* evaluating never modifies a pre-existing object
Purity == Pure(Heap0, target, ops)
\* compositionality: when the suffix records no nested T, evaluating it on the value of the
\* prefix gives the same outcome (the value reached by the prefix is all that matters)
NoNested(o) == /\ o.op \in {".", "P", "~", "_"} \/ (o.op # "(" /\ o.arg.a \in {"lit", "slice"})
Compositional ==
  \A m \in 0..Len(ops) :
    (\A j \in (m + 1)..Len(ops) : NoNested(ops[j])) =>
      LET p == TEval(Heap0, target, SubSeq(ops, 1, m)) IN
      p.out.ok => LET q == TEval(p.heap, p.out.v, SubSeq(ops, m + 1, Len(ops)))
                      whole == TEval(Heap0, target, ops) IN
                  /\ q.out.ok = whole.out.ok
                  /\ (q.out.ok => Canon(q.heap, q.out.v, Len(Heap0)) = Canon(whole.heap, whole.out.v, Len(Heap0)))
                  /\ (~q.out.ok /\ q.out.err = "PathAccessError" => whole.out.idx = q.out.idx + m /\ whole.out.exc = q.out.exc)
====================================================================================
