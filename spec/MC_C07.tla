---------------------------------- MODULE MC_C07 ----------------------------------
(* Bounded universe for C07: every placement of binders (S(x=..), A.x, Spec(scope={x}),  *)
(* A.globals.g) and readers (S.x, S.globals.g) over spec trees mixing tuple, Pipe, dict,    *)
(* Coalesce, Or, And, Switch, match-dict, Fill / Match wrappers, with always-failing leaves   *)
(* (so later alternatives run), x optionally also in the caller's scope.  The mechanism       *)
(* (ChainMap parents + chain_child re-parenting, GlomFrames!Resolve) must agree with the      *)
(* static visibility law for every reader.                                                    *)
EXTENDS GlomFrames

CONSTANTS MaxDepth, SecondDepth

L(k, a) == N(k, a, <<>>)
Leafs == {L("sbind", "x"), L("abind", "x"), L("read", "x"), L("fail", ""), L("gbind", "g"), L("gread", "g")}
Bin == {"tup", "pipe", "dict", "coal", "or", "and", "switch", "mdict"}
RECURSIVE Trees(_)
Trees(d) ==
  IF d = 0 THEN Leafs
  ELSE LET S == Trees(d - 1) IN
       Leafs \cup {N(k, "", <<a, b>>) : k \in Bin, a \in S, b \in S}
             \cup {N("spec", "x", <<a>>) : a \in S} \cup {N(m, "", <<a>>) : m \in {"fill", "match"}, a \in S}

RECURSIVE NoDict(_)
NoDict(t) == t.k \notin {"dict", "mdict"} /\ \A i \in 1..Len(t.c) : NoDict(t.c[i])
RECURSIVE WellModed(_, _)
WellModed(t, mode) ==
  /\ (t.k \in {"tup", "dict"} => mode # "MATCH")
  /\ (t.k = "mdict" => mode = "MATCH" /\ NoDict(t.c[1]))
  /\ \A i \in 1..Len(t.c) : WellModed(t.c[i], IF t.k \in {"auto", "fill", "match"} THEN ModeOf(t.k) ELSE mode)
RECURSIVE HasKind(_, _)
HasKind(t, ks) == t.k \in ks \/ \E i \in 1..Len(t.c) : HasKind(t.c[i], ks)

VARIABLES tree, caller, run, phase
vars == <<tree, caller, run, phase>>
Top == Trees(MaxDepth - 1)
Init == phase = 0 /\ tree = L("fail", "") /\ caller = FALSE /\ run = [log |-> <<>>, out |-> "none", acts |-> <<>>]
Pick ==
  /\ phase = 0 /\ phase' = 1
  /\ caller' \in BOOLEAN
  /\ \/ \E k \in Bin, a \in Top, b \in Trees(SecondDepth) : tree' = N(k, "", <<a, b>>) \/ tree' = N(k, "", <<b, a>>)
     \/ \E a \in Top : tree' = N("spec", "x", <<a>>) \/ tree' = N("fill", "", <<a>>) \/ tree' = N("match", "", <<a>>)
  /\ WellModed(tree', "AUTO")
  /\ HasKind(tree', {"read", "gread"}) /\ HasKind(tree', {"sbind", "abind", "spec", "gbind"})
  /\ LET r == Start(tree', <<>>, IF caller' THEN << <<"x", <<"c">> >> >> ELSE <<>>) IN
       run' = [log |-> r.st.log, out |-> r.out, acts |-> r.st.acts]
Next == Pick

\* ---- laws ---------------------------------------------------------------------------------------
\* what every S.x reader sees is what the static visibility rule says
VisibilityLaw ==
  phase = 1 => \A i \in 1..Len(run.log) :
     (run.log[i].what = "read" /\ NodeAt(tree, run.log[i].p).k = "read") => ReadAgrees(tree, run.log[i], "x", caller)
\* globals: a reader sees the latest A.globals.g executed before it in this call
GlobalsLaw ==
  phase = 1 => \A i \in 1..Len(run.log) :
     NodeAt(tree, run.log[i].p).k = "gread" => GlobalAgrees(run.acts, run.log[i], "g")
====================================================================================
