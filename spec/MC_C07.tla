---------------------------------- MODULE MC_C07 ----------------------------------
(* Bounded universe for C07: every placement of binders (S(x=..), A.x, Spec(scope={x}),  *)
(* A.globals.g) and readers (S.x, S.globals.g) over spec trees mixing tuple, Pipe, dict,    *)
(* Coalesce, Or, And, Switch, match-dict, Fill / Match wrappers, with always-failing leaves   *)
(* (so later alternatives run), x optionally also in the caller's scope.  The mechanism       *)
(* (ChainMap parents + chain_child re-parenting, GlomFrames!Resolve) must agree with the      *)
(* static visibility law for every reader.                                                    *)
EXTENDS GlomFrames

CONSTANTS MaxDepth, SecondDepth,
          Family     \* which binders / readers populate the trees: "scope" | "vars" | "ref" | "kw" | "deep"

L(k, a) == N(k, a, <<>>)
Leafs == CASE Family = "scope" -> {L("sbind", "x"), L("abind", "x"), L("read", "x"), L("fail", ""), L("gbind", "g"), L("gread", "g"), L("nest", "")}
           [] Family = "kw"    -> {L("sbind2", "x"), L("abind", "x"), L("nbind", "x"), L("read", "x"), L("read", "y"), L("fail", "")}
           [] Family = "vars"  -> {L("vbind", "v"), L("vset", "v"), L("vread", "v"), L("fail", "")}
           [] Family = "ref"   -> {L("refuse", "r"), L("mark", ""), L("fail", "")}
Unary == CASE Family = "scope" -> {<<"spec", "x">>, <<"fill", "">>, <<"match", "">>}
           [] Family = "kw"    -> {<<"spec", "x">>, <<"match", "">>}
           [] Family = "vars"  -> {<<"fill", "">>}
           [] Family = "ref"   -> {<<"refdef", "r">>}
Bin == {"tup", "pipe", "dict", "coal", "or", "and", "switch", "mdict"} \cup (IF Family = "kw" THEN {"mdict2"} ELSE {})
RECURSIVE Trees(_)
Trees(d) ==
  IF d = 0 THEN Leafs
  ELSE LET S == Trees(d - 1) IN
       Leafs \cup {N(k, "", <<a, b>>) : k \in Bin, a \in S, b \in S}
             \cup {N(u[1], u[2], <<a>>) : u \in Unary, a \in S}

RECURSIVE HasKindR(_, _)
HasKindR(t, ks) == t.k \in ks \/ \E i \in 1..Len(t.c) : HasKindR(t.c[i], ks)
RECURSIVE NoDict(_)
NoDict(t) == t.k \notin {"dict", "mdict", "mdict2"} /\ \A i \in 1..Len(t.c) : NoDict(t.c[i])
RECURSIVE WellModed(_, _)
WellModed(t, mode) ==
  /\ (t.k \in {"tup", "dict"} => mode # "MATCH")
  /\ (t.k \in {"mdict", "mdict2"} => mode = "MATCH" /\ NoDict(t.c[1]))
  /\ \A i \in 1..Len(t.c) : WellModed(t.c[i], IF t.k \in {"auto", "fill", "match"} THEN ModeOf(t.k) ELSE mode)
\* a definition never contains a use of a name (no unbounded recursion in this universe; recursion on
\* nested data is exercised by C03)
RECURSIVE NoSelfRef(_)
NoSelfRef(t) == (t.k = "refdef" => ~HasKindR(t.c[1], {"refuse"})) /\ \A i \in 1..Len(t.c) : NoSelfRef(t.c[i])
\* every Ref(name) use has a definition in scope (an unresolved Ref raises a plain KeyError, about
\* which the property says nothing): decided with the static visibility rule itself
RECURSIVE RefsResolved(_, _, _)
RefsResolved(root, t, p) ==
  /\ (t.k = "refuse" => VisibleFrom(root, p, "ref:" \o t.a) # <<0>>)
  /\ \A i \in 1..Len(t.c) : RefsResolved(root, t.c[i], Append(p, i))
RECURSIVE HasKind(_, _)
HasKind(t, ks) == t.k \in ks \/ \E i \in 1..Len(t.c) : HasKind(t.c[i], ks)

\* family "deep": the same lexical rule far from the small scope -- an outer binder, n1 wrapper levels, an inner
\* binder (or none), n2 more levels, the reader; each wrapper level is a scope frame of its own
RECURSIVE W(_, _)
W(n, t) == IF n = 0 THEN t ELSE N("auto", "", <<W(n - 1, t)>>)
DeepTrees ==
  {W(n0, N("pipe", "", <<L("sbind", "x"), W(n1, N("pipe", "", <<inner, W(n2, L("read", "x"))>>))>>))
     : n0 \in {0, 40}, n1 \in {0, 30}, n2 \in {0, 20, 70}, inner \in {L("sbind", "x"), L("abind", "x"), L("mark", "")}}
  \cup {W(n0, N("spec", "x", <<W(n1, N("pipe", "", <<inner, W(n2, L("read", "x"))>>))>>))
     : n0 \in {0, 40}, n1 \in {0, 30}, n2 \in {0, 70}, inner \in {L("sbind", "x"), L("mark", "")}}

VARIABLES tree, caller, run, phase
vars == <<tree, caller, run, phase>>
Top == Trees(MaxDepth - 1)
Init == phase = 0 /\ tree = L("fail", "") /\ caller = FALSE /\ run = [log |-> <<>>, out |-> "none", acts |-> <<>>]
Pick ==
  /\ phase = 0 /\ phase' = 1
  /\ caller' \in BOOLEAN
  /\ \/ Family # "deep" /\ \E k \in Bin, a \in Top, b \in Trees(SecondDepth) : tree' = N(k, "", <<a, b>>) \/ tree' = N(k, "", <<b, a>>)
     \/ Family # "deep" /\ \E a \in Top, u \in Unary : tree' = N(u[1], u[2], <<a>>)
     \/ Family = "deep" /\ tree' \in DeepTrees
  /\ WellModed(tree', "AUTO") /\ NoSelfRef(tree') /\ RefsResolved(tree', tree', <<>>)
  /\ (Family \notin {"scope", "deep"} => ~caller')
  /\ HasKind(tree', {"read", "gread", "vread", "refuse", "mark"}) /\ HasKind(tree', {"sbind", "abind", "spec", "gbind", "vbind", "refdef", "sbind2", "nbind"})
  /\ LET r == Start(tree', <<>>, IF caller' THEN << <<"x", <<"c">> >> >> ELSE <<>>) IN
       run' = [log |-> r.st.log, out |-> r.out, acts |-> r.st.acts]
Next == Pick

\* ---- laws ---------------------------------------------------------------------------------------
\* what every S.x reader sees is what the static visibility rule says
VisibilityLaw ==
  phase = 1 => \A i \in 1..Len(run.log) :
     (run.log[i].what = "read" /\ NodeAt(tree, run.log[i].p).k = "read") =>
         ReadAgrees(tree, run.log[i], NodeAt(tree, run.log[i].p).a, caller /\ NodeAt(tree, run.log[i].p).a = "x")
\* Ref(name) evaluates the nearest enclosing / chained definition
RefLaw == phase = 1 => \A i \in 1..Len(run.log) : run.log[i].what = "refuse" => RefAgrees(tree, run.log[i], "r")
\* Vars objects: fresh per evaluation of their binder, visible like any S binding, hold the latest assignment
VarsLaw == phase = 1 => \A i \in 1..Len(run.log) : run.log[i].what = "vread" => VarsAgrees(tree, run.acts, run.log[i], "v")
\* globals: a reader sees the latest A.globals.g executed before it in this call
GlobalsLaw ==
  phase = 1 => \A i \in 1..Len(run.log) :
     NodeAt(tree, run.log[i].p).k = "gread" => GlobalAgrees(run.acts, run.log[i], "g")
====================================================================================
