---------------------------------- MODULE MC_C14 ----------------------------------
(* Bounded universe for C14 (wildcards).  Phase 0: the environment picks a target graph  *)
(* -- every graph over two or three cells of the container classes with up to two slots  *)
(* each, which contains all DAG shapes (shared children), self-cycles and mutual cycles -- *)
(* or one of a family of hand-written graphs with sets, tuples, strings, attribute objects *)
(* and a mapping whose element access raises.  Phase 1: it picks a path with 0-3 wildcards *)
(* at every position.  pred = GlomT!Outcome.                                             *)
EXTENDS GlomT

CONSTANTS MaxPath, NCells

Classes == {"dict", "list", "obj"}
SlotVals == {VInt(1)} \cup {VRef(a) : a \in 1..NCells}
Slots == {<<>>} \cup {<<v>> : v \in SlotVals} \cup {<<v, w>> : v \in SlotVals, w \in SlotVals}
MkCell(cls, vals) ==
  IF cls = "list" THEN Cell("list", vals)
  ELSE Cell(cls, [i \in 1..Len(vals) |-> <<IF i = 1 THEN VStr("a") ELSE VStr("b"), vals[i]>>])

Family == {
  \* diamond with a back edge through an attribute object (cycle of length 3)
  << Cell("dict", << <<VStr("a"), VRef(2)>>, <<VStr("b"), VRef(2)>> >>),
     Cell("list", <<VRef(3), VInt(1)>>),
     Cell("obj", << <<VStr("a"), VRef(1)>> >>) >>,
  \* sets, tuples, strings (strings are not traversed), nested list
  << Cell("obj", << <<VStr("a"), VRef(2)>>, <<VStr("b"), VStr("uv")>>, <<VStr("c"), VRef(3)>>, <<VStr("d"), VSent("BY")>> >>),      \* BY: a bytes value, a leaf like a string
     Cell("set", <<VInt(1)>>),
     Cell("tuple", <<VInt(2), VRef(4)>>),
     Cell("list", <<VRef(2), VRef(5)>>),
     Cell("frozenset", <<>>) >>,
  \* element access that raises for key "b"
  << Cell("baddict", << <<VStr("a"), VInt(1)>>, <<VStr("b"), VInt(2)>>, <<VStr("c"), VRef(2)>> >>),
     Cell("list", <<VRef(1), VRef(3)>>),
     Cell("dict", << <<VStr("a"), VRef(1)>>, <<VStr("b"), VInt(3)>> >>) >>,
  \* list of records: the documented use  '*.a'  /  '**.a'
  << Cell("list", <<VRef(2), VRef(3), VInt(7), VRef(2)>>),
     Cell("dict", << <<VStr("a"), VInt(1)>>, <<VStr("b"), VRef(4)>> >>),
     Cell("obj", << <<VStr("a"), VRef(4)>> >>),
     Cell("list", <<VRef(3)>>) >>,
  \* an OrderedDict (the harness builds it so that its own order differs from the raw order of the
  \* underlying dict, as after move_to_end): children in ITS order
  << Cell("odict", << <<VStr("b"), VRef(2)>>, <<VStr("a"), VInt(5)>>, <<VStr("c"), VRef(3)>> >>),
     Cell("list", <<VInt(1), VRef(3)>>),
     Cell("odict", << <<VStr("a"), VInt(7)>>, <<VStr("0"), VInt(8)>> >>) >>,
  \* a list subclass whose iteration raises part-way (at the item "!"): what it produced before
  \* the failure are its children, what lies behind is not reached (cell 4 only through cell 5)
  << Cell("dict", << <<VStr("a"), VRef(2)>>, <<VStr("b"), VRef(3)>> >>),
     Cell("badlist", <<VRef(3), VInt(1), VStr("!"), VRef(4)>>),
     Cell("list", <<VInt(5), VRef(2), VRef(5)>>),
     Cell("dict", << <<VStr("a"), VInt(9)>> >>),
     Cell("badlist", <<VStr("!"), VRef(4)>>) >>,
  \* ... as the root, and failing only after the last item / holding nothing but the failure
  << Cell("badlist", <<VRef(2), VRef(3), VRef(2), VStr("!")>>),
     Cell("dict", << <<VStr("a"), VRef(1)>>, <<VStr("b"), VInt(3)>> >>),
     Cell("badlist", <<VStr("!")>>) >> }

O(op, arg) == [op |-> op, arg |-> arg]
StepSet == {O("x", VNone), O("X", VNone), O("P", VStr("a")), O("P", VStr("0")), O("P", VStr("b")),
            O("[", Lit(VInt(0))), O("[", Lit(VStr("b"))), O(".", VStr("a"))}
SeqsUpTo(S, n) == UNION {[1..m -> S] : m \in 0..n}

VARIABLES heap, root, ops, pred, phase
vars == <<heap, root, ops, pred, phase>>

Init ==
  /\ \/ \E cls \in [1..NCells -> Classes] : \E sl \in [1..NCells -> Slots] :
          heap = [a \in 1..NCells |-> MkCell(cls[a], sl[a])]
     \/ heap \in Family
  /\ root = VRef(1) /\ ops = <<>> /\ phase = 0
  /\ pred = Outcome(heap, root, <<>>)
Evaluate ==
  /\ phase = 0 /\ phase' = 1 /\ UNCHANGED <<heap, root>>
  /\ ops' \in SeqsUpTo(StepSet, MaxPath) /\ Stars(ops') >= 1
  /\ pred' = Outcome(heap, root, ops')
Next == Evaluate

\* ---- laws -------------------------------------------------------------------------------
\* every wildcard adds exactly one level of fresh list nesting: with d wildcards recorded the
\* result is a fresh list whose entries are results with d-1 levels, ..., and at level 0 the
\* entries are values of the target (never fresh lists: no step of this universe builds one)
RECURSIVE Nest(_, _)
Nest(v, d) ==
  IF d = 0 THEN ~(v.k = "new" /\ v.cls = "list")
  ELSE v.k = "new" /\ v.cls = "list" /\ \A j \in 1..Len(v.items) : Nest(v.items[j], d - 1)
OneLevelPerWildcard == (phase = 1 /\ pred.ok) => Nest(pred.v, Stars(ops))
\* a path with a wildcard never fails with a PathAccessError for what follows the wildcard
MissesTolerated == (phase = 1 /\ ~pred.ok /\ pred.err = "PathAccessError") =>
                      \A j \in 1..(pred.idx + 1) : ops[j].op \notin {"x", "X"}
\* ** terminates and expands every container once: the number of entries is bounded by
\* 1 + the total number of children of all cells
TotalChildren == LET S(a) == Len(ChildrenX(heap, VRef(a))) IN
                 LET RECURSIVE Sum(_)
                     Sum(a) == IF a = 0 THEN 0 ELSE S(a) + Sum(a - 1)
                 IN Sum(Len(heap))
ExpandedOnce == Len(Descendants(heap, root)) <= 1 + TotalChildren
Purity == Pure(heap, root, ops)
====================================================================================
