--------------------------------- MODULE GlomRepr ---------------------------------
(* C18: T expressions and Paths as values.                                           *)
(*  (1) a Path is an immutable sequence of its steps: the reference semantics of      *)
(*      len / indexing / slicing / concatenation / values / items / equality /         *)
(*      startswith are the operations on the TLA+ sequence of steps (Python tuple      *)
(*      semantics: negative indices, IndexError out of range, slice clamping, steps). *)
(*  (2) repr and pickle are faithful: the reconstructed object records the same        *)
(*      operations, hence (GlomT!Outcome) evaluates identically on every target.       *)
(*      This module states (2) as: Rebuild(ops) = ops for the structural encoding the  *)
(*      harness extracts from the reconstructed object; the evaluation side re-uses    *)
(*      GlomT!Outcome so "evaluates identically" is decided by the same law as C02.    *)
EXTENDS GlomT

\* ---- (1) sequence semantics ---------------------------------------------------------
SeqLen(steps) == Len(steps)
\* p[i]  ->  the one-step path, IndexError when out of range (like a tuple)
SeqIndex1(steps, i) ==
  LET n == Len(steps) IN
  IF i >= 0 /\ i < n THEN [ok |-> TRUE, steps |-> <<steps[i + 1]>>]
  ELSE IF i < 0 /\ i >= -n THEN [ok |-> TRUE, steps |-> <<steps[n + i + 1]>>]
  ELSE [ok |-> FALSE, steps |-> <<>>]
\* p[lo:hi:st]  (st # 0)
SeqSlice(steps, sl) ==
  LET ix == SliceIndices(Len(steps), sl) IN [j \in 1..Len(ix) |-> steps[ix[j] + 1]]
SeqConcat(p, q) == p \o q
SeqStartsWith(p, q) == Len(q) <= Len(p) /\ SubSeq(p, 1, Len(q)) = q
\* is the slice "in range" in the sense of the property (explicit bounds within -n..n)
InRange(n, sl) == /\ (sl.lo.k = "int" => sl.lo.i \in (-n)..n)
                  /\ (sl.hi.k = "int" => sl.hi.i \in (-n)..n)
====================================================================================
