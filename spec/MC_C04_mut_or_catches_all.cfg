\* spec mutant: the mechanism variant "or_catches_all" (see GlomErrors.tla) must violate a law
CONSTANTS
  Mutant = "or_catches_all"
  MinDepth = 0
  MaxDepth = 1
  Rich = TRUE
  KwMode = "full"
INIT Init
NEXT Next
INVARIANT CatalogueOK
INVARIANT VerdictConsistent
INVARIANT InvClassKept
INVARIANT InvGlomIfRebuildable
INVARIANT InvSubtype
INVARIANT InvDefaultSelective
INVARIANT InvDebug
INVARIANT InvBase
INVARIANT CreatedAreDocumented
PROPERTY PassThroughLaw
CHECK_DEADLOCK FALSE
