INIT Init
NEXT Next
CONSTANT U <- TraceUniverse
CONSTANTS
  Ops = {"get", "iterate", "keys", "assign", "delete"}
  Mutant = ""
CONSTRAINT Check
CHECK_DEADLOCK FALSE
