INIT Init
NEXT Next
CONSTANT U <- TraceUniverse
CONSTANTS
  Ops = {"get", "iterate", "keys", "assign", "delete", "cauto", "cplain"}
  Mutant = ""
CONSTRAINT Check
CHECK_DEADLOCK FALSE
