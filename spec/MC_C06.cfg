SPECIFICATION Spec
CONSTANTS
  Pool <- C06Pool
  NProcs = 1
  MaxCache = 1
  MaxCalls = 100
  Gates = {}
  ToggleAnytime = FALSE
  RegisterAnytime = FALSE
  RecHist = TRUE
CONSTRAINT Bound
INVARIANT NonInterference
INVARIANT ObservesOnlyItself
INVARIANT OnlyCachesShared
INVARIANT NoUnmodelled
INVARIANT PathCacheCoherent
INVARIANT TypeCacheCoherent
INVARIANT PathCacheBounded
PROPERTY FrameCondition
CHECK_DEADLOCK FALSE
