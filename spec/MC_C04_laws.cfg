\* every law of C04; run with Fix = TRUE (mechanism with the candidate repairs: must hold),
\* with Fix = FALSE (faithful mechanism: ClassKept is violated = the recorded defects) and
\* with each Mutant (must be violated)
INIT Init
NEXT Next
INVARIANT CatalogueOK
INVARIANT VerdictConsistent
INVARIANT InvClassKept
INVARIANT InvGlomIfRebuildable
INVARIANT InvSubtype
INVARIANT InvDefaultSelective
INVARIANT InvDebug
INVARIANT InvBase
INVARIANT CreatedAreDocumented
PROPERTY PassThroughLaw
CHECK_DEADLOCK FALSE
