INIT Init
NEXT NextCases
INVARIANT NoEarlyWrite
INVARIANT AttachLast
INVARIANT FactoryLaw
INVARIANT Outcome
INVARIANT SpecCarriesNothing
INVARIANT NeverReplaced
INVARIANT ReadBack
CHECK_DEADLOCK FALSE
