\* main configuration: mechanism |= law (no exemptions), memo coherence,
\* isolation, fresh Glommer = pristine default.  bin/check overrides the bounds per tier.
SPECIFICATION Spec
CONSTANT U <- MCUniverse
CONSTANTS
  Ops = {"get", "keys"}
  Mutant = ""
  FamNames = {"chain", "diamond", "mixin", "builtins", "slots", "ducks", "objroot"}
  RegSets = {{"default"}, {"g1"}, {"g2"}}
  Dynamic = FALSE
  MaxReg = 2
  MaxLook = 1
  MaxNew = 0
  KwChoices = {{"get", "keys"}, {"get"}}
  LookOps = {"get", "keys"}
  OffChoices = {{}}
  Stars = FALSE
  XOps = {}
  ReReg = FALSE
  AllOrders = FALSE
  PrintUniverse = FALSE
  PosObject = 1
  PosList = 2
  PosOD = 3
  PosDict = 4
  PosTuple = 5
  PosOSK = 6
  PosAI = 7
INVARIANT Nearest
INVARIANT HandedOut
INVARIANT FreshGlommer
INVARIANT Coherent
INVARIANT TreeOK
INVARIANT Untouched
PROPERTY Isolation
CHECK_DEADLOCK FALSE
