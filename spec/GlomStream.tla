--------------------------------- MODULE GlomStream ---------------------------------
(* C17  Iter pipelines equal the itertools composition, stay lazy, never mutate specs *)
(*                                                                                     *)
(* Part A (definitional, the LAW): every stage kind as a function on *stream prefixes*  *)
(*   [xs, fin, bad]: the items determined so far, whether the end is determined, and    *)
(*   whether a Python type error is possible (ill-typed pipelines are outside the law).  *)
(*   Out(pipe, prefix, ended) is their composition in chaining order; Demand(k) is the   *)
(*   least number of source events (items, then END) after which k consumer events are   *)
(*   determined; DemandLA adds the bounded look-ahead the documentation of the           *)
(*   underlying itertools / boltons functions allows a buffering stage.                  *)
(* Part B (mechanism): the pull machine - one little demand loop per stage, transcribed  *)
(*   from itertools.islice/takewhile/dropwhile/chain, map, filter, boltons chunked_iter  *)
(*   / windowed_iter / split_iter / unique_iter and Iter._iterate; actions ConsumerPull, *)
(*   StagePull(i), Emit(i), End(i), Prefill(i)/Build(i) (construction in Iter.glomit).   *)
(* Part C (mechanism): the builder machine - Derive(o, method) on a store of spec        *)
(*   objects whose mutable parts (the _iter_stack list, the _cur_kwargs dict) live in     *)
(*   addressable cells, so that aliasing and in-place mutation are expressible.          *)
(* The laws that relate B and C to A are stated at the end of each part and checked by   *)
(* TLC in MC_C17; Trace_C17 re-uses A and B on executions recorded from the real code.   *)
EXTENDS GlomData

CONSTANTS DefMutant,         \* "none" | "first_or_default"                        (mutant of the definition, A)
          PullMutant,        \* "none" | "reverse" | "takewhile_drain" | "tkey_called" | "check_passes" |
                             \* "sepfn_ignored" | "skey_unscoped" | "filter_ne" | "unique_identity" | "flatten_skips_falsy"
                             \*                                                   (mechanism mutants, B)
          BuildMutant        \* "none" | "inplace" | "sharekw" | "dropsentinel"    (mechanism mutants, C;
                             \*   "dropsentinel" = _add_op as it was before commit 54a8dd1)

INF == 999                   \* "not determined inside the horizon"

\* =====================================================================================
\* values travelling through a stream: ints, None, SKIP/STOP, and (nested) lists / tuples
\* =====================================================================================
VList(xs)  == [k |-> "list",  items |-> xs]
VTuple(xs) == [k |-> "tuple", items |-> xs]
\* flist: an instance of a list subclass whose __bool__ is False although it holds data (a truth test is
\* neither an emptiness nor a None test).  Booleans are items too: True / False are equal to 1 / 0 (==, hash)
\* but are not the same objects.
VFList(xs) == [k |-> "flist", items |-> xs]
IsSeqV(v)  == v.k \in {"list", "tuple", "flist"}

\* two "hostile" items whose own notion of equality must never matter to a pipeline:
\*   any  : compares equal to everything (mock.ANY-like: == is True, != is False), truthy, unhashable
\*   null : every comparison yields the (falsy) object itself, falsy, unhashable
VAny  == [k |-> "any"]
VNull == [k |-> "null"]
\* truth value of Python's  a == b  for a stream item a and a plain value b (a.__eq__ decides)
\* Python equality of plain values: bool ~ int, a list subclass equals the list with the same items
RECURSIVE Norm(_)
Norm(v) == CASE v.k = "bool" -> VInt(IF v.b THEN 1 ELSE 0)
             [] v.k \in {"list", "flist"} -> VList([j \in 1..Len(v.items) |-> Norm(v.items[j])])
             [] v.k = "tuple" -> VTuple([j \in 1..Len(v.items) |-> Norm(v.items[j])])
             [] OTHER -> v
PyEq(a, b) == IF a.k = "any" THEN TRUE ELSE IF a.k = "null" THEN FALSE ELSE Norm(a) = Norm(b)

Truthy(v) == CASE v.k = "int"  -> v.i # 0
               [] v.k = "none" -> FALSE
               [] v.k = "null" -> FALSE
               [] v.k = "sent" -> FALSE            \* glom's sentinels are falsy
               [] v.k = "bool" -> v.b
               [] v.k = "flist" -> FALSE
               [] v.k \in {"list", "tuple"} -> v.items # <<>>
               [] OTHER        -> TRUE

RECURSIVE Hashable(_)
Hashable(v) == CASE v.k \in {"list", "flist", "any", "null"} -> FALSE
                 [] v.k = "tuple" -> \A j \in 1..Len(v.items) : Hashable(v.items[j])
                 [] OTHER         -> TRUE

\* the fixed library of functions.  A stage key / subspec is a *glom spec*: the same function may be
\* spelled as a Python callable (plain name), a T expression (_T: T[0], T.count(0)), a path string
\* (_str: '0'), a tuple chain (_tup: (T, fn)), Spec(..) (_spec) or, for filter, a Check (_check:
\* Check(validate=fn, default=SKIP)) or a spec reading the *scope of the running call* (_S:
\* Invoke(f).specs(T, S.cut), with cut = 2 / one = 1 passed by the caller via scope= or bound by S(..) earlier
\* in the same spec).  The law does not depend on the spelling.
BaseFn(f) ==
  CASE f \in {"item0_T", "item0_str", "item0_spec"} -> "item0"
    [] f = "cnt0_T" -> "cnt0"
    [] f \in {"inc_tup", "inc_spec", "inc_S"} -> "inc"
    [] f \in {"mod2_tup", "mod2_S"} -> "mod2"
    [] f \in {"lt2_tup", "lt2_spec", "lt2_check", "lt2_S"} -> "lt2"
    [] f = "odd_spec" -> "odd"
    [] OTHER -> f
Spelling(f) ==
  CASE f \in {"item0_T", "cnt0_T"} -> "T"
    [] f = "item0_str" -> "str"
    [] f \in {"inc_tup", "mod2_tup", "lt2_tup"} -> "tup"
    [] f \in {"item0_spec", "inc_spec", "lt2_spec", "odd_spec"} -> "spec"
    [] f = "lt2_check" -> "check"
    [] f \in {"inc_S", "mod2_S", "lt2_S"} -> "S"
    [] OTHER -> "plain"
\* value functions (total on the item universe except item0 / cnt0, see FnRaises)
ApplyBase(g, v) ==
  CASE g = "T"        -> v
    [] g = "inc"      -> IF v.k = "int" THEN VInt(v.i + 1) ELSE v
    [] g = "skip_odd" -> IF v.k = "int" /\ v.i % 2 = 1 THEN SKIP ELSE v
    [] g = "stop_at2" -> IF v = VInt(2) THEN STOP ELSE v
    [] g = "dup"      -> VList(<<v, v>>)
    [] g = "mod2"     -> IF v.k = "int" THEN VInt(v.i % 2) ELSE v
    [] g = "item0"    -> IF IsSeqV(v) /\ v.items # <<>> THEN v.items[1] ELSE VNone      \* x[0]
    [] g = "cnt0"     -> IF IsSeqV(v) THEN VInt(Cardinality({j \in 1..Len(v.items) : PyEq(v.items[j], VInt(0))}))
                         ELSE VNone                                                      \* x.count(0)
ApplyFn(f, v) == ApplyBase(BaseFn(f), v)
\* the function raises on this item (such pipelines are ill-typed: outside the law)
FnRaises(f, v) ==
  LET g == BaseFn(f) IN
  CASE g = "item0" -> ~(IsSeqV(v) /\ v.items # <<>>)
    [] g = "cnt0"   -> ~IsSeqV(v)
    [] OTHER -> FALSE
\* predicates proper; any value function is a predicate too, through the truth value of its result
PredNames == {"lt2", "odd", "notnone", "even", "isempty"}
PredBase(g, v) ==
  CASE g = "lt2"     -> v.k = "int" /\ v.i < 2
    [] g = "odd"     -> v.k = "int" /\ v.i % 2 = 1
    [] g = "notnone" -> v # VNone                       \* lambda x: x is not None
    [] g = "even"    -> v.k = "int" /\ v.i % 2 = 0
    [] g = "isempty" -> IsSeqV(v) /\ v.items = <<>>     \* an empty list / tuple
PredFn(p, v) == LET g == BaseFn(p) IN IF g \in PredNames THEN PredBase(g, v) ELSE Truthy(ApplyBase(g, v))

\* ---- stages (uniform record so that TLC sets and JSON rows share one shape) -------------
\*   base      f = subspec, v = sentinel (STOP when not given), b = 1 iff sentinel= was passed
\*   map       f            filter / takewhile / dropwhile   f = predicate      unique  f = key
\*   slice     a = start, b = stop (-1 = None), c = step, f = "slice" | "limit" | "slice1" (spelling:
\*             slice(a, b[, c]) | limit(b) | slice(b))
\*   chunked   a = size, b = 1 iff fill given, v = fill      windowed  a = size
\*   split     f = "none" | "scalar" | "set" | "fn" (kind of sep), v = the separator (for "fn": the name of a
\*             predicate, as a string value), b = maxsplit (-1 = None)
\*   flatten
Stage(kind, f, a, b, c, v) == [kind |-> kind, f |-> f, a |-> a, b |-> b, c |-> c, v |-> v]
BaseStage(sub, sent, given) == Stage("base", sub, 0, IF given THEN 1 ELSE 0, 0, sent)

\* =====================================================================================
\* Part A.  the reference: each stage as a function on stream prefixes
\* =====================================================================================
Stream(xs, fin, bad) == [xs |-> xs, fin |-> fin, bad |-> bad]     \* fin \in {"more", "end"}

RECURSIVE BaseRun(_, _, _, _)
BaseRun(st, xs, i, acc) ==          \* Iter(subspec, sentinel=): SKIP drops, STOP / sentinel ends
  IF i > Len(xs) THEN [out |-> acc, stopped |-> FALSE]
  ELSE LET y == ApplyFn(st.f, xs[i]) IN
       IF y = SKIP THEN BaseRun(st, xs, i + 1, acc)
       ELSE IF y = st.v \/ y = STOP THEN [out |-> acc, stopped |-> TRUE]
       ELSE BaseRun(st, xs, i + 1, Append(acc, y))

RECURSIVE FirstFail(_, _, _)
FirstFail(p, xs, i) == IF i > Len(xs) \/ ~PredFn(p, xs[i]) THEN i ELSE FirstFail(p, xs, i + 1)

SliceSelected(st, i0) == i0 >= st.a /\ (st.b = -1 \/ i0 < st.b) /\ (i0 - st.a) % st.c = 0
SliceNextSel(st, n) == IF n <= st.a THEN st.a ELSE st.a + (((n - st.a) + st.c - 1) \div st.c) * st.c

Pad(st, rem) == IF st.b = 1 THEN rem \o [j \in 1..(st.a - Len(rem)) |-> st.v] ELSE rem

IsSep(st, s) == CASE st.f = "none" -> PyEq(s, VNone)         \* split_iter tests  x == sep
                  [] st.f = "fn" -> PredFn(st.v.s, s)         \* a callable separator
                  [] OTHER -> PyEq(s, st.v)
RECURSIVE SplitRun(_, _, _, _, _, _)
SplitRun(st, xs, i, cur, cnt, acc) ==     \* str.split for iterables (boltons split_iter docs)
  IF i > Len(xs) THEN [acc |-> acc, cur |-> cur]
  ELSE LET s == xs[i]
           active == st.b = -1 \/ cnt < st.b
       IN IF active /\ IsSep(st, s)
          THEN IF st.f = "none" /\ cur = <<>> THEN SplitRun(st, xs, i + 1, cur, cnt, acc)
               ELSE SplitRun(st, xs, i + 1, <<>>, cnt + 1, Append(acc, VList(cur)))
          ELSE SplitRun(st, xs, i + 1, Append(cur, s), cnt, acc)

InSeq(x, sq) == \E j \in 1..Len(sq) : sq[j] = x
RECURSIVE UniqRun(_, _, _, _, _)
UniqRun(f, xs, i, seen, acc) ==
  IF i > Len(xs) THEN acc
  ELSE LET k == ApplyFn(f, xs[i]) IN
       IF InSeq(Norm(k), seen) THEN UniqRun(f, xs, i + 1, seen, acc)      \* membership is ==/hash: 1, True agree
       ELSE UniqRun(f, xs, i + 1, Append(seen, Norm(k)), Append(acc, xs[i]))

RECURSIVE Concat(_, _)
Concat(xs, i) == IF i > Len(xs) THEN <<>>
                 ELSE (IF IsSeqV(xs[i]) THEN xs[i].items ELSE <<>>) \o Concat(xs, i + 1)

StageFn(st, X) ==
  LET xs == X.xs n == Len(xs)
      raises == \E j \in 1..n : FnRaises(st.f, xs[j])        \* (only meaningful for stages with a key)
  IN
  CASE st.kind = "base" ->
         LET r == BaseRun(st, xs, 1, <<>>) IN Stream(r.out, IF r.stopped THEN "end" ELSE X.fin, X.bad \/ raises)
    [] st.kind = "map" ->
         \* SKIP / STOP are control values: a pipeline in which the SKIP or STOP object itself travels on as an
         \* ordinary stream item (a .map function produced it; map is plain map and does not interpret it) is
         \* outside the contract, hence flagged like an ill-typed one
         Stream([j \in 1..n |-> ApplyFn(st.f, xs[j])], X.fin,
                X.bad \/ raises \/ \E j \in 1..n : ApplyFn(st.f, xs[j]).k = "sent")
    [] st.kind = "filter" -> Stream(SelectSeq(xs, LAMBDA v : PredFn(st.f, v)), X.fin, X.bad \/ raises)
    [] st.kind = "slice" ->
         LET idx == SelectSeq([j \in 1..n |-> j], LAMBDA j : SliceSelected(st, j - 1)) IN
         Stream([j \in 1..Len(idx) |-> xs[idx[j]]],
                IF st.b # -1 /\ SliceNextSel(st, n) >= st.b THEN "end" ELSE X.fin, X.bad)
    [] st.kind = "takewhile" ->
         LET j == FirstFail(st.f, xs, 1) IN
         IF j <= n THEN Stream(SubSeq(xs, 1, j - 1), "end", X.bad \/ raises) ELSE Stream(xs, X.fin, X.bad \/ raises)
    [] st.kind = "dropwhile" ->
         LET j == FirstFail(st.f, xs, 1) IN Stream(SubSeq(xs, j, n), X.fin, X.bad \/ raises)
    [] st.kind = "chunked" ->
         LET nf == n \div st.a
             full == [j \in 1..nf |-> VList(SubSeq(xs, (j - 1) * st.a + 1, j * st.a))]
             rem == SubSeq(xs, nf * st.a + 1, n)
         IN Stream(IF X.fin = "end" /\ rem # <<>> THEN Append(full, VList(Pad(st, rem))) ELSE full,
                   X.fin, X.bad)
    [] st.kind = "windowed" ->
         Stream(IF n >= st.a THEN [j \in 1..(n - st.a + 1) |-> VTuple(SubSeq(xs, j, j + st.a - 1))] ELSE <<>>,
                X.fin, X.bad)
    [] st.kind = "split" ->
         LET r == SplitRun(st, xs, 1, <<>>, 0, <<>>) IN
         Stream(IF X.fin = "end" /\ (r.cur # <<>> \/ st.f # "none") THEN Append(r.acc, VList(r.cur)) ELSE r.acc,
                X.fin, X.bad \/ (st.f = "set" /\ \E j \in 1..n : ~Hashable(xs[j])))
    [] st.kind = "unique" ->
         Stream(UniqRun(st.f, xs, 1, <<>>, <<>>), X.fin,
                X.bad \/ raises \/ \E j \in 1..n : ~Hashable(ApplyFn(st.f, xs[j])))
    [] st.kind = "flatten" ->
         Stream(Concat(xs, 1), X.fin, X.bad \/ \E j \in 1..n : ~IsSeqV(xs[j]))

\* all intermediate streams: AllStreams(pipe, X0)[i + 1] = stream after stage i  (pipe[1] = base)
RECURSIVE AllStreams(_, _)
AllStreams(pipe, X0) ==
  IF pipe = <<>> THEN <<X0>>
  ELSE LET front == AllStreams(SubSeq(pipe, 1, Len(pipe) - 1), X0) IN
       Append(front, StageFn(pipe[Len(pipe)], front[Len(front)]))

Out(pipe, prefix, ended) ==
  LET XS == AllStreams(pipe, Stream(prefix, IF ended THEN "end" ELSE "more", FALSE)) IN XS[Len(XS)]

\* ---- sources --------------------------------------------------------------------------
\* [kind "fin", items] | [kind "count", items <<>>] | [kind "cyc", items]   (the last two infinite)
SrcHas(srcd, n) == srcd.kind # "fin" \/ n <= Len(srcd.items)
SrcItem(srcd, n) == CASE srcd.kind = "fin" -> srcd.items[n]
                      [] srcd.kind = "count" -> VInt(n - 1)
                      [] srcd.kind = "cyc" -> srcd.items[((n - 1) % Len(srcd.items)) + 1]
SrcStream(srcd, horizon) ==
  IF srcd.kind = "fin" THEN Stream(srcd.items, "end", FALSE)
  ELSE Stream([n \in 1..horizon |-> SrcItem(srcd, n)], "more", FALSE)

\* ---- events, demand ---------------------------------------------------------------------
\* a stream is consumed as events: its items, then END.  Ev = number of determined events.
Ev(X) == Len(X.xs) + (IF X.fin = "end" THEN 1 ELSE 0)
PrefixEv(X, n) == IF n <= Len(X.xs) THEN Stream(SubSeq(X.xs, 1, n), "more", FALSE)
                  ELSE Stream(X.xs, "end", FALSE)
\* EvTable(st, X)[n] = events stage st has determined after n events of its input X
EvTable(st, X) == [n \in 0..Ev(X) |-> Ev(StageFn(st, PrefixEv(X, n)))]
\* NeedTable(st, X)[e] = least number of input events after which stage st has determined e events
\* (one sweep over the event table: position n answers every e in tab[n-1]+1 .. tab[n])
RECURSIVE NeedSweep(_, _, _, _)
NeedSweep(tab, top, n, acc) ==
  IF n > top THEN acc
  ELSE NeedSweep(tab, top, n + 1, IF tab[n] > Len(acc) THEN acc \o [j \in 1..(tab[n] - Len(acc)) |-> n] ELSE acc)
NeedTable(st, X) == NeedSweep(EvTable(st, X), Ev(X), 0, <<>>)
Need(ntab, e) == IF e = 0 THEN 0 ELSE IF e <= Len(ntab) THEN ntab[e] ELSE INF

\* what the underlying functions are documented to read ahead of what they return:
\* windowed_iter fills its window (size - 1) when created; islice consumes its input up to
\* max(start, stop) (itertools docs: zip(range(max(start, stop)), iterable)), i.e. up to step - 1
\* items past the last selected one, and start items when nothing is selected
LookAhead(st) == CASE st.kind = "windowed" -> st.a - 1
                   [] st.kind = "slice" -> IF st.b # -1 /\ st.a >= st.b THEN st.a ELSE st.c - 1
                   [] OTHER -> 0
CapEv(X, n) == IF n <= Ev(X) THEN n ELSE IF X.fin = "end" THEN Ev(X) ELSE INF

RECURSIVE DemandDown(_, _, _, _, _, _)
DemandDown(pipe, XS, tabs, i, e, la) ==    \* e events wanted from the stream after stage i
  IF e = INF THEN INF
  ELSE IF i = 0 THEN e
  ELSE LET n0 == Need(tabs[i], e)
           n1 == IF n0 = INF THEN INF ELSE IF la THEN CapEv(XS[i], n0 + LookAhead(pipe[i])) ELSE n0
       IN DemandDown(pipe, XS, tabs, i - 1, n1, la)

ConsumerEvents(XM, k) == CapEv(XM, k)      \* k calls of next(), stopping at END

\* ---- the prediction record for one (pipe, source): everything the law says ---------------
\* the (key, default) pairs of first() that are predicted for every case; [p "T", d None] is first()
\* (falsy defaults on purpose: a default is returned as it is, whatever its truth value)
FirstVariants == << [p |-> "T", d |-> VNone], [p |-> "notnone", d |-> VInt(7)], [p |-> "even", d |-> VList(<<>>)],
                    [p |-> "isempty", d |-> VInt(0)], [p |-> "item0_T", d |-> VInt(7)], [p |-> "lt2_S", d |-> VInt(7)] >>
RECURSIVE FirstTrue(_, _, _)
FirstTrue(p, xs, i) == IF i > Len(xs) THEN 0 ELSE IF PredFn(p, xs[i]) THEN i ELSE FirstTrue(p, xs, i + 1)

\* (bound variables of a set constructor hold evaluated values: the streams and the event
\*  tables are computed once per case, whatever TLC's LET caching does)
The(S) == CHOOSE r \in S : TRUE
CutTo(xs, ended, kmax) == IF ended THEN xs ELSE SubSeq(xs, 1, IF Len(xs) < kmax THEN Len(xs) ELSE kmax)
PredictWith(pipe, kmax, XS, tabs) ==
  LET M == Len(pipe)
      XM == XS[M + 1]
      dem(e, la) == DemandDown(pipe, XS, tabs, M, e, la)
      ended == XM.fin = "end"
      \* first(key, default) = next(filter(key, pipeline), default): the first item for which key holds
      \* (the item itself, whatever its own truth value), else the default once the end is determined
      firstOf(fv) ==
        LET j == FirstTrue(fv.p, XM.xs, 1)
            raises == \E i \in 1..Len(XM.xs) : FnRaises(fv.p, XM.xs[i])
            hit == IF j > 0 /\ DefMutant = "first_or_default" /\ ~Truthy(XM.xs[j]) THEN fv.d
                   ELSE IF j > 0 THEN XM.xs[j] ELSE fv.d
        IN IF raises THEN [p |-> fv.p, d |-> fv.d, det |-> FALSE, found |-> FALSE, v |-> fv.d, demLA |-> INF]
           ELSE IF j > 0 THEN [p |-> fv.p, d |-> fv.d, det |-> TRUE, found |-> TRUE, v |-> hit, demLA |-> dem(j, TRUE)]
           ELSE IF ended THEN [p |-> fv.p, d |-> fv.d, det |-> TRUE, found |-> FALSE, v |-> fv.d, demLA |-> dem(Ev(XM), TRUE)]
           ELSE [p |-> fv.p, d |-> fv.d, det |-> FALSE, found |-> FALSE, v |-> fv.d, demLA |-> INF]
  IN [bad   |-> XM.bad,
      n     |-> Len(XM.xs),
      ended |-> ended,
      xs    |-> CutTo(XM.xs, ended, kmax),
      dem   |-> [k \in 1..(kmax + 1) |-> dem(ConsumerEvents(XM, k - 1), FALSE)],
      demLA |-> [k \in 1..(kmax + 1) |-> dem(ConsumerEvents(XM, k - 1), TRUE)],
      first |-> [i \in 1..Len(FirstVariants) |-> firstOf(FirstVariants[i])],
      \* all(): the whole list; terminates iff the pipeline ends
      all   |-> IF ended THEN [det |-> TRUE, demLA |-> dem(Ev(XM), TRUE)] ELSE [det |-> FALSE, demLA |-> INF]]
Predict(pipe, srcd, kmax, horizon) ==
  The({ The({ PredictWith(pipe, kmax, XS, tabs) : tabs \in {[i \in 1..Len(pipe) |-> NeedTable(pipe[i], XS[i])]} })
        : XS \in {AllStreams(pipe, SrcStream(srcd, horizon))} })

\* the two quantities of the laziness law by name (k consumer calls, k <= kmax)
Demand(pipe, srcd, k, horizon)   == Predict(pipe, srcd, k, horizon).dem[k + 1]
DemandLA(pipe, srcd, k, horizon) == Predict(pipe, srcd, k, horizon).demLA[k + 1]

IsPrefixOf(s, t) == Len(s) <= Len(t) /\ s = SubSeq(t, 1, Len(s))
LeqInf(a, b) == b = INF \/ (a # INF /\ a <= b)

\* =====================================================================================
\* Part B.  the pull machine
\* =====================================================================================
VARIABLES pipe,       \* <<base, stage 1, ..., stage N>>   (fixed during a run)
          srcd,       \* source descriptor                 (fixed during a run)
          kmax,       \* number of next() calls the consumer will make
          loc,        \* per stage: buffers and counters of the underlying iterator object
          pos,        \* items delivered by the source
          srcEnded,   \* the source has raised StopIteration
          outs,       \* items handed to the consumer
          fin,        \* "run" | "end" (consumer has seen StopIteration)
          ctl,        \* [at, origin]: stage whose demand loop is running (0 = idle) and who asked
          built,      \* number of stage iterators constructed so far (Iter.glomit's loop)
          nreq,       \* next() calls issued by the consumer
          ev          \* observable event log: "p" source item, "x" source end, "b" glom() returned,
                      \*                       "e" consumer got an item, "f" consumer got StopIteration
pullVars == <<pipe, srcd, kmax, loc, pos, srcEnded, outs, fin, ctl, built, nreq, ev>>

Rev(s) == [j \in 1..Len(s) |-> s[Len(s) + 1 - j]]
\* the stage order the mechanism uses (mutant "reverse": _iter_stack folded newest-first)
MP == IF PullMutant = "reverse" /\ Len(pipe) > 1 THEN <<pipe[1]>> \o Rev(SubSeq(pipe, 2, Len(pipe))) ELSE pipe
M == Len(pipe)

InitLoc(st) == [buf |-> <<>>, outq |-> <<>>, cnt |-> 0, nxt |-> IF st.kind = "slice" THEN st.a ELSE 0,
                flag |-> FALSE, seen |-> <<>>, upEnded |-> FALSE, done |-> FALSE]

\* the predicate / separator test as the mechanism evaluates it (mutants: a T-expression key is
\* *called* instead of glommed and so is always truthy; a Check key lets everything through; a
\* callable separator never separates)
MPred(f, v) == IF PullMutant = "tkey_called" /\ Spelling(f) = "T" THEN TRUE
               ELSE IF PullMutant = "skey_unscoped" /\ Spelling(f) = "S" THEN FALSE
               ELSE IF PullMutant = "check_passes" /\ Spelling(f) = "check" THEN TRUE
               ELSE PredFn(f, v)
MIsSep(st, v) == IF PullMutant = "sepfn_ignored" /\ st.f = "fn" THEN FALSE ELSE IsSep(st, v)

\* stage st with local state l receives item v from upstream
Recv(st, l, v) ==
  CASE st.kind = "base" ->                       \* Iter._iterate
         LET y == ApplyFn(st.f, v) IN
         IF y = SKIP THEN l
         ELSE IF y = st.v \/ y = STOP THEN [l EXCEPT !.done = TRUE]
         ELSE [l EXCEPT !.outq = <<y>>]
    [] st.kind = "map" -> [l EXCEPT !.outq = <<ApplyFn(st.f, v)>>]
    [] st.kind = "filter" ->                    \* (mutant filter_ne: "result != SKIP" lets the item's __ne__ decide)
         IF MPred(st.f, v) /\ ~(PullMutant = "filter_ne" /\ v.k \in {"any", "null"}) THEN [l EXCEPT !.outq = <<v>>] ELSE l
    [] st.kind = "slice" ->                      \* islice_next: skip loop, then the item
         IF l.cnt < l.nxt THEN [l EXCEPT !.cnt = @ + 1]
         ELSE LET nn == l.nxt + st.c IN
              [l EXCEPT !.cnt = @ + 1, !.outq = <<v>>,
                        !.nxt = IF st.b # -1 /\ nn > st.b THEN st.b ELSE nn]
    [] st.kind = "takewhile" ->
         IF l.flag THEN l                        \* only reachable under mutant takewhile_drain
         ELSE IF MPred(st.f, v) THEN [l EXCEPT !.outq = <<v>>]
         ELSE IF PullMutant = "takewhile_drain" THEN [l EXCEPT !.flag = TRUE]
         ELSE [l EXCEPT !.done = TRUE]
    [] st.kind = "dropwhile" ->
         IF ~l.flag /\ MPred(st.f, v) THEN l ELSE [l EXCEPT !.flag = TRUE, !.outq = <<v>>]
    [] st.kind = "chunked" ->                    \* list(islice(src_iter, size))
         LET b == Append(l.buf, v) IN
         IF Len(b) = st.a THEN [l EXCEPT !.buf = <<>>, !.outq = <<VList(b)>>] ELSE [l EXCEPT !.buf = b]
    [] st.kind = "windowed" ->                   \* zip(*tees): tee 0 pulls, the others read the buffer
         LET w == Append(l.buf, v) IN [l EXCEPT !.outq = <<VTuple(w)>>, !.buf = Tail(w)]
    [] st.kind = "split" ->
         LET active == st.b = -1 \/ l.cnt < st.b IN
         IF active /\ MIsSep(st, v)
         THEN IF st.f = "none" /\ l.buf = <<>> THEN l
              ELSE [l EXCEPT !.cnt = @ + 1, !.outq = <<VList(l.buf)>>, !.buf = <<>>]
         ELSE [l EXCEPT !.buf = Append(@, v)]
    [] st.kind = "unique" ->
         LET k == ApplyFn(st.f, v)
             nk == IF PullMutant = "unique_identity" THEN k ELSE Norm(k)   \* (mutant: 1 and True kept apart)
         IN IF InSeq(nk, l.seen) THEN l ELSE [l EXCEPT !.seen = Append(@, nk), !.outq = <<v>>]
    [] st.kind = "flatten" ->                   \* (mutant: "if item:" skips a falsy container that holds data)
         [l EXCEPT !.outq = IF IsSeqV(v) /\ ~(PullMutant = "flatten_skips_falsy" /\ v.k = "flist") THEN v.items ELSE <<>>]

\* stage st learns that upstream is exhausted
RecvEnd(st, l) ==
  LET l1 == [l EXCEPT !.upEnded = TRUE, !.done = TRUE] IN
  CASE st.kind = "chunked" -> IF l.buf # <<>> THEN [l1 EXCEPT !.outq = <<VList(Pad(st, l.buf))>>, !.buf = <<>>] ELSE l1
    [] st.kind = "split" -> IF l.buf # <<>> \/ st.f # "none" THEN [l1 EXCEPT !.outq = <<VList(l.buf)>>, !.buf = <<>>] ELSE l1
    [] OTHER -> l1

\* the stage has nothing more to give (checked when it is asked and its out-queue is empty)
IsDone(st, l) == l.done \/ (st.kind = "slice" /\ st.b # -1 /\ l.cnt >= l.nxt /\ l.cnt >= st.b)

Idle == ctl.at = 0
IdleCtl == [at |-> 0, origin |-> 0]
Halted == Idle /\ built = M /\ (fin = "end" \/ nreq = kmax)
SrcEvents == pos + (IF srcEnded THEN 1 ELSE 0)

StartRun(p, s, k) ==                       \* glom(target, spec) is entered
  /\ pipe' = p /\ srcd' = s /\ kmax' = k
  /\ loc' = [i \in 1..Len(p) |-> InitLoc(IF PullMutant = "reverse" /\ i > 1 THEN p[Len(p) + 2 - i] ELSE p[i])]
  /\ pos' = 0 /\ srcEnded' = FALSE /\ outs' = <<>> /\ fin' = "run"
  /\ ctl' = IdleCtl /\ built' = 0 /\ nreq' = 0 /\ ev' = <<>>

\* Iter.glomit wraps the iterator in the next stage; every wrapper is lazy except windowed_iter,
\* whose tees are advanced at creation (tee i skips i items: size - 1 upstream pulls)
Prefill(i) ==
  /\ Idle /\ built = i - 1 /\ i <= M /\ MP[i].kind = "windowed"
  /\ Len(loc[i].buf) < MP[i].a - 1 /\ ~loc[i].upEnded
  /\ ctl' = [at |-> i - 1, origin |-> i]
  /\ UNCHANGED <<pipe, srcd, kmax, loc, pos, srcEnded, outs, fin, built, nreq, ev>>
Build(i) ==
  /\ Idle /\ built = i - 1 /\ i <= M
  /\ MP[i].kind = "windowed" => (Len(loc[i].buf) >= MP[i].a - 1 \/ loc[i].upEnded)
  /\ built' = i
  /\ ev' = IF i = M THEN Append(ev, "b") ELSE ev
  /\ UNCHANGED <<pipe, srcd, kmax, loc, pos, srcEnded, outs, fin, ctl, nreq>>

ConsumerPull ==
  /\ Idle /\ built = M /\ fin = "run" /\ nreq < kmax
  /\ nreq' = nreq + 1
  /\ ctl' = [at |-> M, origin |-> M + 1]
  /\ UNCHANGED <<pipe, srcd, kmax, loc, pos, srcEnded, outs, fin, built, ev>>

\* stage i cannot answer from what it holds: ask upstream (stage 1 = base asks the source)
StagePull(i) ==
  /\ ctl.at = i /\ loc[i].outq = <<>> /\ ~IsDone(MP[i], loc[i])
  /\ IF i > 1
     THEN /\ ctl' = [ctl EXCEPT !.at = i - 1]
          /\ UNCHANGED <<loc, pos, srcEnded, ev>>
     ELSE /\ ctl' = ctl
          /\ IF SrcHas(srcd, pos + 1)
             THEN /\ pos' = pos + 1 /\ srcEnded' = srcEnded
                  /\ loc' = [loc EXCEPT ![1] = Recv(MP[1], @, SrcItem(srcd, pos + 1))]
                  /\ ev' = Append(ev, "p")
             ELSE /\ pos' = pos /\ srcEnded' = TRUE
                  /\ loc' = [loc EXCEPT ![1] = RecvEnd(MP[1], @)]
                  /\ ev' = Append(ev, "x")
  /\ UNCHANGED <<pipe, srcd, kmax, outs, fin, built, nreq>>

\* stage i yields the head of its out-queue to whoever asked
Emit(i) ==
  /\ ctl.at = i /\ loc[i].outq # <<>>
  /\ LET v == Head(loc[i].outq)
         l1 == [loc EXCEPT ![i].outq = Tail(@)]
     IN IF i + 1 = ctl.origin
        THEN /\ ctl' = IdleCtl
             /\ IF ctl.origin = M + 1
                THEN outs' = Append(outs, v) /\ loc' = l1 /\ ev' = Append(ev, "e")
                ELSE outs' = outs /\ loc' = [l1 EXCEPT ![i + 1].buf = Append(@, v)] /\ ev' = ev
        ELSE /\ ctl' = [ctl EXCEPT !.at = i + 1]
             /\ loc' = [l1 EXCEPT ![i + 1] = Recv(MP[i + 1], @, v)]
             /\ outs' = outs /\ ev' = ev
  /\ UNCHANGED <<pipe, srcd, kmax, pos, srcEnded, fin, built, nreq>>

\* stage i raises StopIteration
End(i) ==
  /\ ctl.at = i /\ loc[i].outq = <<>> /\ IsDone(MP[i], loc[i])
  /\ IF i + 1 = ctl.origin
     THEN /\ ctl' = IdleCtl
          /\ IF ctl.origin = M + 1
             THEN fin' = "end" /\ loc' = loc /\ ev' = Append(ev, "f")
             ELSE fin' = fin /\ ev' = ev
                  /\ loc' = [loc EXCEPT ![i + 1].upEnded = TRUE, ![i + 1].done = TRUE]   \* return zip([])
     ELSE /\ ctl' = [ctl EXCEPT !.at = i + 1]
          /\ loc' = [loc EXCEPT ![i + 1] = RecvEnd(MP[i + 1], @)]
          /\ fin' = fin /\ ev' = ev
  /\ UNCHANGED <<pipe, srcd, kmax, pos, srcEnded, outs, built, nreq>>

PullStep == \/ ConsumerPull
            \/ \E i \in 1..M : Prefill(i) \/ Build(i) \/ StagePull(i) \/ Emit(i) \/ End(i)

\* ---- laws relating the machine to Part A (pr = Predict(pipe, srcd, kmax, horizon)) ----------
\* what has been handed out is the reference composition, in order
PM_OutputsAreReference(pr) == IsPrefixOf(outs, pr.xs)
\* ... and was already determined by what has been pulled (nothing is guessed)
PM_OutputsDetermined == IsPrefixOf(outs, Out(pipe, [n \in 1..pos |-> SrcItem(srcd, n)], srcEnded).xs)
\* laziness: never more source events than the demand of the requests made so far + look-ahead
PM_Lazy(pr) == LET d == pr.demLA[nreq + 1] IN d # INF => SrcEvents <= d
\* a finished request has pulled at least what determines its answer
PM_NotBelowDemand(pr) == (Idle /\ built = M) => LeqInf(pr.dem[nreq + 1], SrcEvents) \/ pr.dem[nreq + 1] = INF
\* StopIteration reaches the consumer only when the reference has ended, after all its items
PM_EndIsReferenceEnd(pr) == fin = "end" => pr.ended /\ outs = pr.xs

\* =====================================================================================
\* Part C.  the builder machine
\* =====================================================================================
VARIABLES objs,    \* spec objects in creation order: [cls, sub, sent, given, ref, chunks]
          cells,   \* mutable cells: an Iter's _iter_stack list (newest first) or an Invoke's
                   \* _cur_kwargs dict (sequence of <<key, chunk id>>)
          bhist    \* <<[o, meth]>>: the derivations made, objs[initial + n] is the n-th result
buildVars == <<objs, cells, bhist>>

IterObj(sub, sent, given, ref) == [cls |-> "iter", sub |-> sub, sent |-> sent, given |-> given, ref |-> ref, chunks |-> <<>>]
InvokeObj(ref, chunks) == [cls |-> "invoke", sub |-> "echo", sent |-> STOP, given |-> FALSE, ref |-> ref, chunks |-> chunks]
\* a method call: for Iter  [m |-> "stage", st |-> stage];  for Invoke [m |-> "constants" | "specs" | "star", pos, kw]
\*   constants: pos = values, kw = << <<key, value>> >>;  specs: pos / kw values are the spec T
\*   (written VStr("T")); star: args=T
IterMeth(st) == [m |-> "stage", st |-> st, pos |-> <<>>, kw |-> <<>>]
InvMeth(m, ps, kw) == [m |-> m, st |-> Stage("none", "", 0, 0, 0, VNone), pos |-> ps, kw |-> kw]

RECURSIVE UpdateKw(_, _, _, _)
UpdateKw(d, kw, id, j) == IF j > Len(kw) THEN d ELSE UpdateKw(SetKey(d, kw[j][1], id), kw, id, j + 1)

\* Iter._add_op / Invoke.constants|specs|star, transcribed
Derive(o, meth) ==
  LET old == objs[o]
      newaddr == Len(cells) + 1
      id == Len(objs) + 1                       \* identity of the new chunk's kw dict
  IN
  /\ o \in 1..Len(objs)
  /\ (old.cls = "iter") = (meth.m = "stage")
  /\ bhist' = Append(bhist, [o |-> o, meth |-> meth])
  /\ IF old.cls = "iter"
     THEN LET carried == BuildMutant # "dropsentinel"      \* type(self)(subspec=.., sentinel=self.sentinel, ..)
              sent == IF carried THEN old.sent ELSE STOP
              given == carried /\ old.given
          IN IF BuildMutant = "inplace"
             THEN /\ cells' = [cells EXCEPT ![old.ref] = <<meth.st>> \o @]           \* list.insert(0, op)
                  /\ objs' = Append(objs, IterObj(old.sub, sent, given, old.ref))
             ELSE /\ cells' = Append(cells, <<meth.st>> \o cells[old.ref])            \* [op] + self._iter_stack
                  /\ objs' = Append(objs, IterObj(old.sub, sent, given, newaddr))
     ELSE LET chunk == [op |-> meth.m, pos |-> meth.pos, kw |-> meth.kw, id |-> id]
              chunks == Append(old.chunks, chunk)                                     \* tuple + tuple
              upd(d) == IF meth.m = "star" THEN d ELSE UpdateKw(d, meth.kw, id, 1)
          IN IF BuildMutant = "sharekw"
             THEN /\ cells' = [cells EXCEPT ![old.ref] = upd(@)]
                  /\ objs' = Append(objs, InvokeObj(old.ref, chunks))
             ELSE /\ cells' = Append(cells, upd(cells[old.ref]))                      \* dict(self._cur_kwargs)
                  /\ objs' = Append(objs, InvokeObj(newaddr, chunks))

\* ---- what a spec object *means* (the law talks about meanings, never about cells) ----------
\* Iter: its pipeline in chaining order.  Invoke: the call it makes on a target.
RECURSIVE InvPos(_, _, _)
InvPos(chunks, target, j) ==
  IF j > Len(chunks) THEN <<>>
  ELSE LET c == chunks[j]
           here == CASE c.op = "constants" -> c.pos
                     [] c.op = "specs" -> [n \in 1..Len(c.pos) |-> target]
                     [] c.op = "star" -> target.items
       IN here \o InvPos(chunks, target, j + 1)
RECURSIVE InvKw(_, _, _, _, _)
InvKw(chunks, cur, target, j, acc) ==
  IF j > Len(chunks) THEN acc
  ELSE LET c == chunks[j]
           RECURSIVE one(_, _)
           one(n, a) == IF n > Len(c.kw) THEN a
                        ELSE IF HasKey(cur, c.kw[n][1]) /\ Lookup(cur, c.kw[n][1]) = c.id
                             THEN one(n + 1, SetKey(a, c.kw[n][1], IF c.op = "specs" THEN target ELSE c.kw[n][2]))
                             ELSE one(n + 1, a)
       IN InvKw(chunks, cur, target, j + 1, IF c.op = "star" THEN acc ELSE one(1, acc))
KwKeys == <<VStr("a"), VStr("b")>>
SortKw(kw) == SelectSeq([n \in 1..Len(KwKeys) |-> IF HasKey(kw, KwKeys[n]) THEN <<KwKeys[n], Lookup(kw, KwKeys[n])>> ELSE <<>>],
                        LAMBDA e : e # <<>>)

ProbeTarget == VList(<<VInt(5), VInt(6)>>)
Meaning(obj, cs) ==
  IF obj.cls = "iter"
  THEN [cls |-> "iter", pipe |-> <<BaseStage(obj.sub, obj.sent, obj.given)>> \o Rev(cs[obj.ref]),
        pos |-> <<>>, kw |-> <<>>]
  ELSE [cls |-> "invoke", pipe |-> <<>>, pos |-> InvPos(obj.chunks, ProbeTarget, 1),
        kw |-> SortKw(InvKw(obj.chunks, cs[obj.ref], ProbeTarget, 1, <<>>))]

\* the documented effect of a method on a meaning: one more stage at the end / arguments appended,
\* a keyword given again overrides the earlier value
MethPos(meth) == CASE meth.m = "constants" -> meth.pos
                   [] meth.m = "specs" -> [n \in 1..Len(meth.pos) |-> ProbeTarget]
                   [] meth.m = "star" -> ProbeTarget.items
RECURSIVE MethKw(_, _, _)
MethKw(meth, kw, n) == IF n > Len(meth.kw) THEN kw
                       ELSE MethKw(meth, SetKey(kw, meth.kw[n][1], IF meth.m = "specs" THEN ProbeTarget ELSE meth.kw[n][2]), n + 1)
Extend(mn, meth) ==
  IF mn.cls = "iter" THEN [mn EXCEPT !.pipe = Append(@, meth.st)]
  ELSE [mn EXCEPT !.pos = @ \o MethPos(meth), !.kw = IF meth.m = "star" THEN @ ELSE SortKw(MethKw(meth, @, 1))]

\* ---- laws of the builder ---------------------------------------------------------------------
\* every existing spec value is unchanged by a derivation
BuildFrame == \A j \in 1..Len(objs) : Meaning(objs'[j], cells') = Meaning(objs[j], cells)
\* the new value is the old one extended by the method (in particular it keeps the base stage:
\* subspec and sentinel survive chaining)
BuildExtends(ninit) ==
  \A n \in 1..Len(bhist) :
    Meaning(objs[ninit + n], cells) = Extend(Meaning(objs[bhist[n].o], cells), bhist[n].meth)
\* a derivation creates a new value: no two spec objects share a mutable cell
BuildFresh == \A i, j \in 1..Len(objs) : i # j => objs[i].ref # objs[j].ref
====================================================================================
