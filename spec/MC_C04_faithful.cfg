\* the faithful transcription of glom()'s except blocks against every law: InvClassKept is violated
\* (the two recorded defects are visible at the level of the model)
CONSTANTS
  Fix = FALSE
  Mutant = "none"
  MinDepth = 0
  MaxDepth = 1
  Rich = TRUE
  KwMode = "full"
INIT Init
NEXT Next
INVARIANT CatalogueOK
INVARIANT VerdictConsistent
INVARIANT InvClassKept
INVARIANT InvGlomIfRebuildable
INVARIANT InvSubtype
INVARIANT InvDefaultSelective
INVARIANT InvDebug
INVARIANT InvBase
INVARIANT CreatedAreDocumented
PROPERTY PassThroughLaw
CHECK_DEADLOCK FALSE
