INIT Init
NEXT NextCases
INVARIANT NoEarlyWrite
INVARIANT AttachLast
INVARIANT Outcome
INVARIANT ExecRegistryOnly
INVARIANT SpecCarriesNothing
INVARIANT DelFrame
CHECK_DEADLOCK FALSE
