INIT Init
NEXT NextCases
INVARIANT NoEarlyWrite
INVARIANT AttachLast
INVARIANT Outcome
INVARIANT SpecCarriesNothing
INVARIANT DelFrame
CHECK_DEADLOCK FALSE
