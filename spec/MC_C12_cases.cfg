INIT Init
NEXT NextCases
INVARIANT NoEarlyWrite
INVARIANT AttachLast
INVARIANT Outcome
INVARIANT DelFrame
CHECK_DEADLOCK FALSE
