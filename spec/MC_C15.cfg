INIT Init
NEXT Next
INVARIANT InvValue
INVARIANT InvInits
INVARIANT InvFrame
INVARIANT InvNoInputAcc
INVARIANT InvFoldError
INVARIANT InvLazyEager
INVARIANT InvIndependent
INVARIANT InvShownIsPred
CHECK_DEADLOCK FALSE
