-------------------------------- MODULE GlomAccess --------------------------------
(* Access semantics of Path / dotted-string / T steps (properties C01, C02, C14).   *)
(* A step is [op, arg] with op in                                                    *)
(*   "P"  path segment   -> the 'get' handler registered for the current value's type *)
(*   "."  T.attr         -> getattr                                                   *)
(*   "["  T[item]        -> cur[item]                                                 *)
(* The law is written from the property statement: walk left to right; the result is *)
(* the very value reached (addresses are identities); the first step that cannot be  *)
(* performed ends the walk with a PathAccessError whose part index is that step's    *)
(* position and which carries the class of the underlying lookup exception; nothing  *)
(* after it is touched (the access log stops there).                                 *)
EXTENDS GlomData

Step(op, arg) == [op |-> op, arg |-> arg]

StepApply(heap, cur, st) ==
  CASE st.op = "P" -> PathGet(heap, cur, st.arg)
    [] st.op = "." -> GetAttr(heap, cur, st.arg)
    [] st.op = "[" -> GetItem(heap, cur, st.arg)

\* which exceptions of the underlying access become a PathAccessError; any other one
\* propagates as itself (observable: class of what glom() raises)
Wrapped(op, exc) ==
  CASE op = "P" -> TRUE
    [] op = "." -> exc = "AttributeError"
    [] op = "[" -> exc \in {"KeyError", "IndexError", "TypeError"}

Good(v, log)       == [ok |-> TRUE, v |-> v, log |-> log]
Pae(idx, exc, log) == [ok |-> FALSE, err |-> "PathAccessError", idx |-> idx, exc |-> exc, log |-> log]
Raw(exc, log)      == [ok |-> FALSE, err |-> exc, idx |-> -1, exc |-> exc, log |-> log]

\* does the step call an access method *of the container itself* (__getitem__ of a
\* mapping / sequence, attribute lookup of an attribute object)?  Those calls are what
\* the instrumented containers of the harness log ("no later segment is touched").
Touches(heap, cur, st) ==
  IsRef(cur) /\
  LET cls == heap[cur.a].cls IN
  CASE st.op = "P" -> \/ cls \in {"dict", "odict"}
                      \/ cls \in {"list", "tuple"} /\ PyInt(st.arg).ok
                      \/ cls = "obj" /\ st.arg.k = "str"
    [] st.op = "[" -> cls \in {"dict", "odict", "list", "tuple"}
    [] st.op = "." -> cls = "obj"

\* log: the containers (addresses) whose access method was called, in order
RECURSIVE PathEvalFrom(_, _, _, _, _)
PathEvalFrom(heap, cur, steps, i, log) ==
  IF i > Len(steps) THEN Good(cur, log)
  ELSE LET r == StepApply(heap, cur, steps[i])
           log2 == IF Touches(heap, cur, steps[i]) THEN Append(log, cur.a) ELSE log
       IN IF r.ok THEN PathEvalFrom(heap, r.v, steps, i + 1, log2)
          ELSE IF Wrapped(steps[i].op, r.exc) THEN Pae(i - 1, r.exc, log2)
          ELSE Raw(r.exc, log2)

PathEval(heap, target, steps) == PathEvalFrom(heap, target, steps, 1, <<>>)
====================================================================================
