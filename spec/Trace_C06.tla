--------------------------------- MODULE Trace_C06 ---------------------------------
(* code -> spec for C06: every row of the ndjson file is one interpreter session recorded   *)
(* from the real library - the cache membership tests, stores and fetches on Path._CACHE  *)
(* and on the registry's type memo, PATH_STAR toggles, registrations, warnings and the *)
(* outcome and observations of every glom() call, in the order in which they took effect. *)
(* GlomCalls!TraceVerdict steps the shared state of the machine through the events: each   *)
(* hit / miss / stored value must be what the cache state dictates, and each call outcome  *)
(* must be the outcome of the same call made alone in a fresh interpreter (Iso).  Rejected  *)
(* rows are printed with the failing clause and event index; a row containing a call        *)
(* outside the modelled fragment is reported with clause "skipped".                          *)
EXTENDS GlomCalls, Json, IOUtils

Rows == ndJsonDeserialize(IOEnv.TRACE_FILE)
NoPool == <<>>
VARIABLE i
TraceInit ==
  /\ i = 1 /\ pathCache = 0 /\ star = TRUE /\ starWarned = FALSE /\ nwarn = 0 /\ regs = <<>>
  /\ typeCache = <<>> /\ glob = 0 /\ world = 0 /\ procs = <<>> /\ hist = <<>> /\ ntog = 0
TraceNext == i <= Len(Rows) /\ i' = i + 1 /\ UNCHANGED vars

Check ==
  IF i <= Len(Rows)
  THEN LET v == TraceVerdict(Rows[i]) IN
       v.clause = "" \/ PrintT(ToJson([reject |-> i, clause |-> v.clause, at |-> v.at]))
  ELSE PrintT(ToJson([done |-> Len(Rows)]))
====================================================================================
