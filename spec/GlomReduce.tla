-------------------------------- MODULE GlomReduce --------------------------------
(* Reductions (property C15): Fold, Sum, Flatten (eager and lazy), Merge and the       *)
(* convenience functions flatten(levels=n) and merge().                                 *)
(*                                                                                      *)
(* A reduction spec is a record                                                          *)
(*   [form: "Fold"|"Sum"|"Flatten"|"Merge"|"flatten"|"merge", sub: "T"|"k",              *)
(*    init: name, op: name, levels: n, lazy: bool]                                        *)
(* sub = "k" means the iterable is fetched with the subspec 'k' from a wrapper dict.     *)
(*                                                                                      *)
(* PART 1 is the law, written from the property statement and the docstrings of         *)
(* glom/reduction.py: a PURE reference over structural (deep) values -                   *)
(*   functools.reduce(op, iterate(glom(t, subspec)), init()),  sum,  n-fold               *)
(*   chain.from_iterable,  successive dict.update with the last writer winning.          *)
(* PART 2 is the mechanism: glom/reduction.py transcribed over the object heap of         *)
(* GlomData with allocation and in-place mutation (iadd on a list, dict.update), one      *)
(* evaluation = one call of MEval.  PART 3 states the laws relating the two; the machine  *)
(* (action Evaluate taken twice on the same spec object) lives in MC_C15 / Trace_C15.     *)
EXTENDS GlomData

CONSTANT RMutant  \* "none" | "init_once" | "first_as_init" | "merge_into_first" | "lazy_extra_level" | "count_bad_init" | "sub_in_try" | "shared_copied" | "idkeys"
                  \* wrong mechanisms the laws must reject (vacuity check)

\* ================================================================================
\* structural values: scalars of GlomData plus
\* ================================================================================
DList(s)  == [k |-> "list", items |-> s]
DTuple(s) == [k |-> "tuple", items |-> s]
DDict(s)  == [k |-> "dict", items |-> s]          \* items: sequence of <<key, value>>
DODict(s) == [k |-> "odict", items |-> s]
DObj      == [k |-> "obj"]                         \* an object without __iter__

SOk(v)  == [ok |-> TRUE, v |-> v, exc |-> ""]
SErr(e) == [ok |-> FALSE, v |-> VNone, exc |-> e]

\* numbers: ints and exact multiples of one half (float / Fraction in Python)
\* and decimal.Decimal (whole values, [k: "dec", i]), which mixes with ints but not with float / Fraction
VDec(i)   == [k |-> "dec", i |-> i]
\* bool is an int (False + 1 = 1)
\* binary floats whose sums are not exact (2.0 ** 53, 1.0, -2.0 ** 53, 0.1: VFn("fB") ...): the law fixes
\* the ORDER of the additions - reduce adds left to right - and leaves each single `+` to Python: a sum
\* involving such a float is the term [k: "fsum", l, r] (a * 10 + b: "fdig"), which the harness evaluates
\* with Python's own float addition
IsFlt(v)  == v.k \in {"fn", "fsum", "fdig"}
IsNum(v)  == v.k \in {"int", "frac", "dec", "bool"} \/ IsFlt(v)
IntOf(v)  == IF v.k = "bool" THEN (IF v.b THEN 1 ELSE 0) ELSE v.i
NumCompat(a, b) == /\ ~(a.k = "dec" /\ b.k = "frac") /\ ~(a.k = "frac" /\ b.k = "dec")
                   /\ ~(a.k = "dec" /\ IsFlt(b)) /\ ~(IsFlt(a) /\ b.k = "dec")
Halves(v) == IF v.k \in {"int", "bool"} THEN 2 * IntOf(v) ELSE IF v.d = 1 THEN 2 * v.n ELSE v.n
FromHalves(h, frac) ==
  IF ~frac THEN VInt(h \div 2) ELSE IF h % 2 = 0 THEN VFrac(h \div 2, 1) ELSE VFrac(h, 2)
NumAdd(a, b)    == IF IsFlt(a) \/ IsFlt(b) THEN [k |-> "fsum", l |-> a, r |-> b]
                   ELSE IF a.k = "dec" \/ b.k = "dec" THEN VDec(IntOf(a) + IntOf(b))
                   ELSE FromHalves(Halves(a) + Halves(b), a.k = "frac" \/ b.k = "frac")
NumDigits(a, b) == IF IsFlt(a) \/ IsFlt(b) THEN [k |-> "fdig", l |-> a, r |-> b]
                   ELSE IF a.k = "dec" \/ b.k = "dec" THEN VDec(IntOf(a) * 10 + IntOf(b))
                   ELSE FromHalves(Halves(a) * 10 + Halves(b), a.k = "frac" \/ b.k = "frac")

\* characters of the strings the universes use (TLC cannot index strings): "", "uv" and
\* one-character strings
\* Python's == between dict keys: numbers are equal by value whatever their type (1 == 1.0 == True);
\* the dict keeps the key object that came first
NumVal(v) == IF v.k = "frac" THEN <<v.n, v.d>> ELSE <<IntOf(v), 1>>
PyEq(a, b) == IF IsNum(a) /\ IsNum(b) /\ ~IsFlt(a) /\ ~IsFlt(b) THEN NumVal(a) = NumVal(b) ELSE a = b
RECURSIVE PFind(_, _, _)
PFind(items, key, i) == IF i > Len(items) THEN 0 ELSE IF PyEq(items[i][1], key) THEN i ELSE PFind(items, key, i + 1)
PHas(items, key) == PFind(items, key, 1) # 0
PSet(items, key, val) ==
  IF PHas(items, key) THEN [items EXCEPT ![PFind(items, key, 1)][2] = val] ELSE Append(items, <<key, val>>)

CharsOf(s) == IF s = "" THEN <<>> ELSE IF s = "uv" THEN <<VStr("u"), VStr("v")>> ELSE <<VStr(s)>>

\* ================================================================================
\* PART 1.  The law: pure Python reference semantics on structural values
\* ================================================================================
SIterable(v) == v.k \in {"list", "tuple", "dict", "odict", "str"}
SIter(v) ==                                    \* list(iter(v))
  CASE v.k \in {"list", "tuple"} -> v.items
    [] v.k \in {"dict", "odict"} -> [i \in 1..Len(v.items) |-> v.items[i][1]]
    [] v.k = "str" -> CharsOf(v.s)

RECURSIVE SHashable(_)
SHashable(v) == IF v.k = "tuple" THEN \A i \in 1..Len(v.items) : SHashable(v.items[i])
                ELSE v.k \notin {"list", "dict", "odict"}

\* a += b   (operator.iadd) and  a + b  (operator.add)
SPlus(a, b, inplace) ==
  CASE IsNum(a)      -> IF IsNum(b) /\ NumCompat(a, b) THEN SOk(NumAdd(a, b)) ELSE SErr("TypeError")
    [] a.k = "str"   -> IF b.k = "str" THEN SOk(VStr(a.s \o b.s)) ELSE SErr("TypeError")
    [] a.k = "list"  -> IF inplace
                        THEN (IF SIterable(b) THEN SOk(DList(a.items \o SIter(b))) ELSE SErr("TypeError"))
                        ELSE (IF b.k = "list" THEN SOk(DList(a.items \o b.items)) ELSE SErr("TypeError"))
    [] a.k = "tuple" -> IF b.k = "tuple" THEN SOk(DTuple(a.items \o b.items)) ELSE SErr("TypeError")
    [] OTHER         -> SErr("TypeError")

\* d.update(v): a mapping, or an iterable of key/value pairs; last writer wins, a key keeps
\* the position of its first insertion
RECURSIVE SUpdatePairs(_, _, _)
SUpdatePairs(items, els, i) ==
  IF i > Len(els) THEN SOk(items)
  ELSE LET e == els[i] IN
       IF ~SIterable(e) THEN SErr("TypeError")
       ELSE LET kv == SIter(e) IN
            IF Len(kv) # 2 THEN SErr("ValueError")
            ELSE IF ~SHashable(kv[1]) THEN SErr("TypeError")
            ELSE SUpdatePairs(PSet(items, kv[1], kv[2]), els, i + 1)
RECURSIVE SUpdateMap(_, _, _)
SUpdateMap(items, pairs, i) ==
  IF i > Len(pairs) THEN items ELSE SUpdateMap(PSet(items, pairs[i][1], pairs[i][2]), pairs, i + 1)
SUpdate(d, v) ==
  IF v.k \in {"dict", "odict"} THEN SOk([d EXCEPT !.items = SUpdateMap(@, v.items, 1)])
  ELSE IF SIterable(v)
  THEN LET r == SUpdatePairs(d.items, SIter(v), 1) IN IF r.ok THEN SOk([d EXCEPT !.items = r.v]) ELSE r
  ELSE SErr("TypeError")
\* custom Merge op of the harness: first writer wins (d.setdefault(k, x) for k, x in v.items())
RECURSIVE SKeepFirstMap(_, _, _)
SKeepFirstMap(items, pairs, i) ==
  IF i > Len(pairs) THEN items
  ELSE SKeepFirstMap(IF PHas(items, pairs[i][1]) THEN items ELSE Append(items, pairs[i]), pairs, i + 1)
SKeepFirst(d, v) ==
  IF v.k \in {"dict", "odict"} THEN SOk([d EXCEPT !.items = SKeepFirstMap(@, v.items, 1)])
  ELSE SErr("AttributeError")

\* the binary operation `op` of a reduction
SOp(op, a, b) ==
  CASE op = "iadd"      -> SPlus(a, b, TRUE)
    [] op = "add"       -> SPlus(a, b, FALSE)
    [] op = "digits"    -> IF IsNum(a) /\ IsNum(b) /\ NumCompat(a, b) THEN SOk(NumDigits(a, b)) ELSE SErr("TypeError")  \* a * 10 + b
    [] op = "right"     -> SOk(b)                                                                   \* lambda a, b: b
    [] op = "update"    -> SUpdate(a, b)                   \* Merge: op mutates its left argument
    [] op = "keepfirst" -> SKeepFirst(a, b)
    [] op = "extend"    -> SPlus(a, b, TRUE)               \* list.extend

\* init()
SInit(init) ==
  CASE init = "int" -> VInt(0)        [] init = "float" -> VFrac(0, 1)  [] init = "half" -> VFrac(1, 2)
    [] init = "five" -> VInt(5)       [] init = "str" -> VStr("")
    [] init = "list" -> DList(<<>>)   [] init = "tuple" -> DTuple(<<>>)
    [] init = "dict" -> DDict(<<>>)   [] init = "odict" -> DODict(<<>>)
    [] init = "seeded" -> DList(<<VInt(0)>>)                                    \* lambda: [0]
    [] init = "dec" -> VDec(0)                                                  \* decimal.Decimal
    [] init = "strx" -> VStr("x")                                               \* lambda: 'x'
    [] init = "tup0" -> DTuple(<<VInt(0)>>)                                     \* lambda: (0,)
    [] init = "lazy" -> DList(<<>>)
    [] init = "shlist" -> DList(<<>>)      \* lambda: SHARED - the same list object at every call

\* functools.reduce(op, elems, acc)
RECURSIVE SReduce(_, _, _, _)
SReduce(op, acc, elems, i) ==
  IF i > Len(elems) THEN SOk(acc)
  ELSE LET r == SOp(op, acc, elems[i]) IN IF r.ok THEN SReduce(op, r.v, elems, i + 1) ELSE r

\* list(itertools.chain.from_iterable(elems))
RECURSIVE SChain(_, _, _)
SChain(elems, i, acc) ==
  IF i > Len(elems) THEN SOk(acc)
  ELSE IF ~SIterable(elems[i]) THEN SErr("TypeError")
  ELSE SChain(elems, i + 1, acc \o SIter(elems[i]))
RECURSIVE SChainN(_, _)
SChainN(elems, n) ==                        \* n-fold chain.from_iterable
  IF n = 0 THEN SOk(elems)
  ELSE LET r == SChain(elems, 1, <<>>) IN IF r.ok THEN SChainN(r.v, n - 1) ELSE r

\* what glom can iterate (default registry): containers, not strings, not scalars / plain objects
SGlomIterable(t) == t.k \in {"list", "tuple", "dict", "odict"}

\* the reference outcome of evaluating spec sp on the (structural) sub-target t; a lazy
\* result is judged by what consuming it yields (list(result))
RefOutcome(sp, t) ==
  IF sp.form = "flatten" /\ sp.levels = 0 THEN SOk(t)
  ELSE IF ~SGlomIterable(t) THEN SErr("FoldError")
  ELSE
    LET elems == SIter(t) IN
    CASE sp.form \in {"Fold", "Sum", "Merge", "merge"} -> SReduce(sp.op, SInit(sp.init), elems, 1)
      [] sp.form = "Count" -> SOk(VInt(Len(elems)))                  \* how many values occurred
      [] sp.form = "Flatten" ->
           IF sp.lazy THEN LET r == SChain(elems, 1, <<>>) IN IF r.ok THEN SOk(DList(r.v)) ELSE r
           ELSE SReduce("iadd", SInit(sp.init), elems, 1)
      [] sp.form = "flatten" ->
           LET lv == SChainN(elems, sp.levels - 1) IN
           IF ~lv.ok THEN lv
           ELSE IF sp.lazy THEN LET r == SChain(lv.v, 1, <<>>) IN IF r.ok THEN SOk(DList(r.v)) ELSE r
           ELSE SReduce("iadd", SInit(sp.init), lv.v, 1)
\* number of init() calls the property requires of one evaluation (called afresh)
RefInits(sp, t) ==
  IF (sp.form = "flatten" /\ sp.levels = 0) \/ ~SGlomIterable(t) \/ sp.lazy THEN 0 ELSE 1

\* ================================================================================
\* PART 2.  The mechanism: glom/reduction.py over the object heap
\* ================================================================================
NewAddr(h) == Len(h) + 1

RECURSIVE Deep(_, _)
Deep(h, v) ==                                   \* structural value of a heap value
  IF ~IsRef(v) THEN v
  ELSE LET c == h[v.a] IN
       IF c.cls \in {"dict", "odict"}
       THEN [k |-> c.cls, items |-> [i \in 1..Len(c.items) |-> <<Deep(h, c.items[i][1]), Deep(h, c.items[i][2])>>]]
       ELSE IF c.cls = "obj" THEN DObj
       ELSE [k |-> c.cls, items |-> [i \in 1..Len(c.items) |-> Deep(h, c.items[i])]]

HIterable(h, v) == (IsRef(v) /\ h[v.a].cls \in {"list", "tuple", "dict", "odict"}) \/ v.k = "str"
HIter(h, v) ==
  IF v.k = "str" THEN CharsOf(v.s)
  ELSE LET c == h[v.a] IN
       IF c.cls \in {"dict", "odict"} THEN [i \in 1..Len(c.items) |-> c.items[i][1]] ELSE c.items
GlomIterable(h, v) == IsRef(v) /\ h[v.a].cls \in {"list", "tuple", "dict", "odict"}

\* result of one primitive step: heap after, value, address mutated in place (0 = none)
HOk(h, v, m) == [ok |-> TRUE, h |-> h, v |-> v, exc |-> "", mut |-> m]
HErr(h, e)   == [ok |-> FALSE, h |-> h, v |-> VNone, exc |-> e, mut |-> 0]

HCls(h, v) == IF IsRef(v) THEN h[v.a].cls ELSE v.k
HPlus(h, a, b, inplace) ==
  LET ca == HCls(h, a) IN
  CASE ~IsRef(a) -> LET r == SPlus(a, IF IsRef(b) THEN DObj ELSE b, inplace) IN      \* scalars: no heap effect
                    IF r.ok THEN HOk(h, r.v, 0) ELSE HErr(h, r.exc)
    [] ca = "list" ->
         IF inplace
         THEN (IF HIterable(h, b)                                                    \* list.__iadd__: extend, same object
               THEN HOk([h EXCEPT ![a.a].items = @ \o HIter(h, b)], a, a.a) ELSE HErr(h, "TypeError"))
         ELSE (IF HCls(h, b) = "list"
               THEN HOk(Append(h, Cell("list", h[a.a].items \o h[b.a].items)), VRef(NewAddr(h)), 0)
               ELSE HErr(h, "TypeError"))
    [] ca = "tuple" ->
         IF HCls(h, b) = "tuple"
         THEN HOk(Append(h, Cell("tuple", h[a.a].items \o h[b.a].items)), VRef(NewAddr(h)), 0)
         ELSE HErr(h, "TypeError")
    [] OTHER -> HErr(h, "TypeError")

RECURSIVE HHashable(_, _)
HHashable(h, v) == IF ~IsRef(v) THEN TRUE
                   ELSE h[v.a].cls = "tuple" /\ \A i \in 1..Len(h[v.a].items) : HHashable(h, h[v.a].items[i])
\* the accumulator's own __setitem__ (mutant "idkeys": a mapping that tells 1, 1.0 and True apart)
MSet(items, key, val) == IF RMutant = "idkeys" THEN SetKey(items, key, val) ELSE PSet(items, key, val)
RECURSIVE HUpdateMap(_, _, _)
HUpdateMap(items, pairs, i) ==
  IF i > Len(pairs) THEN items ELSE HUpdateMap(MSet(items, pairs[i][1], pairs[i][2]), pairs, i + 1)
RECURSIVE HUpdatePairs(_, _, _, _)
HUpdatePairs(h, d, els, i) ==                     \* dict.update(d, iterable of pairs), in place
  IF i > Len(els) THEN HOk(h, d, d.a)
  ELSE LET e == els[i] IN
       IF ~HIterable(h, e) THEN HErr(h, "TypeError")
       ELSE LET kv == HIter(h, e) IN
            IF Len(kv) # 2 THEN HErr(h, "ValueError")
            ELSE IF ~HHashable(h, kv[1]) THEN HErr(h, "TypeError")
            ELSE HUpdatePairs([h EXCEPT ![d.a].items = MSet(@, kv[1], kv[2])], d, els, i + 1)
HUpdate(h, d, v) ==
  IF IsRef(v) /\ h[v.a].cls \in {"dict", "odict"}
  THEN HOk([h EXCEPT ![d.a].items = HUpdateMap(@, h[v.a].items, 1)], d, d.a)
  ELSE IF HIterable(h, v) THEN HUpdatePairs(h, d, HIter(h, v), 1)
  ELSE HErr(h, "TypeError")
HKeepFirst(h, d, v) ==
  IF IsRef(v) /\ h[v.a].cls \in {"dict", "odict"}
  THEN HOk([h EXCEPT ![d.a].items = SKeepFirstMap(@, h[v.a].items, 1)], d, d.a)
  ELSE HErr(h, "AttributeError")

HOp(h, op, a, b) ==
  CASE op = "iadd"      -> HPlus(h, a, b, TRUE)
    [] op = "add"       -> HPlus(h, a, b, FALSE)
    [] op = "digits"    -> IF IsNum(a) /\ IsNum(b) /\ NumCompat(a, b) THEN HOk(h, NumDigits(a, b), 0) ELSE HErr(h, "TypeError")
    [] op = "count"     -> HOk(h, VInt(a.i + 1), 0)                    \* Count: lambda cur, val: cur + 1
    [] op = "right"     -> HOk(h, b, 0)
    [] op = "update"    -> HUpdate(h, a, b)
    [] op = "keepfirst" -> HKeepFirst(h, a, b)
    [] op = "extend"    -> HPlus(h, a, b, TRUE)

\* init(): scalars, or a freshly allocated container
HInit(h, init) ==
  CASE init \in {"int", "float", "half", "five", "str", "strx", "dec"} -> [h |-> h, v |-> SInit(init)]
    [] init = "tup0" -> [h |-> Append(h, Cell("tuple", <<VInt(0)>>)), v |-> VRef(NewAddr(h))]
    [] init \in {"list", "lazy", "shlist"} -> [h |-> Append(h, Cell("list", <<>>)), v |-> VRef(NewAddr(h))]
    [] init = "seeded" -> [h |-> Append(h, Cell("list", <<VInt(0)>>)), v |-> VRef(NewAddr(h))]
    [] init \in {"tuple", "dict", "odict"} -> [h |-> Append(h, Cell(init, <<>>)), v |-> VRef(NewAddr(h))]

\* outcome of one evaluation: heap after, result, exception class, number of init() calls,
\* the accumulator object at the end, addresses mutated in place
MOut(h, ok, v, exc, inits, acc, muts) ==
  [h |-> h, ok |-> ok, v |-> v, exc |-> exc, inits |-> inits, acc |-> acc, muts |-> muts]

\* Fold._fold / Merge._fold:  ret = init();  for v in iterator: ret = op(ret, v)
RECURSIVE MLoop(_, _, _, _, _, _, _)
MLoop(h, op, acc, elems, i, inits, muts) ==
  IF i > Len(elems) THEN MOut(h, TRUE, acc, "", inits, acc, muts)
  ELSE LET r == HOp(h, op, acc, elems[i]) IN
       IF r.ok THEN MLoop(r.h, op, r.v, elems, i + 1, inits, IF r.mut = 0 THEN muts ELSE Append(muts, r.mut))
       ELSE MOut(r.h, FALSE, VNone, r.exc, inits, acc, muts)

MFold(h, op, init, elems, persist) ==
  IF init = "shlist" /\ persist # VNone /\ RMutant # "shared_copied"   \* init() hands out the object it handed out before
  THEN MLoop(h, op, persist, elems, 1, 1, <<>>)
  ELSE IF RMutant = "init_once" /\ persist # VNone                       \* init evaluated once, at construction
  THEN MLoop(h, op, persist, elems, 1, 0, <<>>)
  ELSE IF RMutant = "first_as_init" /\ op = "iadd" /\ elems # <<>>   \* ret = first element, then iadd
  THEN MLoop(h, op, elems[1], elems, 2, 0, <<>>)
  ELSE IF RMutant = "merge_into_first" /\ op = "update" /\ elems # <<>>
          /\ IsRef(elems[1]) /\ h[elems[1].a].cls \in {"dict", "odict"}
  THEN MLoop(h, op, elems[1], elems, 2, 0, <<>>)
  ELSE LET a == HInit(h, init) IN MLoop(a.h, op, a.v, elems, 1, 1, <<>>)

\* itertools.chain.from_iterable(iterator), consumed
RECURSIVE HChain(_, _, _, _)
HChain(h, elems, i, acc) ==
  IF i > Len(elems) THEN SOk(acc)
  ELSE IF ~HIterable(h, elems[i]) THEN SErr("TypeError")
  ELSE HChain(h, elems, i + 1, acc \o HIter(h, elems[i]))
\* a lazy result, as seen by list(result): a new list
MLazy(h, elems) ==
  LET r  == HChain(h, elems, 1, <<>>)
      r2 == IF RMutant = "lazy_extra_level" /\ r.ok THEN HChain(h, r.v, 1, <<>>) ELSE r
  IN IF r2.ok THEN MOut(Append(h, Cell("list", r2.v)), TRUE, VRef(NewAddr(h)), "", 0, VNone, <<>>)
     ELSE MOut(h, FALSE, VNone, r2.exc, 0, VNone, <<>>)

RECURSIVE HChainN(_, _, _)
HChainN(h, elems, n) ==
  IF n = 0 THEN SOk(elems)
  ELSE LET r == HChain(h, elems, 1, <<>>) IN IF r.ok THEN HChainN(h, r.v, n - 1) ELSE r

\* glom(root, spec): the subspec, then Fold.glomit / flatten() / merge()
\* glom(root, subspec) for the three subspecs  T,  'k',  ('k', [T])  - the last one a list spec
\* over the fetched value: a new list of its items, or UnregisteredTarget when it cannot be iterated
MSub(h, root, sp) ==
  IF sp.sub = "T" THEN [ok |-> TRUE, h |-> h, v |-> root, exc |-> ""]
  ELSE LET inner == Lookup(h[root.a].items, VStr("k")) IN
       IF sp.sub = "k" THEN [ok |-> TRUE, h |-> h, v |-> inner, exc |-> ""]
       ELSE IF GlomIterable(h, inner)
       THEN [ok |-> TRUE, h |-> Append(h, Cell("list", HIter(h, inner))), v |-> VRef(NewAddr(h)), exc |-> ""]
       ELSE [ok |-> FALSE, h |-> h, v |-> VNone, exc |-> "UnregisteredTarget"]
MEval(h0, root, sp, persist) ==
  LET s == MSub(h0, root, sp)  h == s.h  t == s.v IN
  IF sp.form = "flatten" /\ sp.levels = 0 THEN MOut(h0, TRUE, root, "", 0, VNone, <<>>)   \* return target
  \* the subspec is evaluated outside the try: its own failure propagates as it is
  \* (mutant "sub_in_try": inside, an UnregisteredTarget of the subspec becomes a FoldError)
  ELSE IF ~s.ok THEN MOut(h0, FALSE, VNone, IF RMutant = "sub_in_try" THEN "FoldError" ELSE s.exc, 0, VNone, <<>>)
  ELSE IF ~GlomIterable(h, t) THEN MOut(h, FALSE, VNone, "FoldError", 0, VNone, <<>>)      \* target_iter fails first
  ELSE
    LET elems == HIter(h, t) IN
    CASE sp.form \in {"Fold", "Sum", "Merge"} -> MFold(h, sp.op, sp.init, elems, persist)
      [] sp.form = "Count" ->                \* Fold(T, init=int, op=lambda cur, val: cur + 1)
           MFold(h, "count", IF RMutant = "count_bad_init" THEN "five" ELSE "int", elems, persist)
      [] sp.form = "merge" ->              \* Merge(subspec, init, op) is built per call: test_init = init()
           LET m == MFold(h, sp.op, sp.init, elems, persist) IN [m EXCEPT !.inits = @ + 1]
      [] sp.form = "Flatten" ->
           IF sp.lazy THEN MLazy(h, elems) ELSE MFold(h, "iadd", sp.init, elems, persist)
      [] sp.form = "flatten" ->                    \* (subspec, Flatten(init='lazy'),)*(levels-1), Flatten(init))
           LET lv == HChainN(h, elems, sp.levels - 1) IN
           IF ~lv.ok THEN MOut(h, FALSE, VNone, lv.exc, IF sp.lazy THEN 0 ELSE 1, VNone, <<>>)
           ELSE IF sp.lazy THEN MLazy(h, lv.v)
           ELSE MFold(h, "iadd", sp.init, lv.v, persist)

\* ================================================================================
\* PART 3.  Laws relating evaluations (mechanism outcome o, current heap h, input heap h0) to
\* the reference
\* ================================================================================
\* what is compared with the library: [ok, v (structural), exc]; inits = number of init() calls
Shown(h, o) == [ok |-> o.ok, v |-> IF o.ok THEN Deep(h, o.v) ELSE VNone, exc |-> o.exc]
\* glom(t, subspec) in the reference: its failure is the outcome, whatever the reduction
RefSub(sp, w) ==
  IF sp.sub = "T" THEN SOk(w)
  ELSE LET inner == Lookup(w.items, VStr("k")) IN
       IF sp.sub = "k" THEN SOk(inner)
       ELSE IF SGlomIterable(inner) THEN SOk(DList(SIter(inner))) ELSE SErr("UnregisteredTarget")
RefShown(h0, root, sp) ==
  LET st == RefSub(sp, Deep(h0, root))
      r  == IF st.ok THEN RefOutcome(sp, st.v) ELSE st
  IN [ok |-> r.ok, v |-> r.v, exc |-> r.exc]
MinInits(h0, root, sp) == LET st == RefSub(sp, Deep(h0, root)) IN IF st.ok THEN RefInits(sp, st.v) ELSE 0

\* an init that hands out one SHARED list: plain Python then extends that one object again at every
\* evaluation, and every result is that object - after k evaluations all of them show k rounds
RECURSIVE Rep(_, _)
Rep(s, k) == IF k = 0 THEN <<>> ELSE s \o Rep(s, k - 1)
RefShownK(h0, root, sp, k) ==
  LET r == RefShown(h0, root, sp) IN
  IF sp.init = "shlist" /\ r.ok THEN [r EXCEPT !.v = DList(Rep(r.v.items, k))] ELSE r
\* L1  the result equals the plain-Python reduction (value, or class of the exception); k = number of
\*     evaluations made so far
LawValue(h0, h, root, sp, o, k) == Shown(h, o) = RefShownK(h0, root, sp, k)
\* L1b init() is called afresh (at least once) during every eager evaluation of an iterable target
LawInits(h0, root, sp, o) == o.inits >= MinInits(h0, root, sp)
\* L2  no element of the input is mutated
LawFrame(h0, h) == \A a \in 1..Len(h0) : h[a] = h0[a]
\* L3  no input cell is ever the object that is updated in place (no mutable alias of the accumulator)
LawNoInputAccumulator(h0, o) == \A i \in 1..Len(o.muts) : o.muts[i] > Len(h0)
\* L4  a non-iterable target (what the subspec returned) raises FoldError, and only that does
LawFoldError(h0, root, sp, o) ==
  (o.exc = "FoldError") <=>
    LET st == RefSub(sp, Deep(h0, root)) IN
    ~(sp.form = "flatten" /\ sp.levels = 0) /\ st.ok /\ ~SGlomIterable(st.v)
\* L5  lazy = eager: consuming a lazy Flatten gives what the eager Flatten(init=list) returns
LawLazyIsEager(h0, h, root, sp, o) ==
  sp.lazy => LET e == MEval(h0, root, [sp EXCEPT !.lazy = FALSE, !.init = "list"], VNone)
                 se == Shown(e.h, e)  so == Shown(h, o)
             IN so = se

\* mutable cells (lists, dicts) created by evaluations and reachable from a value
RECURSIVE ReachV(_, _, _), ReachSeq(_, _, _, _)
ReachV(h, v, seen) ==
  IF ~IsRef(v) \/ v.a \in seen THEN seen
  ELSE LET c == h[v.a]
           kids == IF c.cls \in {"dict", "odict"} THEN [i \in 1..Len(c.items) |-> c.items[i][2]]
                   ELSE IF c.cls = "obj" THEN <<>> ELSE c.items
       IN ReachSeq(h, kids, 1, seen \cup {v.a})
ReachSeq(h, kids, i, seen) ==
  IF i > Len(kids) THEN seen ELSE ReachSeq(h, kids, i + 1, ReachV(h, kids[i], seen))
FreshMutable(h, n0, v) == {a \in ReachV(h, v, {}) : a > n0 /\ h[a].cls \in {"list", "dict", "odict"}}
\* L6  results of separate evaluations share no state
LawIndependent(h, n0, v1, v2) == FreshMutable(h, n0, v1) \cap FreshMutable(h, n0, v2) = {}
====================================================================================
