\* self-contained configuration: a mutant of the mechanism on which TLC must report a law violated
\*   tlc -config MC_C11_mutant.cfg MC_C11.tla
\* Mutant = "attach_first" (NoEarlyWrite) | "factory_per_segment" (FactoryLaw) | "replace_existing" (Outcome);
\* "none" passes.  bin/check C11 --tier thorough runs all three (harness/c11.py MUTANTS).
INIT Init
NEXT Next
INVARIANT NoEarlyWrite
INVARIANT AttachLast
INVARIANT FactoryLaw
INVARIANT Outcome
INVARIANT ExecRegistryOnly
INVARIANT SpecCarriesNothing
INVARIANT NeverReplaced
INVARIANT ReadBack
CHECK_DEADLOCK FALSE
CONSTANTS
  Mutant = "attach_first"
  MaxSpine = 1
  LevelClasses = {"dict", "list", "obj"}
  LeafOpts = {"none", "edict"}
  SideOpts = {"absent", "shared"}
  Alpha = "small"
  Alpha3 = "p"
  Reuse = FALSE
  Profiles = {"plain", "miss", "missflag"}
