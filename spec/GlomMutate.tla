-------------------------------- MODULE GlomMutate --------------------------------
(* In-place mutation: one Assign / Delete evaluation as a state machine over an       *)
(* explicit heap (properties C11, C12).                                                *)
(*                                                                                     *)
(*   assign:  EvalVal -> FetchParent.. -> Store                                         *)
(*                         \-> { FactoryCall -> FetchParent.. }+ -> BuildTail+ -> Store *)
(*   delete:  FetchParent.. -> Del                                                      *)
(*                                                                                     *)
(* The module has four parts, kept apart on purpose:                                   *)
(*   1. the trusted Python primitives  dest[k] = v, setattr, del dest[k], delattr on   *)
(*      the abstract heap, with *faults* (a cell whose mutator raises, a read-only      *)
(*      property, immutable cells) decided by per-cell flags chosen by the environment; *)
(*   2. the LAW, written from the property statements: RefAssign / RefDelete give, as a  *)
(*      function of the case alone, the heap a plain-Python nested assignment / del     *)
(*      produces and the documented error class; plus state laws over every             *)
(*      intermediate state (NoEarlyWrite, AttachLast, FactoryLaw, ...);                 *)
(*   3. the MECHANISM: the functional core Do<Action>(s) of every machine step and the  *)
(*      actions over the variables (heap is a variable);                                *)
(*   4. mutants of the mechanism (constant Mutant) on which TLC must report a law        *)
(*      violated.                                                                       *)
(* A case is a JSON-native record                                                      *)
(*   [kind: "assign"|"delete", heap0, flags, root, steps, val: [k,v,steps],             *)
(*    missing: "none"|"dict"|"list"|"obj", facfail: Nat, ignore: BOOLEAN]               *)
(* A step with op "x" is the wildcard '*' (T.__star__()), op "X" is '**' (the value itself  *)
(* and all its descendants, breadth first, each container expanded once): the write is broadcast over *)
(* every match in order; atomicity is only claimed for wildcard-free paths.              *)
(* flags[a] = "slots": a slotted attribute object (no __dict__) with slots a, b, x.        *)
(* missing = "sdict": the factory hands out ONE shared dict on every call.                *)
(* flags[a] \in {"", "wfault", "dfault", "prop"}: the cell's __setitem__/__setattr__    *)
(* raises, its __delitem__/__delattr__ raises, its class has a read-only property "r".  *)
(* facfail = k > 0: the missing-factory raises on its k-th call.                         *)
(* The same spec object may be evaluated again on another target (StartAgain): memo is   *)
(* whatever the spec object carries from one evaluation to the next -- nothing (0).      *)
EXTENDS GlomAccess

CONSTANT Mutant       \* "none" | "attach_first" | "factory_per_segment" | "replace_existing"
                      \*        | "ignore_skips_delete"
                      \*        | "catch_typeerror"   a TypeError of del dest[key] read as "missing"
                      \* historic behaviours of glom, repaired since (a regression is a VIOLATION):
                      \*        | "catch_index_only"  Delete._del_one read only IndexError of T[key] as missing
                      \*        | "tail_copies_value" the nested Assign of missing= re-evaluated the value (copy)
                      \*        | "tail_value_lost"   S-rooted destination + missing=: value written outside the tail
                      \*        | "alias_lost"        a list met twice in a literal value is rebuilt as [] the 2nd time
                      \*        | "tail_default_registry"  created containers filled through another registry
                      \* state kept on the spec object between evaluations (must not exist):
                      \*        | "memo_split"        the split at the first absent segment is remembered

\* ===================================================================================
\* 1. Python primitives on the heap (trusted reference semantics of four statements)
\* ===================================================================================
FlagOf(fl, v) == IF IsRef(v) /\ v.a <= Len(fl) THEN fl[v.a] ELSE ""

\* events of the write log: the mutator method of a container was entered (done = it
\* completed), the missing-factory was called for the n-th time
\* via: how the mutator was reached -- "seg": by the 'assign' / 'delete' handler that the EXECUTING
\* registry (the default one for glom(), a Glommer's own for glommer.glom()) has for the container's
\* type, as every path-segment step must be; "t": directly by a T[..] / T.attr step;
\* "foreign": by a handler of some other registry (never, in the specification)
WEv(a, op, key, done, via) == [ev |-> "write", a |-> a, op |-> op, key |-> key, done |-> done, via |-> via]
FEv(n) == [ev |-> "factory", a |-> n, op |-> "call", key |-> VNone, done |-> TRUE, via |-> ""]

POk(h, evs)     == [ok |-> TRUE,  heap |-> h, exc |-> "", evs |-> evs]
PExc(h, e, evs) == [ok |-> FALSE, heap |-> h, exc |-> e,  evs |-> evs]

NormIdx(n, i) == IF i >= 0 /\ i < n THEN i + 1 ELSE IF i < 0 /\ i >= -n THEN n + i + 1 ELSE 0

\* dest[key] = v
PySetItem(h, fl, dest, key, v, via) ==
  IF ~IsRef(dest) THEN PExc(h, "TypeError", <<>>)
  ELSE LET c == h[dest.a]  f == FlagOf(fl, dest) IN
    CASE c.cls \in {"dict", "odict"} ->
           IF f = "wfault" THEN PExc(h, "RuntimeError", <<WEv(dest.a, "set", key, FALSE, via)>>)
           ELSE POk([h EXCEPT ![dest.a].items = SetKey(@, key, v)], <<WEv(dest.a, "set", key, TRUE, via)>>)
      [] c.cls = "list" ->
           IF f = "wfault" THEN PExc(h, "RuntimeError", <<WEv(dest.a, "set", key, FALSE, via)>>)
           ELSE IF key.k # "int" THEN PExc(h, "TypeError", <<WEv(dest.a, "set", key, FALSE, via)>>)
           ELSE LET j == NormIdx(Len(c.items), key.i) IN
                IF j = 0 THEN PExc(h, "IndexError", <<WEv(dest.a, "set", key, FALSE, via)>>)
                ELSE POk([h EXCEPT ![dest.a].items[j] = v], <<WEv(dest.a, "set", key, TRUE, via)>>)
      [] OTHER -> PExc(h, "TypeError", <<>>)        \* tuple, frozenset, set, obj: no item assignment

SlotNames == {VStr("a"), VStr("b"), VStr("x")}       \* __slots__ of a cell flagged "slots"
\* setattr(dest, name, v)
PySetAttr(h, fl, dest, name, v, via) ==
  IF name.k # "str" THEN PExc(h, "TypeError", <<>>)
  ELSE IF IsRef(dest) /\ h[dest.a].cls = "obj" THEN
    LET f == FlagOf(fl, dest) IN
    IF f = "wfault" THEN PExc(h, "RuntimeError", <<WEv(dest.a, "set", name, FALSE, via)>>)
    ELSE IF f = "prop" /\ name = VStr("r") THEN PExc(h, "AttributeError", <<WEv(dest.a, "set", name, FALSE, via)>>)
    ELSE IF f = "slots" /\ name \notin SlotNames THEN PExc(h, "AttributeError", <<WEv(dest.a, "set", name, FALSE, via)>>)
    ELSE POk([h EXCEPT ![dest.a].items = SetKey(@, name, v)], <<WEv(dest.a, "set", name, TRUE, via)>>)
  ELSE PExc(h, "AttributeError", <<>>)              \* builtin values have no settable attributes

\* del dest[key]
PyDelItem(h, fl, dest, key, via) ==
  IF ~IsRef(dest) THEN PExc(h, "TypeError", <<>>)
  ELSE LET c == h[dest.a]  f == FlagOf(fl, dest) IN
    CASE c.cls \in {"dict", "odict"} ->
           IF f = "dfault" THEN PExc(h, "RuntimeError", <<WEv(dest.a, "del", key, FALSE, via)>>)
           ELSE IF ~HasKey(c.items, key) THEN PExc(h, "KeyError", <<WEv(dest.a, "del", key, FALSE, via)>>)
           ELSE POk([h EXCEPT ![dest.a].items = DelKey(@, key)], <<WEv(dest.a, "del", key, TRUE, via)>>)
      [] c.cls = "list" ->
           IF f = "dfault" THEN PExc(h, "RuntimeError", <<WEv(dest.a, "del", key, FALSE, via)>>)
           ELSE IF key.k # "int" THEN PExc(h, "TypeError", <<WEv(dest.a, "del", key, FALSE, via)>>)
           ELSE LET j == NormIdx(Len(c.items), key.i) IN
                IF j = 0 THEN PExc(h, "IndexError", <<WEv(dest.a, "del", key, FALSE, via)>>)
                ELSE POk([h EXCEPT ![dest.a].items = RemoveAt(@, j)], <<WEv(dest.a, "del", key, TRUE, via)>>)
      [] OTHER -> PExc(h, "TypeError", <<>>)

\* delattr(dest, name)
PyDelAttr(h, fl, dest, name, via) ==
  IF name.k # "str" THEN PExc(h, "TypeError", <<>>)
  ELSE IF IsRef(dest) /\ h[dest.a].cls = "obj" THEN
    LET c == h[dest.a]  f == FlagOf(fl, dest) IN
    IF f = "dfault" THEN PExc(h, "RuntimeError", <<WEv(dest.a, "del", name, FALSE, via)>>)
    ELSE IF (f = "prop" /\ name = VStr("r")) \/ ~HasKey(c.items, name)
         THEN PExc(h, "AttributeError", <<WEv(dest.a, "del", name, FALSE, via)>>)
    ELSE POk([h EXCEPT ![dest.a].items = DelKey(@, name)], <<WEv(dest.a, "del", name, TRUE, via)>>)
  ELSE PExc(h, "AttributeError", <<>>)

\* Built-in support documented for path segments ('P'): keys of mappings, indexes of
\* sequences, attributes of objects; tuples are registered as unassignable.
Handler(h, dest) ==
  LET cls == ClsOf(h, dest) IN
  CASE cls \in {"dict", "odict"} -> "item" [] cls = "list" -> "seq" [] cls = "tuple" -> "none" [] OTHER -> "attr"

\* one assignment step  (exc is the class glom lets escape)
StoreOp(h, fl, dest, st, v) ==
  CASE st.op = "[" -> PySetItem(h, fl, dest, st.arg, v, "t")
    [] st.op = "." -> PySetAttr(h, fl, dest, st.arg, v, "t")
    [] st.op = "P" ->
         LET hd == Handler(h, dest) IN
         IF hd = "none" THEN PExc(h, "UnregisteredTarget", <<>>)
         ELSE LET r == CASE hd = "item" -> PySetItem(h, fl, dest, st.arg, v, "seg")
                         [] hd = "seq"  -> LET n == PyInt(st.arg) IN
                                           IF n.ok THEN PySetItem(h, fl, dest, VInt(n.v), v, "seg") ELSE PExc(h, n.exc, <<>>)
                         [] hd = "attr" -> PySetAttr(h, fl, dest, st.arg, v, "seg")
              IN IF r.ok THEN r ELSE [r EXCEPT !.exc = "PathAssignError"]

\* one deletion step, exceptions of the primitive untranslated (raw = TRUE when the
\* exception arose outside any handler, i.e. no 'delete' handler is registered)
DelOp(h, fl, dest, st) ==
  CASE st.op = "[" -> PyDelItem(h, fl, dest, st.arg, "t")
    [] st.op = "." -> PyDelAttr(h, fl, dest, st.arg, "t")
    [] st.op = "P" ->
         LET hd == Handler(h, dest) IN
         CASE hd = "none" -> PExc(h, "UnregisteredTarget", <<>>)
           [] hd = "item" -> PyDelItem(h, fl, dest, st.arg, "seg")
           [] hd = "seq"  -> LET n == PyInt(st.arg) IN
                             IF n.ok THEN PyDelItem(h, fl, dest, VInt(n.v), "seg") ELSE PExc(h, n.exc, <<>>)
           [] hd = "attr" -> PyDelAttr(h, fl, dest, st.arg, "seg")

\* ===================================================================================
\* 2. The law
\* ===================================================================================
NSteps(c)  == Len(c.steps)
ParentSteps(c) == SubSeq(c.steps, 1, NSteps(c) - 1)
FinalStep(c) == c.steps[NSteps(c)]
N0(c) == Len(c.heap0)
Pre(c, h) == SubSeq(h, 1, N0(c))                 \* the cells that existed before the call

\* value to assign: a literal, or Spec(path) / T... evaluated against the target
\* A literal value may be a container graph of exact dicts and lists given by vs.cells (its own
\* little heap: references between its cells are [k: "vref", a], leaves are scalars or T paths
\* [k: "t", steps]), vs.v = [k: "vref", a].  Argument mode stores a REBUILT container of the same
\* type and shape: one fresh cell per value cell reachable from vs.v (numbered after the cells
\* of h in depth-first order of first visit), equal contents, the same aliasing and cycles,
\* T leaves replaced by what they denote on the target.  The literal itself is not touched.
VRefsOf(cell) ==
  LET vals == IF cell.cls \in MapClasses THEN [i \in 1..Len(cell.items) |-> cell.items[i][2]] ELSE cell.items
  IN SelectSeq(vals, LAMBDA x : x.k = "vref")
InSeq(x, sq) == \E i \in 1..Len(sq) : sq[i] = x
PosIn(x, sq) == CHOOSE i \in 1..Len(sq) : sq[i] = x
RECURSIVE VOrder(_, _, _)
VOrder(cells, todo, seen) ==
  IF todo = <<>> THEN seen
  ELSE LET j == Head(todo).a IN
       IF InSeq(j, seen) THEN VOrder(cells, Tail(todo), seen)
       ELSE VOrder(cells, VRefsOf(cells[j]) \o Tail(todo), Append(seen, j))

ValBuildM(h, root, vs, lose) ==     \* [ok, v, heap, exc]; lose: only for the mechanism mutant alias_lost
  IF vs.k # "lit" THEN
    LET r == PathEval(h, root, vs.steps) IN
    IF r.ok THEN [ok |-> TRUE, v |-> r.v, heap |-> h, exc |-> ""] ELSE [ok |-> FALSE, v |-> VNone, heap |-> h, exc |-> r.err]
  ELSE IF vs.v.k # "vref" THEN [ok |-> TRUE, v |-> vs.v, heap |-> h, exc |-> ""]
  ELSE
    LET order == VOrder(vs.cells, <<vs.v>>, <<>>)
        base == Len(h)
        lost == base + Len(order) + 1            \* mutant alias_lost: an empty list instead of the shared one
        leaf(x) == CASE x.k = "vref" ->
                          IF lose /\ vs.cells[x.a].cls = "list" THEN Ok(VRef(lost))
                          ELSE Ok(VRef(base + PosIn(x.a, order)))
                     [] x.k = "t" -> LET r == PathEval(h, root, x.steps) IN IF r.ok THEN Ok(r.v) ELSE Exc(r.err)
                     [] OTHER -> Ok(x)
        valsOf(j) == LET c == vs.cells[j] IN
                     IF c.cls \in MapClasses THEN [i \in 1..Len(c.items) |-> c.items[i][2]] ELSE c.items
        bad == \E i \in 1..Len(order) : \E k \in 1..Len(valsOf(order[i])) : ~leaf(valsOf(order[i])[k]).ok
        copy(j) == LET c == vs.cells[j] IN
                   IF c.cls \in MapClasses
                   THEN Cell(c.cls, [i \in 1..Len(c.items) |-> <<c.items[i][1], leaf(c.items[i][2]).v>>])
                   ELSE Cell(c.cls, [i \in 1..Len(c.items) |-> leaf(c.items[i]).v])
        extra == IF lose THEN <<Cell("list", <<>>)>> ELSE <<>>
    IN IF bad THEN [ok |-> FALSE, v |-> VNone, heap |-> h, exc |-> "PathAccessError"]
       ELSE [ok |-> TRUE, v |-> VRef(base + 1), heap |-> h \o [i \in 1..Len(order) |-> copy(order[i])] \o extra, exc |-> ""]

ValBuild(h, root, vs) == ValBuildM(h, root, vs, FALSE)

\* what the law expects:  ok / err in {"", "PathAccessError", "PathDeleteError", "any"} /
\* lenient (the statement fixes the heap but not whether an error is raised) / heap / v
Expect(ok, err, lenient, h, v) == [ok |-> ok, err |-> err, lenient |-> lenient, heap |-> h, v |-> v]

FacCls(m) == IF m = "sdict" THEN "dict" ELSE m
Shared(c) == c.missing = "sdict"
NFresh(c, d) == IF Shared(c) THEN 1 ELSE d          \* distinct containers d factory calls produce
TailAddr(c, NB, j) == IF Shared(c) THEN NB + 1 ELSE NB + j
\* the tail of fresh containers for the absent segments b .. n-1 (b = first absent parent
\* step): cell N0+j is made by the j-th factory call and receives exactly one entry,
\*   tmp_d[step_n] = val; tmp_{d-1}[step_{n-1}] = tmp_d; ... ; dest[step_b] = tmp_1
RECURSIVE TailFill(_, _, _, _, _)
TailFill(c, h, b, j, v) ==        \* fill cell NB+j .. NB+d innermost first; returns POk/PExc
  LET d == NSteps(c) - b
      NB == Len(h) - NFresh(c, d)    \* the cells before the fresh tail (target + rebuilt value)
  IN
  IF j > d THEN POk(h, <<>>)
  ELSE LET inner == TailFill(c, h, b, j + 1, v) IN
       IF ~inner.ok THEN inner
       ELSE StoreOp(inner.heap, c.flags, VRef(TailAddr(c, NB, j)), c.steps[b + j],
                    IF j = d THEN v ELSE VRef(TailAddr(c, NB, j + 1)))

\* ---- wildcards: the parents a path with '*' steps reaches, in order -------------------
IsWild(st) == st.op \in {"x", "X"}
HasStar(steps) == \E i \in 1..Len(steps) : IsWild(steps[i])
FirstWildFrom(steps, i) == CHOOSE k \in i..Len(steps) : IsWild(steps[k]) /\ \A m \in i..(k - 1) : ~IsWild(steps[m])
\* '**': the children of cur, then the children of each of them ... in breadth-first order; every
\* occurrence is an entry, but a container (identity = address) is expanded only the first time
RECURSIVE Bfs(_, _, _, _)
Bfs(h, nxt, i, sofar) ==
  IF i > Len(nxt) THEN nxt
  ELSE LET it == nxt[i] IN
       IF IsRef(it) /\ it.a \notin sofar THEN Bfs(h, nxt \o Children(h, it), i + 1, sofar \cup {it.a})
       ELSE Bfs(h, nxt, i + 1, sofar)
Descendants(h, cur) == <<cur>> \o Bfs(h, Children(h, cur), 1, IF IsRef(cur) THEN {cur.a} ELSE {})
Matches(h, cur, st) == IF st.op = "x" THEN Children(h, cur) ELSE Descendants(h, cur)
RECURSIVE FlattenSeq(_)
FlattenSeq(ss) == IF ss = <<>> THEN <<>> ELSE Head(ss) \o FlattenSeq(Tail(ss))
\* '*' enumerates the children in natural order; every later step is applied per child and a
\* child on which it fails is dropped; a failure outside any wildcard fails the whole access
RECURSIVE Fan(_, _, _, _)
Fan(h, cur, steps, i) ==
  IF i > Len(steps) THEN [ok |-> TRUE, dests |-> <<cur>>, idx |-> 0]
  ELSE IF IsWild(steps[i]) THEN
    LET ch == Matches(h, cur, steps[i])
        sub == [j \in 1..Len(ch) |-> Fan(h, ch[j], steps, i + 1)]
    IN [ok |-> TRUE, dests |-> FlattenSeq([j \in 1..Len(ch) |-> IF sub[j].ok THEN sub[j].dests ELSE <<>>]), idx |-> 0]
  ELSE LET r == StepApply(h, cur, steps[i]) IN
       IF r.ok THEN Fan(h, r.v, steps, i + 1) ELSE [ok |-> FALSE, dests |-> <<>>, idx |-> i]

\* assignment at every match in order; an error at one match ends the broadcast there
RECURSIVE FoldStore(_, _, _, _, _)
FoldStore(c, h, dests, j, v) ==
  IF j > Len(dests) THEN [ok |-> TRUE, heap |-> h]
  ELSE LET r == StoreOp(h, c.flags, dests[j], FinalStep(c), v) IN
       IF r.ok THEN FoldStore(c, r.heap, dests, j + 1, v) ELSE [ok |-> FALSE, heap |-> h]

\* new container j receives new container j+1 under segment b+j (the last one stays empty)
RECURSIVE LinkTail(_, _, _, _, _, _)
LinkTail(c, h, b, j, d, NB) ==
  IF j >= d THEN POk(h, <<>>)
  ELSE LET inner == LinkTail(c, h, b, j + 1, d, NB) IN
       IF ~inner.ok THEN inner
       ELSE StoreOp(inner.heap, c.flags, VRef(NB + j), c.steps[b + j], VRef(NB + j + 1))

RefStarAssign(c) ==
  LET v == ValBuild(c.heap0, c.root, c.val)
      fan == Fan(c.heap0, c.root, ParentSteps(c), 1)
  IN IF ~v.ok THEN Expect(FALSE, "any", FALSE, c.heap0, VNone)
     ELSE IF ~fan.ok /\ c.missing = "none" THEN Expect(FALSE, "PathAccessError", FALSE, c.heap0, VNone)
     ELSE IF ~fan.ok THEN
       \* a segment before the first wildcard is absent: the absent segments b .. s-1 up to that
       \* wildcard are created (one factory call each) and attached last; the wildcard ranges over the
       \* last new, empty container ('*': no match; '**': that container itself)
       LET b == fan.idx
           d == FirstWildFrom(c.steps, b) - b
           NB == Len(v.heap)
           dest == PathEval(c.heap0, c.root, SubSeq(c.steps, 1, b - 1)).v
           fresh == v.heap \o [j \in 1..d |-> Cell(FacCls(c.missing), <<>>)]
           links == LinkTail(c, fresh, b, 1, d, NB)
           fan2 == Fan(fresh, VRef(NB + d), ParentSteps(c), b + d)
           filled == FoldStore(c, links.heap, fan2.dests, 1, v.v)
           failed == Expect(FALSE, "any", FALSE, c.heap0, VNone)
       IN IF c.facfail \in 1..d \/ ~links.ok \/ ~filled.ok THEN failed
          ELSE LET r == StoreOp(filled.heap, c.flags, dest, c.steps[b], VRef(NB + 1)) IN
               IF r.ok THEN Expect(TRUE, "", FALSE, r.heap, c.root) ELSE failed
     ELSE LET r == FoldStore(c, v.heap, fan.dests, 1, v.v) IN
          IF r.ok THEN Expect(TRUE, "", FALSE, r.heap, c.root) ELSE Expect(FALSE, "any", FALSE, r.heap, VNone)

RefPlainAssign(c) ==
  LET n == NSteps(c)
      v == ValBuild(c.heap0, c.root, c.val)          \* v.heap = heap0 + the rebuilt literal (if any)
      par == PathEval(c.heap0, c.root, ParentSteps(c))
      failed == Expect(FALSE, "any", FALSE, c.heap0, VNone)
  IN IF ~v.ok THEN failed
     ELSE IF par.ok THEN
       LET r == StoreOp(v.heap, c.flags, par.v, c.steps[n], v.v) IN
       IF r.ok THEN Expect(TRUE, "", FALSE, r.heap, c.root) ELSE failed
     ELSE IF par.idx < 0 THEN failed
     ELSE IF c.missing = "none" THEN Expect(FALSE, "PathAccessError", FALSE, c.heap0, VNone)
     ELSE LET b == par.idx + 1                   \* first absent parent step (1-based)
              d == n - b                          \* absent segments = factory calls
              dest == PathEval(c.heap0, c.root, SubSeq(c.steps, 1, b - 1)).v
              fresh == v.heap \o [j \in 1..NFresh(c, d) |-> Cell(FacCls(c.missing), <<>>)]
              tail == TailFill(c, fresh, b, 1, v.v)
          IN IF c.facfail \in 1..d \/ ~tail.ok THEN failed
             ELSE LET r == StoreOp(tail.heap, c.flags, dest, c.steps[b], VRef(Len(v.heap) + 1)) IN
                  IF r.ok THEN Expect(TRUE, "", FALSE, r.heap, c.root) ELSE failed

RefAssign(c) == IF HasStar(c.steps) THEN RefStarAssign(c) ELSE RefPlainAssign(c)

AbsentSegments(c) ==
  LET par == PathEval(c.heap0, c.root, ParentSteps(c)) IN
  IF c.missing = "none" THEN 0
  ELSE IF HasStar(c.steps) THEN
    LET fan == Fan(c.heap0, c.root, ParentSteps(c), 1) IN
    IF fan.ok THEN 0 ELSE FirstWildFrom(c.steps, fan.idx) - fan.idx
  ELSE IF par.ok \/ par.idx < 0 THEN 0 ELSE NSteps(c) - (par.idx + 1)

\* how the final step of a delete relates to its destination (from the statement: a
\* present / missing key, index or attribute; anything else is not a "missing" case)
DelClass(h, fl, dest, st) ==
  LET cls == ClsOf(h, dest)
      f == FlagOf(fl, dest)
      style == CASE st.op = "P" -> Handler(h, dest)
                 [] st.op = "[" -> (IF cls \in {"dict", "odict"} THEN "item" ELSE IF cls = "list" THEN "seq" ELSE "none")
                 [] st.op = "." -> "attr"
      ix == IF st.op = "P" THEN PyInt(st.arg) ELSE IF st.arg.k = "int" THEN Ok(st.arg.i) ELSE Exc("TypeError")
  IN CASE style = "none" -> "inapplicable"
       [] style = "item" -> IF f = "dfault" THEN "fault"
                            ELSE IF HasKey(h[dest.a].items, st.arg) THEN "present" ELSE "missing"
       [] style = "seq"  -> IF ~ix.ok THEN "inapplicable" ELSE IF f = "dfault" THEN "fault"
                            ELSE IF NormIdx(Len(h[dest.a].items), ix.v) # 0 THEN "present" ELSE "missing"
       [] style = "attr" -> IF st.arg.k # "str" THEN "inapplicable"
                            ELSE IF cls # "obj" THEN "missing"
                            ELSE IF f = "dfault" \/ (f = "prop" /\ st.arg = VStr("r")) THEN "fault"
                            ELSE IF HasKey(h[dest.a].items, st.arg) THEN "present" ELSE "missing"

\* del at every match in order (Python semantics: an earlier deletion is visible to a later match)
\* A T[..] / T.attr deletion has exactly the effect of Python's del / delattr: when that raises
\* anything but the "missing" errors (item deletion on a tuple, a str, None; a wrong index type; a
\* __delitem__ / __delattr__ that raises) the error propagates as itself, ignore_missing or not.
\* (For a path segment the documentation reports handler failures as PathDeleteError and does not
\* say whether ignore_missing covers them; a read-only property answers delattr with the same
\* AttributeError as a missing attribute: those stay unjudged beyond "target unchanged".)
Propagates(h, fl, dest, st) ==
  /\ st.op \in {"[", "."}
  /\ DelClass(h, fl, dest, st) \in {"inapplicable", "fault"}
  /\ DelOp(h, fl, dest, st).exc # "AttributeError"

RECURSIVE FoldDel(_, _, _, _)
FoldDel(c, h, dests, j) ==
  IF j > Len(dests) THEN Expect(TRUE, "", FALSE, h, c.root)
  ELSE LET k == DelClass(h, c.flags, dests[j], FinalStep(c)) IN
    CASE k = "present" -> FoldDel(c, DelOp(h, c.flags, dests[j], FinalStep(c)).heap, dests, j + 1)
      [] k = "missing" -> IF c.ignore THEN FoldDel(c, h, dests, j + 1)
                          ELSE Expect(FALSE, "PathDeleteError", FALSE, h, VNone)
      [] OTHER         -> IF Propagates(h, c.flags, dests[j], FinalStep(c))
                          THEN Expect(FALSE, DelOp(h, c.flags, dests[j], FinalStep(c)).exc, FALSE, h, VNone)
                          ELSE Expect(TRUE, "unspecified", TRUE, h, c.root)   \* not judged

RefStarDelete(c) ==
  LET fan == Fan(c.heap0, c.root, ParentSteps(c), 1) IN
  IF ~fan.ok THEN (IF c.ignore THEN Expect(TRUE, "", FALSE, c.heap0, c.root)
                   ELSE Expect(FALSE, "PathAccessError", FALSE, c.heap0, VNone))
  ELSE FoldDel(c, c.heap0, fan.dests, 1)

RefPlainDelete(c) ==
  LET par == PathEval(c.heap0, c.root, ParentSteps(c))
      same == Expect(TRUE, "", FALSE, c.heap0, c.root)
  IN IF ~par.ok THEN
       (IF par.idx < 0 THEN Expect(FALSE, "any", FALSE, c.heap0, VNone)
        ELSE IF c.ignore THEN same ELSE Expect(FALSE, "PathAccessError", FALSE, c.heap0, VNone))
     ELSE LET k == DelClass(c.heap0, c.flags, par.v, FinalStep(c)) IN
       CASE k = "present" -> Expect(TRUE, "", FALSE, DelOp(c.heap0, c.flags, par.v, FinalStep(c)).heap, c.root)
         [] k = "missing" -> IF c.ignore THEN same ELSE Expect(FALSE, "PathDeleteError", FALSE, c.heap0, VNone)
         [] OTHER         -> IF Propagates(c.heap0, c.flags, par.v, FinalStep(c))
                             THEN Expect(FALSE, DelOp(c.heap0, c.flags, par.v, FinalStep(c)).exc, FALSE, c.heap0, VNone)
                             ELSE IF c.ignore THEN Expect(TRUE, "", TRUE, c.heap0, c.root)
                             ELSE Expect(FALSE, "any", FALSE, c.heap0, VNone)

RefDelete(c) == IF HasStar(c.steps) THEN RefStarDelete(c) ELSE RefPlainDelete(c)

Ref(c) == IF c.kind = "assign" THEN RefAssign(c) ELSE RefDelete(c)

\* cells made during the call that nothing pre-existing refers to are garbage (a rebuilt literal
\* value that a wildcard path with no match never stored): they are not part of the effect
CellVals(cell) == IF cell.cls \in MapClasses THEN [i \in 1..Len(cell.items) |-> cell.items[i][2]] ELSE cell.items
RefsIn(cell) == {CellVals(cell)[i].a : i \in {k \in 1..Len(CellVals(cell)) : IsRef(CellVals(cell)[k])}}
RECURSIVE Reach(_, _, _)
Reach(h, frontier, seen) ==
  IF frontier = {} THEN seen
  ELSE LET nxt == (UNION {RefsIn(h[a]) : a \in frontier}) \ seen IN Reach(h, nxt, seen \cup nxt)
Live(c, h) == LET r == Reach(h, 1..N0(c), 1..N0(c)) IN
              [a \in 1..Len(h) |-> IF a \in r THEN h[a] ELSE Cell("garbage", <<>>)]

\* does an outcome (machine's or the library's) conform to the law's expectation?
\* cls = class of the escaping error, v = returned value, h = heap afterwards
ConformClause(c, e, ok, cls, v, h) ==
  IF e.err = "unspecified" THEN ""
  ELSE IF Len(h) < N0(c) THEN "heap-size"
  ELSE IF e.lenient THEN (IF Pre(c, h) # c.heap0 THEN "heap-changed" ELSE IF ok /\ v # e.v THEN "returned" ELSE "")
  ELSE IF ok # e.ok THEN (IF e.ok THEN "unexpected-error" ELSE "no-error")
  ELSE IF e.ok THEN (IF v # e.v THEN "returned" ELSE IF Live(c, h) # Live(c, e.heap) THEN "heap-effect" ELSE "")
  ELSE IF Pre(c, h) # Pre(c, e.heap) THEN "not-atomic"      \* e.heap = heap0 on wildcard-free paths
  ELSE IF e.err # "any" /\ cls # e.err THEN "error-class"
  ELSE ""
Conforms(c, e, ok, cls, v, h) == ConformClause(c, e, ok, cls, v, h) = ""

\* laws over a write log (the machine's, or one recorded from the library):
\* an effective write to a pre-existing cell may only be the last event
EffectivePre(c, ev) == ev.ev = "write" /\ ev.done /\ ev.a <= N0(c)
AttachLastLog(c, lg) == \A j \in 1..Len(lg) : EffectivePre(c, lg[j]) => j = Len(lg)
\* every write of the call -- also into containers created for missing segments -- is reached
\* through the executing registry's handler (path segments) or directly (T steps), never through
\* a handler of another registry
ExecRegistryLog(lg) == \A j \in 1..Len(lg) : lg[j].ev = "write" => lg[j].via \in {"seg", "t"}
\* same events, but a path-segment write was not routed like the specification says
RouteClause(mlog, olog) ==
  IF Len(mlog) # Len(olog) THEN ""
  ELSE IF \E j \in 1..Len(mlog) : [mlog[j] EXCEPT !.via = ""] # [olog[j] EXCEPT !.via = ""] THEN ""
  ELSE IF mlog # olog THEN "registry-route" ELSE ""
FactoryCalls(lg) == Len(SelectSeq(lg, LAMBDA ev : ev.ev = "factory"))
\* nothing but the addressed entry is new: every entry present before is still there
IsPrefix(a, b) == Len(a) <= Len(b) /\ SubSeq(b, 1, Len(a)) = a
KeepsEntries(c, h) == \A a \in 1..N0(c) : h[a].cls = c.heap0[a].cls /\ IsPrefix(c.heap0[a].items, h[a].items)

\* ===================================================================================
\* 3. The mechanism
\* ===================================================================================
VARIABLES case, pc, heap, cur, idx, val, stk, nfac, log, out, queue, memo
mvars == <<case, pc, heap, cur, idx, val, stk, nfac, log, out, queue, memo>>

St == [case |-> case, pc |-> pc, heap |-> heap, cur |-> cur, idx |-> idx, val |-> val,
       stk |-> stk, nfac |-> nfac, log |-> log, out |-> out, queue |-> queue, memo |-> memo]
Become(s) == /\ case' = s.case /\ pc' = s.pc /\ heap' = s.heap /\ cur' = s.cur /\ idx' = s.idx
             /\ val' = s.val /\ stk' = s.stk /\ nfac' = s.nfac /\ log' = s.log /\ out' = s.out
             /\ queue' = s.queue /\ memo' = s.memo

NoOut == [ok |-> TRUE, mech |-> "", v |-> VNone]
Frame(tgt, lo) == [tgt |-> tgt, lo |-> lo, brk |-> 0]

\* pc after the parent has been fetched: the one write of this frame
WritePc(s) == IF s.case.kind = "delete" THEN "del" ELSE IF Len(s.stk) > 1 THEN "tail" ELSE "store"
AfterFetch(s) == IF s.idx >= NSteps(s.case) THEN [s EXCEPT !.pc = WritePc(s)] ELSE s

Start(c) ==
  LET s == [case |-> c, pc |-> "fetch", heap |-> c.heap0, cur |-> c.root, idx |-> 1, val |-> VNone,
            stk |-> <<Frame(c.root, 1)>>, nfac |-> 0, log |-> <<>>, out |-> NoOut, queue |-> <<>>, memo |-> 0]
  IN IF c.kind = "assign" THEN [s EXCEPT !.pc = "evalval"] ELSE AfterFetch(s)

\* the same spec object evaluated once more, on the target of case c
StartAgain(c, m) == [Start(c) EXCEPT !.memo = m]

Finish(s, ok, mech) ==
  [s EXCEPT !.pc = "done", !.out = [ok |-> ok, mech |-> mech, v |-> IF ok THEN s.case.root ELSE VNone]]

\* the nested glom returns its target (the new container), which becomes the value the enclosing
\* Assign stores at its break point:  op, arg = orig.items()[idx];  dest = glom(dest_target, orig[:idx])
PopFrame(s1) ==
  LET c == s1.case
      done == s1.stk[Len(s1.stk)]
      rest == SubSeq(s1.stk, 1, Len(s1.stk) - 1)
      top == rest[Len(rest)]
      pe == PathEval(s1.heap, top.tgt, SubSeq(c.steps, top.lo, top.brk - 1))
  IN IF ~pe.ok THEN Finish(s1, FALSE, "PathAccessError")
     ELSE [s1 EXCEPT !.stk = rest, !.val = done.tgt, !.cur = pe.v, !.idx = top.brk, !.queue = <<>>,
                     !.pc = IF Len(rest) > 1 THEN "tail" ELSE "store"]

\* Assign.glomit: val = arg_val(target, self.val, scope)
DoEvalVal(s) ==
  LET v == ValBuildM(s.heap, s.case.root, s.case.val, Mutant = "alias_lost") IN
  IF v.ok THEN AfterFetch([s EXCEPT !.val = v.v, !.heap = v.heap, !.pc = "fetch"]) ELSE Finish(s, FALSE, v.exc)

\* one segment of  dest = scope[glom](dest_target, dest_path, scope)
DoFetch(s) ==
  LET c == s.case
      st == c.steps[s.idx]
      r == IF IsWild(st) THEN Ok(s.cur) ELSE StepApply(s.heap, s.cur, st)
      s1 == IF Mutant = "factory_per_segment" /\ c.kind = "assign" /\ c.missing # "none" /\ Len(s.stk) = 1
            THEN [s EXCEPT !.nfac = @ + 1, !.log = Append(@, FEv(s.nfac + 1))] ELSE s
  IN IF IsWild(st) THEN
       \* _t_eval 'x' / 'X': the rest of the parent path is evaluated per match in recursive calls;
       \* _apply_for_each then performs the write on every result in order.  Without a match the
       \* evaluation (of this frame: possibly the nested Assign on a new container) is over.
       LET fan == Fan(s.heap, s.cur, ParentSteps(c), s.idx) IN
       IF fan.dests = <<>> THEN (IF Len(s.stk) = 1 THEN Finish(s, TRUE, "") ELSE PopFrame(s))
       ELSE [s EXCEPT !.cur = Head(fan.dests), !.queue = Tail(fan.dests), !.idx = NSteps(c), !.pc = WritePc(s)]
     ELSE IF r.ok THEN AfterFetch([s1 EXCEPT !.cur = r.v, !.idx = @ + 1])
     ELSE IF ~Wrapped(st.op, r.exc) THEN Finish(s, FALSE, r.exc)
     ELSE IF c.kind = "delete" THEN                       \* except PathAccessError: if not ignore_missing: raise
            (IF c.ignore THEN Finish(s, TRUE, "") ELSE Finish(s, FALSE, "PathAccessError"))
     ELSE IF c.missing = "none" THEN Finish(s, FALSE, "PathAccessError")
     ELSE LET remember == Mutant = "memo_split" /\ Len(s.stk) = 1
              brk == IF remember /\ s.memo # 0 THEN s.memo ELSE s.idx
          IN [s EXCEPT !.stk[Len(s.stk)].brk = brk, !.pc = "factory",
                       !.memo = IF remember /\ s.memo = 0 THEN s.idx ELSE @]

\* self.missing(), then the nested Assign(remaining_path, val, missing) starts on the new object
DoFactory(s) ==
  LET c == s.case
      j == s.nfac + 1
      top == s.stk[Len(s.stk)]
      s1 == [s EXCEPT !.nfac = j, !.log = Append(@, FEv(j))]
  IN IF c.facfail = j THEN Finish(s1, FALSE, "RuntimeError")
     ELSE LET again == Shared(c) /\ Len(s.stk) > 1           \* the factory returns the container it made before
              new == IF again THEN s.stk[2].tgt.a ELSE Len(s.heap) + 1
              h1 == IF again THEN s.heap ELSE Append(s.heap, Cell(FacCls(c.missing), <<>>))
              \* mutant: the new container is attached to the existing structure at once
              early == IF Mutant = "attach_first" /\ Len(s.stk) = 1
                       THEN StoreOp(h1, c.flags, s.cur, c.steps[top.brk], VRef(new)) ELSE POk(h1, <<>>)
          IN AfterFetch([s1 EXCEPT !.heap = early.heap, !.log = @ \o early.evs,
                                   !.stk = Append(@, Frame(VRef(new), top.brk + 1)),
                                   !.cur = VRef(new), !.idx = top.brk + 1, !.pc = "fetch"])

\* _assign_op(dest, op, arg, val): the single write of a frame.  pc = "tail": into a
\* container made by the factory; pc = "store": into the pre-existing structure.
DoWrite(s) ==
  LET c == s.case
      dest == IF Mutant = "replace_existing" /\ s.pc = "store" /\ s.nfac > 0 /\ s.idx > 1
              THEN PathEval(s.heap, c.root, SubSeq(c.steps, 1, s.idx - 2)).v ELSE s.cur
      stp == IF Mutant = "replace_existing" /\ s.pc = "store" /\ s.nfac > 0 /\ s.idx > 1
             THEN c.steps[s.idx - 1] ELSE c.steps[s.idx]
      innermost == s.pc = "tail" /\ s.idx = NSteps(c)          \* the value itself goes into the newest container
      copied == Mutant = "tail_copies_value" /\ innermost /\ IsRef(s.val)
      hv == IF copied THEN Append(s.heap, s.heap[s.val.a]) ELSE s.heap
      r == IF Mutant = "attach_first" /\ s.pc = "store" /\ s.nfac > 0 THEN POk(s.heap, <<>>)
           ELSE IF Mutant = "tail_value_lost" /\ innermost THEN POk(s.heap, <<>>)
           ELSE StoreOp(hv, c.flags, dest, stp, IF copied THEN VRef(Len(hv)) ELSE s.val)
      \* mutant: the tail of created containers is filled through the DEFAULT registry's handlers
      \* (a fresh module-level call) instead of the executing registry's
      evs == IF Mutant = "tail_default_registry" /\ s.pc = "tail"
             THEN [i \in 1..Len(r.evs) |-> IF r.evs[i].via = "seg" THEN [r.evs[i] EXCEPT !.via = "foreign"] ELSE r.evs[i]]
             ELSE r.evs
      s1 == [s EXCEPT !.heap = r.heap, !.log = @ \o evs]
  IN IF ~r.ok THEN Finish(s1, FALSE, r.exc)
     ELSE IF s.queue # <<>> THEN [s1 EXCEPT !.cur = Head(s.queue), !.queue = Tail(s.queue)]   \* next match
     ELSE IF Len(s.stk) = 1 THEN Finish(s1, TRUE, "")
     ELSE PopFrame(s1)

\* Delete._del_one: which exceptions of the deletion are read as "the element is missing"
Translated(st, hd, exc) ==
  CASE st.op = "[" -> exc \in (CASE Mutant = "catch_index_only" -> {"IndexError"}
                                 [] Mutant = "catch_typeerror" -> {"KeyError", "IndexError", "TypeError"}
                                 [] OTHER -> {"KeyError", "IndexError"})
    [] st.op = "." -> exc = "AttributeError"
    [] st.op = "P" -> hd # "none"

DoDel(s) ==
  LET c == s.case
      st == c.steps[s.idx]
      r == IF Mutant = "ignore_skips_delete" /\ c.ignore THEN POk(s.heap, <<>>)
           ELSE DelOp(s.heap, c.flags, s.cur, st)
      s1 == [s EXCEPT !.heap = r.heap, !.log = @ \o r.evs]
      next == IF s.queue # <<>> THEN [s1 EXCEPT !.cur = Head(s.queue), !.queue = Tail(s.queue)]   \* next match
              ELSE Finish(s1, TRUE, "")
  IN IF r.ok THEN next
     ELSE IF Translated(st, Handler(s.heap, s.cur), r.exc)
          THEN (IF c.ignore THEN next ELSE Finish(s1, FALSE, "PathDeleteError"))
     ELSE Finish(s1, FALSE, r.exc)

StepF(s) ==
  CASE s.pc = "evalval" -> DoEvalVal(s)
    [] s.pc = "fetch"   -> DoFetch(s)
    [] s.pc = "factory" -> DoFactory(s)
    [] s.pc \in {"tail", "store"} -> DoWrite(s)
    [] s.pc = "del"     -> DoDel(s)
    [] OTHER -> s

RECURSIVE RunToEnd(_)
RunToEnd(s) == IF s.pc = "done" THEN s ELSE RunToEnd(StepF(s))

\* ---- the actions -------------------------------------------------------------------
EvalVal     == pc = "evalval" /\ Become(DoEvalVal(St))
FetchParent == pc = "fetch"   /\ Become(DoFetch(St))
FactoryCall == pc = "factory" /\ Become(DoFactory(St))
BuildTail   == pc = "tail"    /\ Become(DoWrite(St))
Store       == pc = "store"   /\ Become(DoWrite(St))
Del         == pc = "del"     /\ Become(DoDel(St))
MachineNext == EvalVal \/ FetchParent \/ FactoryCall \/ BuildTail \/ Store \/ Del

\* ---- state laws (every reachable state, not only the last) ---------------------------
Running == pc \in {"evalval", "fetch", "factory", "tail", "store", "del"}
\* no pre-existing cell changes before the final step
Plain == ~HasStar(case.steps)
NoEarlyWrite == Running /\ Plain => Pre(case, heap) = case.heap0
\* a write into the pre-existing structure is the last thing that happens
AttachLast == (Running \/ pc = "done") /\ Plain => AttachLastLog(case, log)
ExecRegistryOnly == (Running \/ pc = "done") => ExecRegistryLog(log)
\* one factory call per absent segment, never more
FactoryLaw == (Running \/ pc = "done") =>
                /\ nfac = FactoryCalls(log)
                /\ nfac <= AbsentSegments(case)
                /\ (pc = "done" /\ out.ok /\ case.kind = "assign" => nfac = AbsentSegments(case))
\* evaluating a spec leaves nothing on the spec object for the next evaluation
SpecCarriesNothing == memo = 0
\* the outcome and the final heap are what the law expects
Outcome == pc = "done" => Conforms(case, Ref(case), out.ok, out.mech, out.v, heap)
\* existing intermediate values are never replaced when segments are created
NeverReplaced == pc = "done" /\ out.ok /\ case.kind = "assign" /\ nfac > 0 => KeepsEntries(case, heap)
\* reading the path afterwards yields the value (targets without cycles through the path)
\* (a factory handing out one shared container makes the created tail cyclic: excluded like cycles)
ReadBack == pc = "done" /\ out.ok /\ case.kind = "assign" /\ Plain /\ ~Shared(case) =>
              LET r == PathEval(heap, case.root, case.steps)
                  v == ValBuild(case.heap0, case.root, case.val)
              IN r.ok /\ r.v = v.v
\* a failed or ignored delete, and everything but the addressed entry, leaves cells as they were
DelFrame == pc = "done" /\ case.kind = "delete" /\ Plain =>
              LET changed == {a \in 1..N0(case) : heap[a] # case.heap0[a]} IN
              /\ Len(heap) = N0(case)
              /\ Cardinality(changed) <= 1
              /\ \A a \in changed : out.ok /\ Len(heap[a].items) = Len(case.heap0[a].items) - 1
====================================================================================
