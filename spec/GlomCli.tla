---------------------------------- MODULE GlomCli ----------------------------------
(* The glom command line (`python -m glom [FLAGS] [spec [target]]`) as a machine over  *)
(* the channel / format / flag configuration space.                                     *)
(*                                                                                      *)
(* One behaviour = one invocation:                                                      *)
(*     ParseArgv -> ParseSpec -> SelectTarget -> LoadTarget -> Run -> PrintResult                          *)
(* with one action per dispatch case of glom/cli.py (mw_get_target, mw_handle_target,   *)
(* glom_cli).  The *configuration* (what is on argv, in the files, on stdin, which      *)
(* flags) and the library's outcome are the environment: they are revealed part by part *)
(* exactly when the CLI looks at them (MC_C19 chooses them, Trace_C19 takes them from a *)
(* recorded execution), so parts the CLI never looked at stay "don't care".             *)
(*                                                                                      *)
(* Texts and values are abstract.  A spec text is its *class*                           *)
(*     [lead, pylit, json, syntax, evalok, adv]                                         *)
(*   lead   : "none" (empty text) | "quote" | "bracket" | "other"  (its first char)     *)
(*   pylit  : it is a Python literal denoting a str/dict/list/tuple spec                *)
(*   json   : it is a JSON document                                                     *)
(*   syntax : it compiles as a Python expression                                        *)
(*   evalok : evaluating it in the `from glom import *` namespace yields a value        *)
(*   adv    : it carries a planted side effect that fires when it is evaluated          *)
(* What is printed is a *term* over the channel texts,                                  *)
(*     Dumps(Glom(Load(fmt, Text(sel)), Spec(route, spectext)), indent)                 *)
(* which the harness evaluates with the real library and reference loaders; TLC decides *)
(* which channel, which parse route, which format, which indent, which exit status and  *)
(* whether anything was executed.                                                       *)
(*                                                                                      *)
(* The LAWS (second half) are written from the property statement and docs/cli.rst and  *)
(* never mention the machine's control state; the MECHANISM (first half) transcribes    *)
(* cli.py.  Mutant selects a wrong disjunct of the mechanism (spec mutants).            *)
EXTENDS Naturals, Sequences, FiniteSets, TLC

CONSTANT Mutant    \* "none" | "evalfallback" | "stdinfirst" | "exit0" | "indent0" | "execjson"
                   \* | "extformat" | "exttarget" | "argvignored" | "scalarcoll" | "debugdrop" | "usage0"

VARIABLE m         \* the whole machine state, one record (see M0)

\* ---------------------------------------------------------------------------------
\* configuration
\* ---------------------------------------------------------------------------------
TxtClass(id, lead, pylit, js, syntax, evalok, adv) ==
  [id |-> id, lead |-> lead, pylit |-> pylit, json |-> js, syntax |-> syntax,
   evalok |-> evalok, adv |-> adv]
EmptyTxt == TxtClass("empty", "none", FALSE, FALSE, FALSE, FALSE, FALSE)

\* f: argv syntax argv : "ok" | "badindent" (--indent x) | "toomany" (3 positionals) | "unknownflag"
\*                       | "flagafter" (flags after the positionals: they count as positionals)
\*                       | "dupflag" (an option given twice) | "dashdash" ("--" before the positionals)
\* s: spec side   arg  : first positional  "none" | "text" | "empty" ('' given)
\*                file : --spec-file       "none" | "ok" | "unreadable" | "dash" (there is no stdin route)
\*                ext  : extension of the spec file name: ".py" ".json" ".yml" ".toml" ".txt" "" | "any" | "-"
\*                fmt  : --spec-format     "default" | "python" | "json" | "python-full" | "bad"
\*                txt  : class of the effective spec text (argument text, else file content)
\* t: target side arg  : second positional "none" | "text" | "dash" | "empty" ('' given)
\*                file : --target-file     "none" | "ok" | "okempty" | "unreadable" | "dash"
\*                ext  : extension of the target file name (as for s)
\*                stdin: "empty" | "data"  (never a tty)
\* l: loading     fmt  : --target-format   "default" | "json" | "python" | "yaml" | "toml" | "bad"
\*                txt  : class of every non-empty target text  "good" | "malformed"
\* r: library     res  : what glom(target, spec) does: "coll" | "str" | "int" | "float" | "other"
\*                       (None / bool / inf) | "glomerr" | a result json.dumps cannot serialise:
\*                       "xscalar" (bytes, date, time) | "xcoll" (set, container holding one);  dbg: "off" | "debug" (--debug) | "inspect" (--inspect)
\* p: printing    indent: "default" | "0" | "1" | "4";  scalar: "on" | "off"
Cfg0 == [f |-> [argv |-> "ok"],
         s |-> [arg |-> "none", file |-> "none", ext |-> "-", fmt |-> "default", txt |-> EmptyTxt],
         t |-> [arg |-> "none", file |-> "none", ext |-> "-", stdin |-> "empty"],
         l |-> [fmt |-> "default", txt |-> "good"],
         r |-> [res |-> "coll", dbg |-> "off"],
         p |-> [indent |-> "default", scalar |-> "off"]]

NormS(f) == IF f = "default" THEN "python" ELSE f     \* --spec-format defaults to python
NormT(f) == IF f = "default" THEN "json" ELSE f       \* --target-format defaults to json

\* what ends up on standard output
OutRec(k, sl, f, rt, ind) == [k |-> k, sel |-> sl, fmt |-> f, route |-> rt, indent |-> ind]
NoOut     == OutRec("none", "-", "-", "-", "-")       \* nothing
UnspecOut == OutRec("unspec", "-", "-", "-", "-")     \* not constrained
LawRec(k, o, e) == [k |-> k, out |-> o, exit |-> e]
LawNone == LawRec("unspecified", UnspecOut, "unspec")

M0(c, known) ==
  [cfg |-> c, known |-> known,      \* configuration and the parts revealed so far
   pc |-> "argv",                   \* "argv" | "spec" | "select" | "load" | "run" | "print" | "done"
   route |-> "none",                \* how the spec was obtained: ident | str | lit | json | exec
   executed |-> FALSE,              \* spec text was run as code
   effect |-> FALSE,                \* a side effect planted in the spec text happened
   evs |-> <<>>,                    \* audit events caused by the spec text: compile / exec / effect
   sel |-> "none",                  \* channel the target text is taken from: arg | file | stdin
   tgt |-> "none",                  \* "emptymap" | "loaded"
   out |-> NoOut, exit |-> "-",     \* exit: "0" | "1" | "usage" | "crash" | "unspec"
   rc |-> "-", err |-> "-",         \* process status "0" | "1", stderr "empty" | "text"  ("-": open)
   law |-> LawNone,                 \* LawOutcome(cfg), stored at the end for the harness
   hist |-> <<>>]                   \* names of the actions taken

Known(part) == \E i \in 1..Len(m.known) : m.known[i] = part
\* the environment reveals one part of the configuration
Reveal(part, v) == m' = [m EXCEPT !.cfg[part] = v, !.known = Append(@, part)]

\* =================================================================================
\* LAWS  (from the property statement and docs/cli.rst; no reference to pc/hist)
\* =================================================================================
\* Which spec the documentation designates for a configuration, as a parse route:
\*  no spec text -> the identity spec; python (default): a Python literal, or a text that
\*  does not open like a literal is a path string; json: a JSON document; python-full:
\*  the value of the Python expression.  Anything else: the property promises no result.
LawSpec(c) ==
  LET tx == c.s.txt f == NormS(c.s.fmt) IN
  IF c.s.arg = "text" /\ c.s.file # "none" THEN "unspecified"
  ELSE IF c.s.file \in {"unreadable", "dash"} THEN "unspecified"
  ELSE IF tx.lead = "none" THEN "ident"
  ELSE CASE f = "python"      -> IF tx.pylit THEN "lit"
                                 ELSE IF tx.lead = "other" THEN "str" ELSE "unspecified"
         [] f = "json"        -> IF tx.json THEN "json" ELSE "unspecified"
         [] f = "python-full" -> IF tx.adv THEN "unspecified"
                                 ELSE IF tx.pylit \/ tx.evalok THEN "exec" ELSE "unspecified"
         [] OTHER             -> "unspecified"

\* Which channel the documentation designates for the target: an explicit argument or
\* --target-file wins; "-" designates standard input; with neither, standard input.
\* An empty argument designates nothing, for the target as for the spec: it is as if absent.
\* Two explicit designations at once: no promise.
\* (The names of the files, in particular their extensions, designate nothing: only
\* --spec-format / --target-format decide how a text is read.)
LawChannel(c) ==
  LET n == (IF c.t.arg \in {"text", "dash"} THEN 1 ELSE 0) + (IF c.t.file # "none" THEN 1 ELSE 0) IN
  IF n > 1 THEN "unspecified"
  ELSE IF c.t.arg = "text" THEN "arg"
  ELSE IF c.t.file \in {"ok", "okempty", "unreadable"} THEN "file"
  ELSE "stdin"

ChannelEmpty(c, ch) == (ch = "stdin" /\ c.t.stdin = "empty") \/ (ch = "file" /\ c.t.file = "okempty")
LawSel(c) == IF ChannelEmpty(c, LawChannel(c)) THEN "emptymap" ELSE LawChannel(c)
LawIndent(c) == CASE c.p.indent = "default" -> "2" [] c.p.indent = "0" -> "none" [] OTHER -> c.p.indent

\* The outcome the property promises, given what the library does (res) with the
\* designated target and spec.
LawOutcomeR(c, res) ==
  LET rt == LawSpec(c) ch == LawChannel(c) f == NormT(c.l.fmt) IN
  \* usage line "[FLAGS] [spec [target]]", "--indent INDENT number of spaces": anything else is a usage error
  IF c.f.argv \in {"badindent", "toomany", "unknownflag", "flagafter"} THEN LawRec("argv", NoOut, "usage")
  ELSE IF c.f.argv # "ok" THEN LawNone        \* repeated option, "--": the documentation is silent
  ELSE IF rt = "unspecified" \/ ch = "unspecified" THEN LawNone
  ELSE IF ch = "file" /\ c.t.file = "unreadable" THEN LawRec("usage", NoOut, "usage")
  ELSE LET empty == ChannelEmpty(c, ch)
           sl == IF empty THEN "emptymap" ELSE ch
           ff == IF empty THEN "-" ELSE f IN
       IF ~empty /\ f = "bad" THEN LawNone                 \* only the four documented formats
       ELSE IF ~empty /\ c.l.txt = "malformed" THEN LawRec("usage", NoOut, "usage")
       ELSE IF res = "na" THEN LawRec("machinery", UnspecOut, "unspec")
       ELSE IF res \in {"xscalar", "xcoll"} THEN LawNone  \* json.dumps(result) is not defined
       ELSE IF c.r.dbg = "inspect" THEN LawNone            \* interactive breakpoint
       ELSE IF res = "glomerr" /\ c.r.dbg = "debug" THEN LawNone      \* interactive post-mortem
       ELSE IF res = "glomerr" THEN LawRec("glomerr", OutRec("errmsg", sl, ff, rt, "-"), "1")
       ELSE IF c.p.scalar = "on" /\ res \in {"str", "int", "float"}
            THEN LawRec("result", OutRec("raw", sl, ff, rt, "-"), "0")
       ELSE IF c.p.scalar = "on" /\ res = "other" THEN LawNone   \* --scalar on None / bool: Python or JSON spelling?
       ELSE LawRec("result", OutRec("json", sl, ff, rt, LawIndent(c)), "0")
LawOutcome(c) == LawOutcomeR(c, c.r.res)

\* ---- the invariants TLC checks on the machine ------------------------------------
\* "In the default spec format the spec text is ... never executed"; more generally code
\* from the spec text runs only under --spec-format python-full.
ExecOnlyFull == m.executed => NormS(m.cfg.s.fmt) = "python-full"
EffectNeedsExec == (m.effect \/ \E i \in 1..Len(m.evs) : m.evs[i] \in {"exec", "effect"}) => m.executed
\* "... only ever parsed as a Python literal or taken as a path string"
DefaultRoutes == (NormS(m.cfg.s.fmt) = "python") => m.route \in {"none", "ident", "str", "lit"}
\* "prints json.dumps(glom(target, spec), indent=..., sort_keys=True) and exits 0"
ResultLaw == (m.pc = "done" /\ m.law.k = "result") => (m.out = m.law.out /\ m.exit = "0")
\* "a GlomError yields exit status 1 with a message naming the error"
GlomErrorLaw == (m.pc = "done" /\ m.law.k = "glomerr") => (m.out = m.law.out /\ m.exit = "1")
\* "an unreadable or malformed target yields a usage error rather than a result"
TargetUsageLaw == (m.pc = "done" /\ m.law.k = "usage") => (m.out = NoOut /\ m.exit = "usage")
\* the documented command-line syntax: "[FLAGS] [spec [target]]", integer --indent
ArgvLaw == (m.pc = "done" /\ m.law.k = "argv") => (m.out = NoOut /\ m.exit = "usage")
\* bookkeeping: the stored law is the law
LawStored == m.pc = "done" => m.law = LawOutcome(m.cfg)

\* =================================================================================
\* MECHANISM  (glom/cli.py, one action per dispatch case)
\* =================================================================================
Do(name, pc2) == [m EXCEPT !.pc = pc2, !.hist = Append(@, name)]
\* process status and stderr per exit class: everything but success is status 1; usage errors
\* ("error: ...") and tracebacks go to stderr, results and GlomError reports to stdout
RcOf(e) == CASE e = "0" -> "0" [] e \in {"1", "usage", "crash"} -> "1" [] OTHER -> "-"
ErrOf(e) == CASE e \in {"0", "1"} -> "empty" [] e \in {"usage", "crash"} -> "text" [] OTHER -> "-"
End(name, o, e) == [Do(name, "done") EXCEPT !.out = o, !.exit = e, !.rc = RcOf(e), !.err = ErrOf(e),
                                            !.law = LawOutcome(m.cfg)]
Usage(name) == IF Mutant = "usage0" THEN End(name, NoOut, "0")
               ELSE End(name, NoOut, "usage")  \* face prints "error: ..." and exits non-zero
Crash(name) == End(name, NoOut, "crash")       \* an exception escapes (traceback)

\* ---- ParseArgv: face (flag syntax, at most two positionals), before any glom code ----
AtArgv == m.pc = "argv" /\ Known("f")
ArgvOk == AtArgv /\ m.cfg.f.argv = "ok" /\ m' = Do("ArgvOk", "spec")
UsageArgv == AtArgv /\ m.cfg.f.argv # "ok"
             /\ IF Mutant = "argvignored" /\ m.cfg.f.argv = "toomany"
                THEN m' = Do("UsageArgv", "spec") ELSE m' = Usage("UsageArgv")
ParseArgv == ArgvOk \/ UsageArgv

\* ---- ParseSpec: mw_get_target, lines 169-196 -------------------------------------
AtSpec == m.pc = "spec" /\ Known("s")
STxt == m.cfg.s.txt
\* the format is what --spec-format says; the file name plays no part
SFmt == IF Mutant = "extformat" /\ m.cfg.s.file = "ok" /\ m.cfg.s.arg # "text" /\ NormS(m.cfg.s.fmt) = "python"
        THEN CASE m.cfg.s.ext = ".py" -> "python-full" [] m.cfg.s.ext = ".json" -> "json" [] OTHER -> "python"
        ELSE NormS(m.cfg.s.fmt)
SpecBoth == m.cfg.s.arg = "text" /\ m.cfg.s.file # "none"         \* spec_text and spec_file
\* open('-') is just a missing file: the spec has no standard-input route
SpecUnreadable == m.cfg.s.file \in {"unreadable", "dash"}
SpecReadable == ~SpecBoth /\ ~SpecUnreadable
HasSpecText == AtSpec /\ SpecReadable /\ STxt.lead # "none"
EffectEvs(tx) == IF tx.adv THEN <<"effect">> ELSE <<>>

UsageSpecConflict == AtSpec /\ SpecBoth /\ m' = Usage("UsageSpecConflict")
UsageSpecFile == AtSpec /\ ~SpecBoth /\ SpecUnreadable /\ m' = Usage("UsageSpecFile")
\* `if not spec_text: spec = Path()` (before the format is looked at)
SpecAbsent == AtSpec /\ SpecReadable /\ STxt.lead = "none"
              /\ m' = [Do("SpecAbsent", "select") EXCEPT !.route = "ident"]
\* python: first character not one of " ' [ { (  ->  repr() it, i.e. take it as a string
SpecPyString == HasSpecText /\ SFmt = "python" /\ STxt.lead = "other"
                /\ m' = [Do("SpecPyString", "select") EXCEPT !.route = "str", !.evs = <<"compile">>]
SpecPyLiteral == HasSpecText /\ SFmt = "python" /\ STxt.lead \in {"quote", "bracket"} /\ STxt.pylit
                 /\ m' = [Do("SpecPyLiteral", "select") EXCEPT !.route = "lit", !.evs = <<"compile">>]
\* ast.literal_eval raises on anything that is not a literal
SpecPyReject ==
  /\ HasSpecText /\ SFmt = "python" /\ STxt.lead \in {"quote", "bracket"} /\ ~STxt.pylit
  /\ IF Mutant = "evalfallback" /\ STxt.syntax
     THEN m' = [End("SpecPyReject", UnspecOut, "unspec") EXCEPT
                  !.executed = TRUE, !.effect = STxt.adv, !.route = "exec",
                  !.evs = <<"compile", "compile", "exec">> \o EffectEvs(STxt)]
     ELSE m' = [Crash("SpecPyReject") EXCEPT !.evs = <<"compile">>]
SpecJson == HasSpecText /\ SFmt = "json" /\ STxt.json
            /\ IF Mutant = "execjson"
               THEN m' = [Do("SpecJson", "select") EXCEPT !.route = "json", !.executed = TRUE,
                                                          !.evs = <<"compile", "exec">>]
               ELSE m' = [Do("SpecJson", "select") EXCEPT !.route = "json"]
SpecJsonReject == HasSpecText /\ SFmt = "json" /\ ~STxt.json /\ m' = Crash("SpecJsonReject")
\* python-full: compile(...) then exec(...)  -- the only place spec text runs
SpecCompileFail == HasSpecText /\ SFmt = "python-full" /\ ~STxt.syntax
                   /\ m' = [Crash("SpecCompileFail") EXCEPT !.evs = <<"compile">>]
Exec ==
  /\ HasSpecText /\ SFmt = "python-full" /\ STxt.syntax
  /\ LET ev == <<"compile", "exec">> \o EffectEvs(STxt) IN
     IF STxt.adv           \* value of an adversarial text: not constrained
     THEN m' = [End("Exec", UnspecOut, "unspec") EXCEPT
                  !.executed = TRUE, !.effect = TRUE, !.route = "exec", !.evs = ev]
     ELSE IF STxt.evalok
     THEN m' = [Do("Exec", "select") EXCEPT !.executed = TRUE, !.route = "exec", !.evs = ev]
     ELSE m' = [Crash("Exec") EXCEPT !.executed = TRUE, !.evs = ev]    \* NameError etc.
UsageSpecFormat == HasSpecText /\ SFmt = "bad" /\ m' = Usage("UsageSpecFormat")

ParseSpec == \/ UsageSpecConflict \/ UsageSpecFile \/ SpecAbsent \/ SpecPyString \/ SpecPyLiteral
             \/ SpecPyReject \/ SpecJson \/ SpecJsonReject \/ SpecCompileFail \/ Exec
             \/ UsageSpecFormat

\* ---- SelectTarget: mw_get_target, lines 198-208 ----------------------------------
AtSelect == m.pc = "select" /\ Known("t")
TArg == m.cfg.t.arg
TFile == m.cfg.t.file
TargetBoth == TArg \in {"text", "dash"} /\ TFile # "none"         \* target_text and target_file (truthiness)
Pick(name, ch) == m' = [Do(name, "load") EXCEPT !.sel = ch]

UsageTargetConflict == AtSelect /\ TargetBoth /\ m' = Usage("UsageTargetConflict")
SelectDash == AtSelect /\ ~TargetBoth /\ (TArg = "dash" \/ TFile = "dash") /\ Pick("SelectDash", "stdin")
UsageTargetFile == AtSelect /\ ~TargetBoth /\ TFile = "unreadable" /\ m' = Usage("UsageTargetFile")
SelectFile == AtSelect /\ ~TargetBoth /\ TFile \in {"ok", "okempty"} /\ Pick("SelectFile", "file")
SelectArg == AtSelect /\ TArg = "text" /\ TFile = "none"
             /\ Pick("SelectArg", IF Mutant = "stdinfirst" /\ m.cfg.t.stdin = "data" THEN "stdin" ELSE "arg")
\* `elif not target_text and not isatty(sys.stdin)`
SelectStdin == AtSelect /\ TArg \in {"none", "empty"} /\ TFile = "none" /\ Pick("SelectStdin", "stdin")

SelectTarget == \/ UsageTargetConflict \/ SelectDash \/ UsageTargetFile \/ SelectFile \/ SelectArg
                \/ SelectStdin

\* ---- LoadTarget: mw_handle_target -------------------------------------------------
AtLoad == m.pc = "load" /\ Known("l")
SelEmpty == ChannelEmpty(m.cfg, m.sel)
\* the format is what --target-format says; the file name plays no part
TFmt == IF Mutant = "exttarget" /\ m.sel = "file" /\ NormT(m.cfg.l.fmt) = "json"
        THEN CASE m.cfg.t.ext = ".yml" -> "yaml" [] m.cfg.t.ext = ".toml" -> "toml" [] OTHER -> "json"
        ELSE NormT(m.cfg.l.fmt)
\* `if not target_text: return {}` (before the format is looked at)
LoadEmpty == AtLoad /\ SelEmpty /\ m' = [Do("LoadEmpty", "run") EXCEPT !.tgt = "emptymap"]
UsageTargetFormat == AtLoad /\ ~SelEmpty /\ TFmt = "bad" /\ m' = Usage("UsageTargetFormat")
UsageTargetLoad == AtLoad /\ ~SelEmpty /\ TFmt # "bad" /\ m.cfg.l.txt = "malformed"
                   /\ m' = Usage("UsageTargetLoad")
LoadOk == AtLoad /\ ~SelEmpty /\ TFmt # "bad" /\ m.cfg.l.txt = "good"
          /\ m' = [Do("LoadOk", "run") EXCEPT !.tgt = "loaded"]

LoadTarget == LoadEmpty \/ UsageTargetFormat \/ UsageTargetLoad \/ LoadOk

\* ---- Run and Print: glom_cli -------------------------------------------------------
AtRun == m.pc = "run" /\ Known("r")
OutSel == IF m.tgt = "emptymap" THEN "emptymap" ELSE m.sel
OutFmt == IF m.tgt = "emptymap" THEN "-" ELSE TFmt
\* --debug / --inspect wrap the spec in Inspect(...): --inspect echoes and stops at a breakpoint,
\* --debug starts a post-mortem when glom raises (both interactive: outcome open); a successful
\* --debug run is an ordinary run
Dbg == m.cfg.r.dbg
RunInspect == AtRun /\ Dbg = "inspect" /\ m' = End("RunInspect", UnspecOut, "unspec")
RunOk == AtRun /\ Dbg # "inspect" /\ m.cfg.r.res \in {"coll", "str", "int", "float", "other", "xscalar", "xcoll"}
         /\ IF Mutant = "debugdrop" /\ Dbg = "debug" THEN m' = End("RunOk", NoOut, "0")
            ELSE m' = Do("RunOk", "print")
RunGlomError == AtRun /\ Dbg = "off" /\ m.cfg.r.res = "glomerr"
                /\ m' = End("RunGlomError", OutRec("errmsg", OutSel, OutFmt, m.route, "-"),
                            IF Mutant = "exit0" THEN "0" ELSE "1")
RunPostMortem == AtRun /\ Dbg = "debug" /\ m.cfg.r.res = "glomerr"
                 /\ m' = End("RunPostMortem", UnspecOut, "unspec")
Run == RunInspect \/ RunOk \/ RunGlomError \/ RunPostMortem

AtPrint == m.pc = "print" /\ Known("p")
IndentArg == CASE m.cfg.p.indent = "default" -> "2"
               [] m.cfg.p.indent = "0" -> (IF Mutant = "indent0" THEN "0" ELSE "none")
               [] OTHER -> m.cfg.p.indent
\* `if scalar and is_scalar(result)`: anything that is not a collection
ScalarKinds == {"str", "int", "float", "other", "xscalar"} \cup (IF Mutant = "scalarcoll" THEN {"coll"} ELSE {})
PrintScalar == AtPrint /\ m.cfg.p.scalar = "on" /\ m.cfg.r.res \in ScalarKinds
               /\ m' = End("PrintScalar", OutRec("raw", OutSel, OutFmt, m.route, "-"), "0")
\* json.dumps raises TypeError on a set / bytes / date: the exception escapes, nothing is printed
PrintUnserializable == AtPrint /\ ~(m.cfg.p.scalar = "on" /\ m.cfg.r.res \in ScalarKinds)
                       /\ m.cfg.r.res \in {"xscalar", "xcoll"}
                       /\ m' = Crash("PrintUnserializable")
PrintJson == AtPrint /\ ~(m.cfg.p.scalar = "on" /\ m.cfg.r.res \in ScalarKinds)
             /\ m.cfg.r.res \notin {"xscalar", "xcoll"}
             /\ m' = End("PrintJson", OutRec("json", OutSel, OutFmt, m.route, IndentArg), "0")
PrintResult == PrintScalar \/ PrintJson \/ PrintUnserializable

CliNext == ParseArgv \/ ParseSpec \/ SelectTarget \/ LoadTarget \/ Run \/ PrintResult

\* the part of the configuration the CLI looks at in each control state
PartOf(pc) == CASE pc = "argv" -> "f" [] pc = "spec" -> "s" [] pc = "select" -> "t" [] pc = "load" -> "l"
                [] pc = "run" -> "r" [] pc = "print" -> "p" [] OTHER -> "-"
====================================================================================
