\* self-contained configuration: a mutant of the mechanism on which TLC must report a law violated
\*   tlc -config MC_C12_mutant.cfg MC_C12.tla
\* Mutant = "catch_index_only" (what glom's Delete._del_one does for T[key]: Outcome violated)
\*        | "ignore_skips_delete" (Outcome); "none" passes.  bin/check C12 --tier thorough runs both.
INIT Init
NEXT Next
INVARIANT NoEarlyWrite
INVARIANT AttachLast
INVARIANT Outcome
INVARIANT ExecRegistryOnly
INVARIANT SpecCarriesNothing
INVARIANT DelFrame
CHECK_DEADLOCK FALSE
CONSTANTS
  Mutant = "catch_index_only"
  MaxSpine = 1
  LevelClasses = {"dict", "list", "obj"}
  LeafOpts = {"none", "edict"}
  SideOpts = {"absent", "shared"}
  Alpha = "small"
  Alpha3 = "p"
  Stars = "no"
