INIT Init
NEXT Next
CONSTRAINT Check
CHECK_DEADLOCK FALSE
CONSTANTS Mutant = "none"
