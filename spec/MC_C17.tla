---------------------------------- MODULE MC_C17 ----------------------------------
(* Bounded universes for C17.  Three models share this module (one cfg each):            *)
(*   MC_C17.cfg        definitional cases: every (base stage, stage sequence <= MaxStages, *)
(*                     source) is one state whose variable pred holds what the law          *)
(*                     predicts (outputs for every k <= KMax, Demand, DemandLA, first(),    *)
(*                     all()); dumped and replayed into the real library.                   *)
(*   MC_C17_pull.cfg   the pull machine run on every such case (shorter pipelines), the     *)
(*                     PM_* laws checked in every intermediate state, termination as a      *)
(*                     temporal property; halted states are dumped with their event log.    *)
(*   MC_C17_build.cfg  the builder machine: all Derive histories <= MaxDerive over Iter and *)
(*                     Invoke objects, prefix specs re-used after being extended.           *)
EXTENDS GlomStream

CONSTANTS MaxStages,   \* chained stages after the base stage
          Horizon,     \* how far infinite sources are looked at
          KMax,        \* consumer next() calls
          Wide,        \* TRUE: the larger stage / base / source universes
          Slim,        \* TRUE: start from a few bases / sources only (quick interleaving dump, deep wide cases)
          MaxDerive    \* builder: derivations per history

VARIABLES phase, pred
vars == <<phase, pred, pipe, srcd, kmax, loc, pos, srcEnded, outs, fin, ctl, built, nreq, ev, objs, cells, bhist>>

\* ---- universes -----------------------------------------------------------------------------
N0 == VNone
St(kind, f) == Stage(kind, f, 0, 0, 0, N0)
Slice(sp, a, b, c) == Stage("slice", sp, a, b, c, N0)
StagesNarrow == {
  St("map", "inc"), St("map", "skip_odd"),
  St("filter", "T"),
  Slice("limit", 0, 2, 1), Slice("slice", 0, 4, 2),
  St("takewhile", "lt2"), St("dropwhile", "lt2"),
  Stage("chunked", "", 2, 0, 0, N0),
  Stage("windowed", "", 2, 0, 0, N0),
  Stage("split", "none", 0, -1, 0, N0),
  St("unique", "T"),
  St("flatten", "") }
StagesWide == StagesNarrow \cup {
  Stage("chunked", "", 3, 1, 0, N0), St("unique", "mod2"),
  \* keys in every spelling a glom spec can take (T expression, path string, tuple, Spec, Check), partial keys,
  \* a callable separator
  St("map", "item0_T"), St("map", "item0_str"), St("map", "cnt0_T"), St("map", "inc_tup"), St("map", "inc_spec"),
  St("filter", "lt2_check"), St("filter", "lt2_spec"), St("filter", "item0_T"),
  St("takewhile", "item0_T"), St("takewhile", "lt2_tup"), St("dropwhile", "item0_T"), St("dropwhile", "odd_spec"),
  St("unique", "item0_spec"), St("unique", "mod2_tup"), Stage("split", "fn", 0, -1, 0, VStr("odd")),
  \* sizes at the boundaries of the finite sources (lengths 4, 6, 7): exactly the length, one beyond
  Slice("limit", 0, 7, 1), Slice("slice1", 0, 8, 1), Slice("slice", 6, 7, 1), Slice("slice", 7, -1, 1),
  Stage("chunked", "", 7, 0, 0, N0), Stage("chunked", "", 1, 0, 0, N0), Stage("windowed", "", 4, 0, 0, N0),
  Stage("windowed", "", 5, 0, 0, N0), Stage("split", "none", 0, 1, 0, N0),
  \* keys that read the scope of the running call
  St("map", "inc_S"), St("filter", "lt2_S"), St("takewhile", "lt2_S"), St("dropwhile", "lt2_S"), St("unique", "mod2_S"),
  St("map", "dup"), St("map", "T"), St("map", "stop_at2"), St("filter", "odd"), St("filter", "lt2"),
  Slice("slice", 1, 4, 1), Slice("slice", 1, -1, 2), Slice("slice", 2, 3, 1), Slice("slice", 2, 1, 1), Slice("limit", 0, 0, 1), Slice("slice1", 0, 3, 1),
  St("takewhile", "T"), St("dropwhile", "T"), St("dropwhile", "odd"),
  Stage("chunked", "", 2, 1, 0, VInt(0)), Stage("windowed", "", 3, 0, 0, N0), Stage("windowed", "", 1, 0, 0, N0),
  Stage("split", "scalar", 0, 1, 0, VInt(0)), Stage("split", "set", 0, -1, 0, N0), Stage("split", "none", 0, 2, 0, N0) }
Stages == IF Wide THEN StagesWide ELSE StagesNarrow

BasesNarrow == { BaseStage("T", STOP, FALSE), BaseStage("skip_odd", STOP, FALSE), BaseStage("T", VInt(0), TRUE) }
BasesWide == BasesNarrow \cup { BaseStage("inc", VInt(3), TRUE), BaseStage("stop_at2", STOP, FALSE),
                                BaseStage("T", N0, TRUE), BaseStage("dup", STOP, FALSE),
                                BaseStage("stop_at2", VInt(0), TRUE), BaseStage("item0_T", STOP, FALSE),
                                BaseStage("inc_S", STOP, FALSE) }
Bases == IF Wide THEN BasesWide ELSE BasesNarrow

Fin(items) == [kind |-> "fin", items |-> items]
I(n) == VInt(n)
SourcesNarrow == {
  [kind |-> "count", items |-> <<>>],
  [kind |-> "cyc", items |-> <<I(1), I(2), N0, I(0), I(3)>>],
  Fin(<<I(1), I(2), I(0), I(3), VBool(FALSE), N0, I(2)>>),
  Fin(<<N0, I(1), N0, N0, I(2), I(3)>>),
  Fin(<<VList(<<I(1), I(2)>>), VList(<<>>), VFList(<<I(0), I(3)>>), VTuple(<<I(1)>>)>>),
  Fin(<<>>) }
SourcesWide == SourcesNarrow \cup {
  Fin(<<I(3)>>),
  \* falsy-but-meaningful and equal-but-distinct items; boundary sizes (see the stages below)
  Fin(<<VBool(TRUE), I(1), VBool(FALSE), I(0), VFList(<<I(0), I(2)>>), N0, VTuple(<<>>)>>),
  Fin(<<VFList(<<I(1), I(2)>>), VList(<<>>), VFList(<<I(0)>>), VTuple(<<VBool(FALSE)>>)>>),
  Fin(<<I(1), VAny, I(0), VNull, I(2), N0, VAny>>),          \* items with hostile == / !=
  Fin(<<VList(<<I(1), I(2)>>), VList(<<I(0)>>), VList(<<I(0), I(3)>>), VTuple(<<I(1)>>), VList(<<I(2), I(2)>>)>>),
  Fin(<<I(1), I(1), I(3), I(2), I(4), I(5), I(7), I(6), I(0)>>),
  [kind |-> "cyc", items |-> <<VList(<<I(1)>>), VList(<<I(0), I(2)>>)>>] }
Sources == IF Wide THEN SourcesWide ELSE SourcesNarrow

SlimBases == { BaseStage("T", STOP, FALSE), BaseStage("inc_S", STOP, FALSE) }
SlimSources == {
  [kind |-> "count", items |-> <<>>],
  Fin(<<VBool(TRUE), I(1), VBool(FALSE), I(0), VFList(<<I(0), I(2)>>), N0, VTuple(<<>>)>>),
  Fin(<<I(1), VAny, I(0), VNull, I(2), N0, VAny>>),
  Fin(<<VList(<<I(1), I(2)>>), VList(<<I(0)>>), VList(<<I(0), I(3)>>), VTuple(<<I(1)>>), VList(<<I(2), I(2)>>)>>) }
NoPull == /\ loc = <<>> /\ pos = 0 /\ srcEnded = FALSE /\ outs = <<>> /\ fin = "run"
          /\ ctl = IdleCtl /\ built = 0 /\ nreq = 0 /\ ev = <<>>
NoBuild == objs = <<>> /\ cells = <<>> /\ bhist = <<>>
Pr(p, s) == Predict(p, s, KMax, Horizon)

\* =====================================================================================
\* model 1: definitional cases
\* =====================================================================================
InitDef == /\ phase = 0 /\ kmax = KMax /\ NoPull /\ NoBuild
           /\ \E b \in (IF Slim THEN SlimBases ELSE Bases), s \in (IF Slim THEN SlimSources ELSE Sources) :
                 pipe = <<b>> /\ srcd = s /\ pred = Pr(<<b>>, s)
GrowDef == /\ Len(pipe) <= MaxStages
           /\ \E st \in Stages : pipe' = Append(pipe, st) /\ pred' = Pr(pipe', srcd)
           /\ UNCHANGED <<phase, srcd, kmax, loc, pos, srcEnded, outs, fin, ctl, built, nreq, ev, objs, cells, bhist>>
NextDef == GrowDef

\* laws of the definition itself
X0 == SrcStream(srcd, Horizon)
OutAt(n) == LET XS == AllStreams(pipe, PrefixEv(X0, n)) IN XS[Len(XS)]
Full == LET XS == AllStreams(pipe, X0) IN XS[Len(XS)]
\* more input never retracts output; an end, once determined, is final; prefixes agree with the whole
DefPrefixConsistent ==
  \A full \in {Full} : \A tab \in {[n \in 0..Ev(X0) |-> OutAt(n)]} :
    \A n \in 0..Ev(X0) :
     /\ IsPrefixOf(tab[n].xs, full.xs)
     /\ tab[n].fin = "end" => (full.fin = "end" /\ tab[n].xs = full.xs)
     /\ n < Ev(X0) => Ev(tab[n]) <= Ev(tab[n + 1])
\* Demand(k) really is the least source prefix after which k consumer events are determined
DefDemandIsLeastPrefix ==
  \A full \in {Full} : \A evs \in {[n \in 0..Ev(X0) |-> Ev(OutAt(n))]} :
    \A k \in 0..KMax :
     LET d == pred.dem[k + 1] e == ConsumerEvents(full, k) IN
     d # INF => /\ e # INF /\ evs[d] >= e
                /\ d > 0 => evs[d - 1] < e
\* look-ahead only adds; both grow with k
DefDemandOrdered ==
  \A k \in 1..(KMax + 1) :
     /\ LeqInf(pred.dem[k], pred.demLA[k])
     /\ k <= KMax => LeqInf(pred.dem[k], pred.dem[k + 1]) /\ LeqInf(pred.demLA[k], pred.demLA[k + 1])
\* first(key, default) is the first output for which key holds - the item itself - else the default, once the
\* end is determined; all() is everything, exactly when the pipeline ends
DefTerminals ==
  /\ \A full \in {Full} : \A i \in 1..Len(FirstVariants) :
       LET f == pred.first[i] xs == full.xs IN
       f.det =>
         IF f.found
         THEN \E j \in 1..Len(xs) : /\ f.v = xs[j] /\ PredFn(f.p, xs[j])
                                     /\ \A m \in 1..(j - 1) : ~PredFn(f.p, xs[m])
         ELSE f.v = f.d /\ pred.ended /\ \A j \in 1..Len(xs) : ~PredFn(f.p, xs[j])
  /\ pred.all.det = pred.ended
  /\ pred.all.det => LeqInf(pred.demLA[KMax + 1], pred.all.demLA)

\* =====================================================================================
\* model 2: the pull machine on every case
\* =====================================================================================
InitPull == /\ phase = 0 /\ kmax = KMax /\ NoPull /\ NoBuild
            /\ \E b \in (IF Slim THEN SlimBases ELSE Bases), s \in (IF Slim THEN SlimSources ELSE Sources) :
                  pipe = <<b>> /\ srcd = s /\ pred = Pr(<<b>>, s)
GrowPull == /\ phase = 0 /\ Len(pipe) <= MaxStages
            /\ \E st \in Stages : pipe' = Append(pipe, st) /\ pred' = Pr(pipe', srcd)
            /\ UNCHANGED <<phase, srcd, kmax, loc, pos, srcEnded, outs, fin, ctl, built, nreq, ev, objs, cells, bhist>>
StartPull == /\ phase = 0 /\ ~pred.bad /\ phase' = 1
             /\ StartRun(pipe, srcd, kmax)
             /\ UNCHANGED <<pred, objs, cells, bhist>>
KeepRest == UNCHANGED <<phase, pred, objs, cells, bhist>>
\* one named action per critical section of the machine (so that coverage shows each is taken)
PConsumerPull == phase = 1 /\ ConsumerPull /\ KeepRest
PPrefill   == phase = 1 /\ (\E i \in 1..M : Prefill(i)) /\ KeepRest
PBuild     == phase = 1 /\ (\E i \in 1..M : Build(i)) /\ KeepRest
PStagePull == phase = 1 /\ (\E i \in 1..M : StagePull(i)) /\ KeepRest
PEmit      == phase = 1 /\ (\E i \in 1..M : Emit(i)) /\ KeepRest
PEnd       == phase = 1 /\ (\E i \in 1..M : End(i)) /\ KeepRest
StepPull == PConsumerPull \/ PPrefill \/ PBuild \/ PStagePull \/ PEmit \/ PEnd
FinishPull == /\ phase = 1 /\ Halted /\ phase' = 2
              /\ UNCHANGED <<pred, pipe, srcd, kmax, loc, pos, srcEnded, outs, fin, ctl, built, nreq, ev, objs, cells, bhist>>
NextPull == GrowPull \/ StartPull \/ PConsumerPull \/ PPrefill \/ PBuild \/ PStagePull \/ PEmit \/ PEnd \/ FinishPull
SpecPull == InitPull /\ [][NextPull]_vars /\ WF_vars(StepPull \/ FinishPull)
InsideHorizon == pos <= Horizon

Running == phase >= 1
LawOutputs == Running => PM_OutputsAreReference(pred)
LawDetermined == Running => PM_OutputsDetermined
LawLazy == Running => PM_Lazy(pred)
LawNotBelowDemand == Running => PM_NotBelowDemand(pred)
LawEnd == Running => PM_EndIsReferenceEnd(pred)
\* a request whose answer is determined inside the horizon is answered inside the horizon
LawAnswered == (phase = 1 /\ pos > Horizon) => pred.demLA[nreq + 1] = INF
\* the machine stops: every run halts (or leaves the horizon, for requests that are not determined)
LawTerminates == (phase = 1) ~> (phase = 2 \/ pos > Horizon)

\* =====================================================================================
\* model 3: the builder machine
\* =====================================================================================
Probes == << <<I(1), I(2), I(0), I(3), I(1)>>, <<I(3), N0, I(2), I(2)>> >>
BuildPred(os, cs) ==
  [j \in 1..Len(os) |->
     LET mn == Meaning(os[j], cs) IN
     [cls |-> mn.cls, pos |-> mn.pos, kw |-> mn.kw,
      outs |-> IF mn.cls = "iter"
               THEN [p \in 1..Len(Probes) |-> LET X == Out(mn.pipe, Probes[p], TRUE) IN [xs |-> X.xs, bad |-> X.bad]]
               ELSE <<>>]]
BBases == { BaseStage("T", STOP, FALSE), BaseStage("T", VInt(0), TRUE), BaseStage("skip_odd", VInt(3), TRUE) }
\* (limit / single-argument slice with different small parameters, so that histories apply the same
\*  kind twice in a row with a decreasing parameter to a prefix that is then re-used)
IterMeths == { IterMeth(St("map", "inc")), IterMeth(Slice("limit", 0, 2, 1)), IterMeth(Slice("limit", 0, 1, 1)),
               IterMeth(Slice("slice1", 0, 3, 1)), IterMeth(St("filter", "T")),
               IterMeth(Stage("chunked", "", 2, 0, 0, N0)) }
KA == VStr("a")
KB == VStr("b")
InvMeths == { InvMeth("constants", <<I(1)>>, <<>>), InvMeth("constants", <<>>, << <<KA, I(1)>> >>),
              InvMeth("constants", <<I(2)>>, << <<KA, I(2)>>, <<KB, I(3)>> >>),
              InvMeth("specs", <<VStr("T")>>, << <<KB, VStr("T")>> >>), InvMeth("star", <<>>, <<>>) }
NInit == 2
InitBuild == /\ phase = 0 /\ kmax = 0 /\ pipe = <<>> /\ srcd = Fin(<<>>) /\ NoPull /\ bhist = <<>>
             /\ cells = << <<>>, <<>> >>
             /\ \E b \in BBases : objs = << IterObj(b.f, b.v, b.b = 1, 1), InvokeObj(2, <<>>) >>
             /\ pred = BuildPred(objs, cells)
DeriveFrom(cls, meths) ==
  /\ Len(bhist) < MaxDerive
  /\ \E o \in 1..Len(objs) : objs[o].cls = cls /\ \E meth \in meths : Derive(o, meth)
  /\ pred' = BuildPred(objs', cells')
  /\ UNCHANGED <<phase, pipe, srcd, kmax, loc, pos, srcEnded, outs, fin, ctl, built, nreq, ev>>
BDeriveIter == DeriveFrom("iter", IterMeths)
BDeriveInvoke == DeriveFrom("invoke", InvMeths)
NextBuild == BDeriveIter \/ BDeriveInvoke
LawFrame == [][BuildFrame]_vars
LawExtends == BuildExtends(NInit)
LawFresh == BuildFresh
====================================================================================
