CONSTANT Mutant = "none"
INIT Init
NEXT Next
CONSTRAINT Check
INVARIANT ExecOnlyFull
CHECK_DEADLOCK FALSE
