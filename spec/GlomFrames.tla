--------------------------------- MODULE GlomFrames ---------------------------------
(* One glom() call as a machine over an explicit table of scope frames.                *)
(* Serves C05 (error traces), C07 (scope bindings) and C08 (modes).                     *)
(*                                                                                     *)
(* The call is a deterministic recursion once the environment's choices (which leaf    *)
(* fails) are fixed.  Run(...) is a state-passing transcription of glom's dispatcher    *)
(* (_glom), of chain_child and of every specifier's glomit; it threads                  *)
(*    st = [frames, acts, leaf, eid, plan, log, gl]                                     *)
(* and appends every named action it takes to st.acts:                                  *)
(*    enter(f, par, path, mode, minmode, tgt)   a new scope frame (scope.new_child)      *)
(*    setmode(f, m) / argmode(f, on)            a mode wrapper / arg_val on its own frame *)
(*    bind(f, name, val)                        scope.update / scope[name] = val          *)
(*    chain(from, to)                           chain_child                                *)
(*    error(f, e)                               the except block of _glom                  *)
(* MC_* modules replay st.acts one at a time (Apply) so TLC evaluates the frame-table    *)
(* invariants in every intermediate state; the laws of C05 / C07 / C08 are stated on the  *)
(* static spec tree and on the dynamic parent chain, never on the breadcrumb fields.     *)
(*                                                                                     *)
(* Targets are sequences of integers: <<0>> the root target, <<n>> the fresh result of leaf *)
(* execution n, Append(t, j) item j of t, <<-1, f>> the container built by frame f,          *)
(* <<-2>> \o t the dict {'K': t} (mdict2: also 'L') an mdict feeds to its pattern, <<-3, e>> key e,      *)
(* <<-4, f>> the dict a match-dict frame f returns, <<-5, g>> generator g, <<-6>> None,       *)
(* <<-7>> a string (a dict key).                                                             *)
(*                                                                                     *)
(* Spec trees: node = [k |-> kind, a |-> attribute, c |-> <<children>>]                  *)
(*   leaves   new (returns a fresh target) | same (returns its target) -- both consult    *)
(*            the plan and may fail -- | copy (like new, but the fresh object compares equal to   *)
(*            its target) | fail (always raises) | probe (logs the mode in force) | read (a: name;  *)
(*            logs what S.name resolves to)  | sbind (a: name; S(name=Val(path)))          *)
(*            | abind (a: name; A.name: binds the current target)                          *)
(*            | gbind / gread (a: name; A.globals.name / S.globals.name)                   *)
(*            | vbind / vset / vread (a: name; S(name=Vars({'k': default})), A.name.k,      *)
(*              S.name.k) | refuse (a: name; Ref(name)) | mark (logs that it ran)            *)
(*   chains   tup (a Python tuple), pipe (Pipe)                                            *)
(*   fan-out  dict (values), list (one sub-spec over the target's two items)               *)
(*   branches coal (Coalesce), coalskip (Coalesce whose skip predicate rejects every value), or, *)
(*            and, not, switch (children k1 v1 k2 v2 ...),                                   *)
(*            mdict (Match-mode dict with one key/value spec pair, a: none)                *)
(*   wrappers auto | fill | match | group (mode; group evaluates its sub-spec per item of the   *)
(*            target and a `stop` leaf directly under it ends the iteration early), spec (a: name; Spec(sub, scope={name: path})),   *)
(*            refdef (a: name; Ref(name, sub))                                              *)
(*   lazy     iter (Iter(sub): a generator, target <<-5, g>>) | consume (the callable list)  *)
EXTENDS Integers, Sequences, FiniteSets, TLC

CONSTANT Mutant    \* "none": glom as repaired;  otherwise a named deviation of the mechanism

N(k, a, c) == [k |-> k, a |-> a, c |-> c]

GlomitKinds == {"starq", "skp", "nest", "new", "same", "copy", "coalskip", "fail", "smiss", "iter", "refdef", "refuse", "vbind", "vset", "vread", "mark", "group", "stop", "nbind", "sbind2", "mdict2", "probe", "read", "sbind", "abind", "gbind", "gread", "pipe", "coal",
                "or", "and", "not", "switch", "mdict", "auto", "fill", "match", "spec"}
ModeOf(k) == CASE k = "auto" -> "AUTO" [] k = "fill" -> "FILL" [] k = "match" -> "MATCH" [] k = "group" -> "GROUP"
ModeKinds == {"auto", "fill", "match", "group"}

\* ---- frames --------------------------------------------------------------------------------
Frame(par, path, mode, minmode, tgt) ==
  [par |-> par, path |-> path, mode |-> mode, minmode |-> minmode, tgt |-> tgt, last |-> 0,
   cerrs |-> <<>>, err |-> 0, nopy |-> FALSE, binds |-> <<>>]
RootFrame(tgt, binds) == [Frame(0, <<0>>, "AUTO", FALSE, tgt) EXCEPT !.binds = binds]

Act(st, a) == [st EXCEPT !.acts = Append(@, a)]

\* scope.new_child(...) in _glom: MODE / MIN_MODE copied from the parent *map*
Enter(st, par, path, tgt) ==
  LET f == Len(st.frames) + 1
      fr == Frame(par, path, st.frames[par].mode, st.frames[par].minmode, tgt)
      frames1 == [Append(st.frames, fr) EXCEPT ![par].last = f]
  IN Act([st EXCEPT !.frames = frames1],
         [a |-> "enter", f |-> f, par |-> par, path |-> path, mode |-> fr.mode, minmode |-> fr.minmode, tgt |-> tgt])

SetMode(st, f, m) == Act([st EXCEPT !.frames[f].mode = m], [a |-> "setmode", f |-> f, m |-> m])
SetMin(st, f, on) == Act([st EXCEPT !.frames[f].minmode = on], [a |-> "argmode", f |-> f, on |-> on])
Bind(st, f, name, val) ==
  Act([st EXCEPT !.frames[f].binds = Append(@, <<name, val>>)], [a |-> "bind", f |-> f, name |-> name, val |-> val])

\* the except block of _glom
RECURSIVE WalkUp(_, _, _)
WalkUp(frames, cur, e) ==
  IF frames[cur].nopy /\ Mutant # "nowalk"
  THEN LET p == frames[cur].par
           fr2 == [frames EXCEPT ![p].cerrs = Append(@, cur), ![cur].err = e]
       IN WalkUp(fr2, p, e)
  ELSE frames
Fail(st, f, e) ==
  LET p == st.frames[f].par IN
  IF st.frames[p].nopy /\ st.frames[p].err = e /\ Mutant # "lazydup"
  THEN \* the parent scope has left the Python stack and has already recorded this very exception: it was
       \* raised by a lazily evaluated child of that scope (a generator consumed by this frame), whose
       \* except block did the bookkeeping on the way up
       Act([st EXCEPT !.frames[f].err = e], [a |-> "error", f |-> f, e |-> e])
  ELSE
  LET fr1 == IF Mutant = "ownerrs"
             THEN [st.frames EXCEPT ![f].cerrs = Append(@, f), ![f].err = e]   \* wrong map
             ELSE [st.frames EXCEPT ![p].cerrs = Append(@, f), ![f].err = e]
      fr2 == IF fr1[p].nopy THEN WalkUp(fr1, p, e) ELSE fr1
  IN Act([st EXCEPT !.frames = fr2], [a |-> "error", f |-> f, e |-> e])

\* chain_child(scope): continue from the last child; its frame leaves the Python stack,
\* earlier failed branches are forgiven, and (repaired) the mode in force is restored
Chain(st, s) ==
  IF st.frames[s].last = 0 THEN [st |-> st, s |-> s]
  ELSE LET n == st.frames[s].last
           fr0 == [st.frames EXCEPT ![n].nopy = TRUE]
           fr1 == IF Mutant = "noforgive" THEN fr0 ELSE [fr0 EXCEPT ![n].cerrs = <<>>]
           fr2 == IF Mutant = "modeleak" THEN fr1
                  ELSE [fr1 EXCEPT ![n].mode = st.frames[s].mode, ![n].minmode = st.frames[s].minmode]
       IN [st |-> Act([st EXCEPT !.frames = fr2], [a |-> "chain", from |-> s, to |-> n]), s |-> n]

\* ---- scope lookup along the ChainMap parents -------------------------------------------------
RECURSIVE FindBind(_, _, _)
FindBind(binds, name, i) ==        \* latest binding of name in one frame (dict update semantics)
  IF i = 0 THEN 0 ELSE IF binds[i][1] = name THEN i ELSE FindBind(binds, name, i - 1)
RECURSIVE Resolve(_, _, _)
Resolve(frames, f, name) ==
  IF f = 0 THEN [found |-> FALSE, val |-> <<>>]
  ELSE LET i == FindBind(frames[f].binds, name, Len(frames[f].binds)) IN
       IF i # 0 THEN [found |-> TRUE, val |-> frames[f].binds[i][2]]
       ELSE Resolve(frames, frames[f].par, name)

\* what iterating a target yields: a Tok its two sub-targets, a container built during the call what was
\* recorded for it, the one-entry dict an mdict feeds its (string) key; None and strings are not iterable
RECURSIVE ContItems(_, _, _)
ContItems(conts, f, i) == IF i = 0 THEN <<>> ELSE IF conts[i].f = f THEN conts[i].items ELSE ContItems(conts, f, i - 1)
Iterable(tgt) == Head(tgt) >= 0 \/ Head(tgt) \in {-1, -2, -4}
ItemsOf(st, tgt) ==
  CASE Head(tgt) >= 0 -> <<Append(tgt, 1), Append(tgt, 2)>>
    [] Head(tgt) \in {-1, -4} -> ContItems(st.conts, tgt[2], Len(st.conts))
    [] Head(tgt) = -2 -> << <<-7>> >>
    [] OTHER -> <<>>
RECURSIVE NodeAt(_, _)
NodeAt(tree, path) == IF path = <<>> THEN tree ELSE NodeAt(tree.c[Head(path)], Tail(path))

\* ---- control: Run ------------------------------------------------------------------------------
Res(st, out, res, org, e) == [st |-> st, out |-> out, res |-> res, org |-> org, e |-> e]
\* a new exception is raised in frame f (n: leaf execution number, 0 for other origins)
\* glom: the exception is a GlomError -- the only kind the branching specs (Coalesce, Or, Not, Switch, Match
\* dicts) recover from; an alien exception (raised by user code, wrapped by glom() at the very end) is not
NewErr(st, f, n) == [st EXCEPT !.eid = @ + 1, !.errs = Append(@, [org |-> f, n |-> n, glom |-> TRUE])]
NewAlien(st, f, n) == [st EXCEPT !.eid = @ + 1, !.errs = Append(@, [org |-> f, n |-> n, glom |-> FALSE])]
Caught(r) == r.out = "err" /\ r.st.errs[r.e].glom
Log(st, rec) == [st EXCEPT !.log = Append(@, rec @@ [at |-> Len(st.acts)])]   \* at: actions taken so far

RECURSIVE Run(_, _, _, _, _), RunChain(_, _, _, _, _, _, _), RunAll(_, _, _, _, _, _, _),
          RunCoal(_, _, _, _, _, _), RunOr(_, _, _, _, _, _), RunAnd(_, _, _, _, _, _, _),
          RunSwitch(_, _, _, _, _, _), RunItems(_, _, _, _, _, _, _), RunFillDict(_, _, _, _, _, _),
          RunGen(_, _, _, _), RunCoalSkip(_, _, _, _, _, _), RunGroup(_, _, _, _, _, _, _),
          RunMd2(_, _, _, _, _, _, _)

EffMode(st, f) == IF st.frames[f].minmode THEN "ARG" ELSE st.frames[f].mode

Run(st0, par, node, path, tgt) ==
  LET st1 == Enter(st0, par, path, tgt)
      f == Len(st1.frames)
      st2 == IF node.k \in GlomitKinds /\ st1.frames[f].minmode THEN SetMin(st1, f, FALSE) ELSE st1
      r ==
        CASE node.k \in {"new", "same", "copy"} ->
               LET n == st2.leaf + 1
                   o == IF n <= Len(st2.plan) THEN st2.plan[n] ELSE "ok"
                   st3 == [st2 EXCEPT !.leaf = n]
               IN IF o = "err" THEN Res(NewErr(st3, f, n), "err", tgt, f, st3.eid + 1)
                  ELSE IF o = "alien" THEN Res(NewAlien(st3, f, n), "err", tgt, f, st3.eid + 1)
                  ELSE Res(st3, "ok", IF node.k = "same" THEN tgt ELSE <<n>>, 0, 0)   \* copy: a distinct object (equal to tgt)
          [] node.k \in {"fail", "smiss", "typ"} ->      \* a leaf that always raises (smiss: S.<missing name>; typ: a plain
                                                       \* type used as a Match-mode pattern that no target of the universe satisfies)
               Res(NewErr(st2, f, 0), "err", tgt, f, st2.eid + 1)
          [] node.k = "iter" ->
               \* Iter(sub): returns a generator at once; sub is evaluated per item, as a child of THIS
               \* frame, only when some later frame consumes the generator
               Res([st2 EXCEPT !.gens = Append(@, [f |-> f, sub |-> node.c[1], path |-> Append(path, 1), tgt |-> tgt, done |-> FALSE])],
                   "ok", <<-5, Len(st2.gens) + 1>>, 0, 0)
          [] node.k = "consume" ->
               \* the callable `list`: consumes a generator target item by item (plain targets: two items)
               IF Head(tgt) = -5 /\ ~st2.gens[tgt[2]].done
               THEN RunGen([st2 EXCEPT !.gens[tgt[2]].done = TRUE], f, st2.gens[tgt[2]], 1)
               ELSE Res(st2, "ok", <<-1, f>>, 0, 0)
          [] node.k = "probe" ->
               Res(Log(st2, [p |-> path, what |-> "mode", v |-> st2.frames[f].mode]), "ok", tgt, 0, 0)
          \* a plain callable (a Python function, not a spec object) standing directly as a step or a dict value:
          \* AUTO and FILL call it with the target (it logs the call and returns its target); only the argument
          \* interpreter keeps it as the object it is, uncalled -- and that interpreter is over when the step
          \* that evaluated its arguments is
          [] node.k = "call" ->
               IF EffMode(st2, f) = "ARG" THEN Res(st2, "ok", <<-8>>, 0, 0)
               ELSE Res(Log(st2, [p |-> path, what |-> "mode", v |-> st2.frames[f].mode]), "ok", tgt, 0, 0)
          [] node.k = "read" ->
               LET rr == Resolve(st2.frames, f, node.a) IN
               Res(Log(st2, [p |-> path, what |-> "read", v |-> IF rr.found THEN rr.val ELSE <<"inv">>]), "ok", tgt, 0, 0)
          [] node.k = "gread" ->
               LET i == FindBind(st2.gl, node.a, Len(st2.gl)) IN
               Res(Log(st2, [p |-> path, what |-> "read", v |-> IF i # 0 THEN st2.gl[i][2] ELSE <<"inv">>]), "ok", tgt, 0, 0)
          [] node.k = "sbind" ->
               \* S(name=Val(..)): arg_val evaluates the value as a child with the argument
               \* interpreter switched on for this frame, then the result is bound here
               LET sa == SetMin(st2, f, TRUE)
                   sc == Enter(sa, f, Append(path, 0), tgt)
                   c == Len(sc.frames)
                   sd == SetMin(SetMin(sc, c, FALSE), f, FALSE)
               IN Res(Bind(sd, f, node.a, <<"b">> \o path), "ok", tgt, 0, 0)
          [] node.k = "nbind" ->      \* S(name=Val(None)): a binding whose value is None still is a binding
               LET sa == SetMin(st2, f, TRUE)
                   sc == Enter(sa, f, Append(path, 0), tgt)
                   c == Len(sc.frames)
                   sd == SetMin(SetMin(sc, c, FALSE), f, FALSE)
               IN Res(Bind(sd, f, node.a, <<"n">>), "ok", tgt, 0, 0)
          [] node.k = "sbind2" ->
               \* S(x=Val(..), y=<reads x>): every value spec is evaluated in the scope as it was BEFORE this
               \* step; only then are all names bound together
               LET vy == Resolve(st2.frames, f, "x")
                   sb == Bind(Bind(st2, f, "x", <<"b">> \o path), f, "y", IF vy.found THEN vy.val ELSE <<"inv">>)
               IN Res(sb, "ok", tgt, 0, 0)
          [] node.k = "abind" -> Res(Bind(st2, f, node.a, <<"t">> \o tgt), "ok", tgt, 0, 0)
          [] node.k = "gbind" ->
               Res(Act([st2 EXCEPT !.gl = Append(@, <<node.a, <<"t">> \o tgt>>)],
                       [a |-> "gbind", f |-> f, name |-> node.a, val |-> <<"t">> \o tgt]), "ok", tgt, 0, 0)
          [] node.k = "spec" -> Run(Bind(st2, f, node.a, <<"b">> \o path), f, node.c[1], Append(path, 1), tgt)
          [] node.k = "mark" -> Res(Log(st2, [p |-> path, what |-> "mark", v |-> <<"m">>]), "ok", tgt, 0, 0)
          \* a callable step that makes a complete, independent glom() call of its own (binding and reading its
          \* own S.globals): nothing of it is visible to this call
          [] node.k = "nest" -> Res(st2, "ok", tgt, 0, 0)
          \* a chain step that answers SKIP (only used as a step of tup / pipe): the chain goes on with the target
          \* it had, and the step is a link of the chain like any other
          [] node.k = "skp" -> Res(st2, "ok", tgt, 0, 0)
          \* T.__star__()[<argument spec that fails on every element>]: every element is a miss, the result is
          \* a new empty list
          [] node.k = "starq" -> Res([st2 EXCEPT !.conts = Append(@, [f |-> f, items |-> <<>>])], "ok", <<-1, f>>, 0, 0)
          [] node.k = "refdef" ->      \* Ref(name, sub): names sub in this frame, then evaluates it
               Run(Bind(st2, f, "ref:" \o node.a, <<"r">> \o path), f, node.c[1], Append(path, 1), tgt)
          [] node.k = "refuse" ->      \* Ref(name): evaluates the sub-spec of the nearest definition in scope
               LET rr == Resolve(st2.frames, f, "ref:" \o node.a) IN
               IF rr.found
               THEN LET dp == Tail(rr.val) IN
                    Run(Log(st2, [p |-> path, what |-> "refuse", v |-> rr.val]), f, NodeAt(st2.tree, dp).c[1], Append(dp, 1), tgt)
               ELSE Res(NewErr(Log(st2, [p |-> path, what |-> "refuse", v |-> <<"inv">>]), f, 0), "err", tgt, f, st2.eid + 1)
          [] node.k = "vbind" ->       \* S(name=Vars(...)): a fresh variables object per evaluation, bound here
               LET id == Len(st2.vars) + 1
                   sv == Act([st2 EXCEPT !.vars = Append(@, <<"d">>)], [a |-> "vbind", f |-> f, path |-> path, id |-> id])
                   sa == SetMin(sv, f, TRUE)
                   sc == Enter(sa, f, Append(path, 0), tgt)
                   c == Len(sc.frames)
                   sd == SetMin(SetMin(sc, c, FALSE), f, FALSE)
               IN Res(Bind(sd, f, node.a, <<"v", id>>), "ok", tgt, 0, 0)
          [] node.k = "vset" ->        \* A.<name>.k: stores the target in the variables object <name> resolves to
               LET rr == Resolve(st2.frames, f, node.a) IN
               IF rr.found /\ Head(rr.val) = "v"
               THEN Res(Act([st2 EXCEPT !.vars[rr.val[2]] = <<"t">> \o tgt],
                            [a |-> "vset", f |-> f, id |-> rr.val[2], val |-> <<"t">> \o tgt]), "ok", tgt, 0, 0)
               ELSE Res(NewErr(st2, f, 0), "err", tgt, f, st2.eid + 1)
          [] node.k = "vread" ->       \* S.<name>.k
               LET rr == Resolve(st2.frames, f, node.a) IN
               Res(Log(st2, [p |-> path, what |-> "vread",
                             v |-> IF rr.found /\ Head(rr.val) = "v" THEN st2.vars[rr.val[2]] ELSE <<"inv">>]), "ok", tgt, 0, 0)
          [] node.k \in {"auto", "fill", "match"} ->
               Run(SetMode(st2, f, ModeOf(node.k)), f, node.c[1], Append(path, 1), tgt)
          [] node.k = "group" ->       \* Group(sub): sub once per item of the target, in GROUP mode; STOP ends it early
               \* (the result before any item is None, <<-6>>; iterating None fails with UnregisteredTarget)
               IF ~Iterable(tgt) THEN LET sg == SetMode(st2, f, "GROUP") IN Res(NewErr(sg, f, 0), "err", tgt, f, sg.eid + 1)
               ELSE RunGroup(SetMode(st2, f, "GROUP"), f, node, path, 1, tgt, <<-6>>)
          [] node.k = "stop" -> Res(st2, "stop", tgt, 0, 0)            \* a leaf returning STOP (only directly under group)
          [] node.k = "pipe" -> RunChain(st2, f, node, path, 1, f, tgt)
          [] node.k = "tup" ->
               IF EffMode(st2, f) = "AUTO" THEN RunChain(st2, f, node, path, 1, f, tgt)
               ELSE RunAll(st2, f, node, path, 1, tgt, <<>>)           \* FILL / ARG: a constructor
          [] node.k = "dict" ->
               IF EffMode(st2, f) = "AUTO" THEN RunAll(st2, f, node, path, 1, tgt, <<>>)
               ELSE RunFillDict(st2, f, node, path, 1, tgt)
          [] node.k = "list" ->
               IF EffMode(st2, f) = "AUTO" THEN RunItems(st2, f, node, path, 1, tgt, <<>>)
               ELSE RunAll(st2, f, node, path, 1, tgt, <<>>)
          [] node.k = "coal" -> RunCoal(st2, f, node, path, 1, tgt)
          [] node.k = "coalskip" -> RunCoalSkip(st2, f, node, path, 1, tgt)
          [] node.k = "or" -> RunOr(st2, f, node, path, 1, tgt)
          [] node.k = "and" -> RunAnd(st2, f, node, path, 1, tgt, tgt)
          [] node.k = "not" ->
               LET rc == Run(st2, f, node.c[1], Append(path, 1), tgt) IN
               IF Caught(rc) THEN Res(rc.st, "ok", tgt, 0, 0)
               ELSE IF rc.out = "err" THEN rc
               ELSE Res(NewErr(rc.st, f, 0), "err", tgt, f, rc.st.eid + 1)
          [] node.k = "switch" -> RunSwitch(st2, f, node, path, 1, tgt)
          [] node.k = "mdict2" ->
               \* like mdict, with a two-entry dict {'K': target, 'L': target}: per entry the key spec (a child of
               \* the dict frame, on the key) and then the value spec chained from THAT key's frame
               LET st3 == Enter(st2, f, Append(path, 0), <<-2>> \o tgt)
                   d == Len(st3.frames)
                   inner == RunMd2(st3, d, node, path, 1, tgt, <<>>)
               IN IF inner.out = "err" THEN Res(Fail(inner.st, d, inner.e), "err", tgt, inner.org, inner.e) ELSE inner
          [] node.k = "mdict" ->
               \* MDict(k, v) wraps the target into {'K': target} and evaluates the raw dict
               \* {k: v}; under MATCH this is the match-dict handler: key spec, then the value
               \* spec chained from it
               LET st3 == Enter(st2, f, Append(path, 0), <<-2>> \o tgt)
                   d == Len(st3.frames)
                   rk == Run(st3, d, node.c[1], Append(path, 1), <<-3, 1>>)
                   inner ==
                     IF Caught(rk)
                     THEN Res(NewErr(rk.st, d, 0), "err", tgt, d, rk.st.eid + 1)        \* key didn't match any
                     ELSE IF rk.out = "err" THEN rk
                     ELSE LET ch == Chain(rk.st, d)
                              rv == Run(ch.st, ch.s, node.c[2], Append(path, 2), tgt)
                          IN IF rv.out = "err" THEN rv
                             ELSE Res([rv.st EXCEPT !.conts = Append(@, [f |-> d, items |-> <<rk.res>>])], "ok", <<-4, d>>, 0, 0)
               IN IF inner.out = "err" THEN Res(Fail(inner.st, d, inner.e), "err", tgt, inner.org, inner.e) ELSE inner
  IN IF r.out = "err" THEN Res(Fail(r.st, f, r.e), "err", r.res, r.org, r.e) ELSE r

\* _handle_tuple: scope = chain_child(scope) before every step
RunChain(st, f, node, path, i, scope, cur) ==
  IF i > Len(node.c) THEN Res(st, "ok", cur, 0, 0)
  ELSE LET ch == Chain(st, scope)
           r == Run(ch.st, ch.s, node.c[i], Append(path, i), cur)
       IN IF r.out = "err" THEN r ELSE RunChain(r.st, f, node, path, i + 1, ch.s, r.res)

\* all children on the same target, as children of f (dict values, Fill containers)
RunAll(st, f, node, path, i, tgt, acc) ==
  IF i > Len(node.c)
  THEN \* what iterating the built container yields: a dict its (string) keys, a tuple / list its elements
       Res([st EXCEPT !.conts = Append(@, [f |-> f, items |-> IF node.k = "dict" THEN [j \in 1..Len(acc) |-> <<-7>>] ELSE acc])],
           "ok", <<-1, f>>, 0, 0)
  ELSE LET r == Run(st, f, node.c[i], Append(path, i), tgt)
       IN IF r.out = "err" THEN r ELSE RunAll(r.st, f, node, path, i + 1, tgt, Append(acc, r.res))

\* FILL / ARG dict: {recurse(key): recurse(val)}: a frame for the (literal) key, then the value
RunFillDict(st, f, node, path, i, tgt) ==
  IF i > Len(node.c)
  THEN Res([st EXCEPT !.conts = Append(@, [f |-> f, items |-> [j \in 1..Len(node.c) |-> <<-7>>]])], "ok", <<-1, f>>, 0, 0)
  ELSE LET stk == Enter(st, f, Append(Append(path, i), 0), tgt)
           r == Run(stk, f, node.c[i], Append(path, i), tgt)
       IN IF r.out = "err" THEN r ELSE RunFillDict(r.st, f, node, path, i + 1, tgt)

\* _handle_list: the sub-spec over each item of the target (targets have two items)
RunItems(st, f, node, path, j, tgt, acc) ==
  IF j > 2 THEN Res([st EXCEPT !.conts = Append(@, [f |-> f, items |-> acc])], "ok", <<-1, f>>, 0, 0)
  ELSE LET r == Run(st, f, node.c[1], Append(path, 1), Append(tgt, j))
       IN IF r.out = "err" THEN r ELSE RunItems(r.st, f, node, path, j + 1, tgt, Append(acc, r.res))

\* a generator made by frame g.f is drained by consumer frame c: the sub-spec runs as a child of g.f
RunGen(st, c, g, j) ==
  IF j > 2 THEN Res(st, "ok", <<-1, c>>, 0, 0)
  ELSE LET r == Run(st, g.f, g.sub, g.path, Append(g.tgt, j))
       IN IF r.out = "err" THEN Res(r.st, "err", r.res, r.org, r.e) ELSE RunGen(r.st, c, g, j + 1)

\* Coalesce: alternatives in turn; a failing one is skipped; none left -> CoalesceError here
RunCoal(st, f, node, path, i, tgt) ==
  IF i > Len(node.c) THEN Res(NewErr(st, f, 0), "err", tgt, f, st.eid + 1)
  ELSE LET r == Run(st, f, node.c[i], Append(path, i), tgt)
       IN IF r.out = "ok" \/ ~Caught(r) THEN r ELSE RunCoal(r.st, f, node, path, i + 1, tgt)

RunGroup(st, f, node, path, j, tgt, last) ==
  IF j > Len(ItemsOf(st, tgt)) THEN Res(st, "ok", last, 0, 0)
  ELSE LET r == Run(st, f, node.c[1], Append(path, 1), ItemsOf(st, tgt)[j])
       IN IF r.out = "err" THEN r
          ELSE IF r.out = "stop" THEN Res(r.st, "ok", last, 0, 0)
          ELSE RunGroup(r.st, f, node, path, j + 1, tgt, r.res)

RunMd2(st, d, node, path, e, tgt, keys) ==
  IF e > 2 THEN Res([st EXCEPT !.conts = Append(@, [f |-> d, items |-> keys])], "ok", <<-4, d>>, 0, 0)
  ELSE LET rk == Run(st, d, node.c[1], Append(path, 1), <<-3, e>>)
       IN IF Caught(rk) THEN Res(NewErr(rk.st, d, 0), "err", tgt, d, rk.st.eid + 1)      \* key didn't match any
          ELSE IF rk.out = "err" THEN rk
          ELSE LET ch == Chain(rk.st, d)
                   rv == Run(ch.st, ch.s, node.c[2], Append(path, 2), tgt)
               IN IF rv.out = "err" THEN rv ELSE RunMd2(rv.st, d, node, path, e + 1, tgt, Append(keys, rk.res))

\* Coalesce(..., skip=<rejects every value>): an alternative that returns is skipped like one that raises;
\* when none is left the CoalesceError is raised here -- possibly after a last alternative that did not raise
RunCoalSkip(st, f, node, path, i, tgt) ==
  IF i > Len(node.c) THEN Res(NewErr(st, f, 0), "err", tgt, f, st.eid + 1)
  ELSE LET r == Run(st, f, node.c[i], Append(path, i), tgt)
       IN IF r.out = "err" /\ ~Caught(r) THEN r ELSE RunCoalSkip(r.st, f, node, path, i + 1, tgt)

\* Or: all but the last child guarded; the last child's error propagates as it is
RunOr(st, f, node, path, i, tgt) ==
  LET r == Run(st, f, node.c[i], Append(path, i), tgt)
  IN IF r.out = "ok" \/ i = Len(node.c) \/ ~Caught(r) THEN r ELSE RunOr(r.st, f, node, path, i + 1, tgt)

\* And: every child on the same target, the last result is returned
RunAnd(st, f, node, path, i, tgt, last) ==
  IF i > Len(node.c) THEN Res(st, "ok", last, 0, 0)
  ELSE LET r == Run(st, f, node.c[i], Append(path, i), tgt)
       IN IF r.out = "err" THEN r ELSE RunAnd(r.st, f, node, path, i + 1, tgt, r.res)

\* Switch: cases (k1, v1), (k2, v2) ...: first passing key; its value spec chained from it
RunSwitch(st, f, node, path, i, tgt) ==
  IF 2 * i > Len(node.c) THEN Res(NewErr(st, f, 0), "err", tgt, f, st.eid + 1)       \* no matches
  ELSE LET rk == Run(st, f, node.c[2 * i - 1], Append(path, 2 * i - 1), tgt)
       IN IF Caught(rk) THEN RunSwitch(rk.st, f, node, path, i + 1, tgt)
          ELSE IF rk.out = "err" THEN rk
          ELSE LET ch == Chain(rk.st, f)
               IN Run(ch.st, ch.s, node.c[2 * i], Append(path, 2 * i), tgt)

\* one top-level glom(target, tree, scope=callerBinds) call
Start(tree, plan, callerBinds) ==
  Run([frames |-> <<RootFrame(<<0>>, callerBinds)>>, acts |-> <<>>, leaf |-> 0, eid |-> 0, plan |-> plan,
       log |-> <<>>, gl |-> <<>>, errs |-> <<>>, gens |-> <<>>, vars |-> <<>>, conts |-> <<>>, tree |-> tree], 1, tree, <<>>, <<0>>)

\* ---- static tree helpers ------------------------------------------------------------------------
RECURSIVE Leaves(_)
Leaves(t) == IF t.k \in {"new", "same"} THEN 1
             ELSE IF t.c = <<>> THEN 0
             ELSE LET RECURSIVE S(_)
                      S(i) == IF i = 0 THEN 0 ELSE Leaves(t.c[i]) + S(i - 1)
                  IN (IF t.k = "list" THEN 2 ELSE 1) * S(Len(t.c))

\* ---- LAW C08: the mode of every frame is the mode lexically in force at its node ---------------
RECURSIVE LexMode(_, _, _)
LexMode(tree, path, cur) ==
  IF path = <<>> \/ Head(path) = 0 THEN cur
  ELSE LexMode(tree.c[Head(path)], Tail(path), IF tree.k \in ModeKinds THEN ModeOf(tree.k) ELSE cur)
ModeLexical(tree, acts) ==
  \A i \in 1..Len(acts) : acts[i].a = "enter" => acts[i].mode = LexMode(tree, acts[i].path, "AUTO")

\* ---- LAW C07: lexical visibility of scope bindings, stated on the static tree ---------------------
\* Which binding does a reader of `name` at node path rp see?  Walk up from the reader: at every
\* level, if the parent is a *chain* (Pipe; a tuple whose lexical mode is AUTO; a Switch case
\* key -> value; a match-dict entry key -> value) the earlier steps of that chain are scanned from
\* the nearest one backwards -- only a step that *is itself* a binder counts (S(k=..), A.k, or a
\* Spec(scope=) node: its binding lives in the step's own frame); a binder nested deeper inside an
\* earlier step is invisible.  Then the parent itself is considered (a Spec(scope=) ancestor binds
\* for its subtree).  The first hit wins (inner shadows outer); with no hit the caller's scope
\* decides.  The result is the value token the mechanism would log: <<"b">> \o path for S(..) /
\* Spec(scope=) binders, "t"-marked for A.k (the target it received is dynamic: only the binder's
\* identity is predicted by the law), <<"inv">> when nothing is visible.
IsBinderOf(nd, name) == \/ nd.k \in {"sbind", "abind", "spec", "vbind", "nbind"} /\ nd.a = name
                        \/ nd.k = "sbind2" /\ name \in {"x", "y"}
                        \/ nd.k = "refdef" /\ "ref:" \o nd.a = name
IsChainAt(tree, pp) ==        \* is the node at path pp a chain of its children?
  LET nd == NodeAt(tree, pp) IN
  \/ nd.k = "pipe"
  \/ nd.k = "tup" /\ LexMode(tree, pp, "AUTO") = "AUTO"
\* steps before child i that chain into it
EarlierSteps(tree, pp, i) ==
  LET nd == NodeAt(tree, pp) IN
  IF IsChainAt(tree, pp) THEN [j \in 1..(i - 1) |-> i - j]                      \* i-1, i-2, ..., 1
  ELSE IF nd.k = "switch" /\ i % 2 = 0 THEN <<i - 1>>                          \* value spec <- its key spec
  ELSE IF nd.k \in {"mdict", "mdict2"} /\ i = 2 THEN <<1>>
  ELSE <<>>
RECURSIVE FirstBinder(_, _, _, _, _)
FirstBinder(tree, pp, steps, name, j) ==
  IF j > Len(steps) THEN <<>>
  ELSE LET cp == Append(pp, steps[j]) IN
       IF IsBinderOf(NodeAt(tree, cp), name) THEN cp ELSE FirstBinder(tree, pp, steps, name, j + 1)
RECURSIVE VisibleFrom(_, _, _)
VisibleFrom(tree, p, name) ==       \* path of the binder visible at node path p (excluding p itself), or <<0>>
  IF p = <<>> THEN <<0>>
  ELSE LET pp == SubSeq(p, 1, Len(p) - 1)
           i == p[Len(p)]
           hit == FirstBinder(tree, pp, EarlierSteps(tree, pp, i), name, 1)
       IN IF hit # <<>> THEN hit
          ELSE IF NodeAt(tree, pp).k = "spec" /\ NodeAt(tree, pp).a = name THEN pp
          ELSE IF NodeAt(tree, pp).k = "refdef" /\ "ref:" \o NodeAt(tree, pp).a = name THEN pp
          ELSE VisibleFrom(tree, pp, name)
\* does the log entry of a reader agree with the law?  (binder identity; caller scope otherwise)
ReadAgrees(tree, entry, name, callerHas) ==
  LET b == VisibleFrom(tree, entry.p, name) IN
  IF b = <<0>> THEN (IF callerHas THEN entry.v = <<"c">> ELSE entry.v = <<"inv">>)
  ELSE LET nd == NodeAt(tree, b) IN
       IF nd.k = "abind" THEN Head(entry.v) = "t"
       ELSE IF nd.k = "nbind" THEN entry.v = <<"n">>
       ELSE IF nd.k = "sbind2" /\ name = "y"
            THEN \* y was bound to what x resolved to just BEFORE that step
                 LET bx == VisibleFrom(tree, b, "x") IN
                 IF bx = <<0>> THEN (IF callerHas THEN entry.v = <<"c">> ELSE entry.v = <<"inv">>)
                 ELSE IF NodeAt(tree, bx).k = "abind" THEN Head(entry.v) = "t"
                 ELSE IF NodeAt(tree, bx).k = "nbind" THEN entry.v = <<"n">>
                 ELSE entry.v = <<"b">> \o bx
       ELSE entry.v = <<"b">> \o b
\* Ref(name) evaluates the nearest definition in scope (the log entry carries <<"r">> \o its path)
RefAgrees(tree, entry, name) ==
  LET b == VisibleFrom(tree, entry.p, "ref:" \o name) IN
  IF b = <<0>> THEN entry.v = <<"inv">> ELSE entry.v = <<"r">> \o b
\* Vars: a reader sees the variables object created by the latest evaluation of the binder the
\* visibility rule designates, holding the latest assignment made to that object (default otherwise)
VarsAgrees(tree, acts, entry, name) ==
  LET b == VisibleFrom(tree, entry.p, name) IN
  IF b = <<0>> \/ NodeAt(tree, b).k # "vbind" THEN entry.v = <<"inv">>
  ELSE LET B == {j \in 1..entry.at : j <= Len(acts) /\ acts[j].a = "vbind" /\ acts[j].path = b} IN
       IF B = {} THEN FALSE
       ELSE LET jb == CHOOSE j \in B : \A m \in B : m <= j
                id == acts[jb].id
                W == {j \in jb..entry.at : j <= Len(acts) /\ acts[j].a = "vset" /\ acts[j].id = id} IN
            IF W = {} THEN entry.v = <<"d">> ELSE entry.v = acts[CHOOSE j \in W : \A m \in W : m <= j].val
\* S.globals / A.globals: one namespace per top-level call; a reader sees the latest assignment
\* executed before it in this call, wherever the two are placed (acts = the call's action sequence)
GlobalAgrees(acts, entry, name) ==
  LET G == {j \in 1..entry.at : j <= Len(acts) /\ acts[j].a = "gbind" /\ acts[j].name = name} IN
  IF G = {} THEN entry.v = <<"inv">>
  ELSE entry.v = acts[CHOOSE j \in G : \A m \in G : m <= j].val
====================================================================================
