INIT Init
NEXT Next
INVARIANT FirstLaw
INVARIANT SpineLawInv
INVARIANT TargetLawInv
INVARIANT BranchLawInv
INVARIANT BranchErrorInv
INVARIANT AbandonedInv
CHECK_DEADLOCK FALSE
CONSTANTS Mutant = "lazydup"
