INIT InitPull
NEXT NextPull
CONSTRAINT InsideHorizon
INVARIANT LawOutputs
INVARIANT LawDetermined
INVARIANT LawLazy
INVARIANT LawNotBelowDemand
INVARIANT LawEnd
INVARIANT LawAnswered
CHECK_DEADLOCK FALSE
