INIT InitDef
NEXT NextDef
INVARIANT DefPrefixConsistent
INVARIANT DefDemandIsLeastPrefix
INVARIANT DefDemandOrdered
INVARIANT DefTerminals
CHECK_DEADLOCK FALSE
