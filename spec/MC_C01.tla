---------------------------------- MODULE MC_C01 ----------------------------------
(* Exhaustive case universe for C01: spine-shaped targets whose level classes range  *)
(* over every container class, with shared / empty / None-leaved side entries, x all  *)
(* step sequences up to a bound whose steps are valid or invalid at every position.   *)
(* One phase-1 state = one case; its variable pred holds the outcome the specification *)
(* predicts; `tlc -dump` writes all states for replay into the real library.          *)
EXTENDS GlomAccess, Json

CONSTANTS MaxSpine,     \* number of nested container levels (0 = scalar root)
          MaxPath,      \* path length bound with every op kind
          MaxPPath      \* path length bound for pure 'P' paths (dotted strings)

LevelClasses == {"dict", "odict", "idict", "list", "tuple", "obj"}
Leaves == {VNone, VInt(7), VStr("s"), VStr(""), VRef(-1), VRef(-2)}   \* -1: empty dict, -2: empty list
SideOpts == {"absent", "none", "shared", "empty", "dotted", "tupkey"}     \* dotted: the second entry's key is the text "a.b";
                                     \* tupkey: it is a compound (tuple) key, an opaque hashable value whose elements are spelled like keys

\* keys of the two entries of a level
Key1(cls) == IF cls = "idict" THEN VInt(0) ELSE VStr("a")
Key2(cls) == IF cls = "idict" THEN VInt(1) ELSE VStr("b")
Key2S(cls, side) == IF side = "dotted" /\ cls \in {"dict", "odict", "obj"} THEN VStr("a.b")
                    ELSE IF side = "tupkey" /\ cls \in {"dict", "odict"} THEN VSent("TK") ELSE Key2(cls)
PyCls(cls) == IF cls = "idict" THEN "dict" ELSE cls

MkHeap(levels, leaf, side) ==
  LET n == Len(levels)
      fix(v) == IF IsRef(v) /\ v.a < 0 THEN VRef(n - v.a) ELSE v     \* -1 -> n+1, -2 -> n+2
      first(i) == IF i < n THEN VRef(i + 1) ELSE fix(leaf)
      second(i) == CASE side = "none" -> VNone [] side = "shared" -> first(i) [] side = "empty" -> VRef(n + 1)
                     [] side = "dotted" -> VInt(9) [] side = "tupkey" -> VInt(8) [] OTHER -> VNone
      cell(i) == LET c == levels[i] IN
                 IF c \in {"list", "tuple"}
                 THEN Cell(c, IF side = "absent" THEN <<first(i)>> ELSE <<first(i), second(i)>>)
                 ELSE Cell(PyCls(c), IF side = "absent" THEN << <<Key1(c), first(i)>> >>
                                     ELSE << <<Key1(c), first(i)>>, <<Key2S(c, side), second(i)>> >>)
  IN [i \in 1..(n + 2) |-> IF i <= n THEN cell(i) ELSE IF i = n + 1 THEN Cell("dict", <<>>) ELSE Cell("list", <<>>)]

Root(levels, leaf) == LET n == Len(levels) IN
  IF n > 0 THEN VRef(1) ELSE IF IsRef(leaf) THEN VRef(n - leaf.a) ELSE leaf

PArgs == {VStr("a"), VStr("b"), VStr("0"), VStr("1"), VStr("-1"), VStr("5"), VStr("x"), VStr(""), VInt(0), VInt(-1), VInt(2),
          VStr("a.b"), VSent("TK")}      \* a segment holding a dot (one segment, never split) and a compound key
TArgs == {VStr("a"), VStr("x"), VInt(0), VInt(1), VInt(-3), VStr("0")}
AttrArgs == {VStr("a"), VStr("b"), VStr("x")}
AllSteps == {Step("P", a) : a \in PArgs} \cup {Step("[", a) : a \in TArgs} \cup {Step(".", a) : a \in AttrArgs}
PSteps == {Step("P", a) : a \in PArgs}

SeqsUpTo(S, n) == UNION {[1..m -> S] : m \in 0..n}

VARIABLES heap, root, steps, pred, phase
vars == <<heap, root, steps, pred, phase>>

\* phase 0: the environment picks a target; phase 1: it picks a path, and the
\* specification's verdict is recorded in pred (dumped by `tlc -dump` for the replay)
Init ==
  \E n \in 0..MaxSpine : \E levels \in [1..n -> LevelClasses] : \E leaf \in Leaves : \E side \in SideOpts :
    /\ (n = 0 => side = "absent")
    /\ (side = "tupkey" => \A i \in 1..n : levels[i] \in {"dict", "odict"})      \* (elsewhere it would equal "none")
    /\ heap = MkHeap(levels, leaf, side)
    /\ root = Root(levels, leaf)
    /\ steps = <<>> /\ pred = PathEval(heap, root, <<>>) /\ phase = 0
Evaluate ==
  /\ phase = 0 /\ phase' = 1
  /\ UNCHANGED <<heap, root>>
  /\ steps' \in SeqsUpTo(AllSteps, MaxPath) \cup SeqsUpTo(PSteps, MaxPPath)
  /\ pred' = PathEval(heap, root, steps')
Next == Evaluate

Predicted == pred

\* ---- laws checked by TLC on every case ---------------------------------------------
\* a successful walk has touched exactly one container per step whose current value was
\* a container; a failing walk stops at the failing step
LogBound == Len(Predicted.log) <= (IF Predicted.ok THEN Len(steps) ELSE
                                   IF Predicted.idx >= 0 THEN Predicted.idx + 1 ELSE Len(steps))
\* the value reached is a value already in the heap (identity, not a copy) or the root
ResultIsExisting ==
  Predicted.ok => \/ Predicted.v = root
                  \/ \E a \in 1..Len(heap) : \E i \in 1..Len(heap[a].items) :
                        LET it == heap[a].items[i] IN
                        IF heap[a].cls \in MapClasses THEN it[2] = Predicted.v ELSE it = Predicted.v
                  \/ Predicted.v.k = "str"    \* character of a leaf string
\* composition: evaluating a path equals evaluating its prefix and then the rest
Compositional ==
  \A m \in 0..Len(steps) :
    LET p == PathEval(heap, root, SubSeq(steps, 1, m)) IN
    IF p.ok THEN LET q == PathEval(heap, p.v, SubSeq(steps, m + 1, Len(steps))) IN
                 /\ q.ok = Predicted.ok
                 /\ (q.ok => q.v = Predicted.v)
                 /\ (~q.ok /\ q.idx >= 0 => q.idx + m = Predicted.idx)
    ELSE ~Predicted.ok /\ Predicted.idx = p.idx /\ Predicted.exc = p.exc

====================================================================================
