SPECIFICATION MCSpec
CONSTANTS
  Pool <- C20Pool
  MaxCache = 1
  MaxCalls = 1
INVARIANT NonInterference
INVARIANT ObservesOnlyItself
INVARIANT OnlyCachesShared
INVARIANT NoUnmodelled
INVARIANT PathCacheCoherent
INVARIANT TypeCacheCoherent
INVARIANT PathCacheBounded
PROPERTY FrameCondition
CHECK_DEADLOCK FALSE
