INIT Init
NEXT Next
INVARIANT LogBound
INVARIANT ResultIsExisting
INVARIANT Compositional
CHECK_DEADLOCK FALSE
