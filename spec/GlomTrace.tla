---------------------------------- MODULE GlomTrace ----------------------------------
(* C05: the target-spec trace of an error message.                                      *)
(* Mechanism: _unpack_stack and format_target_spec_trace transcribed over the frame table *)
(* of GlomFrames (breadcrumbs last / cerrs / err / nopy).  Render gives the flat lines    *)
(* with their marks (what the text looks like), RenderN the nested structure.             *)
(* Laws (C05), stated on the nested rendering against the *dynamic parent chain* of the    *)
(* failing frame -- never on the breadcrumbs:                                              *)
(*   FirstIsRootTarget, SpineLaw, TargetLaw, BranchLaw, BranchErrorLaw.                    *)
(* Projection: what the property names -- per spec line its nesting depth, its spec node   *)
(* and the target in force; per branch-error line its depth and the error -- is what the   *)
(* harness extracts from the real message and compares.                                    *)
EXTENDS GlomFrames

InSeq(x, sq) == \E i \in 1..Len(sq) : sq[i] = x

\* ---- _unpack_stack ------------------------------------------------------------------------
RECURSIVE U(_, _)
U(frames, x) ==
  IF frames[x].last # 0
  THEN LET child == frames[x].last
           br0 == frames[x].cerrs
           br == IF br0 = <<child>> THEN <<>> ELSE br0          \* a single branch counts as linear
           e == [f |-> x, br |-> br, err |-> frames[x].err]
       IN IF InSeq(child, br) THEN <<e>> ELSE <<e>> \o U(frames, child)
  ELSE << [f |-> x, br |-> <<>>, err |-> frames[x].err] >>
PushDown(stk) == [i \in 1..Len(stk) |->
   IF i < Len(stk) /\ stk[i].err = stk[i + 1].err THEN [stk[i] EXCEPT !.err = 0] ELSE stk[i]]
RECURSIVE Trim(_)
Trim(stk) == IF Len(stk) > 1 /\ stk[Len(stk)].err = 0 THEN Trim(SubSeq(stk, 1, Len(stk) - 1)) ELSE stk
Unpack(frames, x) == Trim(PushDown(U(frames, x)))

\* ---- format_target_spec_trace: flat lines --------------------------------------------------
\* line = [d: depth, kind: "T" | "S" | "B" | "E", f: frame (its target for T, its spec for S/B),
\*         e: error id (E lines), marks: sequence of <<column, character>> applied in order]
Line(d, kind, f, e) == [d |-> d, kind |-> kind, f |-> f, e |-> e, marks |-> <<>>]
RECURSIVE FlattenSegs(_)
FlattenSegs(segs) == IF segs = <<>> THEN <<>> ELSE Head(segs) \o FlattenSegs(Tail(segs))
MarkSeg(segs, idx, col, ch) ==      \* the mark goes on the first line of segment idx
  [segs EXCEPT ![idx] = [@ EXCEPT ![1].marks = Append(@, <<col, ch>>)]]

RECURSIVE Render(_, _, _, _, _, _), RenderGo(_, _, _, _, _, _, _, _, _)
RenderGo(frames, stk, rootErr, depth, lastBranch, i, segs, prev, lle) ==
  IF i > Len(stk) THEN [segs |-> segs, lle |-> lle]
  ELSE LET ent == stk[i]
           tgt == frames[ent.f].tgt
           s1 == IF tgt # prev THEN Append(segs, <<Line(depth, "T", ent.f, 0)>>) ELSE segs
           s2 == IF ent.br # <<>>
                 THEN Append(s1, <<Line(depth, "B", ent.f, 0)>>) \o
                      [j \in 1..Len(ent.br) |->
                         Render(frames, ent.br[j], rootErr, depth + 1, tgt, IF j = Len(ent.br) THEN lastBranch ELSE FALSE)]
                 ELSE Append(s1, <<Line(depth, "S", ent.f, 0)>>)
           hasE == ent.err # 0 /\ ent.err # rootErr
           s3 == IF hasE THEN Append(s2, <<Line(depth, "E", ent.f, ent.err)>>) ELSE s2
       IN RenderGo(frames, stk, rootErr, depth, lastBranch, i + 1, s3, tgt, hasE)
Render(frames, x, rootErr, depth, prevTgt, lastBranch) ==
  LET r == RenderGo(frames, Unpack(frames, x), rootErr, depth, lastBranch, 1, <<>>, prevTgt, FALSE)
      segs1 == IF depth > 0 THEN MarkSeg(r.segs, 1, depth + 1, "\\") ELSE r.segs
      segs2 == IF depth > 0 /\ (~lastBranch \/ r.lle) THEN MarkSeg(segs1, Len(segs1), depth + 1, "X") ELSE segs1
  IN FlattenSegs(segs2)
\* the whole trace of a failed call: the root spec's frame is frame 2; no previous target
TraceLines(frames, rootErr) == Render(frames, 2, rootErr, 0, <<-9>>, TRUE)

\* ---- nested rendering (structure only) --------------------------------------------------------
RECURSIVE RenderN(_, _, _, _), RenderNGo(_, _, _, _, _, _)
RenderNGo(frames, stk, rootErr, i, acc, prev) ==
  IF i > Len(stk) THEN acc
  ELSE LET ent == stk[i]
           tgt == frames[ent.f].tgt
           a1 == IF tgt # prev THEN Append(acc, [kind |-> "T", f |-> ent.f, e |-> 0, subs |-> <<>>]) ELSE acc
           a2 == IF ent.br # <<>>
                 THEN Append(a1, [kind |-> "B", f |-> ent.f, e |-> 0,
                                  subs |-> [j \in 1..Len(ent.br) |-> RenderN(frames, ent.br[j], rootErr, tgt)]])
                 ELSE Append(a1, [kind |-> "S", f |-> ent.f, e |-> 0, subs |-> <<>>])
           a3 == IF ent.err # 0 /\ ent.err # rootErr
                 THEN Append(a2, [kind |-> "E", f |-> ent.f, e |-> ent.err, subs |-> <<>>]) ELSE a2
       IN RenderNGo(frames, stk, rootErr, i + 1, a3, tgt)
RenderN(frames, x, rootErr, prevTgt) == RenderNGo(frames, Unpack(frames, x), rootErr, 1, <<>>, prevTgt)
TraceN(frames, rootErr) == RenderN(frames, 2, rootErr, <<-9>>)

\* ---- ground truth: the dynamic parent chain ------------------------------------------------------
RECURSIVE ParChain(_, _)
ParChain(frames, x) == IF x <= 2 THEN <<2>> ELSE Append(ParChain(frames, frames[x].par), x)
\* the node a frame evaluates (synthetic frames -- trailing 0 -- stand for their enclosing node)
NodePath(p) == IF p # <<>> /\ p[Len(p)] = 0 THEN SubSeq(p, 1, Len(p) - 1) ELSE p
IsPrefixOf(p, q) == Len(p) <= Len(q) /\ SubSeq(q, 1, Len(p)) = p
\* children of x evaluated as part of x's own spec (not the later steps of a chain that were
\* re-parented onto x by chain_child) whose evaluation ended in an error, in attempt order
FailedKids(frames, x) ==
  LET S == {c \in 1..Len(frames) : frames[c].par = x /\ frames[c].err # 0
                                     /\ IsPrefixOf(NodePath(frames[x].path), NodePath(frames[c].path))
                                     /\ NodePath(frames[x].path) # NodePath(frames[c].path)} IN
  LET RECURSIVE Ord(_, _)
      Ord(c, acc) == IF c > Len(frames) THEN acc ELSE Ord(c + 1, IF c \in S THEN Append(acc, c) ELSE acc)
  IN Ord(1, <<>>)

\* the target in force at line i: the nearest preceding Target line of depth <= d (its frame)
RECURSIVE EffTgt(_, _, _)
EffTgt(lines, i, d) == IF i = 0 THEN 0
                       ELSE IF lines[i].kind = "T" /\ lines[i].d <= d THEN lines[i].f ELSE EffTgt(lines, i - 1, d)

\* ---- LAWS -----------------------------------------------------------------------------------------
SpecEntries(n) == SelectSeq(n, LAMBDA en : en.kind \in {"S", "B"})
\* the trace begins with the root target
FirstIsRootTarget(frames, n) == Len(n) >= 1 /\ n[1].kind = "T" /\ frames[n[1].f].tgt = frames[1].tgt
\* following, at every branching spec, the last branch shown: the specs listed are exactly the frames
\* from the root spec down to the innermost spec that failed, in evaluation order
RECURSIVE Descent(_, _)
Descent(n, org) ==        \* spec frames listed on the way down to org (org included, nothing after it)
  LET se == SpecEntries(n)
      fs == [i \in 1..Len(se) |-> se[i].f]
      k == IF \E i \in 1..Len(fs) : fs[i] = org THEN CHOOSE i \in 1..Len(fs) : fs[i] = org ELSE 0
      lastE == se[Len(se)]
  IN IF k # 0 THEN SubSeq(fs, 1, k)
     ELSE IF lastE.subs = <<>> THEN fs
     ELSE fs \o Descent(lastE.subs[Len(lastE.subs)], org)
\* whatever is listed after the failing spec in its own block (the most recent attempt below a
\* branching / inverting spec that then raised itself) lies below the failing frame
RECURSIVE AllFrames(_)
AllFrames(n) == UNION {{n[i].f} \cup (IF n[i].kind = "B" THEN UNION {AllFrames(n[i].subs[j]) : j \in 1..Len(n[i].subs)} ELSE {})
                       : i \in 1..Len(n)}
RECURSIVE AfterOrg(_, _)
AfterOrg(n, org) ==
  LET k == IF \E i \in 1..Len(n) : n[i].kind \in {"S", "B"} /\ n[i].f = org
           THEN CHOOSE i \in 1..Len(n) : n[i].kind \in {"S", "B"} /\ n[i].f = org ELSE 0
      se == SpecEntries(n)
  IN IF k # 0 THEN AllFrames(SubSeq(n, k + 1, Len(n))) \cup
                   (IF n[k].kind = "B" THEN UNION {AllFrames(n[k].subs[j]) : j \in 1..Len(n[k].subs)} ELSE {})
     ELSE IF se[Len(se)].subs = <<>> THEN {} ELSE AfterOrg(se[Len(se)].subs[Len(se[Len(se)].subs)], org)
SpineLaw(frames, n, org) ==
  /\ Descent(n, org) = ParChain(frames, org)
  /\ \A f \in AfterOrg(n, org) : f = org \/ InSeq(org, ParChain(frames, f))
RECURSIVE TgtAt(_, _, _)
TgtAt(n, org, cur) ==        \* frame whose target is in force where the descent reaches org (0: not reached)
  LET RECURSIVE Scan(_, _)
      Scan(i, c) ==
        IF i > Len(n) THEN 0
        ELSE IF n[i].kind = "T" THEN Scan(i + 1, n[i].f)
        ELSE IF n[i].kind \in {"S", "B"} /\ n[i].f = org THEN c
        ELSE IF n[i].kind = "B" /\ n[i].subs # <<>>
             THEN LET r == TgtAt(n[i].subs[Len(n[i].subs)], org, c) IN IF r # 0 THEN r ELSE Scan(i + 1, c)
        ELSE Scan(i + 1, c)
  IN Scan(1, cur)
\* a block inherits the target in force at its parent's branching line; a Target line is printed
\* exactly when the target changes
TargetLaw(frames, n, org) ==
  LET t == TgtAt(n, org, 0) IN t # 0 /\ frames[t].tgt = frames[org].tgt
\* every branch shown under a spec is a failed attempt of that very frame, all attempts appear, in order;
\* a frame the chain has moved on from (forgiven) shows no branches
RECURSIVE BranchLaw(_, _)
BranchLaw(frames, n) ==
  \A i \in 1..Len(n) :
    n[i].kind = "B" =>
      /\ [j \in 1..Len(n[i].subs) |-> SpecEntries(n[i].subs[j])[1].f] = FailedKids(frames, n[i].f)
      /\ \A j \in 1..Len(n[i].subs) : BranchLaw(frames, n[i].subs[j])
\* an error line names the error that ended the evaluation of the frame it is attached to
\* ... it comes from that frame or from below it, and along a linear listing it is shown only at the
\* innermost frame it passed through (a branching spec may repeat the error of its last branch)
RECURSIVE BranchErrorLaw(_, _, _, _)
BranchErrorLaw(frames, errs, n, rootErr) ==
  \A i \in 1..Len(n) :
    /\ (n[i].kind = "E" => /\ n[i].e = frames[n[i].f].err /\ n[i].e # rootErr /\ n[i].e # 0
                           /\ InSeq(n[i].f, ParChain(frames, errs[n[i].e].org))
                           /\ ((\E j \in (i + 1)..Len(n) : n[j].kind = "E" /\ n[j].e = n[i].e) =>
                                 \E k \in 1..(i - 1) : n[k].kind = "B" /\ n[k].f = n[i].f))
    /\ (n[i].kind = "B" => \A j \in 1..Len(n[i].subs) : BranchErrorLaw(frames, errs, n[i].subs[j], rootErr))
\* every abandoned branch shows the error that ended it (unless it is the error finally raised)
RECURSIVE ErrorsOf(_)
ErrorsOf(n) == UNION {IF n[i].kind = "E" THEN {n[i].e}
                      ELSE IF n[i].kind = "B" THEN UNION {ErrorsOf(n[i].subs[j]) : j \in 1..Len(n[i].subs)} ELSE {}
                      : i \in 1..Len(n)}
RECURSIVE AbandonedShown(_, _, _)
AbandonedShown(frames, n, rootErr) ==
  \A i \in 1..Len(n) :
    n[i].kind = "B" =>
      \A j \in 1..Len(n[i].subs) :
        LET c == SpecEntries(n[i].subs[j])[1].f IN
        /\ (frames[c].err # rootErr => frames[c].err \in ErrorsOf(n[i].subs[j]))
        /\ AbandonedShown(frames, n[i].subs[j], rootErr)

\* ---- projection: the structure the property names, extracted alike from model lines and real text:
\* per line its nesting depth, its kind (Target / Spec / branch error) and what it shows -- the spec node,
\* the target, the origin of the error; marks and tick characters are presentation.
Projection(frames, errs, lines) ==
  [j \in 1..Len(lines) |->
     LET l == lines[j] IN
     IF l.kind = "E" THEN [d |-> l.d, kind |-> "E", path |-> frames[errs[l.e].org].path, tgt |-> <<>>, e |-> errs[l.e].n]
     ELSE IF l.kind = "T" THEN [d |-> l.d, kind |-> "T", path |-> <<>>, tgt |-> frames[l.f].tgt, e |-> 0]
     ELSE [d |-> l.d, kind |-> "S", path |-> frames[l.f].path, tgt |-> <<>>, e |-> 0]]
====================================================================================
