---------------------------------- MODULE MC_C13 ----------------------------------
(* Bounded universe for C13: class families (chain of 4, diamond, mixin E(B, X) / F(E), *)
(* builtin subclasses, classes with and without __dict__, iterable / non-iterable duck   *)
(* cases, re-registration of object) x registries {default, Glommer(),                  *)
(* Glommer(register_default_types=False)} x ALL sequences of register() calls up to     *)
(* MaxReg (every type of the family, exact in {TRUE, FALSE}, every keyword set in        *)
(* KwChoices) with up to MaxLook lookups interleaved anywhere.  Every state carries its  *)
(* history, so the harness can perform the same actions on the real library and compare  *)
(* what it sees with hist (law: `allowed`, mechanism: `h`) and with regs (projection of   *)
(* _op_type_map / _op_type_tree / _type_cache) -- `tlc -dump` writes all states.         *)
EXTENDS GlomRegistry, Json

CONSTANTS
  FamNames,    \* families explored in this run
  RegSets,     \* set of sets of registry ids; Init picks one set per behaviour
  Dynamic,     \* TRUE: Glommers are created by a NewGlommer action; FALSE: they exist initially
  MaxReg, MaxLook, MaxNew,
  KwChoices,   \* set of sets of op names a register() call may pass handlers for
  OffChoices,  \* set of sets of op names that may be passed as False (op=False) among those
  LookOps,     \* ops a Lookup action may ask for
  XOps,        \* custom operations ("cauto" / "cplain") a RegOp action may add with register_op
  Stars,       \* TRUE: wildcard steps (Star) count as lookups too; needs keys, get and iterate in Ops
  ReReg,       \* TRUE: a type may be registered again (new handler, any exact flag)
  AllOrders,   \* TRUE: Init also ranges over every iteration order of register_op's known-type set
  PrintUniverse,
  PosObject, PosDict, PosList, PosTuple, PosOD, PosAI, PosOSK   \* that order in this process

\* ---- the class universe ------------------------------------------------------------------
\* bases: direct bases; dict: the class adds a __dict__ to its instances (no __slots__);
\* iter: the class defines __iter__; kind: item protocol inherited from a builtin root
\* ("map": __setitem__ only, "seq": __setitem__ + index, "tuple": unassignable, "obj": neither)
C(bases, d, it, kind) == [bases |-> bases, dict |-> d, iter |-> it, kind |-> kind]
\* (a record literal: cheap to build; a chain of @@ is re-merged at every use while TLC processes
\* the constant definitions)
ClassTab == [
  object |-> C(<<>>, FALSE, FALSE, "obj"), dict |-> C(<<"object">>, FALSE, TRUE, "map"),
  list |-> C(<<"object">>, FALSE, TRUE, "seq"), tuple |-> C(<<"object">>, FALSE, TRUE, "tuple"),
  OrderedDict |-> C(<<"dict">>, TRUE, FALSE, "obj"),
  \* chain of 4
  C1 |-> C(<<"object">>, TRUE, FALSE, "obj"), C2 |-> C(<<"C1">>, TRUE, FALSE, "obj"),
  C3 |-> C(<<"C2">>, TRUE, FALSE, "obj"), C4 |-> C(<<"C3">>, TRUE, FALSE, "obj"),
  \* diamond
  DA |-> C(<<"object">>, TRUE, FALSE, "obj"), DB |-> C(<<"DA">>, TRUE, FALSE, "obj"),
  DC |-> C(<<"DA">>, TRUE, FALSE, "obj"), DD |-> C(<<"DB", "DC">>, TRUE, FALSE, "obj"),
  DE |-> C(<<"DD">>, TRUE, FALSE, "obj"),
  \* mixin: E(B, X), F(E)
  A |-> C(<<"object">>, TRUE, FALSE, "obj"), B |-> C(<<"A">>, TRUE, FALSE, "obj"),
  X |-> C(<<"object">>, TRUE, FALSE, "obj"), E |-> C(<<"B", "X">>, TRUE, FALSE, "obj"),
  F |-> C(<<"E">>, TRUE, FALSE, "obj"),
  \* builtin subclasses
  MD |-> C(<<"dict">>, TRUE, FALSE, "obj"), MD2 |-> C(<<"MD">>, TRUE, FALSE, "obj"),
  MD3 |-> C(<<"MD2">>, TRUE, FALSE, "obj"), ML |-> C(<<"list">>, TRUE, FALSE, "obj"),
  ML2 |-> C(<<"ML">>, TRUE, FALSE, "obj"), MT |-> C(<<"tuple">>, TRUE, FALSE, "obj"),
  MO |-> C(<<"OrderedDict">>, TRUE, FALSE, "obj"),
  \* without / with __dict__: S1, S2 declare __slots__ = (), S3 does not
  S1 |-> C(<<"object">>, FALSE, FALSE, "obj"), S2 |-> C(<<"S1">>, FALSE, FALSE, "obj"),
  S3 |-> C(<<"S2">>, TRUE, FALSE, "obj"), S4 |-> C(<<"S3">>, TRUE, FALSE, "obj"),
  \* iterable / not: N2 adds __iter__ below the non-iterable N1; I1 is iterable from the top
  N1 |-> C(<<"object">>, TRUE, FALSE, "obj"), N2 |-> C(<<"N1">>, TRUE, TRUE, "obj"),
  N3 |-> C(<<"N2">>, TRUE, FALSE, "obj"), I1 |-> C(<<"object">>, TRUE, TRUE, "obj"),
  I2 |-> C(<<"I1">>, TRUE, FALSE, "obj"),
  \* ABCs with virtual subclasses (V1.register(W1), V2.register(W1), V1.register(W3)), W2(W1), W3(VP)
  V1 |-> C(<<"object">>, TRUE, FALSE, "obj"), V2 |-> C(<<"object">>, TRUE, FALSE, "obj"),
  W1 |-> C(<<"object">>, TRUE, FALSE, "obj"), W2 |-> C(<<"W1">>, TRUE, FALSE, "obj"),
  VP |-> C(<<"object">>, TRUE, FALSE, "obj"), W3 |-> C(<<"VP">>, TRUE, FALSE, "obj"),
  \* a duck type whose metaclass overrides __instancecheck__ (hasattr(obj, "quack")); K1 quacks, K2(K1)
  Q |-> C(<<"object">>, TRUE, FALSE, "obj"), K1 |-> C(<<"object">>, TRUE, FALSE, "obj"),
  K2 |-> C(<<"K1">>, TRUE, FALSE, "obj"),
  \* a namedtuple class (tuple subclass whose constructor does not take one iterable, no __dict__) and the
  \* builtin generator type (iterable through __subclasshook__, one-shot, cannot be built by calling the type)
  NT |-> C(<<"tuple">>, FALSE, FALSE, "obj"), generator |-> C(<<"object">>, FALSE, TRUE, "obj") ]
Abstract == {"V1", "V2", "Q"}                       \* never the type of an object
Virt     == [W1 |-> <<"V1", "V2">>, W3 |-> <<"V1">>]  \* abc.register() relations
Quack    == {"K1"}                                  \* classes defining the attribute Q looks for
Special  == [V1 |-> "abc", V2 |-> "abc", Q |-> "instancecheck", NT |-> "namedtuple", generator |-> "generator"]
Concrete == DOMAIN ClassTab \ Abstract
VirtOf(t) == IF t \in DOMAIN Virt THEN Virt[t] ELSE <<>>

RECURSIVE NomAnc(_)
NomAnc(t) == {t} \cup UNION {NomAnc(ClassTab[t].bases[i]) : i \in 1..Len(ClassTab[t].bases)}
HasIter(t) == \E a \in NomAnc(t) : ClassTab[a].iter
HasDict(t) == \E a \in NomAnc(t) : ClassTab[a].dict
RECURSIVE KindOf(_)
KindOf(t) == IF ClassTab[t].kind # "obj" \/ ClassTab[t].bases = <<>> THEN ClassTab[t].kind
             ELSE LET ks == {KindOf(ClassTab[t].bases[i]) : i \in 1..Len(ClassTab[t].bases)} \ {"obj"}
                  IN IF ks = {} THEN "obj" ELSE CHOOSE k \in ks : TRUE
GlomDucks == {"_AbstractIterable", "_ObjStyleKeys"}
AllTypes == DOMAIN ClassTab \cup GlomDucks
\* ABCs a class is a virtual subclass of: those its nominal ancestors were registered with (and their ancestors)
VirtAnc(t) == UNION {UNION {NomAnc(VirtOf(a)[i]) : i \in 1..Len(VirtOf(a))} : a \in NomAnc(t)}
Quacks(t) == \E a \in NomAnc(t) : a \in Quack
\* type.__mro__ by C3 linearisation: the class, then the merge of the linearisations of its bases and
\* the list of bases (repeatedly take the first head that is in the tail of no list)
RECURSIVE C3Merge(_), Mro(_)
C3Merge(lists) ==
  LET ne == SelectSeq(lists, LAMBDA l : Len(l) > 0) IN
  IF Len(ne) = 0 THEN <<>>
  ELSE LET good(h) == \A k \in 1..Len(ne) : \A m \in 2..Len(ne[k]) : ne[k][m] # h
           i == CHOOSE i \in 1..Len(ne) : good(ne[i][1]) /\ \A j \in 1..(i - 1) : ~good(ne[j][1])
           h == ne[i][1]
       IN <<h>> \o C3Merge([k \in 1..Len(ne) |-> IF ne[k][1] = h THEN Tail(ne[k]) ELSE ne[k]])
Mro(t) == LET bs == ClassTab[t].bases IN
          <<t>> \o C3Merge([k \in 1..Len(bs) |-> Mro(bs[k])] \o (IF Len(bs) = 0 THEN <<>> ELSE <<bs>>))
IterDuck(t) == IF HasIter(t) THEN {"_AbstractIterable"} ELSE {}
MCUniverse ==
  [sub  |-> [t \in AllTypes |->
               IF t = "_AbstractIterable" THEN {"object"}     \* its __subclasshook__ rejects itself
               ELSE IF t = "_ObjStyleKeys" THEN {"_ObjStyleKeys", "object"}
               ELSE NomAnc(t) \cup IterDuck(t) \cup VirtAnc(t)],
   inst |-> [t \in Concrete |->
               NomAnc(t) \cup IterDuck(t) \cup VirtAnc(t)
                         \cup (IF HasDict(t) THEN {"_ObjStyleKeys"} ELSE {})
                         \cup (IF Quacks(t) THEN {"Q"} ELSE {})],
   mro  |-> [t \in Concrete |-> Mro(t)],
   auto |-> [op \in AllOps |-> [t \in AllTypes |->
               IF t \in GlomDucks THEN
                 CASE op = "get" -> "getattr" [] op = "assign" -> "setattr" [] op = "delete" -> "delattr"
                   [] op = "cauto" -> "customdefault" [] OTHER -> "False"
               ELSE
                 CASE op = "get" -> "getattr"
                   [] op = "iterate" -> IF HasIter(t) THEN "iter" ELSE "False"
                   [] op = "assign" -> (CASE KindOf(t) = "map" -> "setitem" [] KindOf(t) = "seq" -> "setseq"
                                          [] KindOf(t) = "tuple" -> "False" [] OTHER -> "setattr")
                   [] op = "delete" -> (CASE KindOf(t) = "map" -> "delitem" [] KindOf(t) = "seq" -> "delseq"
                                          [] KindOf(t) = "tuple" -> "False" [] OTHER -> "delattr")
                   \* the harness's autodiscovery function for "cauto": a default handler except for tuples
                   [] op = "cauto" -> (IF KindOf(t) = "tuple" THEN "False" ELSE "customdefault")
                   [] OTHER -> "False"]]]
\* printed once for the harness, which builds the real classes from ClassTab and checks the derived
\* tables against issubclass / isinstance / the real autodiscovery functions
UniverseDoc(dummy) ==   \* (a parameter keeps TLC from evaluating it at start-up)
 
  [classes |-> ClassTab, abstract |-> SeqOf(Abstract), virt |-> Virt, quack |-> SeqOf(Quack), special |-> Special,
   sub  |-> [t \in AllTypes |-> SeqOf(MCUniverse.sub[t])],
   inst |-> [t \in Concrete |-> SeqOf(MCUniverse.inst[t])],
   mro  |-> MCUniverse.mro,
   auto |-> MCUniverse.auto]

\* ---- families: which types may be registered, which types are looked up ------------------------
Families ==
  [chain    |-> [regt |-> <<"C1", "C2", "C3", "C4">>,   objs |-> <<"C1", "C3", "C4", "dict">>],
   diamond  |-> [regt |-> <<"DA", "DB", "DC", "DD">>,   objs |-> <<"DB", "DD", "DE">>],
   mixin    |-> [regt |-> <<"A", "B", "X", "E">>,       objs |-> <<"B", "E", "F">>],
   builtins |-> [regt |-> <<"MD", "MD2", "ML", "MO">>,  objs |-> <<"MD3", "ML2", "MT", "MO", "list", "NT">>],
   slots    |-> [regt |-> <<"S1", "S2", "S3">>,         objs |-> <<"S2", "S3", "S4">>],
   ducks    |-> [regt |-> <<"N1", "N2", "I1">>,         objs |-> <<"N1", "N3", "I2", "OrderedDict", "generator">>],
   \* ABCs with virtual subclasses (one class is a virtual subclass of two registered ABCs), a duck type by
   \* metaclass __instancecheck__
   abcs     |-> [regt |-> <<"V1", "V2", "W1", "VP">>,   objs |-> <<"W1", "W2", "W3">>],
   quack    |-> [regt |-> <<"Q", "K1", "C1">>,          objs |-> <<"K1", "K2", "C2">>],
   objroot  |-> [regt |-> <<"object", "C1", "C2">>,     objs |-> <<"object", "C3", "tuple">>],
   \* types that are both registered and looked up (memo of a type's own entry, False handlers)
   own      |-> [regt |-> <<"MD", "ML", "MO">>,         objs |-> <<"MD", "ML", "MO", "ML2">>],
   ownchain |-> [regt |-> <<"C1", "C2", "C3">>,         objs |-> <<"C2", "C3", "C4">>],
   \* wildcard steps on the builtin containers themselves (re-registered) and on their subclasses
   star     |-> [regt |-> <<"dict", "list", "MD">>,     objs |-> <<"dict", "list", "tuple", "MD2", "C1">>]]

\* ---- the order in which register_op iterated over its set of known types in this process -------
Pos == [object |-> PosObject, dict |-> PosDict, list |-> PosList, tuple |-> PosTuple, OrderedDict |-> PosOD,
        _AbstractIterable |-> PosAI, _ObjStyleKeys |-> PosOSK]
KnownOrder == [i \in 1..7 |-> CHOOSE t \in DOMAIN Pos : Pos[t] = i]
\* all orders of a set S as sequences (an operator with a parameter: not evaluated unless used)
RECURSIVE PermsOf(_)
PermsOf(S) == IF S = {} THEN {<<>>} ELSE UNION {{<<x>> \o p : p \in PermsOf(S \ {x})} : x \in S}
PristineTab == [k \in {"default", "glommer", "bare"} |-> PristineFor(k, KnownOrder)]

VARIABLES fam, korder
vars == <<regs, hist, fam, korder>>
Fam == Families[fam]
RegT == Range(Fam.regt)
Objs == Range(Fam.objs)
Count(a) == Cardinality({i \in 1..Len(hist) : hist[i].a = a})
Pristine(k) == IF AllOrders THEN PristineFor(k, korder) ELSE PristineTab[k]

Init ==
  /\ fam \in FamNames
  /\ korder \in (IF AllOrders THEN PermsOf(DOMAIN Pos) ELSE {KnownOrder})
  /\ \E rs \in RegSets :
       regs = [r \in rs |-> IF r = "default" \/ ~Dynamic THEN Pristine(RegKind[r]) ELSE Dead(RegKind[r])]
  /\ hist = <<>>
  /\ (PrintUniverse => PrintT(ToJson(UniverseDoc(0))))

UserRegistered(r, t) == \E i \in 1..Len(regs[r].made) : regs[r].made[i].t = t
DoRegister ==
  /\ Count("reg") < MaxReg
  /\ \E r \in DOMAIN regs : \E t \in RegT : \E exact \in BOOLEAN : \E ops \in KwChoices :
       /\ (ReReg \/ ~UserRegistered(r, t))
       /\ \E off \in OffChoices : off \subseteq ops /\ Register(r, t, SeqOf(ops), exact, SeqOf(off))
DoLookup ==
  /\ Count("look") + Count("star") < MaxLook
  /\ \E r \in DOMAIN regs : \E T \in Objs : \E op \in LookOps : Lookup(r, T, op)
DoStar ==
  /\ Stars /\ Count("look") + Count("star") < MaxLook
  /\ \E r \in DOMAIN regs : \E T \in Objs : Star(r, T)
\* register_op on a Glommer registry (a Glommer copies the operations of the module-level registry at construction,
\* so the default registry is left alone) while at most one type is known (the iteration order of the set of known
\* types is then determined) and nothing was registered exact=True (what register_op does to such types is not
\* covered by the statement)
DoRegOp ==
  \E r \in DOMAIN regs \ {"default"} : \E op \in XOps :
    /\ Cardinality(MKnown(regs[r])) <= 1
    /\ \A i \in 1..Len(regs[r].made) : ~regs[r].made[i].exact
    /\ LET known == SeqOf(MKnown(regs[r])) IN RegisterOpAct(r, op, known, known)
DoNew ==
  /\ Dynamic /\ Count("new") < MaxNew
  /\ \E r \in DOMAIN regs : NewGlommer(r, korder)
Next == (DoRegister \/ DoLookup \/ DoStar \/ DoRegOp \/ DoNew) /\ UNCHANGED <<fam, korder>>
Spec == Init /\ [][Next]_vars

\* ---- laws (INVARIANT / PROPERTY lines of the cfg file) ----------------------------------------
\* the transcribed mechanism obeys the law without exception; the spec mutants (constant Mutant)
\* must make TLC report one of these violated
Nearest      == NearestLaw(Objs)
HandedOut    == HandedOutLawful
FreshGlommer == FreshGlommerLikeDefault(Objs, Pristine("default"))
Coherent   == CacheCoherent
TreeOK     == TreeInvariant
Isolation  == [][IsolationStep]_vars
\* an untouched registry equals the freshly constructed one of its kind
Untouched  == \A r \in Live : regs[r].made = <<>> /\ regs[r].xops = <<>> /\ regs[r].cache = <<>> => regs[r] = Pristine(RegKind[r])
====================================================================================
