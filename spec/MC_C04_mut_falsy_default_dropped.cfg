\* spec mutant: the mechanism variant "falsy_default_dropped" (see GlomErrors.tla) must violate a law
CONSTANTS
  Mutant = "falsy_default_dropped"
  MinDepth = 0
  MaxDepth = 1
  Rich = TRUE
  KwMode = "full"
INIT Init
NEXT Next
INVARIANT CatalogueOK
INVARIANT VerdictConsistent
INVARIANT InvClassKept
INVARIANT InvGlomIfRebuildable
INVARIANT InvSubtype
INVARIANT InvDefaultSelective
INVARIANT InvDebug
INVARIANT InvBase
INVARIANT CreatedAreDocumented
PROPERTY PassThroughLaw
PROPERTY TransparentLaw
CHECK_DEADLOCK FALSE
