---------------------------------- MODULE MC_C09 ----------------------------------
(* Bounded universe for C09: every pattern of the families below x every target value   *)
(* of depth <= TDepth over a small atom set (which contains every conforming target,    *)
(* every one-edit near miss and unrelated values).  phase 0 -> 1 chooses the pattern,    *)
(* phase 1 -> 2 the target; each phase-2 state is one case whose variable `pred` holds   *)
(* what GlomMatch predicts for glom(target, Match(pattern)) and for                      *)
(* glom(target, Match(pattern, default=77)).  The INVARIANT lines are the laws of C09.   *)
EXTENDS GlomMatch

CONSTANTS TDepth,      \* 1 | 2   nesting depth of target values
          PDepth,      \* 1 | 2 | 3  nesting depth of patterns
          Wide         \* TRUE: larger leaf / key sets

Range(sq) == {sq[i] : i \in 1..Len(sq)}
SeqsUpTo(S, n) == UNION {[1..m -> S] : m \in 0..n}
\* sequences of length <= 2 standing for sets: one representative per set, no (Python-)equal
\* elements
PairsLt(sq) == {<<sq[ij[1]], sq[ij[2]]>> : ij \in {x \in (1..Len(sq)) \X (1..Len(sq)) : x[1] < x[2] /\ ~PyEq(sq[x[1]], sq[x[2]])}}
SmallSets(sq) == {<<>>} \cup {<<sq[i]>> : i \in 1..Len(sq)} \cup PairsLt(sq)
SmallSetsP(sq) == {<<>>} \cup {<<sq[i]>> : i \in 1..Len(sq)} \cup
                  {<<sq[ij[1]], sq[ij[2]]>> : ij \in {x \in (1..Len(sq)) \X (1..Len(sq)) : x[1] < x[2]}}

\* ---- targets ------------------------------------------------------------------------
Atoms0 == {VInt(0), VInt(1), VInt(2), VBool(TRUE), VBool(FALSE), VNone} \cup {VStr(s) : s \in StrU}
Atoms1Seq == IF Wide THEN <<VInt(0), VInt(1), VBool(TRUE), VStr("a"), VStr("b"), VNone>>
             ELSE <<VInt(1), VBool(TRUE), VStr("a"), VNone>>
Atoms1 == Range(Atoms1Seq)
Keys1 == IF Wide THEN {VStr("a"), VStr("b"), VInt(1)} ELSE {VStr("a"), VStr("b")}

DictsOver(keys, vals, n) ==     \* dicts with <= n entries, distinct keys, every insertion order
  {<<>>} \cup {<< Entry(k, v) >> : k \in keys, v \in vals} \cup
  (IF n < 2 THEN {} ELSE
   {<< Entry(kk[1], v1), Entry(kk[2], v2) >> : kk \in {x \in keys \X keys : ~PyEq(x[1], x[2])}, v1 \in vals, v2 \in vals})

Depth1 ==
  {VC("list", s) : s \in SeqsUpTo(Atoms1, 2)} \cup {VC("tuple", s) : s \in SeqsUpTo(Atoms1, 2)} \cup
  {VC("set", s) : s \in SmallSets(Atoms1Seq)} \cup
  {VC("frozenset", s) : s \in {<<>>, <<VInt(1)>>, <<VStr("a")>>}} \cup
  {VC("dict", s) : s \in DictsOver(Keys1, Atoms1, 2)} \cup
  {VC("odict", s) : s \in DictsOver({VStr("a")}, Atoms1, 1)}

\* depth 2: containers holding atoms and a selection of depth-1 containers, at least one
\* container among the items
Inner == {VC("list", <<>>), VC("list", <<VInt(1)>>), VC("list", <<VStr("a")>>), VC("tuple", <<VInt(1)>>),
          VC("dict", <<>>), VC("dict", << Entry(VStr("a"), VInt(1)) >>), VC("dict", << Entry(VStr("a"), VStr("a")) >>),
          VC("dict", << Entry(VStr("b"), VInt(1)) >>)}
Atoms2 == {VInt(1), VStr("a"), VNone}
Items2 == Atoms2 \cup Inner
HasInner(s) == \E i \in 1..Len(s) : IsC(s[i])
Depth2 ==
  {VC("list", s) : s \in {x \in SeqsUpTo(Items2, 2) : HasInner(x)}} \cup
  {VC("tuple", s) : s \in {x \in SeqsUpTo(Items2, 2) : HasInner(x)}} \cup
  {VC("dict", s) : s \in {x \in DictsOver({VStr("a"), VStr("b")}, Items2, 2) :
                            (\E i \in 1..Len(x) : IsC(x[i].val)) /\ (Len(x) = 2 => x[1].key = VStr("a"))}} \cup
  {VC("set", << VC("tuple", <<VInt(1)>>) >>), VC("dict", << Entry(VC("tuple", <<VStr("a"), VInt(1)>>), VInt(1)) >>),
   VC("dict", << Entry(VC("tuple", <<VStr("a"), VStr("a")>>), VInt(1)) >>),
   VC("dict", << Entry(VC("tuple", <<VStr("a"), VC("tuple", <<VInt(1), VInt(1)>>)>>), VInt(1)) >>),
   VC("dict", << Entry(VC("tuple", <<VStr("a"), VC("tuple", <<VInt(1), VInt(2)>>)>>), VStr("a")) >>)}

Targets == Atoms0 \cup Depth1 \cup (IF TDepth >= 2 THEN Depth2 ELSE {})

\* ---- patterns -----------------------------------------------------------------------
Regexes == {PRegex(n, f) : n \in {"ra", "rb", "rs"}, f \in {"fullmatch", "match", "search"}}
\* callables: truthy / falsy results, and raising ValueError / AttributeError / ZeroDivisionError /
\* TypeError / IndexError / KeyError depending on the target (1 / x > 0,  x[0] == 'a')
Preds == {PPred(n, 0) : n \in {"yes", "no", "truthy", "boom", "boom_attr", "recip", "head"}}
\* comparisons with a set operand: inclusion is a partial order (neither <= nor > may hold)
FS == VC("frozenset", <<VInt(1), VStr("a")>>)
SetCmps == {PM(c, FS) : c \in {"<", "<=", ">", ">=", "!="}} \cup {PMR(">", VC("frozenset", <<VInt(1)>>))}
MExprs == {PM("==", VInt(1)), PM("!=", VStr("a")), PM(">", VInt(0)), PM("<=", VInt(1)), PM(">=", VStr("a")),
           PM("<", VStr("b")), PMTruthy}
Lits == {PLit(VInt(1)), PLit(VStr("a")), PLit(VNone), PLit(VBool(TRUE))}
Types == {PType(t) : t \in {"int", "str", "bool", "object", "list", "dict", "tuple", "set", "NoneType"}}
\* Regex(pattern, flags=re.IGNORECASE): 'A' matches lower-case strings only with the flag
RegexFlags == {PRegexF("rA", f, fl) : f \in {"fullmatch", "search"}, fl \in {"", "I"}} \cup {PRegexF("ra", "match", "I")}
\* constant op M: Python reflects the comparison onto M  (0 < M  is  M > 0)
Reflected == {PMR("<", VInt(0)), PMR("==", VInt(1)), PMR(">=", VStr("a")), PMR("!=", VNone)}
\* Match nested inside a Match pattern, with and without its own default
NM0 == PMatch(PType("int"), TRUE, VInt(0))
NM == {NM0, PMatch(PType("int"), FALSE, VNone), PMatch(PLit(VStr("a")), TRUE, VNone)}
Leaves == Lits \cup Types \cup Regexes \cup RegexFlags \cup Preds \cup MExprs \cup SetCmps \cup Reflected \cup NM

\* the small leaf alphabet used inside composite patterns
LsSeq == IF Wide THEN <<PLit(VInt(1)), PLit(VStr("a")), PType("int"), PType("str"), PType("object"),
                        PM(">", VInt(0)), PRegex("ra", "search"), PPred("truthy", 0)>>
         ELSE <<PLit(VInt(1)), PLit(VStr("a")), PType("int"), PType("str"), PType("object"), PM(">", VInt(0))>>
Ls == Range(LsSeq)
\* alternatives of a set pattern must be hashable and (for the replay) order-insensitive
HashLsSeq == <<PLit(VInt(1)), PLit(VStr("a")), PType("int"), PType("str"), PM(">", VInt(0))>>

\* dict-spec keys: equality keys, type keys, Optional with / without default, Required,
\* compound keys (tuple of constants, tuple with a type, M expression, Or of constants)
KeysP == {PLit(VStr("a")), PLit(VInt(1)), PType("str"), PType("object"),
          POptional(VStr("a"), FALSE, VNone), POptional(VStr("a"), TRUE, VInt(5)), POptional(VStr("b"), TRUE, VNone),
          PRequired(PType("str")), PRequired(PType("object")),
          PType("int"), PTuple(<<PLit(VStr("a")), PLit(VInt(1))>>), PTuple(<<PLit(VStr("a")), PType("int")>>),
          PM("!=", VStr("b")), POr(<<PLit(VStr("a")), PLit(VStr("b"))>>, "ctor", FALSE, VNone),
          PRequired(PM("!=", VStr("b"))),
          \* compound keys nested two levels: an equality key only if every member at every level is one
          PTuple(<<PLit(VStr("a")), PTuple(<<PLit(VInt(1)), PType("int")>>)>>),
          PTuple(<<PLit(VStr("a")), PTuple(<<PLit(VInt(1)), PLit(VInt(1))>>)>>),
          PRequired(PTuple(<<PLit(VStr("a")), PTuple(<<PLit(VInt(1)), PM(">", VInt(0))>>)>>)),
          POptional(VC("tuple", <<VStr("a"), VC("tuple", <<VInt(1), VInt(1)>>)>>), TRUE, VInt(5))}
ValsP == IF Wide THEN {PType("int"), PType("object"), PLit(VInt(1))} ELSE {PType("int"), PType("object")}
\* keys of the two-entry dict patterns
KeysPP == {PLit(VStr("a")), PLit(VInt(1)), PType("str"), POptional(VStr("a"), TRUE, VInt(5)),
           POptional(VStr("b"), TRUE, VNone), PRequired(PType("str"))} \cup
          (IF Wide THEN {PType("object"), POptional(VStr("a"), FALSE, VNone), PTuple(<<PLit(VStr("a")), PLit(VInt(1))>>),
                         PM("!=", VStr("b"))}
           ELSE {})
Entries(keys, vals) == {<<k, v>> : k \in keys, v \in vals}
DictPats(keys1, vals1, keys2, vals2) ==
  {PDict(<<>>)} \cup {PDict(<<e>>) : e \in Entries(keys1, vals1)} \cup
  {PDict(<<e1, e2>>) : e1 \in Entries(keys2, vals2), e2 \in Entries(keys2, vals2)}
DistinctKeys(p) == p.op = "dict" => (Len(p.items) = 2 => p.items[1][1] # p.items[2][1] /\
   ~(KeyPat(p.items[1][1]).op = "lit" /\ KeyPat(p.items[2][1]).op = "lit" /\ PyEq(KeyPat(p.items[1][1]).v, KeyPat(p.items[2][1]).v)))

\* composites whose children come from the set C (first-level: C = Ls)
Bools(C) == {PAnd(s, "ctor", FALSE, VNone) : s \in [1..2 -> C]} \cup {POr(s, "ctor", FALSE, VNone) : s \in [1..2 -> C]}
Seqs(C) == {PList(s) : s \in SeqsUpTo(C, 2)} \cup {PTuple(s) : s \in SeqsUpTo(C, 2)}
Sets1 == {PSet(s) : s \in SmallSetsP(HashLsSeq)} \cup {PFrozenset(s) : s \in {<<>>, <<PType("int")>>, <<PLit(VStr("a"))>>}}

\* And / Or whose first child is a dict pattern that fills in an Optional default and whose other
\* child tells the target from the default-augmented dict: every child of And is checked
\* against the *target* (not against an earlier child's result) and And yields the last result
OptA == POptional(VStr("a"), TRUE, VInt(5))
Filling == {PDict(<< <<OptA, PType("int")>> >>),
            PDict(<< <<OptA, PType("int")>>, <<PType("str"), PType("object")>> >>),
            PDict(<< <<POptional(VStr("b"), TRUE, VNone), PType("object")>>, <<PLit(VStr("a")), PType("int")>> >>)}
Telling == {PM("==", VC("dict", <<>>)), PM("!=", VC("dict", << Entry(VStr("a"), VInt(5)) >>)), PPred("falsy", 0),
            PNot(PPred("truthy", 0), "ctor"), PDict(<<>>), PDict(<< <<PType("str"), PType("str")>> >>),
            PDict(<< <<PLit(VStr("a")), PType("int")>> >>), PType("dict"), PMTruthy}
AndDefaults ==
  {PAnd(<<f, g>>, "ctor", FALSE, VNone) : f \in Filling, g \in Telling} \cup
  {PAnd(<<g, f>>, "ctor", FALSE, VNone) : f \in Filling, g \in Telling} \cup
  {PAnd(<<f, g, f>>, "ctor", FALSE, VNone) : f \in Filling, g \in Telling} \cup
  {POr(<<PAnd(<<f, PLit(VInt(1))>>, "ctor", FALSE, VNone), g>>, "ctor", FALSE, VNone) : f \in Filling, g \in Telling}

\* element-wise means every element: list patterns that separate values which are == (and hash
\* alike) but of different type -- 1 / True, 0 / False -- met by lists mixing them in every order
\* (an element equal to one already accepted must still be checked itself)
NotBool == PNot(PType("bool"), "ctor")
EqMix == {PList(<<PType("bool")>>), PList(<<NotBool>>), PList(<<PType("bool"), PLit(VStr("a"))>>),
          PList(<<PAnd(<<PType("int"), NotBool>>, "ctor", FALSE, VNone)>>), PList(<<NotBool, PType("str")>>),
          PList(<<PM("==", VInt(1)), PType("bool")>>)}
EqAtoms == {VInt(0), VInt(1), VBool(TRUE), VBool(FALSE)}
EqLists == {VC("list", s) : s \in [1..2 -> EqAtoms] \cup [1..3 -> EqAtoms]}

NestedMatch ==
  UNION {{PList(<<m>>), PList(<<m, PType("str")>>), PTuple(<<m, PType("int")>>), PDict(<< <<PLit(VStr("a")), m>> >>),
          PDict(<< <<POptional(VStr("a"), TRUE, VInt(5)), m>> >>), PDict(<< <<PType("str"), m>>, <<PType("object"), PType("object")>> >>),
          POr(<<m, PLit(VStr("a"))>>, "ctor", FALSE, VNone), PAnd(<<m, PM(">", VInt(0))>>, "ctor", FALSE, VNone),
          PAnd(<<PM(">", VInt(0)), m>>, "ctor", FALSE, VNone)} : m \in NM} \cup
  {PDict(<< <<PMatch(PType("str"), FALSE, VNone), PType("int")>> >>),                     \* a Match as key pattern
   PDict(<< <<PRequired(PMatch(PType("str"), FALSE, VNone)), PType("int")>> >>),
   PSet(<<PMatch(PType("int"), FALSE, VNone)>>),
   PList(<<PMatch(PList(<<PType("int")>>), TRUE, VC("list", <<>>))>>)}

\* Optional defaults that are containers (built afresh on every evaluation) or hold T (resolved
\* against the dict being matched)
OptL == POptional(VStr("a"), TRUE, VC("list", <<>>))
OptD == POptional(VStr("b"), TRUE, VC("dict", << Entry(VStr("a"), VC("list", <<VInt(1)>>)) >>))
OptT == POptional(VStr("b"), TRUE, VC("list", <<VTarg(<<>>), VInt(1)>>))
ContainerDefaults ==
  {PDict(<< <<o, PType("object")>> >>) : o \in {OptL, OptD, OptT}} \cup
  {PDict(<< <<o, PType("object")>>, <<PType("str"), PType("int")>> >>) : o \in {OptL, OptD, OptT}} \cup
  {PList(<<PDict(<< <<OptL, PType("list")>> >>)>>), PDict(<< <<PLit(VStr("a")), PDict(<< <<OptD, PType("object")>> >>)>> >>),
   POr(<<PDict(<< <<OptL, PType("int")>> >>), PType("dict")>>, "ctor", FALSE, VNone),
   PMatch(PType("int"), TRUE, VC("list", <<VTarg(<<>>)>>)),
   PList(<<PMatch(PType("int"), TRUE, VC("dict", << Entry(VStr("a"), VTarg(<<>>)) >>))>>)}

\* hardening: falsy-but-meaningful values in every position (targets, items, keys, defaults),
\* falsy / subclassed containers, values with a hostile == -- a truth test is not an emptiness
\* or None test, isinstance is not an exact-type test, == is not identity
HardTargets ==
  {VC("flist", <<VInt(1)>>), VC("flist", <<>>), VC("flist", <<VInt(1), VStr("a")>>), VC("fdict", << Entry(VStr("a"), VInt(1)) >>),
   VC("fdict", <<>>), VC("fset", <<VInt(1)>>), VC("fset", <<>>), VC("ntuple", <<VInt(1)>>), VC("ntuple", <<VInt(1), VStr("a")>>), VC("ntuple", <<>>),
   VAny, VGrumpy, VC("list", <<VAny>>), VC("list", <<VInt(1), VAny>>), VC("dict", << Entry(VStr("a"), VAny) >>), VC("tuple", <<VAny>>),
   VC("list", <<VInt(0)>>), VC("list", <<VStr("")>>), VC("list", <<VBool(FALSE), VNone>>), VC("tuple", <<VInt(0)>>),
   VC("tuple", <<VC("tuple", <<>>)>>), VC("list", <<VC("list", <<>>), VC("dict", <<>>)>>),
   VC("dict", << Entry(VInt(0), VInt(0)) >>), VC("dict", << Entry(VStr(""), VStr("")) >>), VC("dict", << Entry(VNone, VNone) >>),
   VC("dict", << Entry(VBool(FALSE), VC("list", <<>>)) >>), VC("dict", << Entry(VC("tuple", <<>>), VInt(0)) >>),
   VC("odict", << Entry(VStr("b"), VInt(1)), Entry(VStr("a"), VInt(1)) >>), VInt(-1), VC("dict", << Entry(VStr("a"), VInt(0)) >>)}
HardPatterns ==
  {PList(<<>>), PSet(<<>>), PFrozenset(<<>>), PSet(<<PType("int")>>),       \* the empty pattern matches only empty containers
   PList(<<PType("int")>>), PList(<<PLit(VInt(1))>>), PList(<<PLit(VInt(0)), PLit(VStr("")), PLit(VBool(FALSE))>>),
   PList(<<PType("object")>>), PList(<<PList(<<>>), PDict(<<>>)>>), PList(<<PLit(VNone), PType("bool")>>),
   PType("list"), PType("dict"), PType("tuple"), PType("object"), PLit(VInt(1)), PLit(VStr("a")), PLit(VInt(0)), PLit(VNone),
   PTuple(<<PType("int")>>), PTuple(<<PType("int"), PType("str")>>), PTuple(<<>>), PTuple(<<PLit(VInt(0))>>), PTuple(<<PTuple(<<>>)>>),
   PMTruthy, PNot(PMTruthy, "ctor"), PM("==", VInt(1)), PM("!=", VInt(1)), PM("==", VC("list", <<VInt(1)>>)), PM("==", VInt(0)),
   PPred("truthy", 0), PPred("falsy", 0), POr(<<PMTruthy, PType("object")>>, "ctor", FALSE, VNone),
   PDict(<<>>), PDict(<< <<PLit(VStr("a")), PType("int")>> >>), PDict(<< <<PType("str"), PType("object")>> >>),
   PDict(<< <<PLit(VStr("a")), PLit(VInt(1))>> >>), PDict(<< <<PLit(VStr("a")), PLit(VInt(0))>> >>),
   PDict(<< <<PLit(VInt(0)), PLit(VInt(0))>> >>), PDict(<< <<PLit(VStr("")), PType("str")>> >>), PDict(<< <<PLit(VNone), PLit(VNone)>> >>),
   PDict(<< <<PLit(VBool(FALSE)), PList(<<>>)>> >>), PDict(<< <<PTuple(<<>>), PType("int")>> >>),
   \* falsy keys and falsy defaults of Optional; None as an ordinary default
   PDict(<< <<POptional(VInt(0), TRUE, VInt(0)), PType("int")>> >>), PDict(<< <<POptional(VStr(""), TRUE, VStr("")), PType("str")>> >>),
   PDict(<< <<POptional(VStr("a"), TRUE, VBool(FALSE)), PType("object")>>, <<PType("object"), PType("object")>> >>),
   PDict(<< <<POptional(VStr("a"), TRUE, VC("tuple", <<>>)), PType("object")>>, <<POptional(VStr("b"), TRUE, VNone), PType("object")>> >>),
   PDict(<< <<POptional(VNone, TRUE, VNone), PType("object")>> >>),
   PDict(<< <<PLit(VStr("b")), PType("int")>>, <<PLit(VStr("a")), PType("int")>> >>),
   \* nested Match / Or whose result or default is falsy
   PList(<<PMatch(PType("str"), TRUE, VInt(0))>>), PList(<<PMatch(PType("str"), TRUE, VNone)>>),
   PMatch(PType("str"), TRUE, VStr("")), PMatch(PType("str"), TRUE, VC("list", <<>>)), PMatch(PType("str"), TRUE, VBool(FALSE))}

P1 == Bools(Ls) \cup AndDefaults \cup EqMix \cup NestedMatch \cup ContainerDefaults \cup HardPatterns \cup {PNot(c, "ctor") : c \in Leaves} \cup Seqs(Ls) \cup Sets1 \cup
      {p \in DictPats(KeysP, Ls, KeysPP, ValsP) : DistinctKeys(p)}

\* a selection of depth-1 patterns used as children at depth 2
Sel1 == {PList(<<PType("int")>>), PList(<<PLit(VStr("a")), PType("int")>>), PTuple(<<PType("int")>>),
         PDict(<< <<PLit(VStr("a")), PType("int")>> >>),
         PDict(<< <<POptional(VStr("a"), TRUE, VInt(5)), PType("int")>> >>),
         PDict(<< <<PType("str"), PType("int")>> >>),
         PDict(<< <<PRequired(PType("str")), PType("object")>> >>),
         POr(<<PType("int"), PLit(VStr("a"))>>, "ctor", FALSE, VNone),
         PNot(PType("int"), "ctor"), PSet(<<PType("int")>>)}
Ls2 == {PType("int"), PLit(VStr("a")), PType("object")}
C2 == Ls2 \cup Sel1
WithSel(s, S) == \E i \in 1..Len(s) : s[i] \in S
KeysP2 == {PLit(VStr("a")), PType("str"), POptional(VStr("a"), TRUE, VInt(5)), POptional(VStr("b"), TRUE, VInt(5)), PRequired(PType("str"))}
P2 == {p \in Bools(C2) : WithSel(p.c, Sel1)} \cup {PNot(c, "ctor") : c \in Sel1} \cup
      {p \in Seqs(C2) : WithSel(IF p.op = "list" THEN p.alts ELSE p.elems, Sel1)} \cup
      {PSet(<<PTuple(<<PType("int")>>)>>)} \cup
      {p \in DictPats(KeysP2, Sel1, KeysP2, Sel1 \ {PSet(<<PType("int")>>)}) : DistinctKeys(p)}

\* depth 3: combinators and containers over a selection of depth-2 patterns
Sel2 == {PList(<<PDict(<< <<PLit(VStr("a")), PType("int")>> >>)>>),
         PList(<<POr(<<PType("int"), PLit(VStr("a"))>>, "ctor", FALSE, VNone)>>),
         PDict(<< <<PLit(VStr("a")), PDict(<< <<POptional(VStr("a"), TRUE, VInt(5)), PType("int")>> >>)>> >>),
         PDict(<< <<PType("str"), PList(<<PType("int")>>)>> >>),
         PDict(<< <<POptional(VStr("b"), TRUE, VInt(5)), PType("object")>>, <<PLit(VStr("a")), PList(<<PType("int")>>)>> >>),
         PTuple(<<PList(<<PType("int")>>)>>),
         POr(<<PList(<<PType("int")>>), PDict(<< <<PLit(VStr("a")), PType("int")>> >>)>>, "ctor", FALSE, VNone),
         PAnd(<<PType("dict"), PDict(<< <<PType("str"), PType("int")>> >>)>>, "ctor", FALSE, VNone),
         PNot(PList(<<PType("int")>>), "ctor")}
C3 == {PType("int"), PLit(VStr("a"))} \cup Sel2
P3 == {p \in Bools(C3) : WithSel(p.c, Sel2)} \cup {PNot(c, "ctor") : c \in Sel2} \cup
      {p \in Seqs(C3) : WithSel(IF p.op = "list" THEN p.alts ELSE p.elems, Sel2)} \cup
      {PDict(<< <<k, v>> >>) : k \in KeysP2, v \in Sel2}

Patterns == Leaves \cup P1 \cup (IF PDepth >= 2 THEN P2 ELSE {}) \cup (IF PDepth >= 3 THEN P3 ELSE {})

\* ---- the case machine -----------------------------------------------------------------
VARIABLES pattern, target, pred, phase
vars == <<pattern, target, pred, phase>>

DefaultValue == VC("list", <<VInt(77), VTarg(<<>>)>>)          \* Match(p, default=[77, T])
\* (the dumped form of an outcome lists errs as a sequence: `tlc -dump` sets are not parsed)
Predict(t, p) ==
  [o  |-> Dumped(Ev("auto", t, PMatch(p, FALSE, VNone))),            \* glom(t, Match(p)) = verify(t)
   od |-> Dumped(Ev("auto", t, PMatch(p, TRUE, DefaultValue))),     \* glom(t, Match(p, default=[77, T]))
   \* the same Match object once more, after the caller mutated the containers of the first result
   o2 |-> Dumped(IF HasOptDefault(p) \/ HasNodeDefault(p) THEN EvAgain("auto", t, t, PMatch(p, FALSE, VNone))
                 ELSE Ev("auto", t, PMatch(p, FALSE, VNone)))]

Init == pattern = PType("object") /\ target = VNone /\ pred = Predict(VNone, PType("object")) /\ phase = 0
ChoosePattern ==
  /\ phase = 0 /\ phase' = 1
  /\ pattern' \in Patterns
  /\ UNCHANGED <<target, pred>>
\* patterns that never look inside the items of a target (leaves and And / Or / Not of leaves)
\* are paired with the targets of depth <= 1 only
Shallow(p) == p \in Leaves \/ (p.op \in {"and", "or", "not"} /\ \A i \in 1..Len(p.c) : p.c[i] \in Leaves)
\* ... and a container pattern never looks inside a target of another class (the type rule at
\* the root decides): of those, only the targets of depth <= 1 are enumerated
TargetsFor0(p) ==
  IF Shallow(p) THEN Atoms0 \cup Depth1
  ELSE IF p \in EqMix THEN Atoms0 \cup Depth1 \cup EqLists
  ELSE IF p \in AndDefaults        \* every child asks for a dict (or is indifferent to what is inside others)
       THEN Atoms0 \cup Depth1 \cup {t \in Targets : PyIsInstance(t, "dict")}
  ELSE IF p.op \in {"list", "set", "frozenset", "tuple", "dict"}
       THEN Atoms0 \cup Depth1 \cup {t \in Targets : PyIsInstance(t, p.op)}
  ELSE Targets
\* the hardening patterns also meet the hardening targets
TargetsFor(p) == IF p \in HardPatterns THEN TargetsFor0(p) \cup HardTargets ELSE TargetsFor0(p)
ChooseTarget ==
  /\ phase = 1 /\ phase' = 2
  /\ target' \in TargetsFor(pattern)
  /\ pred' = Predict(target', pattern)
  /\ UNCHANGED pattern
Next == ChoosePattern \/ ChooseTarget

\* ---- laws -------------------------------------------------------------------------------
Case == phase = 2
O == Undumped(pred.o)
OD == Undumped(pred.od)
\* the universe stays inside the modelled fragment
Fragment == InFragment("match", pattern) /\ StrsOK(target)
\* success exactly on conforming targets
Decides == Case => LawDecides("auto", target, PMatch(pattern, FALSE, VNone), O)
\* the result equals the target plus Optional defaults ...
Result == Case => LawResult("auto", target, PMatch(pattern, FALSE, VNone), O)
\* ... in particular nothing of the target is lost or altered, and without Optional defaults
\* in the pattern the result equals the target
\* (a nested Match / And / Or with a default of its own may replace a part of the target)
Unchanged == Case /\ O.ok /\ Clean(O) /\ ~HasNodeDefault(pattern)
               => Extends(O.v, target) /\ (~HasOptDefault(pattern) => PyEq(O.v, target))
\* otherwise a MatchError; a TypeMatchError only where a type rule exists, and always when
\* the failing rule is the type rule at the root
ErrClass == Case => /\ LawErrs(O)
                    /\ (Clean(O) /\ ~O.ok => O.errs \subseteq {"MatchError", "TypeMatchError"})
                    /\ (pattern.op = "type" /\ ~O.ok => O.errs = {"TypeMatchError"})
                    /\ (pattern.op \in {"list", "set", "frozenset", "tuple", "dict"} /\ ~PyIsInstance(target, pattern.op)
                          => O.errs = {"TypeMatchError"})
                    /\ (pattern.op \in {"lit", "regex", "pred", "not", "mtruthy"} /\ ~O.ok /\ Clean(O) => O.errs = {"MatchError"})
                    \* whatever a callable pattern raises is a rejection, never an error of its own
                    /\ (pattern.op = "pred" /\ ~O.ok => O.errs = {"MatchError"})
                    \* a comparison Python refuses is not a rejection: the TypeError itself comes out
                    /\ (pattern.op = "m" /\ (IF pattern.refl THEN PyCmp(pattern.cmp, pattern.rhs, target)
                                              ELSE PyCmp(pattern.cmp, target, pattern.rhs)) = "E" => O.errs = {"TypeError"})
\* Match(default=) returns the default instead of a GlomError, and changes nothing else
Default == Case => /\ (O.ok => OD = O)
                   /\ (Caught(O) => OD.ok /\ OD.v = VC("list", <<VInt(77), target>>))
                   /\ (Foreign(O) => OD.errs = O.errs)
\* a pattern object carries no memory: evaluated again it decides and yields what it did
Again == Case => pred.o2 = pred.o
====================================================================================
