INIT Init
NEXT Next
INVARIANT Laws
INVARIANT Once
INVARIANT TopLaw
CHECK_DEADLOCK FALSE
CONSTANTS
  Families = {"q_nest", "q_pairs", "q_leaves", "q_coal1", "q_coal2", "q_calls", "q_modes", "q_ref"}
  Mutant = "none"
