INIT Init
NEXT Next
INVARIANT Laws
INVARIANT Once
INVARIANT TopLaw
CHECK_DEADLOCK FALSE
CONSTANTS
  Families = {"q_nest", "q_pairs", "q_leaves", "q_coal1", "q_calls", "q_modes", "q_ref", "q_chains", "q_inspect", "q_scope", "q_sets", "q_top", "q_refscope", "q_falsy", "q_falsyc", "q_hard", "q_hardc", "q_idx"}
  Mutant = "none"
