INIT Init
NEXT Next
INVARIANT Laws
INVARIANT Once
CHECK_DEADLOCK FALSE
CONSTANTS
  Kinds = {"dict", "dictk", "list", "tuple", "pipe", "spec", "coalesce"}
  LeafSet = "small"
  CoalSet = "basic"
  MaxDepth = 2
  MaxNodes = 3
  MaxWidth = 2
  MaxStack = 2
  Roots = {1, 2, 3}
  Mutant = "none"
