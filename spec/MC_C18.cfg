INIT Init
NEXT Next
INVARIANT SeqLaws
CHECK_DEADLOCK FALSE
