\* thorough-tier universe: every documented value of every flag, every extension, debug flags
CONSTANTS
  Mutant = "none"
  SFmts = {"default", "python", "json", "python-full", "bad"}
  TFmts = {"default", "json", "python", "yaml", "toml", "bad"}
  Indents = {"default", "0", "1", "4", "-1", "17"}
  TxtIds = {"qstr1", "qstr2", "blit", "bboth", "bare", "baresx", "bbad", "bname", "texpo", "texpb", "advb", "advq", "advo"}
  Argvs = {"ok", "badindent", "toomany", "unknownflag", "flagafter", "dupflag", "dashdash"}
  SExts = {"any", ".py", ".json", ".yml", ".toml", ".txt", ""}
  TExts = {"any", ".py", ".json", ".yml", ".toml", ".txt", ""}
  Dbgs = {"off", "debug", "inspect"}
  PrintCross = "full"
INIT Init
NEXT Next
INVARIANT ExecOnlyFull
INVARIANT EffectNeedsExec
INVARIANT DefaultRoutes
INVARIANT ResultLaw
INVARIANT GlomErrorLaw
INVARIANT TargetUsageLaw
INVARIANT ArgvLaw
INVARIANT LawStored
INVARIANT NoStuck
INVARIANT KnownPrefix
CHECK_DEADLOCK FALSE
