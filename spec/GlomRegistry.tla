------------------------------- MODULE GlomRegistry -------------------------------
(* Target-type registries of glom (glom/core.py: TargetRegistry, register, Glommer). *)
(*                                                                                   *)
(* Two separate parts:                                                               *)
(*                                                                                   *)
(*  MECHANISM  a transcription of what the code does, one operator per method:       *)
(*     MRegFuzzy    = TargetRegistry._register_fuzzy_type  (ordered type tree, with   *)
(*                    the pop / re-insert order effects of the OrderedDict)           *)
(*     MClosest     = TargetRegistry._get_closest_type     (all matching branches,    *)
(*                    earliest type in the MRO of the object's type wins)             *)
(*     MRegister    = TargetRegistry.register                                         *)
(*     MRegisterOp  = TargetRegistry.register_op                                      *)
(*     MLookup      = TargetRegistry.get_handler           (memo in _type_cache)      *)
(*     PristineFor  = TargetRegistry.__init__ (+ the two module-level register_op     *)
(*                    calls of glom/mutation.py for the default registry)             *)
(*  LAW        what property C13 and the documentation of register() promise, stated  *)
(*     over the *set of registrations made* on a registry (field `made`) and the      *)
(*     class relations only; it never looks at map / tree / cache:                    *)
(*     LAllowed(R, T, op) = handlers of the minimal (nearest) registered types of T.  *)
(*                                                                                   *)
(* The machine (variables regs, hist; actions Register, Lookup, NewGlommer) is        *)
(* explored by TLC from MC_C13; Trace_C13 steps the same operators through events     *)
(* recorded from the real library.  All data is JSON-shaped (records, sequences,      *)
(* strings, integers, booleans) apart from the class universe U whose tables are sets. *)
EXTENDS Integers, Sequences, FiniteSets, TLC

CONSTANTS
  U,        \* class universe: [sub  |-> [type -> set of types b with issubclass(type, b)],
            \*                  inst |-> [type -> set of types c with isinstance(type(), c)],
            \*                  auto |-> [op -> [type -> name of the autodiscovered handler]],
            \*                  mro  |-> [type -> type.__mro__ as a sequence of type names]]
  Ops,      \* operations modelled in this run, subset of AllOps (they are independent)
  Mutant    \* "" = faithful mechanism; otherwise the name of a deliberately wrong disjunct

\* ("cauto" / "cplain": operations an extension adds with register_op, with / without an autodiscovery function)
AllOps == {"get", "iterate", "keys", "assign", "delete", "cauto", "cplain"}
\* (zero-arity definitions: TLC evaluates them once, whereas a constant overridden in the cfg by
\* an expression is re-evaluated at every use)
USub  == U.sub
UInst == U.inst
UAuto == U.auto
UMro  == U.mro
Sub(a, b)    == b \in USub[a]                     \* issubclass(a, b)
IsInst(T, c) == c \in UInst[T]                    \* isinstance(T(), c)
\* types that are never the type of an object: the two duck types of glom (__subclasshook__ / metaclass
\* __instancecheck__), ABCs that classes are registered with, user duck types
Ducks        == DOMAIN USub \ DOMAIN UInst
ObjTypes     == DOMAIN UInst                      \* instantiable types

\* ---- handlers ------------------------------------------------------------------------
\* [o |-> owner, n |-> serial]: a handler passed by the user to the n-th action of the
\* behaviour (a registration of type o) is tagged <<o, n>>; builtin handlers have n = 0 and
\* o in {"getattr","getitem","seqitem","iter","dictkeys","odkeys","objkeys","setattr",
\* "setitem","setseq","delattr","delitem","delseq"}; FalseH is Python's False ("type not
\* supported for this operation"), which get_handler turns into UnregisteredTarget.
H(o, n) == [o |-> o, n |-> n]
FalseH  == H("False", 0)
AutoH(op, t) == H(UAuto[op][t], 0)               \* result of the op's autodiscovery function

Range(s) == {s[i] : i \in 1..Len(s)}
RECURSIVE SeqOf(_)
SeqOf(S) == IF S = {} THEN <<>> ELSE LET x == CHOOSE y \in S : TRUE IN <<x>> \o SeqOf(S \ {x})
Max(S) == CHOOSE x \in S : \A y \in S : y <= x

\* ---- OrderedDict as a sequence of records with a key field t -----------------------
Has(sq, t)         == \E i \in 1..Len(sq) : sq[i].t = t
Idx(sq, t)         == CHOOSE i \in 1..Len(sq) : sq[i].t = t
RemoveKey(sq, t)   == SelectSeq(sq, LAMBDA n : n.t # t)                  \* d.pop(t)
SetKey(sq, t, rec) == IF Has(sq, t) THEN [sq EXCEPT ![Idx(sq, t)] = rec]  \* d[t] = ..
                      ELSE Append(sq, rec)
Node(t, sub)  == [t |-> t, sub |-> sub]           \* tree entry: type -> OrderedDict of subtypes
Entry(t, h)   == [t |-> t, h |-> h]               \* type-map entry: type -> handler
\* keyword arguments of one register() call: sequence of [op, h]
KwOps(kw)   == {kw[i].op : i \in 1..Len(kw)}
KwH(kw, op) == kw[CHOOSE i \in 1..Len(kw) : kw[i].op = op].h

(***************************************************************************************)
(* MECHANISM                                                                           *)
(***************************************************************************************)
\* A registry: [kind  : "default" | "glommer" | "bare",
\*              live  : exists (Glommers are created by NewGlommer),
\*              auto  : _op_auto_map keys in order,
\*              map   : [op -> OrderedDict type -> handler]      (_op_type_map),
\*              tree  : [op -> ordered nested tree]              (_op_type_tree),
\*              cache : sequence of [t, op, h] in insertion order (_type_cache),
\*              made  : the registrations made by the user, [t, exact, kw, n] in order -- the
\*                      abstract state the LAW talks about; the mechanism never reads it]

RECURSIVE MRegFuzzy(_, _), MFuzzyLoop(_, _, _, _, _)
\* the for-loop of _register_fuzzy_type: live = the dict being mutated, snap = the
\* list(_type_tree.items()) snapshot, i = position in it, reg = the `registered` flag
MFuzzyLoop(live, snap, i, new, reg) ==
  IF i > Len(snap) THEN [tree |-> live, reg |-> reg]
  ELSE LET cur == snap[i].t IN
    IF Sub(cur, new) THEN
       \* sub_tree = _type_tree.pop(cur_type); _type_tree[new_type][cur_type] = sub_tree,
       \* or, on KeyError, _type_tree[new_type] = OrderedDict({cur_type: sub_tree})
       LET subtree == live[Idx(live, cur)].sub
           live1   == RemoveKey(live, cur)
           live2   == IF Has(live1, new)
                      THEN LET n == live1[Idx(live1, new)] IN
                           SetKey(live1, new, Node(new, SetKey(n.sub, cur, Node(cur, subtree))))
                      ELSE Append(live1, Node(new, << Node(cur, subtree) >>))
       IN MFuzzyLoop(live2, snap, i + 1, new, TRUE)
    ELSE IF Sub(new, cur) THEN
       \* _type_tree[cur_type] = self._register_fuzzy_type(op, new_type, _type_tree=sub_tree)
       MFuzzyLoop(SetKey(live, cur, Node(cur, MRegFuzzy(snap[i].sub, new))), snap, i + 1, new, TRUE)
    ELSE MFuzzyLoop(live, snap, i + 1, new, reg)

MRegFuzzy(tree, new) ==
  LET r == MFuzzyLoop(tree, tree, 1, new, FALSE)
  IN IF r.reg THEN r.tree ELSE SetKey(r.tree, new, Node(new, <<>>))

\* _get_closest_type: every entry the object is an instance of is followed into its subtree (the
\* deepest match of each branch is collected, in dict order); among the collected types those in
\* type(obj).__mro__ win, the earliest in the MRO first; only if none is in the MRO (virtual / duck
\* matches only) the first collected one is taken; "NONE" is Python's None.
\* Mutants: "first_match_dfs" is the algorithm before commit 8de08eb (the first matching entry wins and
\* only its subtree is searched); "shallow_closest" does not descend at all.
MroIndex(T, c) == CHOOSE k \in 1..Len(UMro[T]) : UMro[T][k] = c
InMro(T, c) == \E k \in 1..Len(UMro[T]) : UMro[T][k] = c
RECURSIVE MClosest(_, _), MFirstMatch(_, _, _)
MFirstMatch(tree, T, i) ==
  IF i > Len(tree) THEN "NONE"
  ELSE IF IsInst(T, tree[i].t)
       THEN LET s == MFirstMatch(tree[i].sub, T, 1) IN IF s = "NONE" THEN tree[i].t ELSE s
       ELSE MFirstMatch(tree, T, i + 1)
MClosest(tree, T) ==
  IF Mutant = "first_match_dfs" THEN MFirstMatch(tree, T, 1)
  ELSE
  LET hits == SelectSeq(tree, LAMBDA n : IsInst(T, n.t))
      deep(n) == LET s == MClosest(n.sub, T) IN IF s = "NONE" \/ Mutant = "shallow_closest" THEN n.t ELSE s
      matches == [k \in 1..Len(hits) |-> deep(hits[k])]
      nominal == SelectSeq(matches, LAMBDA c : InMro(T, c))
  IN IF Len(matches) = 0 THEN "NONE"
     ELSE IF Len(nominal) > 0
          THEN nominal[CHOOSE k \in 1..Len(nominal) :
                         \A m \in 1..Len(nominal) : /\ MroIndex(T, nominal[k]) <= MroIndex(T, nominal[m])
                                                     /\ (MroIndex(T, nominal[k]) = MroIndex(T, nominal[m]) => k <= m)]
          ELSE matches[1]

\* register(target_type, exact=.., **kw): every op with an autodiscovery function plus every op
\* named in kw gets a type-map entry (given handler, else the existing one, else autodiscovered);
\* unless exact the type enters the tree of each of these ops; the memo is reset
MRegOps(R, kw) == Range(R.auto) \cup KwOps(kw)
MRegister(R, t, kw, exact, mk) ==
  LET ops == MRegOps(R, kw)
      hnd(op) == IF op \in KwOps(kw) THEN KwH(kw, op)
                 ELSE IF Has(R.map[op], t) THEN R.map[op][Idx(R.map[op], t)].h
                 ELSE AutoH(op, t)
      fuzzy == ~exact \/ Mutant = "exact_in_tree"
      \* mutant "skip_unchanged": nothing but the log is touched when every handler to be stored is the
      \* one already stored (the exact flag is not compared)
      unchanged == \A op \in ops : Has(R.map[op], t) /\ R.map[op][Idx(R.map[op], t)].h = hnd(op)
  IN IF Mutant = "skip_unchanged" /\ unchanged
     THEN [R EXCEPT !.made = IF mk.n = 0 THEN R.made ELSE Append(R.made, mk)]
     ELSE
     [R EXCEPT
        !.map   = [op \in DOMAIN R.map |-> IF op \in ops THEN SetKey(R.map[op], t, Entry(t, hnd(op)))
                                          ELSE R.map[op]],
        !.tree  = [op \in DOMAIN R.tree |-> IF op \in ops /\ fuzzy THEN MRegFuzzy(R.tree[op], t)
                                           ELSE R.tree[op]],
        !.cache = IF Mutant = "no_reset" THEN R.cache
                  ELSE IF Mutant = "partial_reset" /\ exact      \* drops only the entries named in kw
                  THEN SelectSeq(R.cache, LAMBDA e : ~(e.t = t /\ e.op \in KwOps(kw)))
                  ELSE <<>>,
        !.made  = IF mk.n = 0 THEN R.made ELSE Append(R.made, mk)]

\* register_op(op, auto_func): autodiscover the op for every known type (in order of type name),
\* enter every known type into the op's tree (in the iteration order of a Python *set* of type
\* objects, which depends on addresses: parameter setorder), remember the autodiscovery function
MKnown(R) == UNION {{R.map[op][i].t : i \in 1..Len(R.map[op])} : op \in DOMAIN R.map}
RECURSIVE MFillAuto(_, _, _, _), MFuzzyAll(_, _, _)
MFillAuto(m, names, i, op) ==
  IF i > Len(names) THEN m
  ELSE MFillAuto(IF Has(m, names[i]) THEN m ELSE Append(m, Entry(names[i], AutoH(op, names[i]))),
                 names, i + 1, op)
MFuzzyAll(tree, order, i) ==
  IF i > Len(order) THEN tree ELSE MFuzzyAll(MRegFuzzy(tree, order[i]), order, i + 1)
MRegisterOp(R, op, byname, setorder) ==
  LET known == MKnown(R)
      names == SelectSeq(byname, LAMBDA t : t \in known)
      order == SelectSeq(setorder, LAMBDA t : t \in known)
  IN [R EXCEPT !.map[op]  = MFillAuto(R.map[op], names, 1, op),
               !.tree[op] = MFuzzyAll(R.tree[op], order, 1),
               !.auto     = Append(R.auto, op)]

\* get_handler(op, obj) with raise_exc=True: memo hit, else exact entry of type(obj), else the
\* entry of the closest type in the tree; False / nothing found raises UnregisteredTarget and
\* memoises nothing
\* (an exact entry is final even when its handler is False; mutant "false_falls_through" lets a
\* False entry of the type itself fall through to the ancestor search)
MChosen(R, T, op) ==               \* the registered type whose entry is used, or "NONE"
  LET m == R.map[op] IN
  IF Len(m) = 0 THEN "NONE"
  ELSE IF Has(m, T) /\ ~(Mutant = "false_falls_through" /\ m[Idx(m, T)].h = FalseH) THEN T
  ELSE MClosest(R.tree[op], T)
MResolve(R, T, op) ==
  LET c == MChosen(R, T, op) IN IF c = "NONE" THEN FalseH ELSE R.map[op][Idx(R.map[op], c)].h
CacheHit(e, T, op) == e.t = T /\ (Mutant = "cache_by_type" \/ e.op = op)
MCached(R, T, op) == \E i \in 1..Len(R.cache) : CacheHit(R.cache[i], T, op)
MLookup(R, T, op) ==               \* [R |-> registry afterwards, h |-> handler handed out]
  IF MCached(R, T, op)
  THEN [R |-> R, h |-> R.cache[CHOOSE i \in 1..Len(R.cache) : CacheHit(R.cache[i], T, op)].h]
  ELSE LET h == MResolve(R, T, op) IN
       IF h = FalseH THEN [R |-> R, h |-> FalseH]
       ELSE [R |-> [R EXCEPT !.cache = Append(@, [t |-> T, op |-> op, h |-> h])], h |-> h]

\* ---- construction -------------------------------------------------------------------
\* _register_default_types, in order (n = 0: not a user registration)
DefaultRegs == <<
  [t |-> "object",            kw |-> <<>>],
  [t |-> "dict",              kw |-> << [op |-> "get",     h |-> H("getitem", 0)] >>],
  [t |-> "dict",              kw |-> << [op |-> "keys",    h |-> H("dictkeys", 0)] >>],
  [t |-> "list",              kw |-> << [op |-> "get",     h |-> H("seqitem", 0)] >>],
  [t |-> "tuple",             kw |-> << [op |-> "get",     h |-> H("seqitem", 0)] >>],
  [t |-> "OrderedDict",       kw |-> << [op |-> "get",     h |-> H("getitem", 0)] >>],
  [t |-> "OrderedDict",       kw |-> << [op |-> "keys",    h |-> H("odkeys", 0)] >>],
  [t |-> "_AbstractIterable", kw |-> << [op |-> "iterate", h |-> H("iter", 0)] >>],
  [t |-> "_ObjStyleKeys",     kw |-> << [op |-> "keys",    h |-> H("objkeys", 0)] >> ] >>
DefaultTypes == {DefaultRegs[i].t : i \in 1..Len(DefaultRegs)}
\* sorted(known_types, key=lambda t: t.__name__)
DefaultByName == <<"OrderedDict", "_AbstractIterable", "_ObjStyleKeys", "dict", "list", "object", "tuple">>
NoMk == [n |-> 0]

EmptyRegistry(kind) ==
  [kind |-> kind, live |-> TRUE, auto |-> <<>>, map |-> [op \in AllOps |-> <<>>],
   tree |-> [op \in AllOps |-> <<>>], cache |-> <<>>, made |-> <<>>, xops |-> <<>>]
RECURSIVE MDefaults(_, _)
MDefaults(R, i) ==
  IF i > Len(DefaultRegs) THEN R
  ELSE MDefaults(MRegister(R, DefaultRegs[i].t, DefaultRegs[i].kw, FALSE, NoMk), i + 1)
\* every op is computed, then the registry is cut down to the ops of this run
Restrict(R) == [R EXCEPT !.map  = [op \in Ops |-> R.map[op]],
                         !.tree = [op \in Ops |-> R.tree[op]],
                         !.auto = SelectSeq(R.auto, LAMBDA op : op \in Ops)]
HasDefaults(kind) == kind \in {"default", "glommer"}
\* TargetRegistry(register_default_types=..) as built by __init__; for the module-level registry the
\* import of glom.mutation then adds 'assign' and 'delete' with register_op; Glommer.__init__ (since
\* commit 7341a6a) does the same for every operation the default registry knows and the new one lacks.
\* Mutant "glommer_without_mutation_ops": Glommer construction before that commit.
PristineFor(kind, setorder) ==
  LET r0 == EmptyRegistry(kind)
      r1 == MRegisterOp(r0, "iterate", DefaultByName, setorder)     \* _register_builtin_ops
      r2 == MRegisterOp(r1, "get", DefaultByName, setorder)
      r3 == IF HasDefaults(kind) THEN MDefaults(r2, 1) ELSE r2
      r4 == IF kind = "default" \/ Mutant # "glommer_without_mutation_ops"
            THEN MRegisterOp(MRegisterOp(r3, "assign", DefaultByName, setorder),
                             "delete", DefaultByName, setorder)
            ELSE r3
  IN Restrict(r4)
Dead(kind) == [Restrict(EmptyRegistry(kind)) EXCEPT !.live = FALSE]

(***************************************************************************************)
(* LAW                                                                                 *)
(***************************************************************************************)
\* The registrations in force on a registry: the default ones (if its kind has them)
\* followed by the user's.  Everything below depends on this collection as a *set*; the
\* serial n is used only to let a later handler for the same (type, op) replace an earlier one.
DefaultMade == [i \in 1..Len(DefaultRegs) |-> [t |-> DefaultRegs[i].t, exact |-> FALSE,
                                               kw |-> DefaultRegs[i].kw, n |-> i - 100]]
LMade(R) == IF HasDefaults(R.kind) THEN DefaultMade \o R.made ELSE R.made
\* Operations that have an autodiscovery default (documented for register(): get "defaults to
\* getattr", iterate "defaults to iter if the type appears to be iterable"; assign / delete are
\* listed among the builtin operations): registering a type registers it for all of them.
LawAutoOps == {"iterate", "get", "assign", "delete"}
\* register_op(op, auto_func) adds an operation to one registry: from then on every registered type -- registered
\* before or after -- is registered for it, with the handler auto_func finds (False without auto_func)
LawAutos(R) == LawAutoOps \cup Range(R.xops)
\* (the operators below take made = LMade(R) so that it is built once per question)
LCovering(made, op, autos) == {i \in 1..Len(made) : op \in autos \/ op \in KwOps(made[i].kw)}
LRegistered(made, op, autos) == {made[i].t : i \in LCovering(made, op, autos)}
\* registered without exact=True for this op (at least once): covers its subclasses
LFuzzy(made, op, autos) == {made[i].t : i \in {j \in LCovering(made, op, autos) : ~made[j].exact}}
\* the behaviour registered for (t, op): the latest handler given explicitly, else the default
LHandler(made, t, op) ==
  LET given == {i \in 1..Len(made) : made[i].t = t /\ op \in KwOps(made[i].kw)}
  IN IF given = {} THEN AutoH(op, t)
     ELSE LET last == CHOOSE i \in given : \A k \in given : made[k].n <= made[i].n
          IN KwH(made[last].kw, op)
\* candidates: the exact type if registered, else the non-exact registered types T is an instance of
LCands(made, T, op, autos) ==
  IF T \in LRegistered(made, op, autos) THEN {T}
  ELSE {c \in LFuzzy(made, op, autos) : IsInst(T, c)}
\* c is at least as specific as d: a subclass, or a class all of whose instances satisfy the
\* duck type d (every instance of a class with a __dict__ is an _ObjStyleKeys, ...)
BelowDef(c, d) ==
  \/ Sub(c, d)
  \/ /\ c \notin Ducks /\ d \in Ducks
     /\ \E T \in ObjTypes : IsInst(T, c)
     /\ \A T \in ObjTypes : IsInst(T, c) => IsInst(T, d)
BelowTab == [c \in DOMAIN USub |-> {d \in DOMAIN USub : BelowDef(c, d)}]   \* evaluated once
Below(c, d) == d \in BelowTab[c]
StrictlyBelow(c, d) == c # d /\ Below(c, d) /\ ~Below(d, c)
LMinimal(S) == {c \in S : ~\E d \in S : StrictlyBelow(d, c)}
\* (split so that the sets that do not depend on T are computed once per registry and operation)
LCandsC(registered, fuzzy, T) == IF T \in registered THEN {T} ELSE {c \in fuzzy : IsInst(T, c)}
LAllowedC(made, registered, fuzzy, T, op) ==
  LET cands == LCandsC(registered, fuzzy, T) IN
  IF cands = {} THEN {FalseH} ELSE {LHandler(made, c, op) : c \in LMinimal(cands)}
LAllowedM(made, T, op, autos) ==
  LAllowedC(made, LRegistered(made, op, autos), LFuzzy(made, op, autos), T, op)
\* THE LAW: the handler used for an instance of T is one of these (usually exactly one)
LAllowed(R, T, op) == LAllowedM(LMade(R), T, op, LawAutos(R))

(***************************************************************************************)
(* MACHINE                                                                             *)
(***************************************************************************************)
VARIABLES regs,    \* [registry id -> registry]
          hist     \* the actions so far with what the specification says about each
RegKind == [default |-> "default", g1 |-> "glommer", g2 |-> "bare"]

\* user registration: handlers tagged <<t, n>> with n the position of the action in hist
\* (off: the ops among ops for which the call passes False instead of a handler, e.g. iterate=False)
UserKw(t, ops, n, off) ==
  [i \in 1..Len(ops) |-> [op |-> ops[i], h |-> IF ops[i] \in Range(off) THEN FalseH ELSE H(t, n)]]
Register(r, t, ops, exact, off) ==
  LET n == Len(hist) + 1
      mk == [t |-> t, exact |-> exact, kw |-> UserKw(t, ops, n, off), n |-> n]
      R1 == MRegister(regs[r], t, mk.kw, exact, mk)
  IN /\ regs[r].live
     /\ regs' = IF Mutant = "shared_glommer" /\ r = "g1" /\ "default" \in DOMAIN regs
                THEN [regs EXCEPT ![r] = R1, !["default"] = MRegister(@, t, mk.kw, exact, mk)]
                ELSE [regs EXCEPT ![r] = R1]
     /\ hist' = Append(hist, [a |-> "reg", r |-> r, t |-> t, ops |-> ops, exact |-> exact, off |-> off])
Lookup(r, T, op) ==
  LET res == MLookup(regs[r], T, op) IN
  /\ regs[r].live
  /\ regs' = [regs EXCEPT ![r] = res.R]
  /\ hist' = Append(hist, [a |-> "look", r |-> r, t |-> T, op |-> op, h |-> res.h,
                           allowed |-> SeqOf(LAllowed(regs[r], T, op))])
\* (mutant "warm_start": a Glommer() with the default types starts with the memo of the module-level registry)
NewGlommer(r, setorder) ==
  /\ ~regs[r].live
  /\ regs' = [regs EXCEPT ![r] =
                 IF Mutant = "warm_start" /\ RegKind[r] = "glommer" /\ "default" \in DOMAIN regs
                 THEN [PristineFor(RegKind[r], setorder) EXCEPT !.cache = regs["default"].cache]
                 ELSE PristineFor(RegKind[r], setorder)]
  /\ hist' = Append(hist, [a |-> "new", r |-> r])

\* register_op on a live registry (byname: the known types sorted by name; setorder: the iteration order of the Python
\* set of known types -- both supplied by the environment)
RegisterOpAct(r, op, byname, setorder) ==
  /\ regs[r].live /\ op \notin Range(regs[r].auto)
  /\ regs' = [regs EXCEPT ![r] = [MRegisterOp(@, op, byname, setorder) EXCEPT !.xops = Append(@, op)]]
  /\ hist' = Append(hist, [a |-> "regop", r |-> r, op |-> op])

\* One wildcard step ('*', and every level of '**') on an instance of T: glom.core._extend_children asks the
\* registry for the 'keys' handler and then the 'get' handler; if either is missing (UnregisteredTarget) it asks for
\* the 'iterate' handler instead; with neither the target has no children.  Three memoised lookups in that order.
\* The outcome names the handlers that enumerate the children.
StarOutcome(hk, hg, hi) ==
  IF hk # FalseH /\ hg # FalseH THEN [via |-> "keys+get", k |-> hk, g |-> hg, i |-> FalseH]
  ELSE IF hi # FalseH THEN [via |-> "iterate", k |-> FalseH, g |-> FalseH, i |-> hi]
  ELSE [via |-> "none", k |-> FalseH, g |-> FalseH, i |-> FalseH]
\* the law: some combination of lawful handlers for the three operations gives this outcome
StarAllowed(R, T) ==
  {StarOutcome(a, b, c) : a \in LAllowed(R, T, "keys"), b \in LAllowed(R, T, "get"), c \in LAllowed(R, T, "iterate")}
Star(r, T) ==
  LET k  == MLookup(regs[r], T, "keys")
      g  == IF k.h = FalseH THEN [R |-> k.R, h |-> FalseH] ELSE MLookup(k.R, T, "get")
      kg == k.h # FalseH /\ g.h # FalseH
      i  == IF kg THEN [R |-> g.R, h |-> FalseH] ELSE MLookup(g.R, T, "iterate")
  IN /\ regs[r].live
     /\ regs' = [regs EXCEPT ![r] = i.R]
     /\ hist' = Append(hist, [a |-> "star", r |-> r, t |-> T,
                              out |-> IF Mutant = "star_shortcut" /\ T \in {"dict", "list", "tuple"}
                                      THEN (IF T = "dict" THEN StarOutcome(H("dictkeys", 0), H("getitem", 0), FalseH)
                                            ELSE StarOutcome(FalseH, FalseH, H("iter", 0)))   \* registry not asked
                                      ELSE StarOutcome(k.h, g.h, i.h),
                              allowed |-> SeqOf(StarAllowed(regs[r], T))])

\* ---- the laws as state / action predicates ---------------------------------------------
Live == {r \in DOMAIN regs : regs[r].live}
\* nearest registered type, for every instantiable type and operation, in every state
NearestLaw(objs) ==
  \A r \in Live : \A op \in Ops :
    LET R == regs[r]
        made == LMade(R)
        registered == LRegistered(made, op, LawAutos(R))
        fuzzy == LFuzzy(made, op, LawAutos(R))
    IN \A T \in objs : MResolve(R, T, op) \in LAllowedC(made, registered, fuzzy, T, op)
\* the memo is coherent: whatever it holds is what a fresh resolution gives now, so a
\* register() is in effect for the very next lookup and earlier lookups do not matter
CacheCoherent ==
  \A r \in Live : \A i \in 1..Len(regs[r].cache) :
    LET e == regs[r].cache[i] IN e.h = MResolve(regs[r], e.t, e.op)
\* every handler actually handed out by a Lookup action was lawful
HandedOutLawful ==
  \A i \in 1..Len(hist) :
    /\ (hist[i].a = "look" => hist[i].h \in Range(hist[i].allowed))
    /\ (hist[i].a = "star" => hist[i].out \in Range(hist[i].allowed))
\* an action on one registry leaves every other registry unchanged
IsolationStep ==
  LET a == hist'[Len(hist')] IN \A r \in DOMAIN regs : r # a.r => regs'[r] = regs[r]
\* a Glommer() nobody registered on behaves like the untouched module-level glom
FreshGlommerLikeDefault(objs, pristineDefault) ==
  \A r \in Live : regs[r].kind = "glommer" /\ regs[r].made = <<>> /\ regs[r].xops = <<>> =>
    \A T \in objs : \A op \in Ops : MResolve(regs[r], T, op) = MResolve(pristineDefault, T, op)
\* the tree invariant glom's docstring states: a key is a valid parent type of all its children
RECURSIVE TreeParents(_, _)
TreeParents(tree, parent) ==
  \A i \in 1..Len(tree) : /\ (parent # "" => Sub(tree[i].t, parent))
                          /\ TreeParents(tree[i].sub, tree[i].t)
TreeInvariant == \A r \in Live : \A op \in Ops : TreeParents(regs[r].tree[op], "")
====================================================================================
