SPECIFICATION MCSpec
CONSTANTS
  Pool <- C20Pool
CHECK_DEADLOCK FALSE
INVARIANT NonInterference
