SPECIFICATION SpecPull
CONSTRAINT InsideHorizon
INVARIANT LawOutputs
INVARIANT LawDetermined
INVARIANT LawLazy
INVARIANT LawNotBelowDemand
INVARIANT LawEnd
INVARIANT LawAnswered
PROPERTY LawTerminates
CHECK_DEADLOCK FALSE
