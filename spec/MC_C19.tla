---------------------------------- MODULE MC_C19 ----------------------------------
(* Bounded universe for C19: every configuration of the glom command line within the  *)
(* constants (channels x formats x flags x spec-text classes x library outcomes).  The  *)
(* environment reveals the configuration part by part (RevealS .. RevealP) exactly when *)
(* the machine of GlomCli looks at it, so a behaviour that ends early (usage error,     *)
(* rejected spec) leaves the later parts "don't care" (the harness randomises them).    *)
(* Every state with m.pc = "done" is one case replayed into the real CLI; the laws of   *)
(* GlomCli are INVARIANTs (see MC_C19.cfg); the mutant cfgs select a wrong disjunct of  *)
(* the mechanism and TLC must report a law violated.                                    *)
EXTENDS GlomCli

CONSTANTS SFmts,      \* values of --spec-format explored ("default" = flag absent)
          TFmts,      \* values of --target-format explored
          Indents,    \* values of --indent explored ("default" = flag absent)
          TxtIds      \* spec-text classes explored

AllTextClasses ==
  { TxtClass("qstr1",  "quote",   TRUE,  FALSE, TRUE,  TRUE,  FALSE),   \* 'a.b'
    TxtClass("qstr2",  "quote",   TRUE,  TRUE,  TRUE,  TRUE,  FALSE),   \* "a.b"
    TxtClass("blit",   "bracket", TRUE,  FALSE, TRUE,  TRUE,  FALSE),   \* {'x': ('a', ['b'])}
    TxtClass("bboth",  "bracket", TRUE,  TRUE,  TRUE,  TRUE,  FALSE),   \* {"x": "a.b"}
    TxtClass("bare",   "other",   FALSE, FALSE, TRUE,  FALSE, FALSE),   \* a.b
    TxtClass("baresx", "other",   FALSE, FALSE, FALSE, FALSE, FALSE),   \* d.0
    TxtClass("bbad",   "bracket", FALSE, FALSE, FALSE, FALSE, FALSE),   \* {"a":
    TxtClass("bname",  "bracket", FALSE, FALSE, TRUE,  FALSE, FALSE),   \* [spam]
    TxtClass("texpo",  "other",   FALSE, FALSE, TRUE,  TRUE,  FALSE),   \* T['a']['b']
    TxtClass("texpb",  "bracket", FALSE, FALSE, TRUE,  TRUE,  FALSE),   \* (T['a'], T['b'])
    TxtClass("advb",   "bracket", FALSE, FALSE, TRUE,  TRUE,  TRUE),    \* [__import__('os').system(..)]
    TxtClass("advq",   "quote",   FALSE, FALSE, TRUE,  TRUE,  TRUE),    \* 'a' + str(open(.., 'w'))
    TxtClass("advo",   "other",   FALSE, FALSE, TRUE,  TRUE,  TRUE) }   \* __import__('os').system(..)
Texts == {tx \in AllTextClasses : tx.id \in TxtIds}
\* which library outcomes some (target, spec text of the class) pair can realise on a route
CanSucceed(tx, route) ==
  IF route = "str" THEN tx.id \in {"bare", "baresx"}           \* other texts name no path
  ELSE tx.id \in {"qstr1", "qstr2", "blit", "bboth", "texpo", "texpb"}
OnlyCollections(tx) == tx.id = "bboth"                        \* a JSON dict / list spec builds a dict / list

\* (a second variable only so that `tlc -dump` writes states as a conjunction list, the
\* form the framework's dump parser reads)
VARIABLE model
Init == m = M0(Cfg0, <<>>) /\ model = "MC_C19"

Unknown(pc, part) == m.pc = pc /\ ~Known(part)

RevealS ==
  /\ Unknown("spec", "s")
  /\ \E a \in {"none", "text", "empty"}, f \in {"none", "ok", "unreadable"}, fm \in SFmts,
        tx \in Texts \cup {EmptyTxt} :
       \* tx describes the argument text if there is one, else the content of the spec file
       /\ (a = "text" => tx.lead # "none")
       /\ (a # "text" /\ f # "ok" => tx = EmptyTxt)
       \* nothing of the text is looked at when the spec source itself is rejected
       /\ ((a = "text" /\ f # "none") => tx.id = "bare")
       /\ Reveal("s", [arg |-> a, file |-> f, fmt |-> fm, txt |-> tx])

RevealT ==
  /\ Unknown("select", "t")
  /\ \E a \in {"none", "text", "dash"}, f \in {"none", "ok", "okempty", "unreadable", "dash"},
        sd \in {"empty", "data"} :
       /\ (a # "none" => m.cfg.s.arg # "none")        \* a second positional needs a first
       /\ Reveal("t", [arg |-> a, file |-> f, stdin |-> sd])

RevealL ==
  /\ Unknown("load", "l")
  /\ \E fm \in TFmts, tx \in {"good", "malformed"} :
       /\ (SelEmpty => (fm = "default" /\ tx = "good"))   \* nothing to look at
       /\ Reveal("l", [fmt |-> fm, txt |-> tx])

\* outcomes of the library that some (target, spec) pair can realise
RevealR ==
  /\ Unknown("run", "r")
  /\ \E res \in {"coll", "str", "int", "other", "glomerr"} :
       /\ (m.route = "ident" => res # "glomerr")
       /\ (m.route = "ident" /\ (m.tgt = "emptymap" \/ TFmt = "toml") => res = "coll")
       /\ (m.tgt = "emptymap" /\ m.route # "ident" => res \in {"coll", "glomerr"})
       /\ (m.tgt = "emptymap" /\ m.route # "ident" /\ m.cfg.s.txt.lead # "bracket" => res = "glomerr")
       /\ (m.route # "ident" /\ ~CanSucceed(m.cfg.s.txt, m.route) => res = "glomerr")
       /\ (m.route # "ident" /\ OnlyCollections(m.cfg.s.txt) => res \in {"coll", "glomerr"})
       /\ Reveal("r", [res |-> res])

RevealP ==
  /\ Unknown("print", "p")
  /\ \E ind \in Indents, sc \in {"on", "off"} : Reveal("p", [indent |-> ind, scalar |-> sc])

Next == (RevealS \/ RevealT \/ RevealL \/ RevealR \/ RevealP \/ CliNext) /\ UNCHANGED model

\* the machine never gets stuck before it is done (every dispatch case is covered)
NoStuck == m.pc # "done" => ENABLED Next
\* a done state has looked at exactly a prefix of the configuration parts
KnownPrefix == \A i \in 1..Len(m.known) : m.known[i] = <<"s", "t", "l", "r", "p">>[i]
====================================================================================
