---------------------------------- MODULE MC_C19 ----------------------------------
(* Bounded universe for C19: every configuration of the glom command line within the  *)
(* constants (channels x formats x flags x spec-text classes x library outcomes).  The  *)
(* environment reveals the configuration part by part (RevealS .. RevealP) exactly when *)
(* the machine of GlomCli looks at it, so a behaviour that ends early (usage error,     *)
(* rejected spec) leaves the later parts "don't care" (the harness randomises them).    *)
(* Every state with m.pc = "done" is one case replayed into the real CLI; the laws of   *)
(* GlomCli are INVARIANTs (see MC_C19.cfg); the mutant cfgs select a wrong disjunct of  *)
(* the mechanism and TLC must report a law violated.                                    *)
EXTENDS GlomCli

CONSTANTS SFmts,      \* values of --spec-format explored ("default" = flag absent)
          TFmts,      \* values of --target-format explored
          Indents,    \* values of --indent explored ("default" = flag absent)
          TxtIds,     \* spec-text classes explored
          Argvs,      \* argv syntax cases explored ("ok", "badindent", "toomany", "unknownflag")
          SExts,      \* spec-file name extensions explored ("any": the harness draws one per run)
          TExts,      \* target-file name extensions explored
          Dbgs,       \* "off", "debug" (--debug), "inspect" (--inspect)
          PrintCross  \* "full": --scalar x --indent crossed; "pairwise": --scalar only with the default indent

AllTextClasses ==
  { TxtClass("qstr1",  "quote",   TRUE,  FALSE, TRUE,  TRUE,  FALSE),   \* 'a.b'
    TxtClass("qstr2",  "quote",   TRUE,  TRUE,  TRUE,  TRUE,  FALSE),   \* "a.b"
    TxtClass("blit",   "bracket", TRUE,  FALSE, TRUE,  TRUE,  FALSE),   \* {'x': ('a', ['b'])}
    TxtClass("bboth",  "bracket", TRUE,  TRUE,  TRUE,  TRUE,  FALSE),   \* {"x": "a.b"}
    TxtClass("bare",   "other",   FALSE, FALSE, TRUE,  FALSE, FALSE),   \* a.b
    TxtClass("baresx", "other",   FALSE, FALSE, FALSE, FALSE, FALSE),   \* d.0
    TxtClass("bbad",   "bracket", FALSE, FALSE, FALSE, FALSE, FALSE),   \* {"a":
    TxtClass("bname",  "bracket", FALSE, FALSE, TRUE,  FALSE, FALSE),   \* [spam]
    TxtClass("texpo",  "other",   FALSE, FALSE, TRUE,  TRUE,  FALSE),   \* T['a']['b']
    TxtClass("texpb",  "bracket", FALSE, FALSE, TRUE,  TRUE,  FALSE),   \* (T['a'], T['b'])
    TxtClass("advb",   "bracket", FALSE, FALSE, TRUE,  TRUE,  TRUE),    \* [__import__('os').system(..)]
    TxtClass("advq",   "quote",   FALSE, FALSE, TRUE,  TRUE,  TRUE),    \* 'a' + str(open(.., 'w'))
    TxtClass("advo",   "other",   FALSE, FALSE, TRUE,  TRUE,  TRUE) }   \* __import__('os').system(..)
Texts == {tx \in AllTextClasses : tx.id \in TxtIds}
\* which library outcomes some (target, spec text of the class) pair can realise on a route
CanSucceed(tx, route) ==
  IF route = "str" THEN tx.id \in {"bare", "baresx"}           \* other texts name no path
  ELSE tx.id \in {"qstr1", "qstr2", "blit", "bboth", "texpo", "texpb"}
OnlyCollections(tx) == tx.id = "bboth"                        \* a JSON dict / list spec builds a dict / list

\* (a second variable only so that `tlc -dump` writes states as a conjunction list, the
\* form the framework's dump parser reads)
VARIABLE model
Init == m = M0(Cfg0, <<>>) /\ model = "MC_C19"

Unknown(pc, part) == m.pc = pc /\ ~Known(part)

RevealF == Unknown("argv", "f") /\ \E a \in Argvs : Reveal("f", [argv |-> a])

RevealS ==
  /\ Unknown("spec", "s")
  /\ \E a \in {"none", "text", "empty"}, f \in {"none", "ok", "unreadable", "dash"}, fm \in SFmts,
        tx \in Texts \cup {EmptyTxt}, x \in SExts \cup {"-"} :
       /\ (x = "-") = (f # "ok")                       \* a name only matters for a file that is read
       \* tx describes the argument text if there is one, else the content of the spec file
       /\ (a = "text" => tx.lead # "none")
       /\ (a # "text" /\ f # "ok" => tx = EmptyTxt)
       \* nothing of the text is looked at when the spec source itself is rejected
       /\ ((a = "text" /\ f # "none") => tx.id = "bare")
       /\ ((a = "text" /\ f = "ok") => x = CHOOSE y \in SExts : TRUE)
       /\ Reveal("s", [arg |-> a, file |-> f, ext |-> x, fmt |-> fm, txt |-> tx])

RevealT ==
  /\ Unknown("select", "t")
  /\ \E a \in {"none", "text", "dash", "empty"}, f \in {"none", "ok", "okempty", "unreadable", "dash"},
        sd \in {"empty", "data"}, x \in TExts \cup {"-"} :
       /\ (a # "none" => m.cfg.s.arg # "none")        \* a second positional needs a first
       /\ (x = "-") = (f \notin {"ok", "okempty"})
       /\ (a = "empty" => f = "none")                  \* '' is falsy: with a file it is as if absent
       /\ ((a \in {"text", "dash"} /\ f \in {"ok", "okempty"}) => x = CHOOSE y \in TExts : TRUE)
       /\ Reveal("t", [arg |-> a, file |-> f, ext |-> x, stdin |-> sd])

\* The machine never reads a file name, so behaviours that differ only in an extension are
\* bisimilar.  An explicitly enumerated extension (not "any", which the harness draws per run)
\* is crossed with everything the spec / select phases look at, and with one slice of the later
\* parts only.
Slice == m.cfg.s.ext \notin {"any", "-"} \/ m.cfg.t.ext \notin {"any", "-"}

RevealL ==
  /\ Unknown("load", "l")
  /\ \E fm \in TFmts, tx \in {"good", "malformed"} :
       /\ (SelEmpty => (fm = "default" /\ tx = "good"))   \* nothing to look at
       /\ (Slice => fm = "default")
       /\ Reveal("l", [fmt |-> fm, txt |-> tx])

\* outcomes of the library that some (target, spec) pair can realise
RevealR ==
  /\ Unknown("run", "r")
  /\ \E res \in {"coll", "str", "int", "float", "other", "glomerr", "xscalar", "xcoll"}, d \in Dbgs :
       \* results json.dumps cannot serialise come from python / YAML / TOML targets only
       /\ (res \in {"xscalar", "xcoll"} => (m.tgt = "loaded" /\ TFmt \in {"python", "yaml", "toml"}
                                           /\ m.cfg.s.txt.id \in {"empty", "bare", "qstr1", "blit"} /\ d = "off"))
       \* the debug flags wrap the spec and change nothing else: crossed with everything before
       \* Run, with success / GlomError, and with one print configuration
       /\ (d # "off" => res \in {"coll", "glomerr"})
       /\ (Slice => (d = "off" /\ res \in {"coll", "glomerr"}))
       /\ (m.route = "ident" => res # "glomerr")
       /\ (m.route = "ident" /\ (m.tgt = "emptymap" \/ TFmt = "toml") => res = "coll")
       /\ (m.tgt = "emptymap" /\ m.route # "ident" => res \in {"coll", "glomerr"})
       /\ (m.tgt = "emptymap" /\ m.route # "ident" /\ m.cfg.s.txt.lead # "bracket" => res = "glomerr")
       /\ (m.route # "ident" /\ ~CanSucceed(m.cfg.s.txt, m.route) => res = "glomerr")
       /\ (m.route # "ident" /\ OnlyCollections(m.cfg.s.txt) => res \in {"coll", "glomerr"})
       /\ (m.route = "ident" /\ res = "xscalar" => FALSE)
       /\ Reveal("r", [res |-> res, dbg |-> d])

RevealP ==
  /\ Unknown("print", "p")
  /\ \E ind \in Indents, sc \in {"on", "off"} :
       /\ (Slice => (ind = "default" /\ sc = "off"))
       /\ (PrintCross = "pairwise" /\ sc = "on" => ind = "default")
       /\ (m.cfg.r.dbg # "off" => (ind = "default" /\ sc = "off"))
       /\ (m.cfg.r.res \in {"xscalar", "xcoll"} => ind = "default")
       /\ Reveal("p", [indent |-> ind, scalar |-> sc])

Next == (RevealF \/ RevealS \/ RevealT \/ RevealL \/ RevealR \/ RevealP \/ CliNext) /\ UNCHANGED model

\* the machine never gets stuck before it is done (every dispatch case is covered)
NoStuck == m.pc # "done" => ENABLED Next
\* a done state has looked at exactly a prefix of the configuration parts
KnownPrefix == \A i \in 1..Len(m.known) : m.known[i] = <<"f", "s", "t", "l", "r", "p">>[i]
====================================================================================
