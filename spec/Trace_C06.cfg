INIT TraceInit
NEXT TraceNext
CONSTANTS
  Pool <- NoPool
  NProcs = 1
  MaxCache = 1
  MaxCalls = 1
  MaxToggles = 0
  MaxRegs = 0
  Gates = {}
  ToggleAnytime = FALSE
  RegisterAnytime = FALSE
  RecHist = FALSE
  Mutant = ""
CONSTRAINT Check
CHECK_DEADLOCK FALSE
