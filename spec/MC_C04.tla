---------------------------------- MODULE MC_C04 ----------------------------------
(* Bounded universe for C04.  One behaviour = one exception raised at the fault leaf  *)
(* below a chain of enclosing constructs (= a spec tree with a chosen fault node; the   *)
(* siblings of the path are fixed by each construct's variant), travelling upwards and  *)
(* meeting glom()'s top level under one keyword combination.  Terminal states           *)
(* Catalogue ids of builtin classes that except clauses can name are the Python names.   *)
(* (ph = "done") carry the whole history and are replayed into the real library.        *)
EXTENDS GlomErrors

CONSTANTS MinDepth, MaxDepth,   \* number of enclosing constructs
          Rich,                 \* TRUE: full construct pool at every level; FALSE: core pool above depth 1
          KwMode                \* "full": every default x skip_exc x glom_debug combination; "mid"; "small"; "tiny"

\* ---- exception catalogue (abstract attributes <-> concrete harness classes, harness/c04.py)
UserClasses == {
  Cls("Exception", BE, TRUE, FALSE, "same", "ok", "builtin"),                        \* Exception('x')
  Cls("ValueError", EX, TRUE, FALSE, "same", "ok", "builtin"),    \* ValueError()
  Cls("KeyError", <<"LookupError">> \o EX, TRUE, FALSE, "same", "ok", "builtin"),
  Cls("IndexError", <<"LookupError">> \o EX, TRUE, FALSE, "same", "ok", "builtin"),  \* IndexError('i')
  TypeErrorCls,                                                                     \* TypeError('t')
  Cls("Os2",    <<"OSError">> \o EX, TRUE, FALSE, "same", "ok", "builtin"),       \* OSError(2,'nf') -> FileNotFoundError
  Cls("Os3",    <<"OSError">> \o EX, TRUE, FALSE, "same", "ok", "builtin"),       \* OSError(2,'nf','fn'): args lose the filename
  Cls("Uni5",   <<"ValueError">> \o EX, TRUE, FALSE, "same", "ok", "builtin"),    \* UnicodeDecodeError, 5 args
  Cls("UAttr",  EX, TRUE, FALSE, "same", "ok", "user"),                           \* user class with attributes
  Cls("UKw",    EX, TRUE, FALSE, "fail", "ok", "user"),                           \* keyword-only constructor
  Cls("UDbl",   EX, TRUE, FALSE, "rewrite", "rewrite", "user"),                   \* constructor rewrites args
  Cls("UAr2",   EX, TRUE, FALSE, "fail", "fail", "user"),                         \* __init__(a, b) -> args (a+b,)
  Cls("UBad",   EX, TRUE, FALSE, "fail", "fail", "user"),                         \* constructor raises on re-creation
  Cls("UKeySub", <<"KeyError", "LookupError">> \o EX, TRUE, FALSE, "same", "ok", "user"),
  Cls("GSub",   GE, TRUE, TRUE, "same", "ok", "user"),                            \* class E(GlomError): pass
  Cls("GKeep",  GE, TRUE, TRUE, "same", "ok", "user"),                            \* own __init__(a, b), args kept
  Cls("GInit2", GE, TRUE, TRUE, "fail", "fail", "user"),                          \* own __init__(a, b) -> args (a+b,)
  Cls("GDbl",   GE, TRUE, TRUE, "rewrite", "rewrite", "user"),                    \* own __init__ rewriting args
  Cls("GVal",   <<"ValueError">> \o GE, TRUE, TRUE, "same", "ok", "user"),        \* class E(GlomError, ValueError)
  Cls("GCopy",  GE, TRUE, TRUE, "fail", "ok", "user"),                            \* __init__(a, b) -> (a+b,), own __copy__
  Cls("StopIter", EX, TRUE, FALSE, "same", "ok", "builtin"),                      \* StopIteration(3)
  WithEq(Cls("UEqRaise", EX, TRUE, FALSE, "same", "ok", "user"), "raises"),      \* __eq__: self.code == other.code
  WithEq(Cls("UEqAll", EX, TRUE, FALSE, "same", "ok", "user"), "always"),         \* __eq__ -> True
  Cls("USlots", EX, TRUE, FALSE, "same", "ok", "user"),                           \* __slots__ = ('code',), no __dict__
  Cls("UArgEq", EX, TRUE, FALSE, "same", "ok", "user"),                           \* args hold an object whose __eq__ raises
  Cls("UReg",   EX, TRUE, FALSE, "same", "ok", "user"),                           \* class-level registry of every instance made
  Falsy(Cls("UFalsy", EX, TRUE, FALSE, "same", "ok", "user")),                    \* __len__ -> 0: bool(e) is False
  Falsy(Cls("GFalsy", GE, TRUE, TRUE, "same", "ok", "user")),                     \* GlomError subclass, __bool__ -> False
  \* user subclasses of the library's own error classes, constructed the way the library does
  Cls("SubTypeMatch", <<"MatchError", "TypeError">> \o GE, TRUE, TRUE, "fail", "ok", "user"),
  Cls("SubMatch",  <<"MatchError">> \o GE, TRUE, TRUE, "same", "ok", "user"),
  Cls("SubCoalesce", GE, TRUE, TRUE, "same", "ok", "user"),
  Cls("SubPAE", <<"AttributeError", "KeyError", "IndexError", "LookupError">> \o GE, TRUE, TRUE, "same", "ok", "user"),
  Cls("SubCheck", GE, TRUE, TRUE, "same", "ok", "user"),
  Cls("SubUnreg", GE, TRUE, TRUE, "same", "ok", "user"),
  Cls("BKbd",   BE, FALSE, FALSE, "same", "ok", "builtin"),                       \* KeyboardInterrupt()
  Cls("BUser",  BE, FALSE, FALSE, "same", "ok", "user") }                         \* class B(BaseException)
GlomLeaves == {GlomDoc(i) : i \in GlomDocIds}
Leaves == UserClasses \cup GlomLeaves

\* ---- construct pool
PassVariants == {"tuple1", "tuple2", "dict", "list", "pipe", "spec", "auto", "fill", "invoke",
                 "ref", "iter", "and", "orlast", "match", "swval"}
CoalSkips == {"default", "exact", "other", "tuple", "exception"}
CoalShapes == {<<"none", "absent">>, <<"none", "obj">>, <<"ok", "absent">>}
RichPool ==
  {Ctx("pass", v, "-", "-", "-") : v \in PassVariants}
  \cup {Ctx("coal", "-", s, sh[1], sh[2]) : s \in CoalSkips, sh \in CoalShapes}
  \cup {Ctx("coal", "-", "empty", "none", "absent"), Ctx("coal", "-", "empty", "none", "obj")}
  \cup {Ctx("or", "first", "-", "ok", "absent"), Ctx("or", "last", "-", "none", "obj")}
  \cup {Ctx("and", "-", "-", "-", "obj"), Ctx("not", "-", "-", "-", "-"), Ctx("matchdef", "-", "-", "-", "obj")}
  \cup {Ctx("switch", "key", "-", "ok", "absent"), Ctx("switch", "key", "-", "none", "absent"),
        Ctx("switch", "key", "-", "none", "obj")}
  \cup {Ctx("checkspec", "-", "-", "-", "-")}
CorePool ==
  {Ctx("pass", v, "-", "-", "-") : v \in {"tuple2", "dict", "list"}}
  \cup {Ctx("coal", "-", "default", "none", "absent"), Ctx("coal", "-", "exact", "none", "obj"),
        Ctx("coal", "-", "exception", "ok", "absent")}
  \cup {Ctx("or", "first", "-", "ok", "absent"), Ctx("not", "-", "-", "-", "-"),
        Ctx("matchdef", "-", "-", "-", "obj"), Ctx("switch", "key", "-", "none", "absent"),
        Ctx("checkspec", "-", "-", "-", "-")}
\* constructs whose user code *is* the fault leaf (innermost position, user exceptions only)
\* geniter: the target is a generator raising at its 1st / 2nd next() under a [subspec] spec
LeafPool == {Ctx("checkval", "-", "-", "-", "-"), Ctx("pathget", "-", "-", "-", "-"),
             Ctx("geniter", "k1", "-", "-", "-"), Ctx("geniter", "k2", "-", "-", "-"),
             Ctx("geniter", "k3", "-", "-", "-"),     \* after the last item that is legitimately pulled
             \* targ: the fault is inside the index / argument spec of a T operation
             Ctx("targ", "idx_spec", "-", "-", "-"), Ctx("targ", "idx_invoke", "-", "-", "-"),
             Ctx("targ", "call_spec", "-", "-", "-"),
             \* firstkey: inside the key spec of First(key) / Iter().first(key) / ('items', First(key))
             Ctx("firstkey", "first", "-", "-", "-"), Ctx("firstkey", "iterfirst", "-", "-", "-"),
             Ctx("firstkey", "afterstep", "-", "-", "-"),
             \* afterstar: in a method call / index spec that follows a wildcard of a T-style path
             Ctx("afterstar", "call", "-", "-", "-"), Ctx("afterstar", "ss_call", "-", "-", "-"),
             Ctx("afterstar", "idx_spec", "-", "-", "-")}

Pool(n) == IF Rich \/ n <= 1 THEN RichPool ELSE CorePool

Defaults == {"absent", "obj", "none"}
ObjDefaults == {"list", "dictT", "t", "ntup", "zero", "elist", "fobj"}      \* containers / T-like defaults: "the default object itself"
Skips == {"absent", "exact", "other", "tuple", "tuple_non", "glomerror", "exception", "keyerror", "base", "empty"}
Kw(d, s, g) == [default |-> d, skip |-> s, debug |-> g]
Kws == CASE KwMode = "full" -> {Kw(d, s, g) : d \in Defaults, s \in Skips, g \in BOOLEAN}
                               \cup {Kw(d, s, FALSE) : d \in ObjDefaults,
                                        s \in {"absent", "exact", "glomerror", "exception", "empty", "tuple"}}
         [] KwMode = "mid"  -> {Kw(d, s, FALSE) : d \in {"absent", "obj"}, s \in {"absent", "exact", "glomerror"}}
                               \cup {Kw("none", "empty", FALSE), Kw("list", "exception", FALSE),
                                     Kw("absent", "absent", TRUE), Kw("zero", "tuple", FALSE),
                                     Kw("fobj", "glomerror", FALSE)}
         [] KwMode = "tiny" -> {Kw("absent", "absent", FALSE), Kw("obj", "absent", FALSE),
                                Kw("absent", "exact", TRUE)}
         [] OTHER           -> {Kw("absent", "absent", FALSE), Kw("obj", "absent", FALSE),
                                Kw("absent", "exact", TRUE), Kw("none", "glomerror", FALSE),
                                Kw("list", "exception", FALSE), Kw("dictT", "absent", FALSE)}

\* what the laws say about the mechanism's outcome (for the replay harness only; the machine
\* itself is GlomErrors)
VARIABLE lawv
mcvars == <<vars, lawv>>

\* StopIteration crossing a generator frame becomes RuntimeError by Python's own rule (PEP 479):
\* the lazily evaluated Iter() construct and a generator target are outside the universe for it
\* (also First's key, which a generator-based helper drives); a fault that is itself a
\* PathAccessError is a documented "miss" after a wildcard (C14), not an error to propagate
StopIterOK(cs, lf) ==
  /\ lf.id = "StopIter" => \A i \in 1..Len(cs) : ~(cs[i].k = "pass" /\ cs[i].v = "iter") /\ cs[i].k \notin {"geniter", "firstkey"}
  /\ lf.id = "SubPAE" => \A i \in 1..Len(cs) : cs[i].k # "afterstar"

Init ==
  /\ lawv = ""
  /\ ctxs = <<>> /\ leaf = GlomDoc("MatchError") /\ kw = NoKw /\ x = NoRec /\ arr = NoRec
  /\ lvl = 0 /\ ph = "choose" /\ hist = <<>>

\* the environment picks the spec shape, the fault node and the exception class
Choose ==
  /\ ph = "choose" /\ ph' = "init"
  /\ \E n \in MinDepth..MaxDepth :
       \/ \E cs \in [1..n -> Pool(n)] :
            /\ ctxs' = cs /\ leaf' \in Leaves /\ StopIterOK(cs, leaf')
       \/ /\ n >= 1
          /\ \E cs \in [1..(n - 1) -> Pool(n)] : \E lc \in LeafPool :
            /\ ctxs' = Append(cs, lc) /\ leaf' \in UserClasses /\ StopIterOK(ctxs', leaf')
  /\ UNCHANGED <<kw, x, arr, lvl, hist>>

Next ==
  \/ (Choose \/ RaiseAt(Len(ctxs)) \/ Travel) /\ UNCHANGED lawv
  \/ \E k \in Kws : /\ TopLevel(k)
                     /\ lawv' = LawVerdict(kw', arr', x', leaf.id)
Spec == Init /\ [][Next]_mcvars
\* the recorded verdict is exactly the conjunction of the law invariants
VerdictConsistent == (ph = "done" /\ lawv = "") =>
   (InvClassKept /\ InvGlomIfRebuildable /\ InvSubtype /\ InvDefaultSelective /\ InvDebug /\ InvBase)

\* catalogue sanity: GlomError subclasses are Exceptions and name GlomError among their ancestors
CatalogueOK == \A c \in Leaves : (c.glom <=> InSeq("GlomError", c.anc)) /\ (c.exc <=> InSeq("Exception", c.anc))
====================================================================================
