INIT Init
NEXT Next
CONSTRAINT Check
CHECK_DEADLOCK FALSE
CONSTANTS
  PullMutant = "none"
  BuildMutant = "none"
