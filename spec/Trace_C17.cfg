INIT Init
NEXT Next
CONSTRAINT Check
CHECK_DEADLOCK FALSE
CONSTANTS
  DefMutant = "none"
  PullMutant = "none"
  BuildMutant = "none"
