---------------------------------- MODULE MC_C20 ----------------------------------
(* C20, concurrent configuration of GlomCalls: NProcs threads each make one call from   *)
(* a pool of programs with at most four yield points (user-callable invocations),        *)
(* including re-entrant glom() calls to depth 3 and inner failures caught by an outer    *)
(* Coalesce.  Two uses:                                                                   *)
(*  - Gates = {"yield","p","t"}, RecHist = FALSE: every interleaving of the yield points   *)
(*    AND of the separate check / create / store / fetch steps on both caches is explored  *)
(*    and the laws are checked in every state;                                            *)
(*  - Gates = {"yield"} (or {"yield","p"}), RecHist = TRUE: every schedule at the          *)
(*    granularity the harness can enforce on real threads is a state whose hist is the     *)
(*    schedule; harness/c20.py replays each of them.                                       *)
(* Threads are interchangeable, so they begin in index order (symmetry).                  *)
EXTENDS GlomCalls, Json

CONSTANTS PoolSize, PoolFrom

T1  == VDict(<< <<VStr("a"), VDict(<< <<VStr("b"), VInt(1)>>, <<VStr("*"), VInt(2)>> >>)>>, <<VStr("*"), VInt(3)>> >>)
OA  == VObj("A", << <<VStr("a"), VInt(1)>>, <<VStr("b"), VInt(2)>> >>)
L12 == VList(<<VInt(1), VInt(2)>>)
L5  == VList(<<VInt(5)>>)
TOA == VDict(<< <<VStr("a"), OA>>, <<VStr("b"), VDict(<< <<VStr("c"), OA>> >>)>> >>)
TAA == VDict(<< <<VStr("a"), VDict(<< <<VStr("a"), VInt(5)>>, <<VStr("b"), VInt(6)>> >>)>>, <<VStr("b"), VInt(7)>> >>)
P(text, segs) == SPath(text, segs)
Px == P("x", <<"x">>)
InvSpec == SInvDict(<< <<"a", SProbe("id")>>, <<"b", SProbe("id")>> >>)
RdSpec == STuple(<<SProbe("id"), SCoal(<<SRead("k")>>, Default(VNone))>>)
ArgSpec == SCoal(<<Px>>, DefaultArgs(<<SProbe("id"), SRead("k")>>))
Pa == P("a", <<"a">>)   Pab == P("a.b", <<"a", "b">>)   Pax == P("a.x", <<"a", "x">>)   Pstar == P("*", <<"*">>)

FullPool == <<
  \* 1: accumulators + GROUP mode, two yields; the pair (1, 1) shares one spec object between threads
  Call(L12, <<>>, 1, SAcc("group", "inc")),
  \* 2: bindings (caller scope, S-binding chained through a tuple) and FILL mode around yields
  Call(T1, << <<"k", VInt(7)>> >>, 2,
       STuple(<<SBind("x", Pab), SProbe("id"), SFill(STuple(<<SProbe("id"), SRead("x"), SRead("k")>>))>>)),
  \* 3: path cache + wildcard on both sides of a yield
  Call(T1, <<>>, 3, STuple(<<Pa, SProbe("id"), Pstar>>)),
  \* 4: registry-sensitive access after a yield
  Call(OA, <<>>, 4, STuple(<<SProbe("id"), Pa>>)),
  \* 5: re-entrant call whose failure is caught by the outer Coalesce
  Call(T1, <<>>, 5, SCoal(<<SNest(Call(T1, <<>>, 51, STuple(<<SProbe("id"), Pax>>))), Pab>>, NoDefault)),
  \* 6: a user callable that raises inside a Fold: error outcome and trace
  Call(L12, <<>>, 6, SAcc("fold", "boom")),
  \* 7: four yields
  Call(L12, <<>>, 7, SEach("list", STuple(<<SProbe("inc"), SProbe("inc")>>))),
  \* 8: nesting depth 3, the innermost call fails, nothing catches it
  Call(T1, <<>>, 8, SNest(Call(T1, <<>>, 81, STuple(<<Pa,
          SNest(Call(T1, <<>>, 82, SNest(Call(L5, <<>>, 83, SAcc("group", "boom")))))>>)))),
  \* 9: an unbound name read after a yield (S-rooted access error), default container, Iter
  Call(T1, <<>>, 9, SDict(<< <<"u", SCoal(<<STuple(<<SProbe("id"), SRead("x")>>)>>, Default(VList(<<>>)))>>,
                            <<"w", SEach("iter", SProbe("id"))>> >>)),
  \* 10, 11: bare string paths - the check / create / store / fetch steps of Path.from_text are the
  \* only stop points (replayed on real threads with a str subclass that yields in __hash__ / split)
  Call(T1, <<>>, 10, Pstar),
  Call(T1, <<>>, 11, Pa),
  \* 12: iteration of a type without an 'iterate' handler (nothing is memoized), caught by Coalesce;
  \* iterable once Aiter is registered
  Call(OA, <<>>, 12, SCoal(<<SEach("list", SProbe("id"))>>, Default(VInt(0)))),
  \* 13, 14: ONE spec object (sid 13) holding a list ARGUMENT with a yield point inside it, on two
  \* targets: argument evaluation (arg_val) in progress in one call while the other call starts it
  Call(T1, << <<"k", VInt(7)>> >>, 13, ArgSpec),
  Call(L5, << <<"k", VInt(8)>> >>, 13, ArgSpec),
  \* 15: a list argument whose first element re-enters glom() with the sid-13 object, then a yield
  Call(T1, <<>>, 15, SCoal(<<Px>>, DefaultArgs(<<SNest(Call(L5, << <<"k", VInt(8)>> >>, 13, ArgSpec)), SProbe("id")>>))),
  \* 16-18: calls routed through ONE shared Glommer instance (own registry, own root scope per call):
  \* 16 observes its root target after a yield, 17 fails after the yield (error trace), 18 re-enters
  \* through the same Glommer, the inner failure is swallowed by a Coalesce, then it fails itself
  GCall(T1, 16, STuple(<<SProbe("id"), SProbe("id"), Pab>>)),
  GCall(L12, 17, STuple(<<SProbe("id"), Px>>)),
  GCall(T1, 18, STuple(<<SCoal(<<SNest(GCall(L5, 181, Px))>>, Default(VInt(0))), SProbe("id"), Px>>)),
  \* 19, 20: ONE Invoke object with two .specs() steps, each a yield point, on two targets
  Call(T1, <<>>, 19, InvSpec),
  Call(L5, <<>>, 19, InvSpec),
  \* 21, 22: calls entering through ONE Spec object (Spec.glom): with a caller scope, and without
  SCall(T1, << <<"k", VInt(7)>> >>, 21, RdSpec),
  SCall(L5, <<>>, 21, RdSpec),
  \* 23: a failing call whose shared spec object has a yielding __repr__: trace rendering is a step
  Call(T1, <<>>, 23, STuple(<<SRProbe, Px>>)),
  \* 24: the inner call fails, the callable renders the error (str(e)) and re-raises it: the outer call's
  \* outcome and error trace are those of the variant that does not look at the error (entry 8 / 5 style)
  Call(T1, <<>>, 24, STuple(<<Pa, SNestLog(Call(T1, <<>>, 241, STuple(<<SProbe("id"), Pax>>)))>>)),
  \* 25, 26: two specs giving the SAME Ref name to DIFFERENT subspecs, a yield between definition and use
  Call(TAA, <<>>, 25, STuple(<<SRefDef("n", Pa), SProbe("id"), SRefUse("n")>>)),
  Call(TAA, <<>>, 26, STuple(<<SRefDef("n", P("b", <<"b">>)), SProbe("id"), SRefUse("n")>>)),
  \* 27, 28: ONE Check object with two failing conditions (equal_to, then a validator = yield point) on two targets
  Call(L5, <<>>, 27, SCheck(VInt(0), "vfalse")),
  Call(L12, <<>>, 27, SCheck(VInt(0), "vfalse")),
  \* 29, 30: two calls that fail to iterate an instance of the same unregistered type, reached at
  \* different paths: each error (message, path) is the call's own
  Call(TOA, <<>>, 29, STuple(<<Pa, SProbe("id"), SEach("list", SProbe("id"))>>)),
  Call(TOA, <<>>, 30, STuple(<<P("b.c", <<"b", "c">>), SProbe("id"), SEach("list", SProbe("id"))>>)),
  \* 31-33: callables raising DISTINCT exception classes with the same __name__, in different calls
  \* (33: one in a nested call whose failure is swallowed, then the other in the outer call)
  Call(L5, <<>>, 31, SProbe("boomA")),
  Call(L5, <<>>, 32, SProbe("boomB")),
  Call(T1, <<>>, 33, STuple(<<SCoal(<<SNest(Call(L5, <<>>, 31, SProbe("boomA")))>>, Default(VInt(0))), SProbe("boomB")>>)),
  \* 34, 35: ONE spec object binding Vars(<plain dict>), writing into it, a yield, then the read
  Call(L12, <<>>, 34, SLastY(0)),
  Call(VList(<<>>), <<>>, 34, SLastY(0)),
  \* 36, 37: a one-shot iterator consumed item by item across yield points; falsy intermediate values and
  \* objects with a hostile __eq__ observed at yield points
  Call(VGen(<<VInt(1), VInt(0)>>), <<>>, 36, SAcc("group", "inc")),
  Call(VDict(<< <<VStr("a"), VInt(0)>>, <<VStr("b"), VList(<<VHostile(1), VBool(FALSE)>>)>> >>), <<>>, 37,
       SDict(<< <<"p", SCoal(<<STuple(<<Pa, SProbe("id")>>)>>, Default(VInt(9)))>>,
                <<"q", STuple(<<P("b", <<"b">>), SEach("list", SProbe("id"))>>)>> >>))
>>
C20Pool == SubSeq(FullPool, PoolFrom, PoolFrom + PoolSize - 1)

MCNext ==
  \/ \E p \in Procs : \E c \in 1..Len(Pool) : (IF p = 1 THEN TRUE ELSE procs[p - 1].nc > 0) /\ Begin(p, c)
  \/ \E p \in Procs : \/ YieldReturn(p) \/ CacheRead(p) \/ CacheCreate(p) \/ CacheWrite(p)
                      \/ MemoRead(p) \/ MemoCompute(p) \/ MemoWrite(p)
  \* in the replay configurations the configuration is chosen before the threads start
  \/ (RecHist => \A p \in Procs : procs[p].nc = 0) /\ ToggleStar
  \/ \E r \in RegNames : (RecHist => \A p \in Procs : procs[p].nc = 0) /\ Register(r)
MCSpec == Init /\ [][MCNext]_vars
AllDone == \A p \in Procs : procs[p].st = "done"
\* replay configurations: every complete schedule is printed once it is complete
PrintSchedule == AllDone => PrintT(ToJson([hist |-> hist]))
\* the harness reads the pool from TLC's output (printed once at start-up)
ASSUME PrintT(ToJson([pool |-> C20Pool]))
====================================================================================
