SPECIFICATION MCSpec
CONSTANTS
  Pool <- C20Pool
INVARIANT NonInterference
INVARIANT ObservesOnlyItself
INVARIANT OnlyCachesShared
INVARIANT NoUnmodelled
INVARIANT PathCacheCoherent
INVARIANT TypeCacheCoherent
INVARIANT PathCacheBounded
PROPERTY FrameCondition
CONSTRAINT PrintSchedule
CHECK_DEADLOCK FALSE
