---------------------------------- MODULE MC_C03 ----------------------------------
(* Bounded universe for C03.  Spec trees are built bottom-up by a stack machine       *)
(* (postfix construction: push a leaf, or apply a constructor to the topmost n trees), *)
(* so that TLC enumerates every tree within the depth / node / width bounds by         *)
(* constructor choice without materialising sets of trees.  A finished tree (one       *)
(* element on the stack, no free Ref) is paired with every root of the target family:  *)
(* that phase-1 state is one case, its variable pred the canonical outcome the         *)
(* specification predicts (value graph, error class, call log); `tlc -dump` writes the *)
(* cases for replay into the real library.  The laws of GlomAuto part 3 are checked as  *)
(* invariants on every case.                                                            *)
EXTENDS GlomAuto, Json

CONSTANTS Families,    \* names of the universes to explore (DOMAIN Conf)
          Mutant       \* "none" or the name of a wrong mechanism variant (GlomAuto env.mut)

\* one universe = constructor families x leaf set x Coalesce option set x bounds x roots
\* (kinds and roots are sequences so that the record can live in a dumped state variable)
U(kinds, leaf, coal, depth, nodes, width, stk, roots) ==
  [kinds |-> kinds, leaf |-> leaf, coal |-> coal, depth |-> depth, nodes |-> nodes, width |-> width,
   stack |-> stk, roots |-> roots, top |-> "none"]
WithTop(u, top) == [u EXCEPT !.top = top]       \* which top-level glom(.., default=, skip_exc=, scope=) variants
Containers == <<"dict", "odict", "dictk", "list", "tuple", "pipe", "spec", "coalesce">>
Conf == [
  \* ---- quick tier ----
  q_nest      |-> U(<<"dict", "list", "tuple", "coalesce">>, "tiny", "basic", 3, 4, 2, 3, <<1>>),
  q_pairs     |-> U(Containers, "small", "basic", 2, 3, 2, 2, <<1, 2, 3>>),
  q_leaves    |-> U(Containers, "full", "basic", 2, 2, 1, 1, <<1, 2, 3, 4, 5, 6, 7>>),
  q_coal1     |-> U(<<"coalesce">>, "small", "full", 2, 2, 1, 1, <<1, 3>>),
  q_coal2     |-> U(<<"coalesce">>, "small", "mid", 2, 3, 2, 2, <<1>>),
  q_calls     |-> U(<<"call", "invoke">>, "argsmall", "basic", 2, 3, 2, 2, <<1>>),
  q_modes     |-> U(<<"ref", "fill", "auto", "dict", "list", "tuple", "coalesce">>, "small", "basic", 3, 3, 2, 2, <<1, 2>>),
  q_coaln1    |-> U(<<"coalesce">>, "nonel", "full", 2, 2, 1, 1, <<1>>),
  q_coaln2    |-> U(<<"coalesce">>, "nonel", "mid", 2, 3, 2, 2, <<1>>),
  q_chains    |-> U(<<"tuple", "pipe">>, "tiny", "basic", 3, 5, 2, 3, <<1, 3>>),
  q_inspect   |-> U(<<"inspect", "tuple", "dict", "coalesce">>, "tiny", "one", 3, 4, 2, 2, <<1>>),
  q_scope     |-> WithTop(U(<<"sset", "specs", "tuple", "dict", "coalesce">>, "scopel", "one", 3, 4, 2, 2, <<1>>), "scope"),
  q_sets      |-> U(<<"set", "fill", "tuple", "dict">>, "setl", "one", 3, 4, 2, 2, <<1, 3>>),
  q_top       |-> WithTop(U(<<"tuple", "dict", "coalesce">>, "small", "one", 2, 3, 2, 2, <<1, 3>>), "some"),
  q_falsy     |-> U(<<"dict", "dict0", "list", "tuple">>, "falsyl", "one", 2, 3, 2, 2, <<8>>),
  q_falsyc    |-> U(<<"coalesce">>, "falsyl", "falsy", 2, 2, 1, 1, <<8>>),
  q_falsy2    |-> WithTop(U(<<"dict0", "list", "tuple", "coalesce">>, "falsyl", "one", 2, 2, 1, 1, <<8, 9, 11, 12, 13>>), "falsy"),
  q_hard      |-> U(<<"list", "tuple", "ntuple", "dict", "invoke">>, "hardl", "one", 2, 3, 2, 2, <<8, 10>>),
  q_hardc     |-> U(<<"coalesce">>, "hardl", "hostile", 2, 2, 1, 1, <<8>>),
  q_idx       |-> U(<<"tuple", "coalesce", "edge">>, "idxl", "one", 2, 3, 2, 2, <<4, 7, 15, 2>>),
  q_cls       |-> U(<<"cls", "list", "tuple", "dict", "coalesce", "fill">>, "clsl", "one", 3, 3, 2, 2, <<1, 2>>),
  q_refscope  |-> U(<<"ref", "refopen", "refshadow", "dict", "tuple">>, "reflx", "one", 4, 4, 2, 2, <<1>>),
  q_ref       |-> U(<<"ref", "tuple", "coalesce">>, "refl", "one", 4, 5, 2, 2, <<1>>),
  \* ---- thorough tier ----
  t_chains    |-> U(<<"tuple", "pipe">>, "small", "basic", 4, 5, 2, 3, <<1, 3>>),
  t_inspect   |-> U(<<"inspect", "tuple", "dict", "coalesce", "list">>, "tiny", "one", 4, 5, 2, 2, <<1>>),
  t_scope     |-> WithTop(U(<<"sset", "specs", "tuple", "pipe", "dict", "coalesce", "list">>, "scopel", "one", 3, 5, 2, 2, <<1>>), "scope"),
  t_sets      |-> U(<<"set", "fill", "tuple", "dict", "coalesce", "list">>, "setl", "one", 4, 4, 2, 2, <<1, 3>>),
  t_top       |-> WithTop(U(<<"tuple", "dict", "coalesce", "list">>, "small", "basic", 3, 4, 2, 2, <<1>>), "some"),
  t_falsy     |-> WithTop(U(<<"dict", "dict0", "list", "tuple", "coalesce">>, "falsyl", "falsy", 2, 3, 2, 2, <<8, 9>>), "falsy"),
  t_hard      |-> U(<<"coalesce", "list", "tuple", "ntuple", "dict", "invoke">>, "hardl", "hostile", 3, 3, 2, 2, <<8, 10>>),
  t_hard2     |-> U(<<"list", "tuple", "ntuple", "dict">>, "hardl", "one", 3, 4, 2, 2, <<8, 10>>),
  t_refscope  |-> U(<<"ref", "refopen", "refshadow", "dict", "tuple">>, "reflx", "one", 5, 6, 2, 2, <<1>>),
  t_ref       |-> U(<<"ref", "tuple", "coalesce", "list">>, "refl", "basic", 4, 5, 2, 2, <<1, 2>>),
  t_nest      |-> U(Containers, "small", "basic", 3, 4, 2, 3, <<1, 2, 3>>),
  t_nest5     |-> U(<<"dict", "list", "tuple">>, "tiny", "basic", 3, 5, 2, 3, <<1>>),
  t_leaves    |-> U(Containers, "full", "basic", 2, 3, 2, 2, <<1, 2, 3, 4, 5, 6, 7>>),
  t_coal      |-> U(<<"coalesce">>, "small", "full", 2, 3, 2, 2, <<1, 3>>),
  t_calls     |-> U(<<"call", "invoke">>, "arg", "basic", 2, 3, 2, 2, <<1, 3>>),
  t_callnest  |-> U(<<"call", "invoke", "tuple", "coalesce", "dict">>, "argsmall", "basic", 3, 3, 2, 2, <<1, 3>>),
  t_modes     |-> U(<<"ref", "fill", "auto", "dict", "list", "tuple", "pipe", "coalesce">>, "tiny", "basic", 3, 4, 2, 2, <<1, 2>>),
  \* ---- small universes on which the spec mutants must be caught ----
  m_chain     |-> U(<<"tuple", "dict">>, "tiny", "basic", 2, 3, 2, 2, <<1>>),
  m_coal      |-> U(<<"coalesce">>, "tiny", "basic", 2, 3, 2, 2, <<1>>),
  m_dict      |-> U(<<"dict">>, "tiny", "basic", 2, 3, 2, 2, <<1>>),
  m_invoke    |-> U(<<"invoke">>, "argsmall", "basic", 2, 3, 2, 2, <<1>>),
  m_inspect   |-> U(<<"inspect", "tuple">>, "tiny", "one", 3, 3, 2, 2, <<1>>),
  m_top       |-> WithTop(U(<<"tuple">>, "tiny", "one", 2, 2, 2, 2, <<1>>), "some"),
  m_set       |-> U(<<"set", "fill">>, "setl", "one", 3, 3, 2, 2, <<1>>),
  m_scope     |-> WithTop(U(<<"sset", "tuple">>, "scopel", "one", 3, 4, 2, 3, <<1>>), "scope"),
  m_gen       |-> U(<<"list", "tuple">>, "hardl", "one", 3, 3, 2, 2, <<8, 10>>),
  m_sent      |-> U(<<"list", "dict", "tuple">>, "hardl", "one", 2, 3, 2, 2, <<8>>),
  m_ref       |-> U(<<"ref", "refopen", "refshadow", "dict", "tuple">>, "reflx", "one", 4, 4, 2, 2, <<1>>),
  probe       |-> U(<<>>, "tiny", "basic", 1, 0, 0, 0, <<1>>) ]

AllKinds == {"cls", "dict0", "edge", "ntuple", "refopen", "refshadow", "inspect", "set", "sset", "specs",
             "dict", "odict", "dictk", "list", "tuple", "pipe", "spec", "coalesce", "call", "invoke",
             "ref", "fill", "auto"}

\* ---- targets: one heap, several roots --------------------------------------------------
S(x) == VStr(x)
TargetHeap == <<
  Cell("dict", << <<S("a"), VInt(1)>>, <<S("b"), VRef(2)>>, <<S("k"), S("u")>>, <<S("n"), VRef(3)>>,
                  <<S("z"), VNone>>, <<S("f"), VFn("inc")>> >>),                             \* 1
  Cell("list", <<VInt(0), VInt(1)>>),                                                        \* 2
  Cell("dict", << <<S("a"), VInt(0)>>, <<S("b"), VRef(4)>>, <<S("k"), S("v")>> >>),           \* 3
  Cell("list", <<>>),                                                                        \* 4
  Cell("obj",  << <<S("a"), VInt(2)>>, <<S("b"), VRef(2)>> >>),                               \* 5
  Cell("list", <<VRef(3), VRef(1)>>),                                                        \* 6
  Cell("tuple", <<VInt(1), VNone>>),                                                         \* 7
  \* ---- hardening: falsy-but-meaningful values, equal-but-distinct and hostile-== objects, an
  \*      OrderedDict, a one-shot iterator
  Cell("dict", << <<S("a"), VInt(0)>>, <<S("b"), VRef(4)>>, <<S("k"), S("")>>, <<S("n"), VRef(9)>>,
                  <<S("z"), VBool(FALSE)>>, <<S("e"), VRef(10)>>, <<S("h"), VRef(11)>>, <<S("j"), VRef(12)>>,
                  <<S("o"), VRef(13)>>, <<S("g"), VRef(14)>> >>),                             \* 8
  Cell("dict", <<>>),                                                                        \* 9
  Cell("list", <<>>),                                                                        \* 10 (== cell 4, another object)
  Cell("eqall", <<>>),                                                                       \* 11 equal to everything
  Cell("eqraise", <<>>),                                                                     \* 12 == raises TypeError on foreigners
  Cell("odict", << <<S("x"), VInt(0)>>, <<S("y"), S("")>> >>),                               \* 13
  [cls |-> "gen", items |-> <<VInt(-1), VInt(0), VInt(1)>>, pulled |-> 0],                   \* 14
  Cell("list", <<VInt(0), S(""), VNone, VBool(FALSE), VRef(4), VRef(9), VRef(11)>>) >>       \* 15
RootTab == <<VRef(1), VRef(6), VInt(1), VRef(2), VRef(5), VNone, VRef(7),
             VRef(8), VRef(15), VRef(14), VInt(0), VInt(-1), S(""), VRef(13), VRef(4)>>      \* 8 .. 15

\* ---- spec constructors -------------------------------------------------------------------
P(text, segs) == [op |-> "path", text |-> text, segs |-> segs]
TT(steps)     == [op |-> "t", steps |-> steps]
F(name)       == [op |-> "fn", name |-> name]
V(v)          == [op |-> "val", v |-> v]
K(v)          == [op |-> "const", v |-> v]
RefUse        == [op |-> "ref", name |-> "r", def |-> FALSE, kids |-> <<>>]
Tup(kids)     == [op |-> "tuple", kids |-> kids]
Lit(v)        == [lit |-> TRUE, v |-> v]
KeyS(s)       == [lit |-> FALSE, s |-> s]
Dict(ordered, keys, kids) == [op |-> "dict", ordered |-> ordered, keys |-> keys, kids |-> kids]
Wrap(op, kid) == [op |-> op, kids |-> <<kid>>]

TinyLeaves == {P("a", <<"a">>), P("b", <<"b">>), F("inc"), F("ret_SKIP"), F("ret_STOP"), F("raise_KeyError")}
SmallLeaves == TinyLeaves \cup {P("x", <<"x">>), V(VNone)}
FullLeaves == SmallLeaves \cup
              {P("n", <<"n">>), P("n.a", <<"n", "a">>), P("z", <<"z">>),
               TT(<<Step("[", S("a"))>>), TT(<<Step(".", S("a"))>>), TT(<<>>),
               F("ident"), F("size"), F("raise_GlomError"), F("raise_ValueError"),
               V(VInt(1)), V(SKIP), V(STOP), K(VInt(3))}
\* leaves that matter in argument positions (Call / Invoke)
ArgLeaves == {P("a", <<"a">>), TT(<<Step("[", S("a"))>>), TT(<<Step("[", S("b"))>>), TT(<<Step("[", S("x"))>>),
              F("inc"), V(VInt(5)), K(VInt(3)), K(VNone),
              Wrap("spec", F("inc")), Wrap("spec", F("ret_SKIP")), Wrap("spec", F("raise_KeyError")),
              Wrap("spec", P("b", <<"b">>)), Wrap("spec", P("n", <<"n">>))}
ArgSmallLeaves == {P("a", <<"a">>), TT(<<Step("[", S("a"))>>), TT(<<Step("[", S("x"))>>),
                   Wrap("spec", F("inc")), Wrap("spec", F("raise_KeyError")), Wrap("spec", P("b", <<"b">>))}
ArgTinyLeaves == {TT(<<Step("[", S("a"))>>), Wrap("spec", F("inc")), Wrap("spec", F("raise_KeyError"))}
\* alternatives that succeed with the value None (target value, Val, callable) next to failing ones
NoneLeaves == {P("z", <<"z">>), V(VNone), F("ret_None"), P("a", <<"a">>), P("x", <<"x">>), F("raise_KeyError")}
SG(name, form) == [op |-> "sget", name |-> name, form |-> form]
ScopeLeaves == {SG("v", "."), SG("v", "["), SG("w", "."), [op |-> "aset", name |-> "v"],
                P("a", <<"a">>), F("inc"), F("ret_SKIP")}
SetLeaves == {TT(<<>>), TT(<<Step("[", S("a"))>>), P("a", <<"a">>), F("inc"), F("ret_SKIP"), V(VNone)}
RefScopeLeaves == {P("n", <<"n">>), P("a", <<"a">>), F("inc")}
FalsyLeaves == {P("a", <<"a">>), P("k", <<"k">>), P("z", <<"z">>), P("n", <<"n">>), P("b", <<"b">>),
                F("ident"), F("size"), F("inc"), F("ret_None"), F("ret_SKIP"),
                V(VInt(0)), V(S("")), V(VBool(FALSE))}
HardLeaves == {P("h", <<"h">>), P("j", <<"j">>), P("g", <<"g">>), P("o", <<"o">>), P("e", <<"e">>),
               TT(<<>>), F("ident"), F("inc"), F("ret_STOP")}
IdxLeaves == {P("0", <<"0">>), P("1", <<"1">>), P("2", <<"2">>), P("-1", <<"-1">>), P("-2", <<"-2">>), P("-3", <<"-3">>),
              TT(<<Step("[", VInt(0))>>), TT(<<Step("[", VInt(1))>>), TT(<<Step("[", VInt(2))>>),
              TT(<<Step("[", VInt(-1))>>), TT(<<Step("[", VInt(-3))>>)}
ClsLeaves == {F("Tagged"), P("a", <<"a">>), TT(<<Step("[", S("a"))>>), Wrap("spec", F("Tagged")), F("inc"), F("ret_SKIP")}
RefLeaves == {P("n", <<"n">>), P("a", <<"a">>), F("inc")}
LeavesOf(c) == (CASE c.leaf = "tiny" -> TinyLeaves [] c.leaf = "refl" -> RefLeaves [] c.leaf = "clsl" -> ClsLeaves [] c.leaf = "falsyl" -> FalsyLeaves [] c.leaf = "hardl" -> HardLeaves
                  [] c.leaf = "idxl" -> IdxLeaves [] c.leaf = "reflx" -> RefScopeLeaves [] c.leaf = "scopel" -> ScopeLeaves [] c.leaf = "setl" -> SetLeaves [] c.leaf = "nonel" -> NoneLeaves [] c.leaf = "argtiny" -> ArgTinyLeaves [] c.leaf = "small" -> SmallLeaves [] c.leaf = "full" -> FullLeaves
                  [] c.leaf = "argsmall" -> ArgSmallLeaves [] OTHER -> ArgLeaves)
               \cup (IF \E i \in 1..Len(c.kinds) : c.kinds[i] = "ref" THEN {RefUse} ELSE {})

\* Coalesce options
DNone == [kind |-> "none"]
DArg(a) == [kind |-> "arg", a |-> a]
DFac(name) == [kind |-> "factory", name |-> name]
SkNone == [kind |-> "none"]
SkVal(v) == [kind |-> "val", v |-> v]
SkTup(vs) == [kind |-> "tuple", vs |-> vs]
SkPred(name) == [kind |-> "pred", name |-> name]
Opt(d, sk, ex) == [dflt |-> d, skip |-> sk, skipexc |-> ex]
GE == <<"GlomError">>
BasicOpts == {Opt(DNone, SkNone, GE), Opt(DArg(K(VNone)), SkNone, GE), Opt(DArg(K(SKIP)), SkVal(VInt(1)), GE),
              Opt(DFac("mk0"), SkPred("is_none"), GE), Opt(DNone, SkTup(<<VInt(0), VNone>>), <<"KeyError">>),
              Opt(DArg(TT(<<Step("[", S("a"))>>)), SkNone, <<"ValueError", "TypeError">>)}
FullOpts == {Opt(d, sk, ex) :
               d \in {DNone, DArg(K(VNone)), DArg(K(SKIP)), DArg(K(STOP)), DArg(TT(<<Step("[", S("a"))>>)),
                      DArg(TT(<<Step("[", S("x"))>>)), DArg([op |-> "list", kids |-> <<TT(<<>>), P("a", <<"a">>), F("inc")>>]),
                      DFac("mk0"), DFac("echo"), DFac("raise_KeyError")},
               sk \in {SkNone, SkVal(VInt(1)), SkVal(VBool(TRUE)), SkVal(VNone), SkTup(<<VInt(0), VNone>>), SkTup(<<>>),
                       SkPred("is_none"), SkPred("is_int"), SkPred("raise_GlomError"), SkPred("raise_ValueError")},
               ex \in {GE, <<"KeyError">>, <<"ValueError", "TypeError">>, <<"Exception">>, <<"PathAccessError">>, <<>>}}
\* falsy defaults (must be returned as they are), falsy / empty-container skip values
ELit(op) == IF op = "list" THEN [op |-> "list", kids |-> <<>>] ELSE Dict(FALSE, <<>>, <<>>)
SkE(k) == [k |-> k]                                  \* skip-only values: an empty list / dict literal
FalsyOpts == {Opt(d, sk, GE) :
                d \in {DNone, DArg(K(VInt(0))), DArg(K(S(""))), DArg(K(VBool(FALSE))), DArg(ELit("list")), DArg(ELit("dict")), DFac("mk0")},
                sk \in {SkNone, SkVal(VInt(0)), SkVal(S("")), SkVal(VBool(FALSE)), SkVal(VNone), SkVal(SkE("elist")),
                        SkTup(<<S(""), VNone>>), SkTup(<<SkE("elist"), SkE("edict"), VNone>>)}}
HostileOpts == {Opt(d, sk, ex) :
                  d \in {DNone, DArg(K(VNone))},
                  sk \in {SkNone, SkVal(VInt(0)), SkVal(SKIP), SkTup(<<VInt(0), VNone>>), SkTup(<<SkE("elist")>>)},
                  ex \in {GE, <<"TypeError">>}}
MidOpts == {Opt(d, sk, ex) :
               d \in {DNone, DArg(K(SKIP)), DArg(TT(<<Step("[", S("a"))>>)), DFac("echo")},
               sk \in {SkNone, SkVal(VBool(TRUE)), SkTup(<<VInt(0), VNone>>), SkPred("is_none"), SkPred("raise_GlomError")},
               ex \in {GE, <<"KeyError">>, <<"ValueError", "TypeError">>, <<>>}}
OneOpt == {Opt(DArg(K(VNone)), SkNone, GE)}
CoalOptsOf(c) == CASE c.coal = "one" -> OneOpt [] c.coal = "falsy" -> FalsyOpts [] c.coal = "hostile" -> HostileOpts [] c.coal = "full" -> FullOpts [] c.coal = "mid" -> MidOpts [] OTHER -> BasicOpts

\* Inspect(x, recursive=, echo=, breakpoint=, post_mortem=)
Insp(kid, rec, echo, bp, pm) == [op |-> "inspect", kids |-> <<kid>>, rec |-> rec, echo |-> echo, bp |-> bp, pm |-> pm]
InspVariants == {<<FALSE, TRUE, "", "">>, <<FALSE, FALSE, "", "">>, <<TRUE, TRUE, "", "">>,
                 <<FALSE, TRUE, "mk0", "echo">>, <<TRUE, FALSE, "mk0", "mk0">>, <<FALSE, FALSE, "raise_KeyError", "">>,
                 <<FALSE, FALSE, "", "raise_KeyError">>}
\* top-level call variants
TOpt(d, ex, sc) == [dflt |-> d, skipexc |-> ex, scope |-> sc]
TopOptsOf(c) ==
  CASE c.top = "some"  -> {NoOpts, TOpt(<<VInt(7)>>, <<>>, <<>>), TOpt(<<>>, << <<"KeyError">> >>, <<>>),
                           TOpt(<<VInt(7)>>, << <<"KeyError">> >>, <<>>), TOpt(<<SKIP>>, << <<"ValueError", "TypeError">> >>, <<>>),
                           TOpt(<<VNone>>, << <<>> >>, <<>>)}
    [] c.top = "falsy" -> {NoOpts, TOpt(<<VInt(0)>>, <<>>, <<>>), TOpt(<<S("")>>, <<>>, <<>>), TOpt(<<VBool(FALSE)>>, << <<"Exception">> >>, <<>>)}
    [] c.top = "scope" -> {NoOpts, TOpt(<<>>, <<>>, << <<"v", VInt(9)>> >>)}
    [] OTHER           -> {NoOpts}

\* Call: func position
CallFuncs == {F("echo"), F("pair"), TT(<<Step("[", S("f"))>>), TT(<<Step("[", S("a"))>>),
              Wrap("spec", P("f", <<"f">>))}
KwPatterns == {<<>>, <<"x">>, <<"y">>}
EmptyDict == Dict(FALSE, <<>>, <<>>)
KwDict(names, kids) == Dict(FALSE, [i \in 1..Len(names) |-> Lit(S(names[i]))], kids)

\* Invoke templates over n kids (specs); constants are values
Chunk(c, args, kw) == [c |-> c, args |-> args, kw |-> kw]
Inv(func, chunks) == [op |-> "invoke", func |-> func, chunks |-> chunks]
InvTemplates(k) ==          \* k: sequence of kid specs
  LET n == Len(k) e == F("echo") IN
  IF n = 0 THEN {Inv(e, <<>>), Inv(e, <<Chunk("C", <<VInt(1)>>, << <<S("x"), VInt(2)>> >>)>>),
                 Inv(F("inc"), <<Chunk("C", <<VInt(1)>>, <<>>)>>),
                 Inv(F("inc"), <<>>), Inv(TT(<<Step("[", S("f"))>>), <<Chunk("C", <<VInt(4)>>, <<>>)>>),
                 Inv(Wrap("spec", P("a", <<"a">>)), <<>>)}
  ELSE IF n = 1 THEN
    {Inv(e, <<Chunk("S", k, <<>>)>>),
     Inv(e, <<Chunk("S", <<>>, << <<S("x"), k[1]>> >>)>>),
     Inv(e, <<Chunk("S", <<>>, << <<S("x"), k[1]>> >>), Chunk("C", <<>>, << <<S("x"), VInt(5)>> >>)>>),   \* overridden: not evaluated
     Inv(e, <<Chunk("C", <<VInt(1)>>, << <<S("x"), VInt(5)>>, <<S("y"), VInt(6)>> >>), Chunk("S", <<>>, << <<S("x"), k[1]>> >>)>>),
     Inv(e, <<Chunk("*", k, <<>>)>>),
     Inv(e, <<Chunk("*", <<>>, k)>>),
     Inv(e, <<Chunk("C", <<>>, << <<S("x"), VInt(5)>> >>), Chunk("*", <<>>, k), Chunk("C", <<>>, << <<S("y"), VInt(6)>> >>)>>),
     Inv(F("pair"), <<Chunk("S", k, <<>>)>>),
     Inv(Wrap("spec", k[1]), <<Chunk("C", <<VInt(1)>>, <<>>)>>),
     Inv(Wrap("spec", P("f", <<"f">>)), <<Chunk("S", k, <<>>)>>)}
  ELSE
    {Inv(e, <<Chunk("S", k, <<>>)>>),
     Inv(e, <<Chunk("S", <<k[1]>>, <<>>), Chunk("S", <<k[2]>>, <<>>)>>),
     Inv(e, <<Chunk("S", <<k[1]>>, << <<S("x"), k[2]>> >>)>>),
     Inv(e, <<Chunk("S", <<>>, << <<S("x"), k[1]>>, <<S("y"), k[2]>> >>)>>),
     Inv(e, <<Chunk("S", <<>>, << <<S("x"), k[1]>> >>), Chunk("S", <<>>, << <<S("x"), k[2]>> >>)>>),      \* k[1] overridden
     Inv(e, <<Chunk("S", <<>>, << <<S("x"), k[1]>> >>), Chunk("*", <<>>, <<k[2]>>)>>),
     Inv(e, <<Chunk("*", <<k[1]>>, <<k[2]>>)>>),
     Inv(e, <<Chunk("*", <<k[1]>>, <<>>), Chunk("*", <<k[2]>>, <<>>)>>),
     Inv(F("pair"), <<Chunk("S", <<k[1]>>, << <<S("y"), k[2]>> >>)>>),
     Inv(Wrap("spec", k[1]), <<Chunk("S", <<k[2]>>, <<>>)>>)}

KeySpecs == {TT(<<Step("[", S("k"))>>), Wrap("spec", P("k", <<"k">>)), Wrap("spec", F("ret_SKIP")),
             TT(<<Step("[", S("b"))>>), TT(<<Step("[", S("x"))>>)}
LitKeyNames == <<S("p"), S("q"), S("r")>>

\* ---- the stack machine ----------------------------------------------------------------------
VARIABLES opts,     \* the top-level arguments of the case (NoOpts until the case is evaluated)
          fam,      \* name of the universe this behaviour belongs to
          conf,     \* = Conf[fam] (kept in the state so that the bounds are cheap to read)
          stack, nodes, phase, root, pred
vars == <<opts, fam, conf, stack, nodes, phase, root, pred>>
KindOn(k) == \E i \in 1..Len(conf.kinds) : conf.kinds[i] = k
Leaves == LeavesOf(conf)
CoalOpts == CoalOptsOf(conf)
MaxDepth == conf.depth
MaxNodes == conf.nodes
MaxWidth == conf.width
MaxStack == conf.stack
Roots == {conf.roots[i] : i \in 1..Len(conf.roots)}

El(s, d, open, insp) == [s |-> s, d |-> d, open |-> open, insp |-> insp]
AnyInsp(els) == \E i \in 1..Len(els) : els[i].insp
Top(n)   == SubSeq(stack, Len(stack) - n + 1, Len(stack))
Below(n) == SubSeq(stack, 1, Len(stack) - n)
KidsOf(els) == [i \in 1..Len(els) |-> els[i].s]
MaxD(els) == IF els = <<>> THEN 0 ELSE CHOOSE d \in {els[i].d : i \in 1..Len(els)} : \A i \in 1..Len(els) : els[i].d <= d
AnyOpen(els) == \E i \in 1..Len(els) : els[i].open
\* chains whose non-last direct step switches the mode or binds a Ref are C07 / C08 territory
ChainOk(kids) == \A i \in 1..(Len(kids) - 1) : ~Leaky(kids[i])

Made(n, s, closes) ==       \* replace the topmost n trees by the composite s
  /\ nodes < MaxNodes
  /\ MaxD(Top(n)) < MaxDepth
  /\ stack' = Append(Below(n), El(s, MaxD(Top(n)) + 1, AnyOpen(Top(n)) /\ ~closes, AnyInsp(Top(n)) \/ s.op = "inspect"))
  /\ nodes' = nodes + 1
  /\ UNCHANGED <<opts, fam, conf, phase, root, pred>>

Push ==
  /\ phase = 0 /\ Len(stack) < MaxStack /\ nodes < MaxNodes
  /\ \E l \in Leaves :
       /\ stack' = Append(stack, El(l, 1, l.op = "ref", FALSE))
       /\ nodes' = nodes + 1
  /\ UNCHANGED <<opts, fam, conf, phase, root, pred>>

Compose ==
  /\ phase = 0
  /\ \E n \in 0..MaxWidth :
       /\ Len(stack) >= n
       /\ LET kids == KidsOf(Top(n)) IN
          \/ /\ KindOn("dict") /\ n >= 1
             /\ Made(n, Dict(FALSE, [i \in 1..n |-> Lit(LitKeyNames[i])], kids), FALSE)
          \/ /\ KindOn("odict") /\ n >= 1
             /\ Made(n, Dict(TRUE, [i \in 1..n |-> Lit(LitKeyNames[i])], kids), FALSE)
          \/ /\ KindOn("dictk") /\ n >= 1
             /\ \E ks \in KeySpecs : \E pos \in {1, n} :
                  Made(n, Dict(FALSE, [i \in 1..n |-> IF i = pos THEN KeyS(ks) ELSE Lit(LitKeyNames[i])], kids), FALSE)
          \/ /\ KindOn("dict0") /\ n >= 1        \* falsy literal keys; a T key that evaluates to a falsy value
             /\ \/ Made(n, Dict(FALSE, [i \in 1..n |-> Lit(<<VInt(0), S(""), VNone>>[i])], kids), FALSE)
                \/ \E ks \in {TT(<<Step("[", S("a"))>>), TT(<<Step("[", S("z"))>>), TT(<<Step("[", S("k"))>>)} :
                     Made(n, Dict(FALSE, [i \in 1..n |-> IF i = 1 THEN KeyS(ks) ELSE Lit(S("q"))], kids), FALSE)
          \/ /\ KindOn("edge")                     \* boundary arities: {} , [] , [a, b] , Pipe() , Coalesce()
             /\ \/ n = 0 /\ Made(n, Dict(FALSE, <<>>, <<>>), FALSE)
                \/ n \in {0, 2} /\ Made(n, [op |-> "list", kids |-> kids], FALSE)
                \/ n = 0 /\ Made(n, [op |-> "pipe", kids |-> <<>>], FALSE)
                \/ n = 0 /\ \E o \in CoalOpts : Made(n, [op |-> "coalesce", kids |-> <<>>, dflt |-> o.dflt, skip |-> o.skip, skipexc |-> o.skipexc], FALSE)
          \/ /\ KindOn("cls")                      \* a class that defines glomit, in callable / func / argument / factory position
             /\ \/ Made(n, [op |-> "call", func |-> F("Tagged"), args |-> Tup(kids), kwargs |-> EmptyDict], FALSE)
                \/ n >= 1 /\ Made(n, Inv(F("Tagged"), <<Chunk("S", kids, <<>>)>>), FALSE)
                \/ n = 1 /\ Made(n, [op |-> "call", func |-> F("echo"), args |-> Tup(<<F("Tagged"), kids[1]>>), kwargs |-> EmptyDict], FALSE)
                \/ n = 1 /\ Made(n, [op |-> "coalesce", kids |-> kids, dflt |-> DFac("mk0"), skip |-> SkPred("Tagged"), skipexc |-> GE], FALSE)
          \/ KindOn("ntuple") /\ n = 2 /\ ChainOk(kids) /\ Made(n, [op |-> "ntuple", kids |-> kids], FALSE)
          \/ KindOn("list") /\ n = 1 /\ Made(n, [op |-> "list", kids |-> kids], FALSE)
          \/ KindOn("tuple") /\ ChainOk(kids) /\ Made(n, Tup(kids), FALSE)
          \/ KindOn("pipe") /\ n >= 1 /\ ChainOk(kids) /\ Made(n, [op |-> "pipe", kids |-> kids], FALSE)
          \/ KindOn("spec") /\ n = 1 /\ Made(n, Wrap("spec", kids[1]), FALSE)
          \/ KindOn("fill") /\ n = 1 /\ Made(n, Wrap("fill", kids[1]), FALSE)
          \/ KindOn("auto") /\ n = 1 /\ Made(n, Wrap("auto", kids[1]), FALSE)
          \/ /\ KindOn("ref") /\ n = 1 /\ (AnyOpen(Top(n)) \/ KindOn("refopen"))   \* ("refopen": also definitions nobody uses)
             /\ Made(n, [op |-> "ref", name |-> "r", def |-> TRUE, kids |-> kids], TRUE)
          \/ /\ KindOn("coalesce") /\ n >= 1
             /\ \E o \in CoalOpts :
                  Made(n, [op |-> "coalesce", kids |-> kids, dflt |-> o.dflt, skip |-> o.skip, skipexc |-> o.skipexc], FALSE)
          \/ /\ KindOn("call")
             /\ \E f \in CallFuncs : \E kwn \in KwPatterns :
                  /\ Len(kwn) <= n
                  /\ Made(n, [op |-> "call", func |-> f, args |-> Tup(SubSeq(kids, 1, n - Len(kwn))),
                              kwargs |-> KwDict(kwn, SubSeq(kids, n - Len(kwn) + 1, n))], FALSE)
          \/ /\ KindOn("call") /\ n = 1       \* args / kwargs given by a spec instead of a literal
             /\ \/ Made(n, [op |-> "call", func |-> F("echo"), args |-> kids[1], kwargs |-> EmptyDict], FALSE)
                \/ Made(n, [op |-> "call", func |-> F("echo"), args |-> Tup(<<>>), kwargs |-> kids[1]], FALSE)
          \/ /\ KindOn("refshadow") /\ n = 2      \* one name defined twice: the inner definition ends with its sub-spec
             /\ \E useFirst \in BOOLEAN :
                  LET inner == [op |-> "ref", name |-> "r", def |-> TRUE, kids |-> <<kids[1]>>]
                      use   == Tup(<<kids[2], RefUse>>)
                      body  == IF useFirst THEN Dict(FALSE, <<Lit(S("p")), Lit(S("q"))>>, <<use, inner>>)
                               ELSE Dict(FALSE, <<Lit(S("p")), Lit(S("q"))>>, <<inner, use>>) IN
                  Made(n, [op |-> "ref", name |-> "r", def |-> TRUE, kids |-> <<body>>], TRUE)
          \/ /\ KindOn("inspect") /\ n = 1
             /\ \E iv \in InspVariants :
                  \* an Inspect below a recursive Inspect makes the library recurse without end (reported);
                  \* such trees are kept out of the universe
                  /\ (iv[1] => ~AnyInsp(Top(n)))
                  /\ Made(n, Insp(kids[1], iv[1], iv[2], iv[3], iv[4]), FALSE)
          \/ /\ KindOn("set") /\ n <= 1
             /\ \E fz \in BOOLEAN : Made(n, [op |-> "set", kids |-> kids, frozen |-> fz], FALSE)
          \/ /\ KindOn("sset") /\ n \in {1, 2}
             /\ Made(n, [op |-> "sset", names |-> SubSeq(<<"v", "w">>, 1, n), kids |-> kids], FALSE)
          \/ /\ KindOn("specs") /\ n = 1
             /\ Made(n, [op |-> "specs", kids |-> kids, scope |-> << <<"v", VInt(5)>> >>], FALSE)
          \/ /\ KindOn("invoke") /\ n <= 2
             /\ \E iv \in InvTemplates(kids) : Made(n, iv, FALSE)

Evaluate ==
  /\ phase = 0 /\ Len(stack) = 1 /\ (~stack[1].open \/ KindOn("refopen"))       \* ("refopen": also uses nothing defines)
  /\ \E r \in Roots : \E o \in TopOptsOf(conf) :
       /\ root' = RootTab[r] /\ opts' = o
       /\ pred' = Outcome(RunTop(TargetHeap, RootTab[r], stack[1].s, o, Mutant), Len(TargetHeap))
  /\ phase' = 1
  /\ UNCHANGED <<fam, conf, stack, nodes>>

Init == /\ fam \in Families
        /\ conf = Conf[fam]
        /\ opts = NoOpts
        /\ stack = <<>> /\ nodes = 0 /\ phase = 0 /\ root = VNone
        /\ pred = [skip |-> "init"]
        /\ (fam = CHOOSE f \in Families : TRUE) => PrintT(ToJson([targetheap |-> TargetHeap]))
Next == Push \/ Compose \/ Evaluate

\* ---- the laws, on every case ------------------------------------------------------------------
TheSpec == stack[1].s
\* (cases the model places outside its fragment carry no prediction and are not judged)
Laws == phase = 1 /\ pred.skip = "" => Lawful(St0(TargetHeap), TopEnv(opts, Mutant), root, TheSpec)
\* (L12) top level: glom(t, spec, default=d, skip_exc=E) is glom(t, spec) unless that raises an exception
\*       of a class in E (GlomError when only d is given): then it is d itself (None when only E is given),
\*       with everything the evaluation did up to the failure (the call log) unchanged
TopLaw == phase = 1 /\ pred.skip = "" =>
  LET W == RunTop(TargetHeap, root, TheSpec, opts, Mutant)
      X == RunTop(TargetHeap, root, TheSpec, [NoOpts EXCEPT !.scope = opts.scope], Mutant)
      given == opts.dflt # <<>> \/ opts.skipexc # <<>>
      cls == IF opts.skipexc # <<>> THEN opts.skipexc[1] ELSE <<"GlomError">> IN
  IF X.ok \/ ~given \/ ~Catches(cls, X.exc) THEN W = X
  ELSE W = ROk(X.st, IF opts.dflt # <<>> THEN opts.dflt[1] ELSE VNone)
Once == phase = 1 /\ pred.skip = "" => OnceLaw(TargetHeap, root, TheSpec, Mutant)
====================================================================================
