----------------------------------- MODULE GlomT -----------------------------------
(* T expressions (property C02) and wildcard traversal (property C14).               *)
(*                                                                                   *)
(* A T expression is a sequence of recorded operations [op, arg]:                     *)
(*   "."  attribute, arg = VStr(name)                                                  *)
(*   "["  item, arg = argument expression (may be a slice)                             *)
(*   "("  call, arg = [args |-> seq of argument expressions,                           *)
(*                     kwargs |-> seq of <<name string, argument expression>>]        *)
(*   "+" "-" "*" "/" "#" "%" ":" "&" "|" "^"  binary arithmetic; "*" is times, "#" is   *)
(*        floor division and ":" is power                                              *)
(*   "~" "_"  unary invert / negate                                                    *)
(*   "x" "X"  the wildcards * and **                                                   *)
(*   "P"  a Path segment (handler registered for the current value's type)             *)
(* An argument expression is                                                           *)
(*   [a |-> "lit", v |-> value]        passed through literally (identity preserved)    *)
(*   [a |-> "t", ops |-> ops]          nested T: evaluated against the ORIGINAL target  *)
(*   [a |-> "spec", ops |-> ops]       Spec(T...): likewise                             *)
(*   [a |-> "slice", lo, hi, st]       slice(lo, hi, st), components int or none values *)
(*   [a |-> "list" | "tuple", items]   a container holding argument expressions: rebuilt *)
(*   [a |-> "dict", items |-> seq of <<argexpr, argexpr>>]  with the same type and shape *)
(*                                                                                   *)
(* The LAW is PyApply: the direct application of the same Python operations to the    *)
(* target.  The evaluator threads the heap because operations create objects (list    *)
(* concatenation, slices, rebuilt argument containers, wildcard result lists).        *)
(* The first failing operation k yields PathAccessError(part index k, class of the    *)
(* Python exception); exceptions raised by *called user functions* keep their class   *)
(* (see C04) and propagate as themselves.                                              *)
EXTENDS GlomAccess, Bitwise

Lit(v) == [a |-> "lit", v |-> v]
TArg(ops) == [a |-> "t", ops |-> ops]
SpecArg(ops) == [a |-> "spec", ops |-> ops]
SliceArg(lo, hi, st) == [a |-> "slice", lo |-> lo, hi |-> hi, st |-> st]
VSlice(lo, hi, st) == [k |-> "slice", lo |-> lo, hi |-> hi, st |-> st]

Limit == 100000       \* integer results beyond this are outside the modelled universe

\* ---- outcome constructors (heap-threading) ----------------------------------------------
R(heap, out) == [heap |-> heap, out |-> out]
OutOfModel == Exc("OUT_OF_MODEL")
IsOut(o) == ~o.ok /\ o.exc = "OUT_OF_MODEL"
Alloc(heap, cell) == [heap |-> Append(heap, cell), v |-> VRef(Len(heap) + 1)]

\* ---- Python integer arithmetic -------------------------------------------------------------
Abs(x) == IF x < 0 THEN -x ELSE x
RECURSIVE Gcd(_, _)
Gcd(a, b) == IF b = 0 THEN Abs(a) ELSE Gcd(b, a % b)
MkFrac(n, d) ==        \* normalised: d > 0, lowest terms  (the value of a Python float)
  LET s == IF d < 0 THEN -1 ELSE 1
      g == Gcd(Abs(n), Abs(d))
  IN VFrac((s * n) \div g, (s * d) \div g)
PyFloorDiv(a, b) == IF b > 0 THEN a \div b ELSE (-a) \div (-b)
PyMod(a, b) == a - b * PyFloorDiv(a, b)
RECURSIVE Pow(_, _)
Pow(a, n) == IF n = 0 THEN 1 ELSE a * Pow(a, n - 1)
\* two's complement bit operations on small ints (|x| < 2^15)
ToU(x) == IF x < 0 THEN x + 65536 ELSE x
FromU(u) == IF u >= 32768 THEN u - 65536 ELSE u
BitOp(op, a, b) ==
  FromU(CASE op = "&" -> ToU(a) & ToU(b)
          [] op = "|" -> ToU(a) | ToU(b)
          [] op = "^" -> ToU(a) ^^ ToU(b))

IntOut(heap, i) == IF Abs(i) > Limit THEN R(heap, OutOfModel) ELSE R(heap, Ok(VInt(i)))

IntBin(heap, op, a, b) ==
  CASE op = "+" -> IntOut(heap, a + b)
    [] op = "-" -> IntOut(heap, a - b)
    [] op = "*" -> IntOut(heap, a * b)
    [] op = "/" -> IF b = 0 THEN R(heap, Exc("ZeroDivisionError")) ELSE R(heap, Ok(MkFrac(a, b)))
    [] op = "#" -> IF b = 0 THEN R(heap, Exc("ZeroDivisionError")) ELSE IntOut(heap, PyFloorDiv(a, b))
    [] op = "%" -> IF b = 0 THEN R(heap, Exc("ZeroDivisionError")) ELSE IntOut(heap, PyMod(a, b))
    [] op = ":" -> IF b >= 0 THEN (IF b > 6 \/ Abs(a) > 20 THEN R(heap, OutOfModel) ELSE IntOut(heap, Pow(a, b)))
                   ELSE IF a = 0 THEN R(heap, Exc("ZeroDivisionError"))
                   ELSE IF b < -6 \/ Abs(a) > 20 THEN R(heap, OutOfModel)
                   ELSE R(heap, Ok(MkFrac(1, Pow(a, -b))))
    [] op \in {"&", "|", "^"} ->
         IF Abs(a) >= 32768 \/ Abs(b) >= 32768 THEN R(heap, OutOfModel) ELSE IntOut(heap, BitOp(op, a, b))

\* exact rational arithmetic standing for float arithmetic, only where it is exact enough
\* to be compared (+ - * with ints or fracs); everything else on floats is out of the model
FracParts(v) == IF v.k = "int" THEN <<v.i, 1>> ELSE <<v.n, v.d>>
FracBin(heap, op, x, y) ==
  LET p == FracParts(x) q == FracParts(y) IN
  IF Abs(p[1]) > 1000 \/ Abs(q[1]) > 1000 \/ p[2] > 1000 \/ q[2] > 1000 THEN R(heap, OutOfModel)
  ELSE CASE op = "+" -> R(heap, Ok(MkFrac(p[1] * q[2] + q[1] * p[2], p[2] * q[2])))
         [] op = "-" -> R(heap, Ok(MkFrac(p[1] * q[2] - q[1] * p[2], p[2] * q[2])))
         [] op = "*" -> R(heap, Ok(MkFrac(p[1] * q[1], p[2] * q[2])))
         [] OTHER -> R(heap, OutOfModel)

RECURSIVE Repeat(_, _)
Repeat(sq, n) == IF n <= 0 THEN <<>> ELSE sq \o Repeat(sq, n - 1)

IsNum(v) == v.k \in {"int", "frac"}
\* Python  a <op> b   for the value kinds of the universe
PyBin(heap, op, a, b) ==
  IF a.k = "int" /\ b.k = "int" THEN IntBin(heap, op, a.i, b.i)
  ELSE IF IsNum(a) /\ IsNum(b) THEN FracBin(heap, op, a, b)
  ELSE IF a.k = "str" /\ b.k = "str" /\ op = "+" THEN R(heap, Ok(VStr(a.s \o b.s)))
  ELSE IF a.k = "str" /\ op = "%" THEN R(heap, OutOfModel)           \* printf formatting: not modelled
  ELSE IF op = "*" /\ ((a.k = "str" /\ b.k = "int") \/ (a.k = "int" /\ b.k = "str")) THEN R(heap, OutOfModel)
  ELSE IF IsRef(a) /\ IsRef(b) /\ op = "+" /\ heap[a.a].cls = heap[b.a].cls /\ heap[a.a].cls \in {"list", "tuple"}
       THEN LET al == Alloc(heap, Cell(heap[a.a].cls, heap[a.a].items \o heap[b.a].items))
            IN R(al.heap, Ok(al.v))
  ELSE IF op = "*" /\ IsRef(a) /\ b.k = "int" /\ heap[a.a].cls \in {"list", "tuple"}
       THEN LET al == Alloc(heap, Cell(heap[a.a].cls, Repeat(heap[a.a].items, b.i))) IN R(al.heap, Ok(al.v))
  ELSE IF op = "*" /\ IsRef(b) /\ a.k = "int" /\ heap[b.a].cls \in {"list", "tuple"}
       THEN LET al == Alloc(heap, Cell(heap[b.a].cls, Repeat(heap[b.a].items, a.i))) IN R(al.heap, Ok(al.v))
  ELSE IF (IsRef(a) /\ heap[a.a].cls \in {"dict", "odict", "set", "frozenset"}) \/
          (IsRef(b) /\ heap[b.a].cls \in {"dict", "odict", "set", "frozenset"}) \/
          a.k = "bool" \/ b.k = "bool"
       THEN R(heap, OutOfModel)             \* dict | dict, set algebra, bool arithmetic: not modelled
  ELSE R(heap, Exc("TypeError"))

PyUnary(heap, op, a) ==
  IF a.k = "int" THEN R(heap, Ok(VInt(IF op = "~" THEN -a.i - 1 ELSE -a.i)))
  ELSE IF a.k = "frac" THEN (IF op = "_" THEN R(heap, Ok(VFrac(-a.n, a.d))) ELSE R(heap, Exc("TypeError")))
  ELSE IF a.k = "bool" THEN R(heap, OutOfModel)
  ELSE R(heap, Exc("TypeError"))

\* ---- Python slicing (PySlice_AdjustIndices) ---------------------------------------------------
SliceIndices(n, sl) ==          \* sequence of 0-based indices selected by slice sl on length n
  LET step == IF sl.st.k = "none" THEN 1 ELSE sl.st.i
      adj(v, isStart) ==
        IF v.k = "none"
        THEN (IF step > 0 THEN (IF isStart THEN 0 ELSE n) ELSE (IF isStart THEN n - 1 ELSE -1))
        ELSE LET w == IF v.i < 0 THEN v.i + n ELSE v.i IN
             IF w < 0 THEN (IF step < 0 THEN -1 ELSE 0)
             ELSE IF w >= n THEN (IF step < 0 THEN n - 1 ELSE n)
             ELSE w
      start == adj(sl.lo, TRUE)
      stop == adj(sl.hi, FALSE)
      cnt == IF step > 0 THEN (IF stop > start THEN (stop - start + step - 1) \div step ELSE 0)
             ELSE (IF start > stop THEN (start - stop - step - 1) \div (-step) ELSE 0)
  IN [j \in 1..cnt |-> start + (j - 1) * step]

SliceOk(sl) == /\ sl.lo.k \in {"none", "int"} /\ sl.hi.k \in {"none", "int"} /\ sl.st.k \in {"none", "int"}

\* hash(v) raises TypeError: list, dict, set, and a tuple holding (at any depth) such a value -- a tuple can
\* only reach itself through a mutable container, so the recursion ends
RECURSIVE Unhashable(_, _)
Unhashable(heap, v) ==
  IsRef(v) /\ (\/ heap[v.a].cls \in {"list", "dict", "odict", "set"}
               \/ heap[v.a].cls = "tuple" /\ \E j \in 1..Len(heap[v.a].items) : Unhashable(heap, heap[v.a].items[j]))

\* everything but iteration treats a "badlist" as the list it is
AsList(heap) == [a \in 1..Len(heap) |-> IF heap[a].cls = "badlist" THEN [heap[a] EXCEPT !.cls = "list"] ELSE heap[a]]

\* cur[arg] including slices; may allocate
GetItemX(heap, cur, arg) ==
  IF arg.k # "slice" THEN
    (IF IsRef(arg) THEN
        \* an index that is itself a container: unhashable ones (list, dict, set) make a mapping
        \* lookup fail with TypeError, hashable ones (tuple, frozenset, objects) are simply absent;
        \* sequences, strings and everything else reject any non-integer index with TypeError
        (IF IsRef(cur) /\ heap[cur.a].cls \in {"dict", "odict", "baddict"}
         THEN (IF Unhashable(heap, arg) THEN R(heap, Exc("TypeError"))
               ELSE IF HasKey(heap[cur.a].items, arg) THEN R(heap, OutOfModel) ELSE R(heap, Exc("KeyError")))
         ELSE R(heap, Exc("TypeError")))
     ELSE IF IsRef(cur) /\ heap[cur.a].cls = "badlist"
     THEN (IF arg.k \in {"int", "str"} THEN R(heap, GetItem(AsList(heap), cur, arg)) ELSE R(heap, OutOfModel))
     ELSE IF IsRef(cur) /\ heap[cur.a].cls = "baddict"
     THEN (IF arg = VStr("b") THEN R(heap, Exc("RuntimeError"))
           ELSE IF HasKey(heap[cur.a].items, arg) THEN R(heap, Ok(Lookup(heap[cur.a].items, arg))) ELSE R(heap, Exc("KeyError")))
     ELSE IF cur.k = "str" /\ cur.s \notin DOMAIN StrChars /\ arg.k = "int" THEN R(heap, OutOfModel)   \* string not in the table
     ELSE IF cur.k = "sent" /\ arg.k \in {"int", "bool"} THEN R(heap, OutOfModel)      \* indexing an opaque scalar (a bytes value)
     ELSE IF arg.k \in {"int", "str", "none"} THEN R(heap, GetItem(heap, cur, arg)) ELSE R(heap, OutOfModel))
  ELSE IF ~SliceOk(arg) THEN R(heap, Exc("TypeError"))
  ELSE IF arg.st.k = "int" /\ arg.st.i = 0 THEN
         (IF (IsRef(cur) /\ heap[cur.a].cls \in {"list", "tuple"}) \/ cur.k = "str"
          THEN R(heap, Exc("ValueError"))
          ELSE IF IsRef(cur) /\ heap[cur.a].cls \in {"dict", "odict"} THEN R(heap, Exc("KeyError"))
          ELSE R(heap, Exc("TypeError")))
  ELSE IF IsRef(cur) /\ heap[cur.a].cls \in {"list", "tuple"} THEN
         LET c == heap[cur.a]
             ix == SliceIndices(Len(c.items), arg)
             al == Alloc(heap, Cell(c.cls, [j \in 1..Len(ix) |-> c.items[ix[j] + 1]]))
         IN R(al.heap, Ok(al.v))
  ELSE IF IsRef(cur) /\ heap[cur.a].cls \in {"dict", "odict"} THEN R(heap, Exc("KeyError"))  \* slices hash (3.12)
  ELSE IF cur.k = "str" THEN R(heap, OutOfModel)
  ELSE R(heap, Exc("TypeError"))

\* ---- library of callables -----------------------------------------------------------------------
\* echo(*a, **kw) -> (a, kw);  first(x, ...) -> x;  boom(...) raises ValueError;  seven() -> 7
CallFn(heap, f, args, kwargs) ==
  IF IsRef(f) /\ heap[f.a].cls = "cobj" THEN R(heap, Ok(VStr("called")))     \* a callable object: __call__(*a, **kw) -> "called"
  ELSE IF f.k # "fn" THEN R(heap, Exc("TypeError"))                      \* not callable
  ELSE CASE f.s = "echo" ->
              LET a1 == Alloc(heap, Cell("tuple", args))
                  a2 == Alloc(a1.heap, Cell("dict", [j \in 1..Len(kwargs) |-> <<VStr(kwargs[j][1]), kwargs[j][2]>>]))
                  a3 == Alloc(a2.heap, Cell("tuple", <<a1.v, a2.v>>))
              IN R(a3.heap, Ok(a3.v))
         [] f.s = "first" -> IF Len(args) >= 1 /\ Len(kwargs) = 0 THEN R(heap, Ok(args[1])) ELSE R(heap, Exc("TypeError"))
         [] f.s = "boom" -> R(heap, Exc("ValueError"))
         [] f.s = "seven" -> IF Len(args) = 0 /\ Len(kwargs) = 0 THEN R(heap, Ok(VInt(7))) ELSE R(heap, Exc("TypeError"))

\* ---- wildcards: children with element access that may raise ------------------------------------
\* cells of class "baddict" are dict subclasses whose __getitem__ raises for key "b":
\* such entries are dropped from the children (the traversal tolerates misses)
\* cells of class "badlist" are list subclasses whose ITERATION raises when it reaches the item "!"
\* (a live iterator failing part-way): the items produced before the failure are its children --
\* a traversal that tolerates misses does not throw away what the iterable did produce
Poison == VStr("!")
RECURSIVE UpToPoison(_, _)
UpToPoison(items, i) ==
  IF i > Len(items) \/ items[i] = Poison THEN SubSeq(items, 1, i - 1) ELSE UpToPoison(items, i + 1)
ChildrenX(heap, cur) ==
  IF ~IsRef(cur) THEN <<>>
  ELSE LET c == heap[cur.a] IN
       IF c.cls = "badlist" THEN UpToPoison(c.items, 1)
       ELSE IF c.cls = "baddict"
       THEN LET good == SelectSeq(c.items, LAMBDA it : it[1] # VStr("b")) IN [i \in 1..Len(good) |-> good[i][2]]
       ELSE IF c.cls \in MapClasses THEN [i \in 1..Len(c.items) |-> c.items[i][2]]
       ELSE c.items

\* LAW for **: the value itself, then breadth-first all descendants; every container
\* (identity) is expanded exactly once -- the root included -- so traversal terminates.
RECURSIVE Bfs(_, _, _, _)
Bfs(heap, queue, i, seen) ==       \* queue grows while being scanned, like a BFS work list
  IF i > Len(queue) THEN queue
  ELSE LET v == queue[i] IN
       IF IsRef(v) /\ v.a \notin seen
       THEN Bfs(heap, queue \o ChildrenX(heap, v), i + 1, seen \cup {v.a})
       ELSE Bfs(heap, queue, i + 1, seen)
Descendants(heap, cur) == Bfs(heap, <<cur>>, 1, {})

\* element access on a "baddict" raises RuntimeError for key "b", otherwise it is a dict
StepApplyX(heap, cur, st) ==
  IF IsRef(cur) /\ heap[cur.a].cls = "badlist" THEN StepApply(AsList(heap), cur, st)
  ELSE IF IsRef(cur) /\ heap[cur.a].cls = "baddict" /\ st.op \in {"P", "["}
  THEN IF st.arg = VStr("b") THEN Exc("RuntimeError")
       ELSE IF HasKey(heap[cur.a].items, st.arg) THEN Ok(Lookup(heap[cur.a].items, st.arg)) ELSE Exc("KeyError")
  ELSE StepApply(heap, cur, st)

\* canonical form of a result: cells allocated during the evaluation (address > n0) are
\* unfolded into trees, pre-existing cells stay references (identity); tuples and
\* frozensets are immutable, their identity is not observable behaviour (CPython returns
\* the same object for t[:], t * 1, t + ()), so they are always unfolded
RECURSIVE Canon(_, _, _)
Canon(heap, v, n0) ==
  IF IsRef(v) /\ (v.a > n0 \/ heap[v.a].cls \in {"tuple", "frozenset"})
  THEN LET c == heap[v.a] IN
       [k |-> "new", cls |-> c.cls,
        items |-> IF c.cls \in MapClasses
                  THEN [i \in 1..Len(c.items) |-> <<Canon(heap, c.items[i][1], n0), Canon(heap, c.items[i][2], n0)>>]
                  ELSE [i \in 1..Len(c.items) |-> Canon(heap, c.items[i], n0)]]
  ELSE v

\* ---- the evaluator ------------------------------------------------------------------------------------
TGood(v)        == [ok |-> TRUE, v |-> v]
TPae(idx, exc)  == [ok |-> FALSE, err |-> "PathAccessError", idx |-> idx, exc |-> exc]
TRaw(exc)       == [ok |-> FALSE, err |-> exc, idx |-> -1, exc |-> exc]
TOut            == [ok |-> FALSE, err |-> "OUT_OF_MODEL", idx |-> -1, exc |-> "OUT_OF_MODEL"]

WrappedT(op, exc) ==
  CASE op = "P" -> TRUE
    [] op = "." -> exc = "AttributeError"
    [] op = "[" -> exc \in {"KeyError", "IndexError", "TypeError"}
    [] op = "(" -> FALSE
    [] OTHER -> exc \in {"TypeError", "ZeroDivisionError"}

RECURSIVE TEvalFrom(_, _, _, _, _), ArgVal(_, _, _), ArgSeq(_, _, _, _, _), KwSeq(_, _, _, _, _),
          PairSeq(_, _, _, _, _), MapEntries(_, _, _, _, _, _)

\* evaluate a sequence of argument expressions left to right
ArgSeq(heap, target, exprs, i, acc) ==
  IF i > Len(exprs) THEN R(heap, TGood(acc))
  ELSE LET r == ArgVal(heap, target, exprs[i]) IN
       IF r.out.ok THEN ArgSeq(r.heap, target, exprs, i + 1, Append(acc, r.out.v)) ELSE r
KwSeq(heap, target, kws, i, acc) ==
  IF i > Len(kws) THEN R(heap, TGood(acc))
  ELSE LET r == ArgVal(heap, target, kws[i][2]) IN
       IF r.out.ok THEN KwSeq(r.heap, target, kws, i + 1, Append(acc, <<kws[i][1], r.out.v>>)) ELSE r
PairSeq(heap, target, prs, i, acc) ==     \* dict in argument position: key then value, entry by entry
  IF i > Len(prs) THEN R(heap, TGood(acc))
  ELSE LET rk == ArgVal(heap, target, prs[i][1]) IN
       IF ~rk.out.ok THEN rk
       ELSE LET rv == ArgVal(rk.heap, target, prs[i][2]) IN
            IF ~rv.out.ok THEN rv
            ELSE PairSeq(rv.heap, target, prs, i + 1, SetKey(acc, rk.out.v, rv.out.v))

ArgVal(heap, target, ae) ==
  CASE ae.a = "lit" -> R(heap, TGood(ae.v))
    [] ae.a \in {"t", "spec"} -> TEvalFrom(heap, target, target, ae.ops, 1)
    [] ae.a = "slice" -> R(heap, TGood(VSlice(ae.lo, ae.hi, ae.st)))
    [] ae.a \in {"list", "tuple"} ->
         LET r == ArgSeq(heap, target, ae.items, 1, <<>>) IN
         IF ~r.out.ok THEN r
         ELSE LET al == Alloc(r.heap, Cell(ae.a, r.out.v)) IN R(al.heap, TGood(al.v))
    [] ae.a = "dict" ->
         LET r == PairSeq(heap, target, ae.items, 1, <<>>) IN
         IF ~r.out.ok THEN r
         ELSE LET al == Alloc(r.heap, Cell("dict", r.out.v)) IN R(al.heap, TGood(al.v))

\* apply the remaining operations to every entry independently; entries for which they fail
\* with a PathAccessError are dropped; any other failure propagates
MapEntries(heap, target, entries, ops, j, acc) ==
  IF j > Len(entries) THEN LET al == Alloc(heap, Cell("list", acc)) IN R(al.heap, TGood(al.v))
  ELSE LET r == TEvalFrom(heap, entries[j], entries[j], ops, 1) IN
       IF r.out.ok THEN MapEntries(r.heap, target, entries, ops, j + 1, Append(acc, r.out.v))
       ELSE IF r.out.err = "PathAccessError" THEN MapEntries(r.heap, target, entries, ops, j + 1, acc)
       ELSE r

\* target: what nested T arguments are evaluated against; cur: the value reached so far
TEvalFrom(heap, target, cur, ops, i) ==
  IF i > Len(ops) THEN R(heap, TGood(cur))
  ELSE
    LET o == ops[i] IN
    IF o.op \in {"x", "X"} THEN
      LET entries == IF o.op = "x" THEN ChildrenX(heap, cur) ELSE Descendants(heap, cur)
      IN MapEntries(heap, target, entries, SubSeq(ops, i + 1, Len(ops)), 1, <<>>)
    ELSE IF o.op \in {".", "P"} THEN
      LET r == StepApplyX(heap, cur, [op |-> o.op, arg |-> o.arg]) IN
      IF r.ok THEN TEvalFrom(heap, target, r.v, ops, i + 1)
      ELSE R(heap, IF WrappedT(o.op, r.exc) THEN TPae(i - 1, r.exc) ELSE TRaw(r.exc))
    ELSE IF o.op \in {"~", "_"} THEN
      LET r == PyUnary(heap, o.op, cur) IN
      IF IsOut(r.out) THEN R(heap, TOut)
      ELSE IF r.out.ok THEN TEvalFrom(r.heap, target, r.out.v, ops, i + 1)
      ELSE R(heap, IF WrappedT(o.op, r.out.exc) THEN TPae(i - 1, r.out.exc) ELSE TRaw(r.out.exc))
    ELSE IF o.op = "(" THEN
      LET ra == ArgSeq(heap, target, o.arg.args, 1, <<>>) IN
      IF ~ra.out.ok THEN ra
      ELSE LET rk == KwSeq(ra.heap, target, o.arg.kwargs, 1, <<>>) IN
           IF ~rk.out.ok THEN rk
           ELSE LET rc == CallFn(rk.heap, cur, ra.out.v, rk.out.v) IN
                IF rc.out.ok THEN TEvalFrom(rc.heap, target, rc.out.v, ops, i + 1)
                ELSE R(rc.heap, TRaw(rc.out.exc))
    ELSE  \* "[" and binary arithmetic: evaluate the argument first (against the original target)
      LET ra == ArgVal(heap, target, o.arg) IN
      IF ~ra.out.ok THEN ra
      ELSE LET r == IF o.op = "[" THEN GetItemX(ra.heap, cur, ra.out.v) ELSE PyBin(ra.heap, o.op, cur, ra.out.v) IN
           IF IsOut(r.out) THEN R(heap, TOut)
           ELSE IF r.out.ok THEN TEvalFrom(r.heap, target, r.out.v, ops, i + 1)
           ELSE R(r.heap, IF WrappedT(o.op, r.out.exc) THEN TPae(i - 1, r.out.exc) ELSE TRaw(r.out.exc))

TEval(heap, target, ops) == TEvalFrom(heap, target, target, ops, 1)

\* the observable outcome: value in canonical form, or the error triple
Outcome(heap, target, ops) ==
  LET r == TEval(heap, target, ops) IN
  IF r.out.ok THEN [ok |-> TRUE, v |-> Canon(r.heap, r.out.v, Len(heap)), err |-> "", idx |-> -1, exc |-> ""]
  ELSE [ok |-> FALSE, v |-> VNone, err |-> r.out.err, idx |-> r.out.idx, exc |-> r.out.exc]
\* evaluation never changes a pre-existing cell
Pure(heap, target, ops) == SubSeq(TEval(heap, target, ops).heap, 1, Len(heap)) = heap

\* number of wildcard steps = number of list levels added (C14)
Stars(ops) == Len(SelectSeq(ops, LAMBDA o : o.op \in {"x", "X"}))
====================================================================================
