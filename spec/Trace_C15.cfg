INIT TInit
NEXT TNext
CONSTRAINT Check
CHECK_DEADLOCK FALSE
CONSTANTS
  RMutant = "none"
