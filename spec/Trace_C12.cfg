INIT Init
NEXT Next
CONSTRAINT Check
CONSTANT Mutant = "none"
CHECK_DEADLOCK FALSE
