\* spec mutant 'indent0' of the GlomCli mechanism: TLC must report a law violated
CONSTANTS
  Mutant = "indent0"
  SFmts = {"default", "json", "python-full", "bad"}
  TFmts = {"default", "python", "yaml", "toml", "bad"}
  Indents = {"default", "0"}
  TxtIds = {"qstr1", "qstr2", "blit", "bboth", "bare", "baresx", "bbad", "bname", "texpo", "texpb", "advb", "advq", "advo"}
  Argvs = {"ok", "badindent", "toomany", "unknownflag", "flagafter", "dupflag", "dashdash"}
  SExts = {".txt", ".py", ".json"}
  TExts = {".txt", ".yml"}
  Dbgs = {"off", "debug"}
  PrintCross = "full"
INIT Init
NEXT Next
INVARIANT ExecOnlyFull
INVARIANT EffectNeedsExec
INVARIANT DefaultRoutes
INVARIANT ResultLaw
INVARIANT GlomErrorLaw
INVARIANT TargetUsageLaw
INVARIANT ArgvLaw
INVARIANT LawStored
INVARIANT NoStuck
INVARIANT KnownPrefix
CHECK_DEADLOCK FALSE
