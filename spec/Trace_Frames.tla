--------------------------------- MODULE Trace_Frames ---------------------------------
(* code -> spec on workloads nobody in /verif wrote: the scope events of every glom() call   *)
(* made by the repository's own test-suite (GLOM_VERIF hook: enter, chain).  One row = one    *)
(* tree of scopes; frames are numbered in creation order, frame 1 is the root scope.          *)
(* The discipline validated is the dynamic form of the C08 law and of the chaining rules the  *)
(* C05 / C07 machine relies on:                                                               *)
(*   ModeInherit  a scope is entered in the mode of its parent scope -- the mode the parent     *)
(*                was entered in, or the mode of the wrapper if the parent's spec is Auto /     *)
(*                Fill / Match / Group, or the chaining scope's mode after chain_child --       *)
(*   ArgModeOff   the argument interpreter is inherited only from a parent that had it on,      *)
(*   ChainLast    chain_child continues from the last child of the chaining scope.              *)
EXTENDS Integers, Sequences, TLC, Json, IOUtils

Rows == ndJsonDeserialize(IOEnv.TRACE_FILE)
VARIABLE i
Init == i = 1
Next == i <= Len(Rows) /\ i' = i + 1

\* table: sequence of [mode, kind, last]; frame 1 (root) is AUTO
Root == [mode |-> "AUTO", kind |-> "other", last |-> 0, minmode |-> FALSE]
ParentMode(tb, p) == IF tb[p].kind \in {"AUTO", "FILL", "MATCH", "GROUP"} THEN tb[p].kind ELSE tb[p].mode

RECURSIVE Walk(_, _, _)
Walk(evs, k, tb) ==         \* "" if every event obeys the discipline, else the name of the broken clause
  IF k > Len(evs) THEN ""
  ELSE LET e == evs[k] IN
       IF e.a = "enter" THEN
         IF e.f # Len(tb) + 1 \/ e.par > Len(tb) THEN "numbering"
         ELSE IF e.mode # ParentMode(tb, e.par) THEN "ModeInherit"
         ELSE Walk(evs, k + 1, [Append(tb, [mode |-> e.mode, kind |-> e.kind, last |-> 0, minmode |-> e.minmode])
                                  EXCEPT ![e.par].last = e.f])
       ELSE \* chain(from = e.f, to = e.par)
         IF e.f > Len(tb) \/ e.par > Len(tb) THEN "numbering"
         ELSE IF tb[e.f].last # e.par THEN "ChainLast"
         ELSE Walk(evs, k + 1, [tb EXCEPT ![e.par].mode = ParentMode(tb, e.f)])

Check ==
  IF i <= Len(Rows)
  THEN LET v == Walk(Rows[i].events, 1, <<Root>>) IN v = "" \/ PrintT(ToJson([reject |-> i, clause |-> v]))
  ELSE PrintT(ToJson([done |-> Len(Rows)]))
====================================================================================
