--------------------------------- MODULE Trace_C11 ---------------------------------
(* code -> spec for C11.  Every row of the ndjson file is one assign() / Assign execution  *)
(* recorded from the real library on write-logging containers:                              *)
(*   {case: <case record of GlomMutate>, obs: {ok, cls, v, heap, log, nfac}}                 *)
(* For each row the machine of GlomMutate is started on the recorded case and stepped       *)
(* action by action (Load, Advance.., Judge); after every step the machine's write log must     *)
(* be a prefix of the recorded one.  At the end the LAW is evaluated on what was recorded:   *)
(* outcome / returned object / final heap against RefAssign, and on the recorded log:        *)
(* an effective write to a pre-existing cell that is not the last event is rejected           *)
(* (attach-last / atomicity), factory calls = absent segments.  Clauses starting with         *)
(* "drift-" say that the library's internal order of events differs from the mechanism       *)
(* model while every law holds (reported, not a violation).                                  *)
EXTENDS GlomMutate, Json, IOUtils

Rows == ndJsonDeserialize(IOEnv.TRACE_FILE)
VARIABLES row, bad
tvars == <<mvars, row, bad>>

Blank == [kind |-> "assign", heap0 |-> <<>>, flags |-> <<>>, root |-> VNone, steps |-> <<>>,
          val |-> [k |-> "lit", v |-> VNone, steps |-> <<>>], missing |-> "none", facfail |-> 0, ignore |-> FALSE]
Idle == [case |-> Blank, pc |-> "idle", heap |-> <<>>, cur |-> VNone, idx |-> 0, val |-> VNone,
         stk |-> <<>>, nfac |-> 0, log |-> <<>>, out |-> NoOut, queue |-> <<>>, memo |-> 0]

Init == case = Blank /\ pc = "idle" /\ heap = <<>> /\ cur = VNone /\ idx = 0
        /\ val = VNone /\ stk = <<>> /\ nfac = 0 /\ log = <<>> /\ out = NoOut /\ queue = <<>> /\ memo = 0 /\ row = 1 /\ bad = ""

Obs == Rows[row].obs

Load == /\ pc = "idle" /\ row <= Len(Rows)
        /\ Become(Start(Rows[row].case)) /\ UNCHANGED row /\ bad' = ""

Advance == /\ Running
        /\ LET s == StepF(St) IN
             /\ Become(s)
             /\ bad' = IF bad = "" /\ ~IsPrefix(s.log, Obs.log) THEN "drift-log" ELSE bad
        /\ UNCHANGED row

\* the law, evaluated on the recorded observation
LawClause ==
  LET c == case  o == Obs
      cc == ConformClause(c, Ref(c), o.ok, o.cls, o.v, o.heap)
  IN IF cc # "" THEN cc
     ELSE IF ~ExecRegistryLog(o.log) THEN "foreign-registry"
     ELSE IF RouteClause(log, o.log) # "" THEN RouteClause(log, o.log)
     ELSE IF HasStar(c.steps) THEN ""            \* atomicity / attach-last are stated for wildcard-free paths
     ELSE IF ~AttachLastLog(c, o.log) THEN "attach-last"
     ELSE IF FactoryCalls(o.log) > AbsentSegments(c) THEN "factory-count"
     ELSE IF o.ok /\ FactoryCalls(o.log) # AbsentSegments(c) THEN "factory-count"
     ELSE IF o.ok /\ AbsentSegments(c) > 0 /\ ~KeepsEntries(c, o.heap) THEN "replaced-existing"
     ELSE ""
DriftClause ==
  IF bad # "" THEN bad
  ELSE IF log # Obs.log THEN "drift-log"
  ELSE IF ~out.ok /\ ~Obs.ok /\ out.mech # Obs.cls THEN "drift-class"
  ELSE ""

Judge == /\ pc = "done"
         /\ LET v == IF LawClause # "" THEN LawClause ELSE DriftClause IN
              IF v = "" THEN TRUE ELSE PrintT(ToJson([reject |-> row, clause |-> v]))
         /\ Become(Idle) /\ row' = row + 1 /\ bad' = ""

Next == Load \/ Advance \/ Judge

Check == (pc = "idle" /\ row > Len(Rows)) => PrintT(ToJson([done |-> Len(Rows)]))
====================================================================================
