---------------------------------- MODULE MC_C16 ----------------------------------
(* Bounded universe for C16.  Init chooses the Group spec object (optional top-level   *)
(* Limit(n), 0..MaxKeyLevels key levels over the key functions KFs, a leaf); Next is    *)
(* the machine of GlomGroup: NewEvaluation / Feed(item) / Finish with at most MaxEvals  *)
(* evaluations of that one spec object, nested up to MaxDepth, every item sequence up   *)
(* to MaxItems per evaluation (MaxTotal over all).  Every reachable state is dumped     *)
(* (`tlc -dump`) and replayed into the real library: hist tells the harness what to do, *)
(* evals[e].pred what the law predicts for evaluation e, evals[e].out what the          *)
(* transcribed mechanism computes.                                                      *)
EXTENDS GlomGroup

CONSTANTS MaxKeyLevels, MaxItems, MaxTotal, ItemMax, MaxEvals, MaxDepth,
          NegItems,     \* items range over -NegItems .. ItemMax (a cfg cannot say ItemMin = -1)
          WithIds,      \* TRUE: items also range over id() of the dict / list spec nodes
          KFs, Aggs, VFs,
          LimitNs,      \* top-level Limit(n) for n in LimitNs; 99 = no Limit
          ItemKind,     \* "int" | "str" | "tup": what the items are (one orderable kind per universe)
          NestedLimitNs,\* Limit(n) directly above the leaf, under >= 1 key level; 99 = none
          SampleNs,     \* Sample(n) leaves for n in SampleNs
          WithFaults    \* TRUE: the (lazy) target may raise instead of yielding its next item

NoLimit == 99

Leaves(nk) ==
  {LeafL("list", "", vf) : vf \in VFs \ {"inner", "list2", "cats", "catt"}}
  \cup {LeafL("last", "", vf) : vf \in (VFs \ {"skip3", "inc", "inner", "list2", "cats", "catt"}) \cup (IF nk > 0 THEN VFs \cap {"skip3"} ELSE {})}
  \cup {LeafL("agg", a, "ident") : a \in Aggs \ {"Flatten", "Merge"}}
  \cup {LeafL("agg", "Sum", "inc") : a \in Aggs \cap {"Sum"}}
  \cup {LeafL("agg", "Flatten", "pair") : a \in Aggs \cap {"Flatten"}}
  \cup {LeafL("agg", "Merge", "kv") : a \in Aggs \cap {"Merge"}}
  \* "inner" \in VFs: aggregators whose sub-spec is itself a Group (items are then small lists)
  \cup {LeafL("agg", "Sum", "gsum") : a \in Aggs \cap {"Sum"}, v \in VFs \cap {"inner"}}
  \cup {LeafL("agg", "Flatten", "gcount") : a \in Aggs \cap {"Flatten"}, v \in VFs \cap {"inner"}}
  \cup {LeafL("agg", "Merge", "gbsum") : a \in Aggs \cap {"Merge"}, v \in VFs \cap {"inner"}}
  \cup {SampleL(n) : n \in SampleNs}
  \* "cats" / "catt" \in VFs: Sum(init=str) over words / Sum(init=tuple) over pairs
  \cup {LeafL("agg", "Sum", v) : v \in VFs \cap {"cats", "catt"}}
  \* "list2" \in VFs: the list spec with two value specs [val, T * 10]
  \cup {LeafL("list2", "", vf) : vf \in {"ident", "inc"}, v \in VFs \cap {"list2"}}

MkSpec(lim, kfs, nlim, leaf) ==
  (IF lim = NoLimit THEN <<>> ELSE <<LimitL(lim)>>)
  \o [i \in 1..Len(kfs) |-> DictL(kfs[i])]
  \o (IF nlim = NoLimit THEN <<>> ELSE <<LimitL(nlim)>>) \o <<leaf>>

\* words / pairs are only ordered, counted and collected: no arithmetic on them
OrdSafe(sp) ==
  /\ \A l \in 1..Len(sp) : sp[l].op = "dict" => sp[l].key \in {"ident", "len", "first"}
  /\ LET L == sp[Len(sp)] IN
     \/ L.op \in {"list", "last"} /\ L.val = "ident"
     \/ L.op = "agg" /\ L.agg \in {"First", "Max", "Min", "Count", "Sample"}
     \/ L.op = "agg" /\ L.agg = "Sum" /\ L.val = (IF ItemKind = "str" THEN "cats" ELSE "catt")
\* objects with a hostile __eq__ are only routed (by t % 2, t // 2, a constant), collected and counted
HostileSafe(sp) ==
  /\ \A l \in 1..Len(sp) : sp[l].op = "dict" => sp[l].key \in {"mod2", "half", "const"}
  /\ LET L == sp[Len(sp)] IN
     \/ L.op \in {"list", "last"} /\ L.val = "ident"
     \/ L.op = "agg" /\ L.agg \in {"First", "Count", "Sample"}
\* odd values are only routed by themselves or a constant, collected, counted and sampled
OddSafe(sp) ==
  /\ \A l \in 1..Len(sp) : sp[l].op = "dict" => sp[l].key \in {"ident", "const"}
  /\ LET L == sp[Len(sp)] IN
     \/ L.op \in {"list", "last"} /\ L.val = "ident"
     \/ L.op = "agg" /\ L.agg \in {"First", "Count", "Sample"}
NumSafe(sp) == \A l \in 1..Len(sp) : sp[l].op = "dict" => sp[l].key \notin {"len", "first"}
\* a nested Limit sits under a key level, above a leaf that never answers SKIP, not above Sample
NestedOk(nk, nlim, leaf) ==
  nlim # NoLimit => nk >= 1 /\ leaf.val # "skip3" /\ ~(leaf.op = "agg" /\ leaf.agg = "Sample")

\* id() items make sense only where every function applied to an item is the identity
IdSafe(sp) ==
  /\ \A l \in 1..Len(sp) : sp[l].op = "dict" => sp[l].key = "ident"
  /\ LET L == sp[Len(sp)] IN
     \/ L.op \in {"list", "last"} /\ L.val = "ident"
     \/ L.op = "agg" /\ L.agg \in {"First", "Count"}
ItemsFor(sp) ==
  (CASE ItemKind = "int" -> {VInt(i) : i \in (0 - NegItems)..ItemMax}
     [] ItemKind = "str" -> {VStr(w) : w \in Words}
     \* falsy-but-meaningful values, equal-but-distinct numbers (1 / 1.0 / True, 0 / False), keys with
     \* equal hashes (-1 / -2) and an unhashable value ([7])
     [] ItemKind = "odd" -> {VInt(0), VBool(FALSE), VInt(1), VFrac(1, 1), VBool(TRUE), VStr(""), VNone,
                             VTup(<<>>), VInt(-1), VInt(-2), DList(<<VInt(7)>>)}
     [] ItemKind = "hostile" -> {[k |-> kk, i |-> i] : kk \in {"any", "strict"}, i \in 0..1}
     [] ItemKind = "tup" -> {VTup(<<VInt(1), VStr("b")>>), VTup(<<VInt(1), VStr("a")>>),
                             VTup(<<VInt(0), VStr("ba")>>), VTup(<<VInt(2), VStr("a")>>)})
  \cup (IF WithIds /\ IdSafe(sp) THEN {IdVal(l) : l \in {m \in 1..Len(sp) : sp[m].op \in {"dict", "list"}}} ELSE {})

Init ==
  /\ \E nk \in 0..MaxKeyLevels : \E kfs \in [1..nk -> KFs] : \E leaf \in Leaves(nk) : \E lim \in LimitNs :
     \E nlim \in NestedLimitNs :
       /\ NestedOk(nk, nlim, leaf)
       /\ spec = MkSpec(lim, kfs, nlim, leaf)
       /\ (WithIds => IdSafe(spec))
       /\ (CASE ItemKind = "int" -> NumSafe(spec) [] ItemKind = "hostile" -> HostileSafe(spec)
                [] ItemKind = "odd" -> OddSafe(spec) [] OTHER -> OrdSafe(spec))
  /\ heap = <<>> /\ evals = <<>> /\ stack = <<>> /\ hist = <<>>

RECURSIVE TotalFed(_)
TotalFed(i) == IF i = 0 THEN 0 ELSE Len(evals[i].items) + TotalFed(i - 1)

StartEval ==
  /\ Len(evals) < MaxEvals /\ Len(stack) < MaxDepth
  /\ (stack # <<>> => ~evals[stack[Len(stack)]].faulted)
  /\ NewEvaluation /\ UNCHANGED spec
FeedItem ==
  /\ stack # <<>> /\ Len(evals[stack[Len(stack)]].items) < MaxItems /\ TotalFed(Len(evals)) < MaxTotal
  /\ ~evals[stack[Len(stack)]].faulted
  /\ \E x \in ItemsFor(spec) : Feed(x)
  /\ UNCHANGED spec
EndEval ==
  /\ MaxEvals > 1
  /\ Finish /\ UNCHANGED spec
SourceFault ==
  /\ WithFaults
  /\ Fault /\ UNCHANGED spec
Next == StartEval \/ FeedItem \/ SourceFault \/ EndEval
====================================================================================
