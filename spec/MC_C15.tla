---------------------------------- MODULE MC_C15 ----------------------------------
(* Bounded universe and machine for C15.  Init builds a target: an iterable (list,      *)
(* tuple, dict keys, generator over a list) of up to MaxLen elements drawn from one      *)
(* family of element shapes (numbers, sequences and strings, nested to depth 3,          *)
(* mappings and pair lists, deliberately ill-typed mixes, with sharing), or a            *)
(* non-iterable target; optionally wrapped so that the iterable is reached through a      *)
(* subspec.  Action Evaluate is taken twice on the same reduction spec object (chosen at   *)
(* the first step): state = the object heap and the accumulator left by the last          *)
(* evaluation.  The laws of GlomReduce are INVARIANTs; every state after the second        *)
(* evaluation is replayed into the real library (`tlc -dump`).                             *)
EXTENDS GlomReduce

CONSTANTS MaxLen, Families, Outers, Forms, Subs, Levels

\* ---- element shapes (structural descriptors), by family -------------------------------
L(s) == DList(s)
Tu(s) == DTuple(s)
I(n) == VInt(n)
S(x) == VStr(x)
Same == [k |-> "same"]                       \* the very object that is element 1 (sharing)
Family(f) ==
  CASE f = "nums"  -> {I(0), I(1), I(2), VFrac(1, 2), VBool(FALSE)}
    [] f = "seqs"  -> {L(<<>>), L(<<I(1)>>), L(<<I(2), I(3)>>), Tu(<<I(4)>>), S("uv"), S(""), Same}
    [] f = "deep"  -> {L(<<L(<<I(1)>>), L(<<I(2), I(3)>>)>>), L(<<Tu(<<I(4)>>), L(<<>>)>>),
                       Tu(<<L(<<I(2), I(3)>>), S("s")>>), L(<<L(<<L(<<I(1)>>)>>), L(<<L(<<I(2)>>), Tu(<<I(3)>>)>>)>>), Same}
    [] f = "dicts" -> {DDict(<<>>), DDict(<< <<S("a"), I(1)>> >>), DDict(<< <<S("b"), I(2)>>, <<S("a"), I(3)>> >>),
                       DODict(<< <<S("a"), I(5)>>, <<S("c"), I(6)>> >>), L(<<Tu(<<S("a"), I(9)>>)>>),
                       L(<<L(<<S("c"), I(7)>>), S("uv")>>), Same,
                       \* keys that are equal but distinct (1 / True / 1.0) and keys with equal hashes (-1 / -2)
                       DDict(<< <<I(1), S("a")>>, <<I(-1), I(1)>>, <<I(-2), I(2)>> >>),
                       L(<<Tu(<<VBool(TRUE), S("b")>>), Tu(<<VFrac(1, 1), S("c")>>)>>)}
    [] f = "bad"   -> {I(1), L(<<I(1)>>), S("s"), VNone, DDict(<< <<S("a"), I(1)>> >>), Tu(<<L(<<I(1)>>), I(2)>>)}
    [] f = "floats" -> {VFn("fB"), VFn("f1"), VFn("fnB"), VFn("f01")}          \* 2.0 ** 53, 1.0, -2.0 ** 53, 0.1
    [] f = "keys"  -> {I(1), I(2), S("a"), S("uv"), Tu(<<I(4)>>)}             \* hashable: dict keys
NonIterables == {I(5), I(0), VNone, S("uv"), S(""), VBool(FALSE), DObj}

\* ---- building the heap ------------------------------------------------------------------
RECURSIVE Alloc(_, _), AllocSeq(_, _, _, _)
Alloc(h, d) ==
  IF d.k \in {"list", "tuple"}
  THEN LET r == AllocSeq(h, d.items, 1, <<>>) IN [h |-> Append(r.h, Cell(d.k, r.vs)), v |-> VRef(Len(r.h) + 1)]
  ELSE IF d.k \in {"dict", "odict"}
  THEN LET r == AllocSeq(h, [i \in 1..Len(d.items) |-> d.items[i][2]], 1, <<>>) IN
       [h |-> Append(r.h, Cell(d.k, [i \in 1..Len(d.items) |-> <<d.items[i][1], r.vs[i]>>])), v |-> VRef(Len(r.h) + 1)]
  ELSE IF d.k = "obj" THEN [h |-> Append(h, Cell("obj", <<>>)), v |-> VRef(Len(h) + 1)]
  ELSE [h |-> h, v |-> d]
AllocSeq(h, ds, i, vs) ==
  IF i > Len(ds) THEN [h |-> h, vs |-> vs]
  ELSE IF ds[i].k = "same" THEN AllocSeq(h, ds, i + 1, Append(vs, vs[1]))
  ELSE LET r == Alloc(h, ds[i]) IN AllocSeq(r.h, ds, i + 1, Append(vs, r.v))

\* the iterable itself
MkTarget(outer, els) ==
  LET r == AllocSeq(<<>>, els, 1, <<>>) IN
  IF outer = "dict"
  THEN [h |-> Append(r.h, Cell("dict", [i \in 1..Len(els) |-> <<r.vs[i], VNone>>])), v |-> VRef(Len(r.h) + 1)]
  ELSE [h |-> Append(r.h, Cell(IF outer = "gen" THEN "list" ELSE outer, r.vs)), v |-> VRef(Len(r.h) + 1)]
Wrapped(t, sub) ==
  IF sub # "T" THEN [h |-> Append(t.h, Cell("dict", << <<VStr("k"), t.v>> >>)), v |-> VRef(Len(t.h) + 1)] ELSE t

\* ---- the reduction specs ----------------------------------------------------------------
Sp(form, init, op, levels, lazy) == [form |-> form, sub |-> "T", init |-> init, op |-> op, levels |-> levels, lazy |-> lazy]
NumInits == {"int", "float", "half", "five", "dec"}
AllInits == NumInits \cup {"list", "tuple", "str", "dict", "odict", "seeded", "strx", "tup0"}   \* empty and non-empty starts
SpecsOf(form) ==
  CASE form = "Fold"    -> {Sp("Fold", i, o, 1, FALSE) : i \in AllInits, o \in {"iadd", "add", "right"}}
                           \cup {Sp("Fold", i, "digits", 1, FALSE) : i \in NumInits}
                           \cup {Sp("Fold", "shlist", "iadd", 1, FALSE)}
    [] form = "Sum"     -> {Sp("Sum", i, "iadd", 1, FALSE) : i \in NumInits \cup {"strx"}}
    [] form = "Flatten" -> {Sp("Flatten", i, "iadd", 1, FALSE) : i \in {"list", "tuple", "int", "str", "seeded", "strx", "tup0", "shlist"}}
                           \cup {Sp("Flatten", "lazy", "iadd", 1, TRUE)}
    [] form = "Merge"   -> {Sp("Merge", "dict", "update", 1, FALSE), Sp("Merge", "odict", "update", 1, FALSE),
                            Sp("Merge", "dict", "keepfirst", 1, FALSE), Sp("Merge", "list", "extend", 1, FALSE)}
    [] form = "flatten" -> {Sp("flatten", i, "iadd", n, FALSE) : i \in {"list", "tuple", "int", "tup0"}, n \in Levels}
                           \cup {Sp("flatten", "lazy", "iadd", n, TRUE) : n \in Levels \ {0}}
    [] form = "Count"   -> {Sp("Count", "int", "count", 1, FALSE)}
    [] form = "merge"   -> {Sp("merge", "dict", "update", 1, FALSE), Sp("merge", "odict", "update", 1, FALSE),
                            Sp("merge", "dict", "keepfirst", 1, FALSE)}       \* merge(target, op=callable)
AllSpecs == UNION {SpecsOf(f) : f \in Forms}

VARIABLES heap0,    \* the input objects (never changes: what Frame compares with)
          heap,     \* the objects now
          root,     \* the value passed to glom()
          wrap,     \* "plain" | "gen": the harness passes iter(target) afresh to every evaluation
          sp,       \* the reduction spec object
          outs,     \* mechanism outcome of every evaluation so far: [ok, v, exc, inits, acc, muts]
          shown,    \* the same, as compared with the library: [ok, v (structural), exc]
          pred,     \* what the law predicts for every evaluation: [ok, v, exc] and the required init() calls
          acc       \* the accumulator object left behind by the last evaluation
vars == <<heap0, heap, root, wrap, sp, outs, shown, pred, acc>>

NoSpec == Sp("none", "int", "iadd", 1, FALSE)

Init ==
  /\ \/ \E f \in Families : \E n \in 0..MaxLen : \E els \in [1..n -> Family(f)] : \E outer \in Outers : \E sub \in Subs :
          /\ (n >= 1 => els[1] # Same)
          /\ (outer = "dict") = (f = "keys")
          /\ (outer = "gen" => sub = "T")
          /\ (outer = "dict" => \A a, b \in 1..n : a # b => els[a] # els[b])
          /\ LET t == Wrapped(MkTarget(outer, els), sub) IN
             /\ heap0 = t.h /\ root = t.v
             /\ wrap = (IF outer = "gen" THEN "gen" ELSE "plain")
             /\ sp = [NoSpec EXCEPT !.sub = sub]
     \/ \E d \in NonIterables : \E sub \in Subs :
          LET t == Wrapped(Alloc(<<>>, d), sub) IN
          /\ heap0 = t.h /\ root = t.v /\ wrap = "plain" /\ sp = [NoSpec EXCEPT !.sub = sub]
  /\ heap = heap0 /\ outs = <<>> /\ shown = <<>> /\ pred = <<>> /\ acc = VNone

\* a shared init object is exercised where the fold cannot fail half-way (every element iterable)
SharedOk == /\ sp.sub = "T" /\ GlomIterable(heap0, root)
            /\ \A i \in 1..Len(HIter(heap0, root)) : HIterable(heap0, HIter(heap0, root)[i])

\* one evaluation of the spec object: glom(root, spec)
Evaluate ==
  /\ Len(outs) < 2
  /\ IF Len(outs) = 0
     THEN \E s \in AllSpecs : /\ sp' = [s EXCEPT !.sub = sp.sub]
                              /\ ~(s.form = "flatten" /\ s.levels = 0 /\ sp.sub # "T")
                              /\ (s.init = "shlist" => SharedOk)
     ELSE sp' = sp
  /\ LET m == MEval(heap, root, sp', acc)
         o == [ok |-> m.ok, v |-> m.v, exc |-> m.exc, inits |-> m.inits, acc |-> m.acc, muts |-> m.muts]
     IN /\ heap' = m.h
        /\ outs' = Append(outs, o)
        /\ shown' = [e \in 1..(Len(outs) + 1) |-> Shown(m.h, IF e <= Len(outs) THEN outs[e] ELSE o)]
        /\ pred' = Append(pred, LET p == RefShownK(heap0, root, sp', Len(outs) + 1) IN
                                 [ok |-> p.ok, v |-> p.v, exc |-> p.exc, inits |-> MinInits(heap0, root, sp')])
        /\ acc' = m.acc
  /\ UNCHANGED <<heap0, root, wrap>>
Next == Evaluate

\* ---- the laws, on every reachable state ---------------------------------------------------
InvValue      == \A e \in 1..Len(outs) : LawValue(heap0, heap, root, sp, outs[e], Len(outs))
InvInits      == \A e \in 1..Len(outs) : LawInits(heap0, root, sp, outs[e])
InvFrame      == LawFrame(heap0, heap)
InvNoInputAcc == \A e \in 1..Len(outs) : LawNoInputAccumulator(heap0, outs[e])
InvFoldError  == \A e \in 1..Len(outs) : LawFoldError(heap0, root, sp, outs[e])
InvLazyEager  == \A e \in 1..Len(outs) : LawLazyIsEager(heap0, heap, root, sp, outs[e])
InvIndependent ==
  sp.init # "shlist" /\ Len(outs) = 2 /\ outs[1].ok /\ outs[2].ok => LawIndependent(heap, Len(heap0), outs[1].v, outs[2].v)
\* the harness sees exactly what the law was checked on
InvShownIsPred == \A e \in 1..Len(shown) : sp.init = "shlist" \/ shown[e] = [ok |-> pred[e].ok, v |-> pred[e].v, exc |-> pred[e].exc]
====================================================================================
