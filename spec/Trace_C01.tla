--------------------------------- MODULE Trace_C01 ---------------------------------
(* code -> spec for C01: every row of the ndjson file is one execution recorded from   *)
(* the real library on an input TLC did not choose (random object graphs with sharing  *)
(* and cycles, long paths): {heap, root, steps, obs}.  The specification's PathEval is  *)
(* re-evaluated on the recorded input and every observable the property names is       *)
(* compared with what the library did.  Rejected rows are printed with the failing     *)
(* clause; the run ends with {"done": n}.                                               *)
EXTENDS GlomAccess, Json, IOUtils

Rows == ndJsonDeserialize(IOEnv.TRACE_FILE)
VARIABLE i
Init == i = 1
Next == i <= Len(Rows) /\ i' = i + 1

Verdict(r) ==
  LET p == PathEval(r.heap, r.root, r.steps) o == r.obs IN
  IF p.ok # o.ok THEN "outcome"
  ELSE IF p.ok THEN (IF p.v # o.v THEN "identity" ELSE IF p.log # o.log THEN "accesslog" ELSE "")
  ELSE IF p.err # o.err THEN "errclass"
  ELSE IF p.idx # o.idx THEN "part_idx"
  ELSE IF p.exc # o.exc THEN "exc"
  ELSE IF p.log # o.log THEN "accesslog"
  ELSE ""

Check ==
  IF i <= Len(Rows)
  THEN LET v == Verdict(Rows[i]) IN v = "" \/ PrintT(ToJson([reject |-> i, clause |-> v]))
  ELSE PrintT(ToJson([done |-> Len(Rows)]))
====================================================================================
