--------------------------------- MODULE GlomShape ---------------------------------
(* C08 (b): Fill mode and argument position rebuild plain containers with the same     *)
(* type and shape.  A spec value is a heap graph (GlomData cells) whose leaves are        *)
(*   [k |-> "T"] (T) or [k |-> "spec"] (Spec(T)): replaced by the target,                 *)
(*   VFn(..): a callable -- called with the target in Fill mode, kept in argument position, *)
(*   strings / numbers / None: kept.                                                       *)
(* FillV is Fill mode (no memo: acyclic shapes only); ArgV is argument position: lists and  *)
(* dicts are memoised by identity, so self-referential containers are reproduced with the   *)
(* same cyclic shape.                                                                       *)
EXTENDS GlomData

TLeaf == [k |-> "T"]
SLeaf == [k |-> "spec"]
OLeaf == [k |-> "T0"]            \* T[0]: a T leaf with a recorded operation (its evaluation is a nested arg_val)
TgtOf(leaf, tgt) == IF leaf.k = "T0" THEN VStr("T") ELSE tgt    \* targets are the string "TGT": T[0] is "T"
Called == VStr("called")

Al(h, cell) == [heap |-> Append(h, cell), a |-> Len(h) + 1]

RECURSIVE FillV(_, _, _), FillSeq(_, _, _, _, _), FillPairs(_, _, _, _, _)
FillSeq(h, items, tgt, i, acc) ==
  IF i > Len(items) THEN [heap |-> h, v |-> acc]
  ELSE LET r == FillV(h, items[i], tgt) IN FillSeq(r.heap, items, tgt, i + 1, Append(acc, r.v))
FillPairs(h, items, tgt, i, acc) ==
  IF i > Len(items) THEN [heap |-> h, v |-> acc]
  ELSE LET rk == FillV(h, items[i][1], tgt)
           rv == FillV(rk.heap, items[i][2], tgt)
       IN FillPairs(rv.heap, items, tgt, i + 1, SetKey(acc, rk.v, rv.v))
FillV(h, v, tgt) ==
  IF v.k \in {"T", "spec", "T0"} THEN [heap |-> h, v |-> TgtOf(v, tgt)]
  ELSE IF v.k = "fn" THEN [heap |-> h, v |-> Called]
  ELSE IF IsRef(v) THEN
    LET c == h[v.a] IN
    IF c.cls = "dict"
    THEN LET r == FillPairs(h, c.items, tgt, 1, <<>>) al == Al(r.heap, Cell("dict", r.v)) IN [heap |-> al.heap, v |-> VRef(al.a)]
    ELSE LET r == FillSeq(h, c.items, tgt, 1, <<>>) al == Al(r.heap, Cell(c.cls, r.v)) IN [heap |-> al.heap, v |-> VRef(al.a)]
  ELSE [heap |-> h, v |-> v]

\* memo: sequence of <<spec address, result address>>
RECURSIVE MemoGet(_, _, _)
MemoGet(memo, a, i) == IF i > Len(memo) THEN 0 ELSE IF memo[i][1] = a THEN memo[i][2] ELSE MemoGet(memo, a, i + 1)

RECURSIVE ArgV(_, _, _, _), ArgSeqS(_, _, _, _, _, _), ArgPairs(_, _, _, _, _, _)
ArgSeqS(h, items, tgt, memo, i, acc) ==
  IF i > Len(items) THEN [heap |-> h, v |-> acc, memo |-> memo]
  ELSE LET r == ArgV(h, items[i], tgt, memo) IN ArgSeqS(r.heap, items, tgt, r.memo, i + 1, Append(acc, r.v))
ArgPairs(h, items, tgt, memo, i, acc) ==
  IF i > Len(items) THEN [heap |-> h, v |-> acc, memo |-> memo]
  ELSE LET rk == ArgV(h, items[i][1], tgt, memo)
           rv == ArgV(rk.heap, items[i][2], tgt, rk.memo)
       IN ArgPairs(rv.heap, items, tgt, rv.memo, i + 1, SetKey(acc, rk.v, rv.v))
ArgV(h, v, tgt, memo) ==
  IF v.k \in {"T", "spec", "T0"} THEN [heap |-> h, v |-> TgtOf(v, tgt), memo |-> memo]
  ELSE IF IsRef(v) THEN
    LET c == h[v.a] IN
    IF c.cls \in {"list", "dict"} THEN
      (IF MemoGet(memo, v.a, 1) # 0 THEN [heap |-> h, v |-> VRef(MemoGet(memo, v.a, 1)), memo |-> memo]
       ELSE LET al == Al(h, Cell(c.cls, <<>>))                 \* placeholder first: can contain itself
                memo2 == Append(memo, <<v.a, al.a>>)
                r == IF c.cls = "dict" THEN ArgPairs(al.heap, c.items, tgt, memo2, 1, <<>>)
                     ELSE ArgSeqS(al.heap, c.items, tgt, memo2, 1, <<>>)
            IN [heap |-> [r.heap EXCEPT ![al.a].items = r.v], v |-> VRef(al.a), memo |-> r.memo])
    ELSE LET r == ArgSeqS(h, c.items, tgt, memo, 1, <<>>)
             al == Al(r.heap, Cell(c.cls, r.v))
         IN [heap |-> al.heap, v |-> VRef(al.a), memo |-> r.memo]
  ELSE [heap |-> h, v |-> v, memo |-> memo]                   \* strings, numbers, None, callables: literal

\* ---- LAW: same type and shape, T-like leaves replaced (bounded bisimulation) -------------------
RECURSIVE SameShape(_, _, _, _, _, _, _)
SameShape(sh, sv, rh, rv, tgt, argpos, d) ==
  IF d = 0 THEN TRUE
  ELSE IF sv.k \in {"T", "spec", "T0"} THEN rv = TgtOf(sv, tgt)
  ELSE IF sv.k = "fn" THEN (IF argpos THEN rv = sv ELSE rv = Called)
  ELSE IF IsRef(sv) THEN
    /\ IsRef(rv)
    /\ LET sc == sh[sv.a] rc == rh[rv.a] IN
       /\ sc.cls = rc.cls /\ Len(sc.items) = Len(rc.items)
       /\ IF sc.cls = "dict"
          THEN \A i \in 1..Len(sc.items) :
                 /\ SameShape(sh, sc.items[i][1], rh, rc.items[i][1], tgt, argpos, d - 1)
                 /\ SameShape(sh, sc.items[i][2], rh, rc.items[i][2], tgt, argpos, d - 1)
          ELSE \A i \in 1..Len(sc.items) : SameShape(sh, sc.items[i], rh, rc.items[i], tgt, argpos, d - 1)
  ELSE rv = sv
\* every container of the result is a new object (the spec's own containers are never handed out)
RECURSIVE AllFresh(_, _, _, _)
AllFresh(rh, rv, n0, d) ==
  d = 0 \/ ~IsRef(rv) \/
  (/\ rv.a > n0
   /\ LET c == rh[rv.a] IN
      IF c.cls = "dict" THEN \A i \in 1..Len(c.items) : AllFresh(rh, c.items[i][1], n0, d - 1) /\ AllFresh(rh, c.items[i][2], n0, d - 1)
      ELSE \A i \in 1..Len(c.items) : AllFresh(rh, c.items[i], n0, d - 1))
====================================================================================
