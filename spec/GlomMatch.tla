--------------------------------- MODULE GlomMatch ---------------------------------
(* Match mode, M expressions, And / Or / Not, Switch, Check  (properties C09, C10).      *)
(*                                                                                       *)
(* The module has three layers, kept apart on purpose:                                   *)
(*   1. Python primitives on value trees (==, ordering, isinstance, truthiness, T[..]).  *)
(*   2. THE LAW: Holds(mode, t, p) -- the boolean reading of a pattern / combinator tree  *)
(*      written from the documented rules with quantifiers only, and Denotes(mode, t, p)  *)
(*      -- the value a successful evaluation must be equal to.  Neither mentions order    *)
(*      of evaluation, exceptions or call logs.                                           *)
(*   3. THE MECHANISM: Ev(mode, t, p) -- a sequential evaluator structured like            *)
(*      glom/matching.py (one operator per dispatch case of _glom_match / per glomit),     *)
(*      producing an outcome [ok, v, errs, amb, calls, same] to which executions of the    *)
(*      real library are bound in both directions.                                         *)
(* MC_C09 / MC_C10 let TLC check  mechanism |= law  on bounded universes; the harness       *)
(* replays every enumerated case into the library; Trace_C09 / Trace_C10 re-evaluate Ev     *)
(* on rows recorded from the library.                                                      *)
(*                                                                                       *)
(* Values are *trees*: scalars as in GlomData, containers [k:"c", cls, items] (map        *)
(* classes hold [key, val] entries in insertion order).   TreeOf(heap, v) unfolds an      *)
(* (acyclic) GlomData heap value, so recorded rows may carry heaps with sharing.           *)
(*                                                                                       *)
(* pattern / spec AST (JSON-native records, field `op`):                                  *)
(*   lit(v) type(t) pred(name,id) regex(name,func,flags) m(cmp,rhs,refl) mtruthy              *)
(*   msub(steps,cmp,rhs) msubt(steps) tget(steps) val(v)      steps: item keys and [n:] slices *)
(*   and(c,form,hasdef,def) or(c,form,hasdef,def) not(c,form)                              *)
(*   switch(cases,form,hasdef,def)          form: list of pairs | dict                      *)
(*   check(sub,seq,types,inst,vals,oneof,validate,hasdef,def)   sub: T steps of Check(spec) *)
(*   match(sub,hasdef,def)                  also nested inside patterns and combinators     *)
(*   wrap(kind,key)                         construction of Optional(..) / Required(..)     *)
(*   list(alts) set(alts) frozenset(alts) tuple(elems) dict(items)                         *)
(*   optional(key,hasdef,def) required(key)            -- dict keys only                   *)
EXTENDS GlomData

CONSTANT Mutant      \* "none", or the name of a deliberately wrong disjunct of the mechanism

\* ===================================================================================
\* 1. Python primitives on trees
\* ===================================================================================
VC(cls, items) == [k |-> "c", cls |-> cls, items |-> items]
Entry(key, val) == [key |-> key, val |-> val]     \* one entry of a map-class container
IsC(v) == v.k = "c"
\* container classes: the builtins, OrderedDict, and subclasses used to harden the universes --
\*   flist / fdict / fset: list / dict / set subclasses whose instances are falsy whatever they hold,
\*   ntuple: a tuple subclass whose constructor takes the items as separate arguments
Base(cls) == CASE cls \in {"flist"} -> "list" [] cls \in {"odict", "fdict"} -> "dict" [] cls = "ntuple" -> "tuple"
               [] cls = "fset" -> "set" [] OTHER -> cls
IsMapCls(cls) == Base(cls) = "dict" \/ cls = "obj"
Family(cls) == IF Base(cls) \in {"set", "frozenset"} THEN "set" ELSE Base(cls)
FalsyClasses == {"flist", "fdict", "fset"}
\* two hostile scalars: [k: "any"] is == to everything (and != to nothing); [k: "grumpy"] raises
\* TypeError when compared with anything but another grumpy (it only occurs as a whole target)
VAny == [k |-> "any"]
VGrumpy == [k |-> "grumpy"]

RECURSIVE TreeOf(_, _)
TreeOf(heap, v) ==
  IF ~IsRef(v) THEN v
  ELSE LET c == heap[v.a] IN
       VC(c.cls, [i \in 1..Len(c.items) |->
                    IF IsMapCls(c.cls)
                    THEN Entry(TreeOf(heap, c.items[i][1]), TreeOf(heap, c.items[i][2]))
                    ELSE TreeOf(heap, c.items[i])])

\* the string universe (TLC can neither index nor order strings: explicit tables)
StrU == {"", "a", "b", "aa", "ab", "ba", "bb"}
StrRank == [s \in StrU |-> CASE s = "" -> 0 [] s = "a" -> 1 [] s = "aa" -> 2 [] s = "ab" -> 3
                             [] s = "b" -> 4 [] s = "ba" -> 5 [] s = "bb" -> 6]
StrSeq == [s \in StrU |-> CASE s = "" -> <<>> [] s = "a" -> <<"a">> [] s = "b" -> <<"b">>
                            [] s = "aa" -> <<"a", "a">> [] s = "ab" -> <<"a", "b">>
                            [] s = "ba" -> <<"b", "a">> [] s = "bb" -> <<"b", "b">>]
\* re.fullmatch / re.match / re.search of three patterns over StrU (cross-checked against
\* Python's re by the harness at start-up):  ra = 'a', rb = 'b+', rs = 'a*'
RegexTab ==
  [ra |-> [fullmatch |-> {"a"}, match |-> {"a", "aa", "ab"}, search |-> {"a", "aa", "ab", "ba"}],
   rb |-> [fullmatch |-> {"b", "bb"}, match |-> {"b", "ba", "bb"}, search |-> {"b", "ab", "ba", "bb"}],
   rs |-> [fullmatch |-> {"", "a", "aa"}, match |-> StrU, search |-> StrU]]

\* rA = 'A' (upper case): matches nothing in the (lower-case) universe unless re.IGNORECASE
\* is given, and then what 'a' matches; on lower-case patterns the flag changes nothing here
NoStrings == [fullmatch |-> {}, match |-> {}, search |-> {}]
RegexSet(name, func, flags) ==
  IF name = "rA" THEN (IF flags = "I" THEN RegexTab["ra"][func] ELSE NoStrings[func]) ELSE RegexTab[name][func]

RECURSIVE NoGrumpyInside(_)
NoGrumpyInside(v) ==      \* grumpy values only as a whole target, "any" not as a set element / dict key
  ~IsC(v) \/ \A i \in 1..Len(v.items) :
     IF IsMapCls(v.cls) THEN v.items[i].key.k \notin {"grumpy", "any"} /\ v.items[i].val.k # "grumpy" /\ NoGrumpyInside(v.items[i].key) /\ NoGrumpyInside(v.items[i].val)
     ELSE v.items[i].k # "grumpy" /\ (Family(v.cls) = "set" => v.items[i].k # "any") /\ NoGrumpyInside(v.items[i])
RECURSIVE StrsOK0(_)
StrsOK(v) ==      \* every string of a value lies in the table universe (and hostile values are where they may be)
  NoGrumpyInside(v) /\ StrsOK0(v)
StrsOK0(v) ==
  IF v.k = "str" THEN v.s \in StrU
  ELSE IF ~IsC(v) THEN TRUE
  ELSE \A i \in 1..Len(v.items) :
         IF IsMapCls(v.cls) THEN StrsOK0(v.items[i].key) /\ StrsOK0(v.items[i].val) ELSE StrsOK0(v.items[i])

IsNum(v) == v.k \in {"int", "bool"}
Num(v) == IF v.k = "int" THEN v.i ELSE IF v.b THEN 1 ELSE 0

\* Python  x == y
RECURSIVE PyEq(_, _)
PyEq(x, y) ==
  IF x.k = "any" \/ y.k = "any" THEN TRUE
  ELSE IF x.k = "grumpy" \/ y.k = "grumpy" THEN x.k = y.k      \* (a foreign operand raises: see PyCmp / EqRaises)
  ELSE IF IsNum(x) /\ IsNum(y) THEN Num(x) = Num(y)
  ELSE IF x.k = "str" /\ y.k = "str" THEN x.s = y.s
  ELSE IF x.k = "none" /\ y.k = "none" THEN TRUE
  ELSE IF IsC(x) /\ IsC(y) THEN
    /\ Family(x.cls) = Family(y.cls)
    /\ Len(x.items) = Len(y.items)
    /\ LET n == Len(x.items) f == Family(x.cls) IN
       IF f \in {"list", "tuple"} THEN \A i \in 1..n : PyEq(x.items[i], y.items[i])
       ELSE IF f = "set" THEN \A i \in 1..n : \E j \in 1..n : PyEq(x.items[i], y.items[j])
       ELSE IF x.cls = "odict" /\ y.cls = "odict"        \* OrderedDict == OrderedDict is order-sensitive
            THEN \A i \in 1..n : PyEq(x.items[i].key, y.items[i].key) /\ PyEq(x.items[i].val, y.items[i].val)
       ELSE \A i \in 1..n : \E j \in 1..n : PyEq(x.items[i].key, y.items[j].key) /\ PyEq(x.items[i].val, y.items[j].val)
  ELSE IF x.k = y.k /\ x.k \in {"sent", "fn"} THEN x = y
  ELSE FALSE

\* Python comparison  x op y : "T" true, "F" false, "E" Python refuses (TypeError)
\* numbers and strings are totally ordered; sets (set / frozenset, also mixed) are ordered by
\* inclusion, which is only a partial order: neither x <= y nor x > y may hold
IsSetV(v) == IsC(v) /\ Family(v.cls) = "set"
Ordered(x, y) == (IsNum(x) /\ IsNum(y)) \/ (x.k = "str" /\ y.k = "str")
Lt(x, y) == IF IsNum(x) THEN Num(x) < Num(y) ELSE StrRank[x.s] < StrRank[y.s]
SubsetEq(x, y) == \A i \in 1..Len(x.items) : \E j \in 1..Len(y.items) : PyEq(x.items[i], y.items[j])
TF(b) == IF b THEN "T" ELSE "F"
EqRaises(x, y) == (x.k = "grumpy") # (y.k = "grumpy")
PyCmp(op, x, y) ==
  IF op \in {"==", "!="} /\ EqRaises(x, y) THEN "E"
  ELSE IF op = "==" THEN TF(PyEq(x, y))
  ELSE IF op = "!=" THEN TF(~PyEq(x, y))
  ELSE IF IsSetV(x) /\ IsSetV(y) THEN
    (IF op = "<=" THEN TF(SubsetEq(x, y)) ELSE IF op = ">=" THEN TF(SubsetEq(y, x))
     ELSE IF op = "<" THEN TF(SubsetEq(x, y) /\ ~SubsetEq(y, x)) ELSE TF(SubsetEq(y, x) /\ ~SubsetEq(x, y)))
  ELSE IF ~Ordered(x, y) THEN "E"
  ELSE IF op = "<" THEN TF(Lt(x, y))
  ELSE IF op = ">" THEN TF(Lt(y, x))
  ELSE IF op = "<=" THEN TF(~Lt(y, x))
  ELSE TF(~Lt(x, y))                               \* ">="

PyTruthy(v) ==
  IF v.k = "int" THEN v.i # 0 ELSE IF v.k = "bool" THEN v.b ELSE IF v.k = "str" THEN v.s # ""
  ELSE IF v.k = "none" THEN FALSE ELSE IF IsC(v) THEN (v.cls \notin FalsyClasses /\ Len(v.items) > 0) ELSE TRUE

\* isinstance(v, <type named tn>)   (bool is a subclass of int, everything is an object,
\* OrderedDict is a subclass of dict, frozenset is not a set)
PyIsInstance(v, tn) ==
  IF tn = "object" THEN TRUE
  ELSE IF tn = "int" THEN v.k \in {"int", "bool"}
  ELSE IF tn = "bool" THEN v.k = "bool"
  ELSE IF tn = "str" THEN v.k = "str"
  ELSE IF tn = "NoneType" THEN v.k = "none"
  ELSE IF tn = "OrderedDict" THEN IsC(v) /\ v.cls = "odict"
  ELSE IsC(v) /\ Base(v.cls) = tn                  \* dict list tuple set frozenset (and their subclasses)
\* type(v).__name__
PyType(v) ==
  IF v.k = "none" THEN "NoneType"
  ELSE IF IsC(v) THEN (IF v.cls = "odict" THEN "OrderedDict" ELSE IF v.cls = "flist" THEN "Falsylist"
                       ELSE IF v.cls = "fdict" THEN "Falsydict" ELSE IF v.cls = "fset" THEN "Falsyset" ELSE IF v.cls = "ntuple" THEN "NTuple" ELSE v.cls)
  ELSE v.k

\* a step  [n:]  (slice with a non-negative start only)
VSlice(lo) == [k |-> "slice", lo |-> lo]
DropN(items, n) == IF n >= Len(items) THEN <<>> ELSE SubSeq(items, n + 1, Len(items))
StrOfSeq(sq) == CHOOSE s \in StrU : StrSeq[s] = sq        \* suffixes of universe strings are in the universe
\* Python  cur[arg]  on trees
TreeIndex(items, arg) ==
  IF ~IsNum(arg) THEN Exc("TypeError")
  ELSE LET i == Num(arg) n == Len(items) IN
       IF i >= 0 /\ i < n THEN Ok(items[i + 1])
       ELSE IF i < 0 /\ i >= -n THEN Ok(items[n + i + 1]) ELSE Exc("IndexError")
TreeGetItem(cur, arg) ==
  IF arg.k = "slice" THEN
    IF IsC(cur) /\ Base(cur.cls) \in {"list", "tuple"} THEN Ok(VC(Base(cur.cls), DropN(cur.items, arg.lo)))   \* a plain list / tuple
    ELSE IF cur.k = "str" THEN Ok(VStr(StrOfSeq(DropN(StrSeq[cur.s], arg.lo))))
    ELSE IF IsC(cur) /\ Base(cur.cls) = "dict" THEN Exc("KeyError")
    ELSE Exc("TypeError")
  ELSE IF IsC(cur) THEN
    IF Base(cur.cls) = "dict" THEN
      LET hit == {i \in 1..Len(cur.items) : PyEq(cur.items[i].key, arg)} IN
      IF hit = {} THEN Exc("KeyError") ELSE Ok(cur.items[CHOOSE i \in hit : TRUE].val)
    ELSE IF Base(cur.cls) \in {"list", "tuple"} THEN TreeIndex(cur.items, arg)
    ELSE Exc("TypeError")
  ELSE IF cur.k = "str" THEN
    LET r == TreeIndex(StrSeq[cur.s], arg) IN IF r.ok THEN Ok(VStr(r.v)) ELSE r
  ELSE Exc("TypeError")
\* T[a][b]... : every failure of a T item step is reported by glom as a PathAccessError
RECURSIVE TGet(_, _, _)
TGet(cur, steps, i) ==
  IF i > Len(steps) THEN Ok(cur)
  ELSE LET r == TreeGetItem(cur, steps[i]) IN IF r.ok THEN TGet(r.v, steps, i + 1) ELSE r

\* defaults (Match / And / Or / Switch default=, Optional(key, default=)) are evaluated as
\* argument values against the current target: T expressions inside them -- [k:"targ", steps],
\* also inside containers -- are resolved, everything else stands for itself, and containers
\* are built afresh on every evaluation
VTarg(steps) == [k |-> "targ", steps |-> steps]
RECURSIVE ArgVal(_, _)
ArgVal(t, d) ==
  IF d.k = "targ" THEN TGet(t, d.steps, 1)
  ELSE IF ~IsC(d) THEN Ok(d)
  ELSE LET n == Len(d.items)
           rs == [i \in 1..n |-> IF IsMapCls(d.cls)
                                  THEN [k |-> ArgVal(t, d.items[i].key), v |-> ArgVal(t, d.items[i].val)]
                                  ELSE [k |-> Ok(VNone), v |-> ArgVal(t, d.items[i])]]
       IN IF \E i \in 1..n : ~rs[i].k.ok \/ ~rs[i].v.ok THEN Exc("KeyError")
          ELSE Ok(VC(d.cls, [i \in 1..n |-> IF IsMapCls(d.cls) THEN Entry(rs[i].k.v, rs[i].v.v) ELSE rs[i].v.v]))
RECURSIVE HasTarg(_)
HasTarg(d) == d.k = "targ" \/ (IsC(d) /\ \E i \in 1..Len(d.items) :
                 IF IsMapCls(d.cls) THEN HasTarg(d.items[i].key) \/ HasTarg(d.items[i].val) ELSE HasTarg(d.items[i]))
\* what a caller who mutates a returned container does to it (used to state that a spec object
\* evaluated again yields what a fresh one yields: nothing of an earlier result lives on in it)
Poisoned(d) ==
  IF ~IsC(d) \/ d.cls \in {"tuple", "frozenset"} THEN d
  ELSE IF IsMapCls(d.cls) THEN VC(d.cls, Append(d.items, Entry(VStr("#"), VInt(1))))
  ELSE VC(d.cls, Append(d.items, VStr("#")))

\* the named predicates of the harness library: what calling them on t does (a value, or
\* the class of the exception raised)
\*   recip: 1 / x > 0      head: x[0] == 'a'      boom: ValueError      boom_attr: AttributeError
PredRet(name, t) ==
  IF name = "yes" THEN Ok(VBool(TRUE))
  ELSE IF name = "no" THEN Ok(VBool(FALSE))
  ELSE IF name = "zero" THEN Ok(VInt(0))
  ELSE IF name = "truthy" THEN Ok(VBool(PyTruthy(t)))
  ELSE IF name = "isnum" THEN Ok(VBool(IsNum(t)))
  ELSE IF name = "falsy" THEN Ok(VBool(~PyTruthy(t)))
  ELSE IF name = "recip" THEN
    (IF ~IsNum(t) THEN Exc("TypeError") ELSE IF Num(t) = 0 THEN Exc("ZeroDivisionError") ELSE Ok(VBool(Num(t) > 0)))
  ELSE IF name = "head" THEN
    (LET r == TreeGetItem(t, VInt(0)) IN IF r.ok THEN Ok(VBool(PyEq(r.v, VStr("a")))) ELSE r)
  ELSE IF name = "boom_attr" THEN Exc("AttributeError")
  ELSE Exc("ValueError")                           \* "boom"

\* ===================================================================================
\* pattern constructors
\* ===================================================================================
PLit(v) == [op |-> "lit", v |-> v]
PType(t) == [op |-> "type", t |-> t]
PPred(name, id) == [op |-> "pred", name |-> name, id |-> id]
PRegexF(name, func, flags) == [op |-> "regex", name |-> name, func |-> func, flags |-> flags]   \* flags: "" | "I"
PRegex(name, func) == PRegexF(name, func, "")
PMX(cmp, rhs, refl) == [op |-> "m", cmp |-> cmp, rhs |-> rhs, refl |-> refl]
PM(cmp, rhs) == PMX(cmp, rhs, FALSE)             \* M cmp rhs
PMR(cmp, lhs) == PMX(cmp, lhs, TRUE)             \* lhs cmp M   (Python reflects it onto M)
PMTruthy == [op |-> "mtruthy"]
PMSub(steps, cmp, rhs) == [op |-> "msub", steps |-> steps, cmp |-> cmp, rhs |-> rhs]
PMSubT(steps) == [op |-> "msubt", steps |-> steps]
PTGet(steps) == [op |-> "tget", steps |-> steps]
PVal(v) == [op |-> "val", v |-> v]
PAnd(c, form, hasdef, def) == [op |-> "and", c |-> c, form |-> form, hasdef |-> hasdef, def |-> def]
POr(c, form, hasdef, def) == [op |-> "or", c |-> c, form |-> form, hasdef |-> hasdef, def |-> def]
PNot(c, form) == [op |-> "not", c |-> <<c>>, form |-> form]
PSwitchF(cases, form, hasdef, def) ==          \* form: "list" [(key, val), ..] | "dict" {key: val, ..}
  [op |-> "switch", cases |-> cases, form |-> form, hasdef |-> hasdef, def |-> def]
PSwitch(cases, hasdef, def) == PSwitchF(cases, "list", hasdef, def)
\* sub: the T steps of Check(spec, ..) (<<>> = the target itself); seq: "list" | "tuple", how
\* multi-valued arguments are passed; oneof: vals given as one_of=, else equal_to=
PCheckS(sub, seq, types, inst, vals, oneof, validate, hasdef, def) ==
  [op |-> "check", sub |-> sub, seq |-> seq, types |-> types, inst |-> inst, vals |-> vals, oneof |-> oneof,
   validate |-> validate, hasdef |-> hasdef, def |-> def]
PCheck(types, inst, vals, oneof, validate, hasdef, def) == PCheckS(<<>>, "list", types, inst, vals, oneof, validate, hasdef, def)
PWrap(kind, key) == [op |-> "wrap", kind |-> kind, key |-> key]      \* Optional(key) / Required(key) being built
PMatch(sub, hasdef, def) == [op |-> "match", sub |-> sub, hasdef |-> hasdef, def |-> def]
PList(alts) == [op |-> "list", alts |-> alts]
PSet(alts) == [op |-> "set", alts |-> alts]
PFrozenset(alts) == [op |-> "frozenset", alts |-> alts]
PTuple(elems) == [op |-> "tuple", elems |-> elems]
PDict(items) == [op |-> "dict", items |-> items]
POptional(key, hasdef, def) == [op |-> "optional", key |-> key, hasdef |-> hasdef, def |-> def]
PRequired(key) == [op |-> "required", key |-> key]

\* a dict-spec key as a pattern for target keys: Required(k) -> k, Optional(k) -> == k
KeyPat(sk) == IF sk.op = "required" THEN sk.key ELSE IF sk.op = "optional" THEN PLit(sk.key) ELSE sk
\* "equality keys": literals, and tuples / frozensets made of such only
RECURSIVE IsEqKey(_)
IsEqKey(p) ==
  IF p.op = "lit" THEN TRUE
  ELSE IF p.op = "tuple" THEN \A i \in 1..Len(p.elems) : IsEqKey(p.elems[i])
  ELSE IF p.op = "frozenset" THEN \A i \in 1..Len(p.alts) : IsEqKey(p.alts[i])
  ELSE FALSE
\* "equality keys required unless Optional, other keys optional unless Required"
IsRequiredKey(sk) == sk.op = "required" \/ (sk.op # "optional" /\ IsEqKey(sk))

DefaultOps == {"and", "or", "switch", "match", "check"}
HasDef(p) == p.op \in DefaultOps /\ p.hasdef

\* can the Python object of a pattern be a set element / dict key?  (M and M(T..) define __eq__
\* without __hash__; lists, sets and dicts are unhashable)
RECURSIVE Hashable(_)
Hashable(p) ==
  IF p.op \in {"mtruthy", "msubt", "list", "set", "dict"} THEN FALSE
  ELSE IF p.op = "tuple" THEN \A i \in 1..Len(p.elems) : Hashable(p.elems[i])
  ELSE IF p.op = "frozenset" THEN \A i \in 1..Len(p.alts) : Hashable(p.alts[i])
  ELSE IF p.op = "required" THEN Hashable(p.key)
  ELSE TRUE

\* the fragment the module gives a meaning to: literals, types and container patterns only
\* under Match (in Auto mode they are paths / constructors / callables: C03's business);
\* Optional / Required only as dict keys
\* defaults are plain builtin containers: arg_val neither rebuilds nor resolves T inside
\* instances of subclasses (OrderedDict ...), which the documentation does not cover
RECURSIVE PlainDefault(_)
PlainDefault(d) ==
  ~IsC(d) \/ (Base(d.cls) = d.cls /\ \A i \in 1..Len(d.items) :
                 IF IsMapCls(d.cls) THEN PlainDefault(d.items[i].key) /\ PlainDefault(d.items[i].val) ELSE PlainDefault(d.items[i]))
RECURSIVE InFragment(_, _), InFragment0(_, _)
InFragment(mode, p) ==
  InFragment0(mode, p) /\ (p.op \in {"and", "or", "switch", "match", "check", "optional"} /\ p.hasdef => PlainDefault(p.def))
InFragment0(mode, p) ==
  LET all(sq, m) == \A i \in 1..Len(sq) : InFragment(m, sq[i]) IN
  IF p.op \in {"lit", "type"} THEN mode = "match"
  ELSE IF p.op \in {"pred", "regex", "m", "mtruthy", "msub", "msubt", "tget", "val", "check"} THEN TRUE
  ELSE IF p.op \in {"and", "or", "not"} THEN Len(p.c) >= 1 /\ all(p.c, mode)
  ELSE IF p.op = "switch" THEN
         /\ Len(p.cases) >= 1 /\ \A i \in 1..Len(p.cases) : InFragment(mode, p.cases[i][1]) /\ InFragment(mode, p.cases[i][2])
         /\ (p.form = "dict" => \A i \in 1..Len(p.cases) :       \* key specs are dict keys: hashable, distinct
                Hashable(p.cases[i][1]) /\ \A j \in 1..(i - 1) : p.cases[i][1] # p.cases[j][1])
  ELSE IF p.op = "match" THEN InFragment("match", p.sub)
  ELSE IF p.op \in {"list", "set", "frozenset"} THEN
         mode = "match" /\ all(p.alts, mode) /\ (p.op # "list" => \A i \in 1..Len(p.alts) : Hashable(p.alts[i]))
  ELSE IF p.op = "tuple" THEN mode = "match" /\ all(p.elems, mode)
  ELSE IF p.op = "dict" THEN
         mode = "match" /\ \A i \in 1..Len(p.items) :
            /\ \A j \in 1..(i - 1) :               \* two Optionals for one key: undocumented
                  ~(p.items[i][1].op = "optional" /\ p.items[j][1].op = "optional" /\ PyEq(p.items[i][1].key, p.items[j][1].key))
            /\ Hashable(p.items[i][1])
            /\ InFragment(mode, KeyPat(p.items[i][1]))
            /\ (p.items[i][1].op = "optional" /\ p.items[i][1].hasdef => PlainDefault(p.items[i][1].def))
            /\ (p.items[i][1].op = "required" => ~IsEqKey(p.items[i][1].key))
            /\ InFragment(mode, p.items[i][2])
  ELSE FALSE

\* ===================================================================================
\* 2. The law: boolean reading and denoted value
\* ===================================================================================
MinOf(S) == CHOOSE i \in S : \A j \in S : i <= j

RECURSIVE Holds(_, _, _), Core(_, _, _), FirstAlt(_, _, _), FirstKey(_, _), Denotes(_, _, _)

\* first alternative / first spec key (in spec order) the value conforms to; 0 = none
FirstAlt(mode, t, alts) ==
  LET S == {i \in 1..Len(alts) : Holds(mode, t, alts[i])} IN IF S = {} THEN 0 ELSE MinOf(S)
FirstKey(k, items) ==
  LET S == {j \in 1..Len(items) : Holds("match", k, KeyPat(items[j][1]))} IN IF S = {} THEN 0 ELSE MinOf(S)

\* the conditions of a Check on the value u they are applied to
CheckHolds(u, p) == LET t == u IN
  /\ (p.types # <<>> => \E i \in 1..Len(p.types) : PyType(t) = p.types[i])           \* exact type
  /\ (p.inst # <<>> => \E i \in 1..Len(p.inst) : PyIsInstance(t, p.inst[i]))          \* isinstance
  /\ (p.vals # <<>> => \E i \in 1..Len(p.vals) : PyEq(t, p.vals[i]))                  \* equal_to / one_of
  /\ \A i \in 1..Len(p.validate) :                                                    \* "return False or raise"
        LET r == PredRet(p.validate[i].name, t) IN r.ok /\ r.v # VBool(FALSE)
  /\ (p.types = <<>> /\ p.inst = <<>> /\ p.vals = <<>> /\ p.validate = <<>> => PyTruthy(t))

\* the condition a node states, its own default set aside
Core(mode, t, p) ==
  IF p.op = "lit" THEN PyEq(t, p.v)                                  \* everything else by ==
  ELSE IF p.op = "type" THEN PyIsInstance(t, p.t)                      \* types by isinstance
  ELSE IF p.op = "pred" THEN LET r == PredRet(p.name, t) IN
         IF mode = "match" THEN r.ok /\ PyTruthy(r.v) ELSE r.ok        \* Auto: a callable is applied
  ELSE IF p.op = "regex" THEN t.k = "str" /\ t.s \in RegexSet(p.name, p.func, p.flags)
  ELSE IF p.op = "m" THEN (IF p.refl THEN PyCmp(p.cmp, p.rhs, t) ELSE PyCmp(p.cmp, t, p.rhs)) = "T"
  ELSE IF p.op = "mtruthy" THEN PyTruthy(t)
  ELSE IF p.op = "msub" THEN LET g == TGet(t, p.steps, 1) IN g.ok /\ PyCmp(p.cmp, g.v, p.rhs) = "T"
  ELSE IF p.op = "msubt" THEN LET g == TGet(t, p.steps, 1) IN g.ok /\ PyTruthy(g.v)
  ELSE IF p.op = "tget" THEN TGet(t, p.steps, 1).ok
  ELSE IF p.op = "val" THEN TRUE
  ELSE IF p.op = "and" THEN \A i \in 1..Len(p.c) : Holds(mode, t, p.c[i])
  ELSE IF p.op = "or" THEN \E i \in 1..Len(p.c) : Holds(mode, t, p.c[i])
  ELSE IF p.op = "not" THEN ~Holds(mode, t, p.c[1])
  ELSE IF p.op = "switch" THEN
         LET S == {i \in 1..Len(p.cases) : Holds(mode, t, p.cases[i][1])} IN
         S # {} /\ Holds(mode, t, p.cases[MinOf(S)][2])                 \* first passing case only
  ELSE IF p.op = "check" THEN LET g == TGet(t, p.sub, 1) IN g.ok /\ CheckHolds(g.v, p)   \* Check(spec, ..): on the sub-target
  ELSE IF p.op = "match" THEN Holds("match", t, p.sub)
  ELSE IF p.op \in {"list", "set", "frozenset"} THEN                    \* element-wise, any alternative
         PyIsInstance(t, p.op) /\ \A i \in 1..Len(t.items) : FirstAlt("match", t.items[i], p.alts) # 0
  ELSE IF p.op = "tuple" THEN                                           \* positionally
         /\ PyIsInstance(t, "tuple") /\ Len(t.items) = Len(p.elems)
         /\ \A i \in 1..Len(p.elems) : Holds("match", t.items[i], p.elems[i])
  ELSE IF p.op = "dict" THEN
         /\ PyIsInstance(t, "dict")
         /\ \A i \in 1..Len(t.items) :                                  \* keys tried in spec order
               LET j == FirstKey(t.items[i].key, p.items) IN
               j # 0 /\ Holds("match", t.items[i].val, p.items[j][2])
         /\ \A j \in 1..Len(p.items) : IsRequiredKey(p.items[j][1]) =>
               \E i \in 1..Len(t.items) : FirstKey(t.items[i].key, p.items) = j
  ELSE FALSE

\* "each honours its default": And / Or / Match / Check never fail with a GlomError when they
\* have one; Switch's default stands for "no case matched" only -- the value spec of the case
\* that did match is not covered by it; Check's default replaces a failed check, not a
\* sub-spec that cannot be evaluated
Holds(mode, t, p) ==
  IF p.op = "switch"
  THEN Core(mode, t, p) \/ (p.hasdef /\ ArgVal(t, p.def).ok /\ \A i \in 1..Len(p.cases) : ~Holds(mode, t, p.cases[i][1]))
  ELSE IF p.op = "check" THEN       \* its default is evaluated against the value the conditions were applied to
    LET g == TGet(t, p.sub, 1) IN g.ok /\ (Core(mode, t, p) \/ (p.hasdef /\ ArgVal(g.v, p.def).ok))
  ELSE Core(mode, t, p) \/ (HasDef(p) /\ ArgVal(t, p.def).ok)

\* the value a passing evaluation yields (meaningful only where Holds)
Denotes(mode, t, p) ==
  IF HasDef(p) /\ ~Core(mode, t, p) THEN ArgVal(IF p.op = "check" THEN TGet(t, p.sub, 1).v ELSE t, p.def).v
  ELSE IF p.op \in {"lit", "type", "regex", "m", "mtruthy", "msub", "msubt", "not", "check"} THEN t
  ELSE IF p.op = "pred" THEN (IF mode = "match" THEN t ELSE PredRet(p.name, t).v)
  ELSE IF p.op = "tget" THEN TGet(t, p.steps, 1).v
  ELSE IF p.op = "val" THEN p.v
  ELSE IF p.op = "and" THEN Denotes(mode, t, p.c[Len(p.c)])                     \* last child's result
  ELSE IF p.op = "or" THEN Denotes(mode, t, p.c[FirstAlt(mode, t, p.c)])        \* first passing child's
  ELSE IF p.op = "switch" THEN
         LET S == {i \in 1..Len(p.cases) : Holds(mode, t, p.cases[i][1])} IN Denotes(mode, t, p.cases[MinOf(S)][2])
  ELSE IF p.op = "match" THEN Denotes("match", t, p.sub)
  ELSE IF p.op \in {"list", "set", "frozenset"} THEN
         VC(p.op, [i \in 1..Len(t.items) |->
                     Denotes("match", t.items[i], p.alts[FirstAlt("match", t.items[i], p.alts)])])
  ELSE IF p.op = "tuple" THEN VC("tuple", [i \in 1..Len(t.items) |-> Denotes("match", t.items[i], p.elems[i])])
  ELSE IF p.op = "dict" THEN                                         \* the target plus Optional defaults
         LET ents == [i \in 1..Len(t.items) |->
                        LET j == FirstKey(t.items[i].key, p.items) IN
                        Entry(Denotes("match", t.items[i].key, KeyPat(p.items[j][1])),
                              Denotes("match", t.items[i].val, p.items[j][2]))]
             absent(sk) == sk.op = "optional" /\ sk.hasdef /\
                           ~\E i \in 1..Len(t.items) : PyEq(t.items[i].key, sk.key)
             dflt == SelectSeq(p.items, LAMBDA it : absent(it[1]))
         IN VC("dict", ents \o [i \in 1..Len(dflt) |-> Entry(dflt[i][1].key, ArgVal(t, dflt[i][1].def).v)])
  ELSE VNone

\* v is t plus (possibly) added dict keys, recursively: "returns them unchanged"
RECURSIVE Extends(_, _)
Extends(v, t) ==
  IF ~IsC(t) \/ ~IsC(v) THEN PyEq(v, t)
  ELSE /\ Family(v.cls) = Family(t.cls)
       /\ IF Family(t.cls) \in {"list", "tuple"}
          THEN Len(v.items) = Len(t.items) /\ \A i \in 1..Len(t.items) : Extends(v.items[i], t.items[i])
          ELSE IF Family(t.cls) = "set" THEN PyEq(v, t)
          ELSE \A i \in 1..Len(t.items) : \E j \in 1..Len(v.items) :
                  PyEq(v.items[j].key, t.items[i].key) /\ Extends(v.items[j].val, t.items[i].val)

RECURSIVE HasOptDefault(_)
HasOptDefault(p) ==
  LET any(sq) == \E i \in 1..Len(sq) : HasOptDefault(sq[i]) IN
  IF p.op \in {"and", "or", "not"} THEN any(p.c)
  ELSE IF p.op \in {"list", "set", "frozenset"} THEN any(p.alts)
  ELSE IF p.op = "tuple" THEN any(p.elems)
  ELSE IF p.op = "match" THEN HasOptDefault(p.sub)
  ELSE IF p.op = "dict" THEN \E i \in 1..Len(p.items) :
         \/ (p.items[i][1].op = "optional" /\ p.items[i][1].hasdef)
         \/ HasOptDefault(p.items[i][2])
  ELSE FALSE

\* does a node of the pattern carry a default of its own (nested Match(.., default=), And / Or
\* default)?  Then the result may differ from the target by more than added dict keys.
RECURSIVE HasNodeDefault(_)
HasNodeDefault(p) ==
  LET any(sq) == \E i \in 1..Len(sq) : HasNodeDefault(sq[i]) IN
  IF p.op \in {"and", "or"} THEN p.hasdef \/ any(p.c)
  ELSE IF p.op = "not" THEN any(p.c)
  ELSE IF p.op = "match" THEN p.hasdef \/ HasNodeDefault(p.sub)
  ELSE IF p.op \in {"switch", "check", "val", "tget"} THEN TRUE
  ELSE IF p.op \in {"list", "set", "frozenset"} THEN any(p.alts)
  ELSE IF p.op = "tuple" THEN any(p.elems)
  ELSE IF p.op = "dict" THEN \E i \in 1..Len(p.items) : HasNodeDefault(KeyPat(p.items[i][1])) \/ HasNodeDefault(p.items[i][2])
  ELSE FALSE

\* ===================================================================================
\* 3. The mechanism: sequential evaluator with outcomes
\* ===================================================================================
\* outcome: ok; v result tree; errs = the exception classes the law permits for this failure
\* (several when the documentation does not say which of several independent reasons is
\* reported); amb = the outcome depends on an order the documentation leaves open (hash
\* order of sets, which of several failing items is met first) *and* that order decides
\* between a caught and an uncaught class -- such cases are not compared; calls = ids of
\* the named predicates invoked, in order; same = the result is the target object itself
GlomClasses == {"MatchError", "TypeMatchError", "CheckError", "PathAccessError", "GlomError"}
Pass(v, calls, same) == [ok |-> TRUE, v |-> v, errs |-> {}, amb |-> FALSE, calls |-> calls, same |-> same]
Fail(errs, calls)    == [ok |-> FALSE, v |-> VNone, errs |-> errs, amb |-> FALSE, calls |-> calls, same |-> FALSE]
Caught(o)  == ~o.ok /\ o.errs \subseteq GlomClasses          \* what `except GlomError` catches
Foreign(o) == ~o.ok /\ ~(o.errs \subseteq GlomClasses)
Clean(o)   == ~o.amb /\ ~Foreign(o)
Prepend(calls, amb, o) == [o EXCEPT !.calls = calls \o @, !.amb = amb \/ @]

RECURSIVE Flat(_)
Flat(ss) == IF ss = <<>> THEN <<>> ELSE Head(ss) \o Flat(Tail(ss))
\* calls of a left-to-right iteration that stops at the first failing part
SeqCalls(rs) ==
  LET B == {i \in 1..Len(rs) : ~rs[i].ok}
      n == IF B = {} THEN Len(rs) ELSE MinOf(B)
  IN Flat([i \in 1..n |-> rs[i].calls])
\* independent parts of one container (items, entries, missing required keys): success needs
\* all of them; on failure any failing part may be the one reported
Collect(rs, extra, v) ==
  LET bad == {i \in 1..Len(rs) : ~rs[i].ok}
      errs == extra \cup UNION {rs[i].errs : i \in bad}
      amb == (\E i \in 1..Len(rs) : rs[i].amb) \/ (errs \cap GlomClasses # {} /\ errs \ GlomClasses # {})
  IN [ok |-> errs = {}, v |-> IF errs = {} THEN v ELSE VNone, errs |-> errs, amb |-> amb,
      calls |-> SeqCalls(rs), same |-> FALSE]

\* _Bool.glomit / Switch / Match / Check: `except GlomError` -> default
\* arg_val(target, default): (mutant default_not_evaluated: a "plain" container default is handed
\* out as it is, its T leaves unresolved)
EvDefault(t, d, calls) ==
  LET r == IF Mutant = "default_not_evaluated" /\ d.k # "targ" THEN Ok(d) ELSE ArgVal(t, d) IN
  IF r.ok THEN Pass(r.v, calls, FALSE) ELSE Fail({"PathAccessError"}, calls)
\* (mutant falsy_default_missing: `if default:` where `default is not _MISSING` is meant)
WithDefault(o, p, t) == IF Caught(o) /\ p.hasdef /\ ~(Mutant = "falsy_default_missing" /\ ~PyTruthy(p.def)) THEN [EvDefault(t, p.def, o.calls) EXCEPT !.amb = o.amb] ELSE o

RECURSIVE Ev(_, _, _), EvAnd(_, _, _, _), EvOr(_, _, _, _, _), EvSwitch(_, _, _, _),
          EvAlts(_, _, _, _), EvItem(_, _, _), EvEntry(_, _, _, _)

\* And._glomit: children one after the other, the first failure ends it, last result
EvAnd(mode, t, cs, i) ==
  LET r == Ev(mode, t, cs[i]) IN
  IF (~r.ok /\ Mutant # "and_continue") \/ i = Len(cs) THEN r
  ELSE Prepend(r.calls, r.amb, EvAnd(mode, t, cs, i + 1))

\* Or._glomit: first child that passes; errors that are not GlomErrors escape at once;
\* when every child failed: a MatchError, or a child's own error
EvOr(mode, t, cs, i, acc) ==
  LET r == Ev(mode, t, cs[i]) IN
  IF Mutant = "or_last" /\ r.ok /\ i < Len(cs) /\ EvOr(mode, t, cs, i + 1, acc).ok
    THEN Prepend(r.calls, r.amb, EvOr(mode, t, cs, i + 1, acc))
  \* (mutant or_skips_falsy_result: `result or next` -- a passing child whose result is falsy is passed over)
  ELSE IF r.ok /\ Mutant = "or_skips_falsy_result" /\ ~PyTruthy(r.v) /\ i < Len(cs) THEN Prepend(r.calls, r.amb, EvOr(mode, t, cs, i + 1, acc))
  ELSE IF r.ok \/ Foreign(r) THEN r
  ELSE IF i = Len(cs) THEN [Fail({"MatchError"} \cup acc \cup r.errs, r.calls) EXCEPT !.amb = r.amb]
  ELSE Prepend(r.calls, r.amb, EvOr(mode, t, cs, i + 1, acc \cup r.errs))

\* Switch.glomit: first case whose key spec passes; only its value spec is evaluated and
\* its outcome (also a failure) is the outcome; the default only when no key passes
EvSwitch(mode, t, p, i) ==
  IF i > Len(p.cases) THEN (IF p.hasdef THEN EvDefault(t, p.def, <<>>) ELSE Fail({"MatchError"}, <<>>))
  ELSE LET rk == Ev(mode, t, p.cases[i][1]) IN
       IF rk.ok THEN
         LET rv == Ev(mode, t, p.cases[i][2]) IN
         IF Mutant = "switch_fallthrough" /\ Caught(rv)
           THEN Prepend(rk.calls \o rv.calls, rk.amb \/ rv.amb, EvSwitch(mode, t, p, i + 1))
         ELSE IF Mutant = "switch_last_match" /\ i < Len(p.cases) /\ EvSwitch(mode, t, p, i + 1).ok
           THEN Prepend(rk.calls, rk.amb, EvSwitch(mode, t, p, i + 1))
         ELSE Prepend(rk.calls, rk.amb, rv)
       ELSE IF Foreign(rk) THEN rk
       ELSE Prepend(rk.calls, rk.amb, EvSwitch(mode, t, p, i + 1))

\* Check.glomit
\* (mutant check_default_ignored: the historic behaviour -- a validator that raises, with the
\* other conditions met, led to a CheckError although a default was given)
\* Check(spec, ..): the conditions are applied to the sub-target the spec extracts (a spec that
\* cannot be evaluated fails as itself), the data passed through is the target
EvCheck(t0, p) ==
  LET g == TGet(t0, p.sub, 1) IN
  IF ~g.ok THEN Fail({"PathAccessError"}, <<>>)
  ELSE IF \E i \in 1..Len(p.vals) : EqRaises(g.v, p.vals[i]) THEN
    \* `in` compares with ==, and that == raises: the TypeError comes out -- unless another
    \* condition fails too: which of the two is met first (default / CheckError or the TypeError)
    \* depends on an order of the conditions that the documentation leaves open
    LET rest == [p EXCEPT !.vals = <<>>, !.types = IF p.types = <<>> /\ p.inst = <<>> /\ p.validate = <<>> THEN <<PyType(g.v)>> ELSE @]
    IN [Fail({"TypeError"}, <<>>) EXCEPT !.amb = ~CheckHolds(g.v, rest)]
  ELSE
  LET t == g.v
      raising == \E i \in 1..Len(p.validate) : ~PredRet(p.validate[i].name, t).ok
      others == CheckHolds(t, [p EXCEPT !.validate = SelectSeq(p.validate, LAMBDA v : PredRet(v.name, t).ok),
                                        !.types = IF p.types = <<>> /\ p.inst = <<>> /\ p.vals = <<>> THEN <<PyType(t)>> ELSE @])
      \* (mutant check_validator_some_exceptions: only TypeError / ValueError of a validator count as a rejection)
      escaping == {PredRet(p.validate[i].name, t).exc : i \in {j \in 1..Len(p.validate) : ~PredRet(p.validate[j].name, t).ok}}
                  \ {"TypeError", "ValueError"}
  IN IF Mutant = "check_validator_some_exceptions" /\ escaping # {} THEN Fail(escaping, <<>>)
     ELSE IF CheckHolds(t, p) THEN (IF Mutant = "check_returns_subtarget" THEN Pass(t, <<>>, p.sub = <<>>) ELSE Pass(t0, <<>>, TRUE))
     \* (mutant check_validator_default_raw: the historic behaviour -- when only a validator failed the
     \* default object was returned as it stands, not evaluated as an argument value)
     ELSE IF p.hasdef /\ Mutant = "check_validator_default_raw" /\ CheckHolds(t, [p EXCEPT !.validate = <<>>,
                  !.types = IF p.types = <<>> /\ p.inst = <<>> /\ p.vals = <<>> THEN <<PyType(t)>> ELSE @])
       THEN Pass(p.def, <<>>, FALSE)
     ELSE IF p.hasdef /\ ~(Mutant = "check_default_ignored" /\ raising /\ others) THEN EvDefault(t, p.def, <<>>)
     ELSE Fail({"CheckError"}, <<>>)

\* one target item against the alternatives of a list / set / frozenset pattern, in order
EvAlts(t, alts, i, acc) ==
  IF i > Len(alts) THEN Fail(IF acc = {} THEN {"MatchError"} ELSE acc, <<>>)
  ELSE LET r == Ev("match", t, alts[i]) IN
       IF r.ok \/ Foreign(r) THEN r
       ELSE Prepend(r.calls, r.amb, EvAlts(t, alts, i + 1, acc \cup r.errs))
\* the alternatives of a set pattern are met in hash order: open
EvItem(t, alts, unordered) ==
  LET r == EvAlts(t, alts, 1, {}) IN
  IF unordered /\ Len(alts) > 1 /\ \E i \in 1..Len(alts) : Foreign(Ev("match", t, alts[i]))
  THEN [r EXCEPT !.amb = TRUE] ELSE r

\* _handle_dict, one target entry: spec keys in spec order; the first key pattern the key
\* matches decides which value pattern applies (no later key is tried after that)
EvEntry(k, v, items, j) ==
  IF j > Len(items) THEN [r |-> Fail({"MatchError"}, <<>>), j |-> 0, key |-> VNone]
  ELSE LET rk == Ev("match", k, KeyPat(items[j][1])) IN
       IF rk.ok THEN
         LET rv == Ev("match", v, items[j][2]) IN
         IF Mutant = "dict_try_later" /\ Caught(rv)
           THEN LET e == EvEntry(k, v, items, j + 1) IN [e EXCEPT !.r = Prepend(rk.calls \o rv.calls, rk.amb, @)]
         ELSE [r |-> Prepend(rk.calls, rk.amb, rv), j |-> j, key |-> rk.v]
       ELSE IF Foreign(rk) THEN [r |-> rk, j |-> 0, key |-> VNone]
       ELSE LET e == EvEntry(k, v, items, j + 1) IN [e EXCEPT !.r = Prepend(rk.calls, rk.amb, @)]

\* (mutant keys_by_precedence: spec keys tried by "specificity" -- constants, then specs, then
\* types -- instead of the documented insertion order)
KeyPrec(sk) ==
  LET kp == KeyPat(sk) IN
  IF IsEqKey(kp) THEN 0 ELSE IF kp.op = "type" THEN 2
  ELSE IF kp.op = "tuple" /\ \E i \in 1..Len(kp.elems) : kp.elems[i].op = "type" THEN 2 ELSE 1
ByPrecedence(items) ==
  SelectSeq(items, LAMBDA it : KeyPrec(it[1]) = 0) \o SelectSeq(items, LAMBDA it : KeyPrec(it[1]) = 1) \o
  SelectSeq(items, LAMBDA it : KeyPrec(it[1]) = 2)

\* (mutant container_exact_type: type(target) is <class> where isinstance is documented)
MechIsInstance(t, tn) == IF Mutant = "container_exact_type" THEN IsC(t) /\ t.cls = tn ELSE PyIsInstance(t, tn)
EvDict(t, p0) ==
  IF ~MechIsInstance(t, "dict") THEN Fail({"TypeMatchError"}, <<>>)
  ELSE LET p == IF Mutant = "keys_by_precedence" THEN [p0 EXCEPT !.items = ByPrecedence(@)] ELSE p0
           n == Len(t.items)
           es == [i \in 1..n |-> EvEntry(t.items[i].key, t.items[i].val, p.items, 1)]
           hit == {es[i].j : i \in {x \in 1..n : es[x].r.ok}}
           missing == {j \in 1..Len(p.items) : j \notin hit /\
                         (IsRequiredKey(p.items[j][1]) \/ (Mutant = "type_keys_required" /\ p.items[j][1].op = "type"))}
           pairs == [i \in 1..n |-> Entry(es[i].key, es[i].r.v)]
           absent(sk) == sk.op = "optional" /\ sk.hasdef /\
                         (Mutant = "opt_default_always" \/ ~\E i \in 1..n : PyEq(es[i].key, sk.key))
           dflt == SelectSeq(p.items, LAMBDA it : absent(it[1]))
           base == IF Mutant = "opt_default_always"
                   THEN SelectSeq(pairs, LAMBDA pr : ~\E i \in 1..Len(dflt) : PyEq(pr.key, dflt[i][1].key))
                   ELSE pairs
           \* (mutant opt_default_validated: a default must itself match the value pattern)
           dvals == [i \in 1..Len(dflt) |->         \* arg_val(target, default): evaluated against the dict
                       IF Mutant = "default_not_evaluated" /\ dflt[i][1].def.k # "targ" THEN Ok(dflt[i][1].def)
                       ELSE ArgVal(t, dflt[i][1].def)]
           undef == \E i \in 1..Len(dflt) : ~dvals[i].ok
           baddef == Mutant = "opt_default_validated" /\
                     \E i \in 1..Len(dflt) : ~Ev("match", dflt[i][1].def, dflt[i][2]).ok
       IN Collect([i \in 1..n |-> es[i].r],
                  (IF (missing # {} /\ Mutant # "required_ignored") \/ baddef THEN {"MatchError"} ELSE {}) \cup
                  (IF undef THEN {"PathAccessError"} ELSE {}),
                  VC("dict", base \o [i \in 1..Len(dflt) |-> Entry(dflt[i][1].key, dvals[i].v)]))

EvSeqPat(t, p) ==
  IF ~MechIsInstance(t, p.op) /\ ~(Mutant = "set_family_loose" /\ IsC(t) /\ Family(t.cls) = Family(p.op))
    THEN Fail({"TypeMatchError"}, <<>>)
  ELSE LET rs == [i \in 1..Len(t.items) |-> EvItem(t.items[i], p.alts, p.op # "list")]
       IN Collect(rs, {}, VC(p.op, [i \in 1..Len(rs) |-> rs[i].v]))

EvTuple(t, p) ==
  IF ~MechIsInstance(t, "tuple") THEN Fail({"TypeMatchError"}, <<>>)
  ELSE IF Len(t.items) # Len(p.elems) /\ ~(Mutant = "tuple_length_unchecked" /\ Len(t.items) > Len(p.elems))
    THEN Fail({"MatchError"}, <<>>)
  ELSE LET rs == [i \in 1..Len(p.elems) |-> Ev("match", t.items[i], p.elems[i])]
       IN Collect(rs, {}, VC("tuple", [i \in 1..Len(rs) |-> rs[i].v]))

\* _MExpr.glomit: lhs cmp c decides, the target is passed through; a comparison Python itself
\* refuses is not a rejection: its TypeError propagates
\* (mutant cmp_by_complement: != > >= decided as the negations of == <= <, which is wrong where
\* the order is partial)
Complement(cmp) == IF cmp = "!=" THEN "==" ELSE IF cmp = ">" THEN "<=" ELSE "<"
EvCmp(t, lhs, cmp, c) ==
  LET r0 == PyCmp(cmp, lhs, c)
      rc == PyCmp(Complement(cmp), lhs, c)
      r == IF Mutant = "cmp_by_complement" /\ cmp \in {"!=", ">", ">="} /\ r0 # "E"
           THEN (IF rc = "T" THEN "F" ELSE "T") ELSE r0 IN
  IF r = "T" THEN Pass(t, <<>>, TRUE)
  ELSE IF r = "F" \/ Mutant = "unorderable_is_rejection" THEN Fail({"MatchError"}, <<>>) ELSE Fail({"TypeError"}, <<>>)

Ev(mode, t, p) ==
  IF p.op = "lit" THEN
    IF EqRaises(t, p.v) THEN Fail({"TypeError"}, <<>>)          \* the == of the values themselves raises
    ELSE IF PyEq(t, p.v) THEN Pass(t, <<>>, FALSE) ELSE Fail({"MatchError"}, <<>>)
  ELSE IF p.op = "type" THEN
    IF (IF Mutant = "type_exact" THEN PyType(t) = p.t ELSE PyIsInstance(t, p.t)) THEN Pass(t, <<>>, FALSE)
    ELSE Fail({"TypeMatchError"}, <<>>)
  ELSE IF p.op = "pred" THEN
    LET r == PredRet(p.name, t) IN
    IF mode = "match"                                    \* truthy -> target; falsy / raising -> MatchError
    THEN IF r.ok /\ PyTruthy(r.v) THEN Pass(t, <<p.id>>, FALSE)
         ELSE IF ~r.ok /\ Mutant = "callable_some_exceptions" /\ r.exc \notin {"TypeError", "ValueError"} THEN Fail({r.exc}, <<p.id>>)
         ELSE Fail({"MatchError"}, <<p.id>>)          \* whatever the callable raises is a rejection
    ELSE IF r.ok THEN Pass(r.v, <<p.id>>, FALSE) ELSE Fail({r.exc}, <<p.id>>)     \* Auto: spec(target)
  ELSE IF p.op = "regex" THEN                            \* Regex.glomit: a string the pattern matches
    IF t.k # "str" THEN Fail({IF Mutant = "regex_nonstr_typematcherror" THEN "TypeMatchError" ELSE "MatchError"}, <<>>)
    ELSE IF t.s \in RegexSet(p.name,
                             IF Mutant = "regex_default_search" /\ p.func = "fullmatch" THEN "search" ELSE p.func,
                             IF Mutant = "regex_flags_ignored" THEN "" ELSE p.flags)
         THEN Pass(t, <<>>, TRUE) ELSE Fail({"MatchError"}, <<>>)
  ELSE IF p.op = "m" THEN
    IF p.refl /\ Mutant # "m_reflected_unswapped" THEN EvCmp(t, p.rhs, p.cmp, t) ELSE EvCmp(t, t, p.cmp, p.rhs)
  \* (mutant truthy_by_len: a container is judged by its length, not by bool())
  ELSE IF p.op = "mtruthy" THEN
    IF (IF Mutant = "truthy_by_len" /\ IsC(t) THEN Len(t.items) > 0 ELSE PyTruthy(t)) THEN Pass(t, <<>>, TRUE) ELSE Fail({"MatchError"}, <<>>)
  ELSE IF p.op = "msub" THEN
    LET g == TGet(t, p.steps, 1) IN
    IF g.ok THEN EvCmp(IF Mutant = "msub_returns_sub" THEN g.v ELSE t, g.v, p.cmp, p.rhs) ELSE Fail({"PathAccessError"}, <<>>)
  ELSE IF p.op = "msubt" THEN
    LET g == TGet(t, p.steps, 1) IN
    IF ~g.ok THEN Fail({"PathAccessError"}, <<>>)
    ELSE IF PyTruthy(g.v) THEN Pass(t, <<>>, TRUE) ELSE Fail({"MatchError"}, <<>>)
  ELSE IF p.op = "tget" THEN
    LET g == TGet(t, p.steps, 1) IN IF g.ok THEN Pass(g.v, <<>>, p.steps = <<>>) ELSE Fail({"PathAccessError"}, <<>>)
  ELSE IF p.op = "val" THEN Pass(p.v, <<>>, FALSE)
  ELSE IF p.op \in {"and", "or"} /\ Mutant = "opform_drops_default" /\ p.form = "op" /\ p.c[1].op = p.op /\ p.c[1].hasdef THEN
    \* the historic behaviour of And(.., default=d) & x / Or(.., default=d) | x: one flat
    \* combinator over the left operand's children and x, the default gone
    Ev(mode, t, [p EXCEPT !.c = p.c[1].c \o Tail(p.c), !.form = "ctor"])
  ELSE IF p.op = "and" THEN WithDefault(EvAnd(mode, t, p.c, 1), p, t)
  ELSE IF p.op = "or" THEN WithDefault(EvOr(mode, t, p.c, 1, {}), p, t)
  ELSE IF p.op = "not" THEN                              \* Not.glomit
    LET r == Ev(mode, t, p.c[1]) IN
    IF r.ok THEN [Fail({IF Mutant = "not_glomerror" THEN "GlomError" ELSE "MatchError"}, r.calls) EXCEPT !.amb = r.amb]
    ELSE IF Foreign(r) THEN r
    ELSE [Pass(t, r.calls, TRUE) EXCEPT !.amb = r.amb]
  ELSE IF p.op = "switch" THEN EvSwitch(mode, t, p, 1)
  ELSE IF p.op = "check" THEN EvCheck(t, p)
  ELSE IF p.op = "match" THEN                                           \* Match.glomit (also nested)
    IF Mutant = "nested_match_default_ignored" /\ mode = "match" THEN Ev("match", t, p.sub)
    ELSE WithDefault(Ev("match", t, p.sub), p, t)
  ELSE IF p.op \in {"list", "set", "frozenset"} THEN EvSeqPat(t, p)
  ELSE IF p.op = "tuple" THEN EvTuple(t, p)
  ELSE IF p.op = "dict" THEN EvDict(t, p)
  ELSE Fail({"Unmodelled"}, <<>>)

\* outcomes as state-variable values: errs as a sequence in a fixed order
ErrNames == <<"MatchError", "TypeMatchError", "CheckError", "PathAccessError", "GlomError",
              "TypeError", "ValueError", "ZeroDivisionError", "IndexError", "KeyError", "AttributeError", "Unmodelled">>
Dumped(o) == [o EXCEPT !.errs = SelectSeq(ErrNames, LAMBDA e : e \in o.errs)]
Undumped(o) == [o EXCEPT !.errs = {o.errs[i] : i \in 1..Len(o.errs)}]

\* construction of Optional(key) / Required(key): "equality keys are required unless Optional,
\* other keys optional unless Required" -- so Optional takes equality keys only, Required takes
\* anything but equality keys (ValueError otherwise), and wrapping twice is a TypeError
Constructs(p) ==
  IF p.op # "wrap" THEN "ok"
  ELSE IF p.key.op = "wrap" THEN "TypeError"
  ELSE IF p.kind = "optional" THEN (IF IsEqKey(p.key) THEN "ok" ELSE "ValueError")
  ELSE IF IsEqKey(p.key) /\ Mutant # "required_constant_allowed" THEN "ValueError" ELSE "ok"
\* further documented constructor refusals (a table; the harness holds the constructor calls)
CtorTable ==
  [and_no_children |-> "ValueError", or_no_children |-> "ValueError", bool_unknown_kwarg |-> "TypeError",
   switch_no_cases |-> "ValueError", switch_not_list_or_dict |-> "TypeError", switch_dict_ok |-> "ok",
   regex_bad_func |-> "ValueError", regex_func_none |-> "ok", m_of_non_t |-> "TypeError", m_of_t |-> "ok",
   check_equal_to_and_one_of |-> "TypeError", check_one_of_empty |-> "ValueError", check_type_not_a_type |-> "ValueError",
   check_validate_not_callable |-> "ValueError", check_instance_of_empty |-> "ValueError", check_unknown_kwarg |-> "TypeError",
   check_no_conditions |-> "ok"]

\* a spec object evaluated again, after it was evaluated on t1: the outcome is that of a fresh
\* object (specs carry no memory).  (mutant or_remembers_branch: an Or tries first the non-final
\* child that passed last time)
\* (mutant default_aliased: a container default is the very object held by the spec, so what a
\* caller did to an earlier result shows in the next one)
RECURSIVE PoisonDefaults(_)
PoisonDefaults(p) ==
  LET each(sq) == [i \in 1..Len(sq) |-> PoisonDefaults(sq[i])]
      own == IF p.op \in {"and", "or", "match", "switch", "check", "optional"} /\ p.hasdef THEN [p EXCEPT !.def = Poisoned(@)] ELSE p
  IN IF p.op \in {"and", "or", "not"} THEN [own EXCEPT !.c = each(@)]
     ELSE IF p.op = "match" THEN [own EXCEPT !.sub = PoisonDefaults(@)]
     ELSE IF p.op = "switch" THEN [own EXCEPT !.cases = [i \in 1..Len(@) |-> <<PoisonDefaults(@[i][1]), PoisonDefaults(@[i][2])>>]]
     ELSE IF p.op \in {"list", "set", "frozenset"} THEN [p EXCEPT !.alts = each(@)]
     ELSE IF p.op = "tuple" THEN [p EXCEPT !.elems = each(@)]
     ELSE IF p.op = "dict" THEN [p EXCEPT !.items = [i \in 1..Len(@) |-> <<PoisonDefaults(@[i][1]), PoisonDefaults(@[i][2])>>]]
     ELSE own
RECURSIVE EvAgain(_, _, _, _)
EvAgain(mode, t1, t2, p) ==
  IF Mutant = "default_aliased" THEN Ev(mode, t2, PoisonDefaults(p))
  ELSE IF p.op = "match" THEN WithDefault(EvAgain("match", t1, t2, p.sub), p, t2)
  ELSE IF Mutant = "or_remembers_branch" /\ p.op = "or" THEN
    LET S == {i \in 1..Len(p.c) : Ev(mode, t1, p.c[i]).ok}
        j == IF S = {} THEN 0 ELSE MinOf(S)
    IN IF j <= 1 \/ j = Len(p.c) THEN Ev(mode, t2, p)
       ELSE Ev(mode, t2, [p EXCEPT !.c = <<p.c[j]>> \o SubSeq(p.c, 1, j - 1) \o SubSeq(p.c, j + 1, Len(p.c))])
  ELSE Ev(mode, t2, p)

\* --- the interface named by the design --------------------------------------------
Conforms(heap, target, pattern) == Holds("match", TreeOf(heap, target), pattern)
Match(heap, target, pattern) == Ev("auto", TreeOf(heap, target), PMatch(pattern, FALSE, VNone))

\* ===================================================================================
\* laws (evaluated by MC_C09 / MC_C10 on every enumerated case, o == Ev(mode, t, p))
\* ===================================================================================
\* success exactly on conforming targets / the tree decides like the boolean expression
LawDecides(mode, t, p, o) == Clean(o) => (o.ok <=> Holds(mode, t, p))
\* the result is the denoted value: target plus Optional defaults; last / first passing
\* child's result; the default
LawResult(mode, t, p, o) == Clean(o) /\ o.ok => PyEq(o.v, Denotes(mode, t, p))
\* every failure carries at least one permitted class, and they are all caught or all not
LawErrs(o) == (~o.ok => o.errs # {}) /\ (o.ok => o.errs = {}) /\
              (~o.amb => (o.errs \subseteq GlomClasses \/ o.errs \cap GlomClasses = {}))

\* ids of the named predicates occurring in a tree
RECURSIVE PredIds(_)
PredIds(p) ==
  LET U(sq) == UNION {PredIds(sq[i]) : i \in 1..Len(sq)} IN
  IF p.op = "pred" THEN {p.id}
  ELSE IF p.op \in {"and", "or", "not"} THEN U(p.c)
  ELSE IF p.op = "switch" THEN UNION {PredIds(p.cases[i][1]) \cup PredIds(p.cases[i][2]) : i \in 1..Len(p.cases)}
  ELSE IF p.op = "match" THEN PredIds(p.sub)
  ELSE IF p.op \in {"list", "set", "frozenset"} THEN U(p.alts)
  ELSE IF p.op = "tuple" THEN U(p.elems)
  ELSE IF p.op = "dict" THEN UNION {PredIds(KeyPat(p.items[i][1])) \cup PredIds(p.items[i][2]) : i \in 1..Len(p.items)}
  ELSE {}
Called(o) == {o.calls[i] : i \in 1..Len(o.calls)}

\* give every named predicate of a tree a distinct id (its position, base 8)
RECURSIVE Label(_, _)
Label(p, n) ==
  IF p.op = "pred" THEN [p EXCEPT !.id = n]
  ELSE IF p.op \in {"and", "or", "not"} THEN [p EXCEPT !.c = [i \in 1..Len(p.c) |-> Label(p.c[i], n * 8 + i)]]
  ELSE IF p.op = "switch" THEN
    [p EXCEPT !.cases = [i \in 1..Len(p.cases) |-> <<Label(p.cases[i][1], n * 8 + 2 * i - 1), Label(p.cases[i][2], n * 8 + 2 * i)>>]]
  ELSE IF p.op = "match" THEN [p EXCEPT !.sub = Label(p.sub, n * 8 + 1)]
  ELSE p
====================================================================================
