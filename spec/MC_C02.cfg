INIT Init
NEXT Next
INVARIANT IndexInRange
INVARIANT Purity
INVARIANT Compositional
PROPERTY FirstFailureSurfaces
CHECK_DEADLOCK FALSE
