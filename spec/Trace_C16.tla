--------------------------------- MODULE Trace_C16 ---------------------------------
(* code -> spec for C16.  Every row of the ndjson file is one history recorded from the  *)
(* real library on inputs TLC did not choose: {spec, hist, obs}, hist = the new / feed /  *)
(* fault / fin events performed on ONE real Group spec object (longer item sequences, random      *)
(* nesting and re-use), obs = the result of every evaluation in order of its start.       *)
(* The machine of GlomGroup is stepped through the recorded events, one TLC state per     *)
(* event, with the same NewEvaluation / Feed / Finish actions the model checker explores; *)
(* when a history is exhausted the recorded results are judged:                            *)
(*   clause "law"   - a result differs from RefGroup (the hand-written loop): violation    *)
(*   clause "drift" - the results obey the law but the transcribed mechanism computes       *)
(*                    something else (the model, not the library, needs attention)         *)
EXTENDS GlomGroup, Json, IOUtils

Rows == ndJsonDeserialize(IOEnv.TRACE_FILE)
VARIABLES row, pos
tvars == <<row, pos>>

TInit == /\ row = 1 /\ pos = 0
         /\ spec = <<>> /\ heap = <<>> /\ evals = <<>> /\ stack = <<>> /\ hist = <<>>

Load == /\ pos = 0 /\ row <= Len(Rows)
        /\ spec' = Rows[row].spec
        /\ heap' = <<>> /\ evals' = <<>> /\ stack' = <<>> /\ hist' = <<>>
        /\ pos' = 1 /\ UNCHANGED row
Event == /\ pos >= 1 /\ pos <= Len(Rows[row].hist)
         /\ LET a == Rows[row].hist[pos] IN
            \/ a.a = "new" /\ NewEvaluation
            \/ a.a = "feed" /\ Feed(a.x)
            \/ a.a = "fault" /\ Fault
            \/ a.a = "fin" /\ Finish
         /\ pos' = pos + 1 /\ UNCHANGED <<spec, row>>
Close == /\ pos >= 1 /\ pos = Len(Rows[row].hist) + 1
         /\ row' = row + 1 /\ pos' = 0 /\ UNCHANGED gvars
TNext == Load \/ Event \/ Close

Verdict ==
  LET obs == Rows[row].obs
      n == Len(evals)
      lawbad == {e \in 1..n : evals[e].def /\ obs[e] # evals[e].pred}
      mechbad == {e \in 1..n : obs[e] # evals[e].out}
      First(S) == CHOOSE e \in S : \A f \in S : e <= f
      Rej(c, e) == [reject |-> row, clause |-> c, e |-> e, items |-> evals[e].items, obs |-> obs[e],
                    pred |-> evals[e].pred, mech |-> evals[e].out]
  IN IF Len(obs) # n THEN [reject |-> row, clause |-> "shape"]
     ELSE IF lawbad # {} THEN Rej("law", First(lawbad))
     ELSE IF mechbad # {} THEN Rej("drift", First(mechbad))
     ELSE [reject |-> row, clause |-> ""]

Check ==
  IF row > Len(Rows) THEN PrintT(ToJson([done |-> Len(Rows)]))
  ELSE IF pos >= 1 /\ pos = Len(Rows[row].hist) + 1
       THEN LET v == Verdict IN v.clause = "" \/ PrintT(ToJson(v))
       ELSE TRUE
====================================================================================
