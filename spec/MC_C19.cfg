\* quick-tier universe, unmutated mechanism (MC_C19_thorough.cfg: every documented value of
\* every flag, every file-name extension, --debug / --inspect; MC_C19_mut_*.cfg: spec mutants on
\* which TLC must report a law violated).  Extension "any": the harness draws one per run.
CONSTANTS
  Mutant = "none"
  SFmts = {"default", "json", "python-full", "bad"}
  TFmts = {"default", "python", "yaml", "toml", "bad"}
  Indents = {"default", "0"}
  TxtIds = {"qstr1", "qstr2", "blit", "bboth", "bare", "baresx", "bbad", "bname", "texpo", "texpb", "advb", "advq", "advo"}
  Argvs = {"ok", "badindent", "toomany", "unknownflag", "flagafter", "dupflag", "dashdash"}
  SExts = {"any", ".py"}
  TExts = {"any"}
  Dbgs = {"off", "debug"}
  PrintCross = "pairwise"
INIT Init
NEXT Next
INVARIANT ExecOnlyFull
INVARIANT EffectNeedsExec
INVARIANT DefaultRoutes
INVARIANT ResultLaw
INVARIANT GlomErrorLaw
INVARIANT TargetUsageLaw
INVARIANT ArgvLaw
INVARIANT LawStored
INVARIANT NoStuck
INVARIANT KnownPrefix
CHECK_DEADLOCK FALSE
