\* quick-tier universe, unmutated mechanism (the harness passes the same constants;
\* MC_C19_thorough.cfg is the full space, MC_C19_mut_*.cfg select spec mutants)
CONSTANTS
  Mutant = "none"
  SFmts = {"default", "json", "python-full", "bad"}
  TFmts = {"default", "python", "yaml", "toml", "bad"}
  Indents = {"default", "0", "4"}
  TxtIds = {"qstr1", "qstr2", "blit", "bboth", "bare", "baresx", "bbad", "bname", "texpo", "texpb", "advb", "advq", "advo"}
INIT Init
NEXT Next
INVARIANT ExecOnlyFull
INVARIANT EffectNeedsExec
INVARIANT DefaultRoutes
INVARIANT ResultLaw
INVARIANT GlomErrorLaw
INVARIANT TargetUsageLaw
INVARIANT LawStored
INVARIANT NoStuck
INVARIANT KnownPrefix
CHECK_DEADLOCK FALSE
