\* quick-tier universe, unmutated mechanism (MC_C19_thorough.cfg: every documented value of
\* every flag; MC_C19_mut_*.cfg: spec mutants on which TLC must report a law violated)
CONSTANTS
  Mutant = "none"
  SFmts = {"default", "json", "python-full", "bad"}
  TFmts = {"default", "python", "yaml", "toml", "bad"}
  Indents = {"default", "0"}
  TxtIds = {"qstr1", "qstr2", "blit", "bboth", "bare", "baresx", "bbad", "bname", "texpo", "texpb", "advb", "advq", "advo"}
INIT Init
NEXT Next
INVARIANT ExecOnlyFull
INVARIANT EffectNeedsExec
INVARIANT DefaultRoutes
INVARIANT ResultLaw
INVARIANT GlomErrorLaw
INVARIANT TargetUsageLaw
INVARIANT LawStored
INVARIANT NoStuck
INVARIANT KnownPrefix
CHECK_DEADLOCK FALSE
