--------------------------------- MODULE GlomCalls ---------------------------------
(* Calls of glom() as processes over the state the library shares between calls       *)
(* (properties C06 and C20).                                                           *)
(*                                                                                     *)
(* SHARED between all calls of one interpreter (and nothing else is):                  *)
(*   pathCache   Path._CACHE: per PATH_STAR value an insertion-ordered memo             *)
(*               text -> parsed path, bounded by MaxCache (= Path._MAX_CACHE),          *)
(*               bypassed - never evicted - when full                                   *)
(*   star        glom.core.PATH_STAR        starWarned   Path._STAR_WARNED              *)
(*   regs        the registrations made on the default TargetRegistry, in order         *)
(*   typeCache   TargetRegistry._type_cache: (type, op) -> handler, reset by register   *)
(* PRIVATE to one call: the stack of scope frames (target, mode, visible bindings,      *)
(* accumulators, cursor) of the evaluation and of every glom() call nested in it.       *)
(*                                                                                     *)
(* The module has three parts, kept apart on purpose:                                   *)
(*   1. DATA: values, the spec grammar, the Python-level primitives (handlers,          *)
(*      registry resolution, text -> path parsing).                                     *)
(*   2. LAW: Iso(call, star, regs), a direct recursive reading of what the call means    *)
(*      when it is the only call ever made in a fresh interpreter configured with        *)
(*      (star, regs).  It knows no caches, no frames and no other calls.                 *)
(*   3. MECHANISM: a small-step machine transcribed from glom/core.py - one scope        *)
(*      frame per sub-evaluation, Path.from_text as check / create / store / fetch       *)
(*      steps on pathCache, get_handler as check / compute / store / fetch steps on      *)
(*      typeCache, user callables as yield points, nested glom() calls as new root       *)
(*      frames on the same private stack.                                                *)
(* TLC checks MECHANISM |= LAW: every finished call has the outcome, the error and the   *)
(* sequence of observations Iso predicts - after every history (C06) and under every     *)
(* interleaving (C20).  Mutant selects a wrong mechanism on which the laws must fail.    *)
EXTENDS GlomData

CONSTANTS
  Pool,            \* sequence of calls [t, sc, sid, spec] the environment may make
  NProcs,          \* number of concurrently evaluating processes (threads)
  MaxCache,        \* Path._MAX_CACHE
  MaxCalls,        \* calls one process may make one after the other
  MaxToggles,      \* bound on PATH_STAR toggles
  MaxRegs,         \* bound on register() calls
  Gates,           \* subset of {"yield", "p", "t"}: the stop points at which another
                   \* process may be scheduled (all three = finest grain)
  ToggleAnytime,   \* FALSE: PATH_STAR is only toggled while no call is in progress
  RegisterAnytime, \* FALSE: register() is only called while no call is in progress
  RecHist,         \* TRUE: the history / schedule is recorded in hist (for replay)
  Mutant           \* "" or the name of a deliberately wrong mechanism

\* =====================================================================================
\* 1. DATA
\* =====================================================================================
VList(s)   == [k |-> "list", v |-> s]
VTup(s)    == [k |-> "tuple", v |-> s]
VDict(s)   == [k |-> "dict", v |-> s]                \* s: sequence of <<key value, value>>
VObj(c, s) == [k |-> "obj", cls |-> c, v |-> s]      \* instance of user class c with attributes s
\* (GlomData: VBool(b) = [k |-> "bool", b |-> b])
VHostile(n) == [k |-> "hostile", n |-> n]            \* an opaque object with a hostile __eq__ (equal to everything / raising):
                                                     \* the law only ever speaks about its identity (n)
VGen(s)    == [k |-> "gen", v |-> s]                 \* a one-shot iterator over s (pulling it after exhaustion is a fault)
TypeOf(v)  == IF v.k = "obj" THEN v.cls ELSE v.k

\* ---- spec grammar (what the harness turns into real glom specs) ----------------------
SPath(text, segs) == [op |-> "path", text |-> text, segs |-> segs]   \* 'a.b' (segs = text.split('.'))
SProbe(f)         == [op |-> "probe", f |-> f, r |-> FALSE]   \* custom spec: observes its scope, yields, returns f(target)
SRProbe           == [op |-> "probe", f |-> "id", r |-> TRUE] \* ... whose __repr__ is a yield point too: rendering the error
                                                             \* trace (str(exc)) of a failed call is then a step of the interleaving
SOpcall(f)        == [op |-> "opcall", f |-> f]       \* the op callable of a Fold: yields, returns f(item)
SNest(call)       == [op |-> "nest", call |-> call, log |-> FALSE]   \* custom spec whose glomit calls glom() re-entrantly
SNestLog(call)    == [op |-> "nest", call |-> call, log |-> TRUE]    \* ... and, when the inner call fails, renders the error
                                                                    \* (str(e), e.g. logging) before re-raising it: no effect on any outcome
SScopeLit         == [op |-> "scopelit"]                \* (S(seen={}), A.seen['k'], S.seen): an EMPTY literal container given as
                                                       \* a scope value is rebuilt per evaluation; the write goes into that copy
SCheck(eq, f)     == [op |-> "check", eq |-> eq, f |-> f]   \* Check(equal_to=eq, validate=V): the target itself, or CheckError
                                                          \* listing every failed condition; V (a user callable, f = "vtrue" / "vfalse") always runs
STPlus(v)         == [op |-> "tplus", v |-> v]          \* T + [..]: a new list (v: a list value), the operand is not touched
SRefDef(name, c)  == [op |-> "refdef", name |-> name, c |-> c]   \* Ref(name, c): names c for the evaluation of c (and of later chain steps)
SRefUse(name)     == [op |-> "refuse", name |-> name]   \* Ref(name): the spec named name; KeyError when nothing in scope defines it
RefKey(name)      == IF name = "n" THEN "ref:n" ELSE "ref:m"
STuple(c)         == [op |-> "tuple", c |-> c]        \* (s1, s2, ..)
SDict(items)      == [op |-> "dict", items |-> items, sp |-> "dict"]   \* {'k': s, ..}; items: sequence of <<key string, spec>>
SInvDict(items)   == [op |-> "dict", items |-> items, sp |-> "invoke"] \* Invoke(kwfn).specs(k1=s1).specs(k2=s2)..: the same dict, built
                                                                      \* step by step as keyword arguments of one Invoke object
SEach(sp, c)      == [op |-> "each", sp |-> sp, c |-> c]   \* sp = "list": [c]    sp = "iter": Iter(c).all()
SCoal(c, d)       == [op |-> "coal", c |-> c, d |-> d]     \* Coalesce(*c, default=..); d = [has, v]
SAcc(kind, f)     == [op |-> "acc", kind |-> kind, f |-> f] \* "group": Group([Probe(f)])  "fold": Fold(T, list, op)
SFill(c)          == [op |-> "fill", c |-> c]         \* Fill(c)
SBind(name, c)    == [op |-> "bind", name |-> name, c |-> c]   \* S(name=Spec(c))
SRead(name)       == [op |-> "read", name |-> name]   \* S[name]
SArgList(c)       == [op |-> "arglist", c |-> c]      \* a list ARGUMENT holding sub-specs: default=[s1, s2] (rebuilt per evaluation)
SLastY(init)      == [op |-> "lastvar", init |-> init, y |-> TRUE]    \* ... with a probe (yield point) between the writes and the read
SLast(init)       == [op |-> "lastvar", init |-> init, y |-> FALSE]   \* (S(v=Vars({'n': init})), [A.v.n], S.v.n): a scope variable
                                                        \* object created per evaluation, assigned per item, read at the end
SInvoke(c, k, v)  == [op |-> "invoke", c |-> c, k |-> k, v |-> v]   \* Invoke(kwfn).star(kwargs=c).constants(k=v); kwfn(**kw) = dict(kw)
\* Coalesce default: none, a constant (d.v), or a list argument with sub-specs (d.s = <<SArgList(..)>>)
NoDefault         == [has |-> FALSE, v |-> VNone, s |-> <<>>]
Default(v)        == [has |-> TRUE, v |-> v, s |-> <<>>]
DefaultArgs(c)    == [has |-> TRUE, v |-> VNone, s |-> <<SArgList(c)>>]
\* via = "glom": glom.glom(t, spec, scope=sc) (default registry);  via = "glommer": G.glom(t, spec)
\* through ONE shared Glommer instance G (its own registry: module-level registrations do not apply)
\* via = "spec": SP.glom(t, scope=sc) through ONE Spec object SP = Spec(spec) per sid
Call(t, sc, sid, spec) == [t |-> t, sc |-> sc, sid |-> sid, spec |-> spec, via |-> "glom"]
SCall(t, sc, sid, spec) == [t |-> t, sc |-> sc, sid |-> sid, spec |-> spec, via |-> "spec"]
GCall(t, sid, spec)    == [t |-> t, sc |-> <<>>, sid |-> sid, spec |-> spec, via |-> "glommer"]
RegsFor(via, regs)     == IF via = "glommer" THEN <<>> ELSE regs
RegistryOf(via)        == IF via = "glommer" THEN "glommer" ELSE "glom"
\* does the spec hold a probe whose __repr__ yields (not looking into nested calls)
RECURSIVE HasR(_)
HasR(n) ==
  CASE n.op = "probe" -> n.r
    [] n.op \in {"tuple", "arglist"} -> \E i \in 1..Len(n.c) : HasR(n.c[i])
    [] n.op = "coal" -> (\E i \in 1..Len(n.c) : HasR(n.c[i])) \/ (n.d.s # <<>> /\ HasR(n.d.s[1]))
    [] n.op = "dict" -> \E i \in 1..Len(n.items) : HasR(n.items[i][2])
    [] n.op \in {"each", "fill", "bind", "invoke", "refdef"} -> HasR(n.c)
    [] OTHER -> FALSE

\* ---- errors, outcomes, observations ---------------------------------------------------
\* cls: most specific well-known class; ge: is it (already) a GlomError; at: path of the spec
\* node whose frame raised it, inside its own call; inner: the finalized error of the
\* nested call it came out of (sequence of length 0 or 1)
Err(cls, ge, at, inner) == [cls |-> cls, ge |-> ge, at |-> at, inner |-> inner]
NoErr == Err("", FALSE, <<>>, <<>>)
Res(ok, v, e, obs, b) == [ok |-> ok, v |-> v, e |-> e, obs |-> obs, b |-> b]
Good(v, obs)  == Res(TRUE, v, NoErr, obs, <<>>)
Bad(e, obs)   == Res(FALSE, VNone, e, obs, <<>>)
Unmodelled(at) == Err("UNMODELLED", FALSE, at, <<>>)

\* what a probe sees when it is invoked: its own target, the root target of its call (S[ROOT][T]),
\* the mode in force, the user bindings visible in its scope, the accumulator it is feeding,
\* the nesting depth
NameOrder == <<"k", "x", "y">>
RECURSIVE CanonFrom(_, _)
CanonFrom(vis, i) ==
  IF i > Len(NameOrder) THEN <<>>
  ELSE (IF HasKey(vis, NameOrder[i]) THEN << <<NameOrder[i], Lookup(vis, NameOrder[i])>> >> ELSE <<>>)
       \o CanonFrom(vis, i + 1)
MkObs(at, d, t, rt, mode, vis, acc) ==
  [at |-> at, d |-> d, t |-> t, rt |-> rt, mode |-> mode, names |-> CanonFrom(vis, 1), acc |-> acc]

\* equality of values / observations that looks at the kind first (TLC refuses to compare
\* structures of different shape, which is exactly what a wrong outcome may be)
RECURSIVE VEq(_, _)
VEq(a, b) ==
  IF a.k # b.k THEN FALSE
  ELSE CASE a.k = "int" -> a.i = b.i
         [] a.k = "str" -> a.s = b.s
         [] a.k = "none" -> TRUE
         [] a.k = "bool" -> a.b = b.b
         [] a.k = "hostile" -> a.n = b.n
         [] a.k = "gen" -> Len(a.v) = Len(b.v) /\ \A i \in 1..Len(a.v) : VEq(a.v[i], b.v[i])
         [] a.k \in {"list", "tuple"} -> Len(a.v) = Len(b.v) /\ \A i \in 1..Len(a.v) : VEq(a.v[i], b.v[i])
         [] a.k \in {"dict", "obj"} ->
              /\ (a.k = "obj" => a.cls = b.cls) /\ Len(a.v) = Len(b.v)
              /\ \A i \in 1..Len(a.v) : VEq(a.v[i][1], b.v[i][1]) /\ VEq(a.v[i][2], b.v[i][2])
         [] a.k = "opaque" -> a.s = b.s
         [] OTHER -> FALSE
VSeqEq(a, b) == Len(a) = Len(b) /\ \A i \in 1..Len(a) : VEq(a[i], b[i])
ObsEq(a, b) ==
  /\ a.at = b.at /\ a.d = b.d /\ a.mode = b.mode /\ VEq(a.t, b.t) /\ VEq(a.rt, b.rt) /\ VSeqEq(a.acc, b.acc)
  /\ Len(a.names) = Len(b.names)
  /\ \A i \in 1..Len(a.names) : a.names[i][1] = b.names[i][1] /\ VEq(a.names[i][2], b.names[i][2])
ObsSeqEq(a, b) == Len(a) = Len(b) /\ \A i \in 1..Len(a) : ObsEq(a[i], b[i])

RECURSIVE Merge(_, _)
Merge(vis, cb) == IF cb = <<>> THEN vis ELSE Merge(SetKey(vis, cb[1][1], cb[1][2]), Tail(cb))

\* ---- Python-level primitives -----------------------------------------------------------
ApplyF(f, t) ==
  CASE f = "id"   -> Ok(t)
    [] f = "inc"  -> IF t.k = "int" THEN Ok(VInt(t.i + 1))
                     ELSE IF t.k = "bool" THEN Ok(VInt((IF t.b THEN 1 ELSE 0) + 1))      \* True + 1 == 2
                     ELSE Exc("TypeError")
    [] f = "boom" -> Exc("ValueError")
    [] f = "boomA" -> Exc("BoomA")      \* two DISTINCT user exception classes that are both named "Boom":
    [] f = "boomB" -> Exc("BoomB")      \* the error leaving glom() is an instance of the class that was raised
    [] f = "vtrue"  -> Ok(VInt(1))
    [] f = "vfalse" -> Ok(VInt(0))
    [] OTHER      -> Exc("UNMODELLED")

\* registrations the environment may make on the default registry
\* (exact = TRUE: register(.., exact=True), the type is entered in the type map only, not in the
\* subtype tree; each registration names ONE op, the other ops of the type keep their handler)
RegDefs == << [r |-> "Aget1", ty |-> "A", op |-> "get", h |-> "h1", exact |-> FALSE],
              [r |-> "Aget2", ty |-> "A", op |-> "get", h |-> "h2", exact |-> FALSE],
              [r |-> "Aiter", ty |-> "A", op |-> "iterate", h |-> "itvals", exact |-> FALSE],
              [r |-> "Aget3x", ty |-> "A", op |-> "get", h |-> "h3", exact |-> TRUE],
              [r |-> "Aiterx", ty |-> "A", op |-> "iterate", h |-> "itrev", exact |-> TRUE],
              [r |-> "Akeys", ty |-> "A", op |-> "keys", h |-> "keysa", exact |-> FALSE] >>
RegNames == {RegDefs[i].r : i \in 1..Len(RegDefs)}
RegOf(r) == RegDefs[CHOOSE i \in 1..Len(RegDefs) : RegDefs[i].r = r]

\* handlers of the default registry for the types of the universe
DefaultH(ty, op) ==
  CASE op = "get"     -> IF ty = "dict" THEN "getitem" ELSE IF ty \in {"list", "tuple"} THEN "seqitem" ELSE "getattr"
    [] op = "iterate" -> IF ty \in {"list", "tuple", "dict", "gen"} THEN "iter" ELSE IF ty = "str" THEN "iterstr" ELSE "NONE"
    [] op = "keys"    -> IF ty = "dict" THEN "dictkeys" ELSE IF ty = "A" THEN "objkeys" ELSE "NONE"
    [] OTHER          -> "NONE"
\* the documented meaning of the registry for exact types: the most recent registration
\* of (type, op) wins, otherwise the default applies
RECURSIVE ResolveFrom(_, _, _, _)
ResolveFrom(regs, i, ty, op) ==
  IF i = 0 THEN DefaultH(ty, op)
  ELSE LET d == RegOf(regs[i]) IN IF d.ty = ty /\ d.op = op THEN d.h ELSE ResolveFrom(regs, i - 1, ty, op)
Resolve(regs, ty, op) == ResolveFrom(regs, Len(regs), ty, op)

Bump(v, d) == IF v.k = "int" THEN VInt(v.i + d) ELSE v
AttrOf(cur, name) ==
  IF cur.k = "obj" /\ HasKey(cur.v, VStr(name)) THEN Ok(Lookup(cur.v, VStr(name))) ELSE Exc("AttributeError")
HGet(h, cur, seg) ==
  CASE h = "getitem" -> IF cur.k = "dict" /\ HasKey(cur.v, VStr(seg)) THEN Ok(Lookup(cur.v, VStr(seg))) ELSE Exc("KeyError")
    [] h = "seqitem" -> LET n == PyInt(VStr(seg)) IN
                        IF ~n.ok THEN n ELSE IF cur.k \in {"list", "tuple"} THEN SeqIndex(cur.v, n.v) ELSE Exc("TypeError")
    [] h = "getattr" -> AttrOf(cur, seg)
    [] h = "h1"      -> LET r == AttrOf(cur, seg) IN IF r.ok THEN Ok(Bump(r.v, 10)) ELSE r
    [] h = "h2"      -> LET r == AttrOf(cur, seg) IN IF r.ok THEN Ok(Bump(r.v, 20)) ELSE r
    [] h = "h3"      -> LET r == AttrOf(cur, seg) IN IF r.ok THEN Ok(Bump(r.v, 30)) ELSE r
    [] OTHER         -> Exc("UNMODELLED")
IterItems(h, t) ==
  CASE h = "iter"   -> IF t.k = "dict" THEN [i \in 1..Len(t.v) |-> t.v[i][1]] ELSE t.v
    [] h = "itvals" -> [i \in 1..Len(t.v) |-> t.v[i][2]]
    [] h = "itrev"  -> [i \in 1..Len(t.v) |-> t.v[Len(t.v) + 1 - i][2]]
    [] OTHER        -> <<>>
\* children of a dict / attribute object as the wildcard sees them (keys handler, then the
\* 'get' handler per key)
\* ("keysa": a registered keys handler that lists only the attribute 'a')
KidsOf(cur, hkeys, hget) ==
  IF cur.k = "dict" THEN [i \in 1..Len(cur.v) |-> cur.v[i][2]]
  ELSE LET names == IF hkeys = "keysa" THEN SelectSeq([i \in 1..Len(cur.v) |-> cur.v[i][1].s], LAMBDA x : x = "a")
                    ELSE [i \in 1..Len(cur.v) |-> cur.v[i][1].s] IN
       [i \in 1..Len(names) |-> HGet(hget, cur, names[i]).v]

\* Path.from_text: '*' is a wildcard only when PATH_STAR is on at creation time
Parse(segs, st) ==
  [i \in 1..Len(segs) |->
     IF st /\ segs[i] = "*" THEN [op |-> "x", arg |-> ""]
     ELSE IF st /\ segs[i] = "**" THEN [op |-> "X", arg |-> ""]
     ELSE [op |-> "P", arg |-> segs[i]]]
HasStarSeg(segs) == \E i \in 1..Len(segs) : segs[i] \in {"*", "**"}

\* =====================================================================================
\* 2. LAW: the meaning of one call made alone in a fresh interpreter
\* =====================================================================================
\* env = [star, regs, mode, vis, d]; the result carries the observations made on the way
RECURSIVE Ev(_, _, _, _), EvChain(_, _, _, _, _, _, _), EvAll(_, _, _, _, _, _, _),
          EvMap(_, _, _, _, _, _, _), EvCoal(_, _, _, _, _, _), EvAcc(_, _, _, _, _, _, _, _),
          Walk(_, _, _, _, _), WalkKids(_, _, _, _, _, _), EvCall(_, _, _, _)

PAE(at) == Err("PathAccessError", TRUE, at, <<>>)

\* walk parsed steps from cur; [ok, v] or [ok = FALSE, exc] (exc = "PAE" or "UNMODELLED")
Walk(steps, i, cur, regs, at) ==
  IF i > Len(steps) THEN Ok(cur)
  ELSE LET s == steps[i] IN
    CASE s.op = "P" ->
           LET r == HGet(Resolve(regs, TypeOf(cur), "get"), cur, s.arg) IN
           IF r.ok THEN Walk(steps, i + 1, r.v, regs, at)
           ELSE IF r.exc = "UNMODELLED" THEN r ELSE Exc("PAE")
      [] s.op = "x" ->
           IF cur.k \notin {"dict", "obj"} THEN Exc("UNMODELLED")
           ELSE WalkKids(steps, i + 1, KidsOf(cur, Resolve(regs, TypeOf(cur), "keys"), Resolve(regs, TypeOf(cur), "get")),
                         regs, at, <<>>)
      [] OTHER -> Exc("UNMODELLED")
\* the rest of the path applied to every child; children on which it fails are dropped
WalkKids(steps, j, kids, regs, at, acc) ==
  IF kids = <<>> THEN Ok(VList(acc))
  ELSE LET r == Walk(steps, j, Head(kids), regs, at) IN
       IF r.ok THEN WalkKids(steps, j, Tail(kids), regs, at, Append(acc, r.v))
       ELSE IF r.exc = "UNMODELLED" THEN r
       ELSE WalkKids(steps, j, Tail(kids), regs, at, acc)

Sub(at, k) == Append(at, k)
AllScalar(sq) == \A i \in 1..Len(sq) : sq[i].k \in {"int", "str", "none", "bool"}
\* Python equality of scalars: numbers compare by value whatever their type (1 == True)
NumOf(v) == IF v.k = "int" THEN v.i ELSE IF v.b THEN 1 ELSE 0
ScalarEq(a, b) == IF a.k \in {"int", "bool"} /\ b.k \in {"int", "bool"} THEN NumOf(a) = NumOf(b) ELSE VEq(a, b)
\* `target in (eq,)` as far as the model decides it: "T" / "F" / "U" (outside the model)
CheckEq(t, eq) == IF t.k = "hostile" \/ eq.k = "hostile" THEN "U"
                  ELSE IF AllScalar(<<t, eq>>) THEN (IF ScalarEq(t, eq) THEN "T" ELSE "F")
                  ELSE IF t.k # eq.k THEN "F" ELSE "U"
RECURSIVE Dedupe(_, _)
Dedupe(sq, acc) == IF sq = <<>> THEN acc
                   ELSE Dedupe(Tail(sq), IF \E i \in 1..Len(acc) : ScalarEq(acc[i], Head(sq)) THEN acc ELSE Append(acc, Head(sq)))
\* the node at a position of a spec (law side; the mechanism has the same table as NodeAt)
RECURSIVE NodeAtL(_, _)
NodeAtL(n, path) ==
  IF path = <<>> THEN n
  ELSE LET k == Head(path)  rest == Tail(path) IN
    CASE n.op \in {"tuple", "arglist"}     -> NodeAtL(n.c[k], rest)
      [] n.op = "coal"                     -> NodeAtL(IF k <= Len(n.c) THEN n.c[k] ELSE n.d.s[1], rest)
      [] n.op = "dict"                     -> NodeAtL(n.items[k][2], rest)
      [] n.op \in {"each", "fill", "bind", "invoke", "refdef"} -> NodeAtL(n.c, rest)
      [] n.op = "acc"                      -> IF n.kind = "group" THEN SProbe(n.f) ELSE SOpcall(n.f)
      [] n.op = "check"                    -> SOpcall(n.f)
      [] n.op = "lastvar"                  -> SProbe("id")
IsStrDict(v) == v.k = "dict" /\ \A i \in 1..Len(v.v) : v.v[i][1].k = "str"

Ev(n, at, t, env) ==
  CASE n.op = "path" ->
         IF env.mode = "FILL" THEN Good(VStr(n.text), <<>>)              \* a string is a literal in Fill
         ELSE IF env.mode # "AUTO" THEN Bad(Unmodelled(at), <<>>)
         ELSE LET r == Walk(Parse(n.segs, env.star), 1, t, env.regs, at) IN
              IF r.ok THEN Good(r.v, <<>>)
              ELSE IF r.exc = "UNMODELLED" THEN Bad(Unmodelled(at), <<>>) ELSE Bad(PAE(at), <<>>)
    [] n.op \in {"probe", "opcall"} ->
         LET o == IF n.op = "probe" THEN MkObs(at, env.d, t, env.rt, env.mode, env.vis, env.acc)
                  ELSE MkObs(at, env.d, t, VNone, "-", <<>>, env.acc)
             r == ApplyF(n.f, t) IN
         IF r.ok THEN Good(r.v, <<o>>) ELSE Bad(Err(r.exc, FALSE, at, <<>>), <<o>>)
    [] n.op = "nest" ->
         LET o == MkObs(at, env.d, t, env.rt, env.mode, env.vis, env.acc)
             r == EvCall(n.call, env.star, env.mregs, env.d + 1) IN
         IF r.ok THEN Good(r.v, <<o>> \o r.obs)
         ELSE Bad(Err(r.e.cls, TRUE, at, <<r.e>>), <<o>> \o r.obs)
    [] n.op = "tuple" ->
         IF env.mode = "FILL" THEN LET r == EvAll(n.c, 1, at, t, env, <<>>, <<>>) IN
                                   IF r.ok THEN Good(VTup(r.v), r.obs) ELSE r
         ELSE IF env.mode # "AUTO" THEN Bad(Unmodelled(at), <<>>)
         ELSE EvChain(n.c, 1, at, t, env, <<>>, <<>>)
    [] n.op = "dict" ->
         IF env.mode \notin {"AUTO", "FILL"} THEN Bad(Unmodelled(at), <<>>)
         ELSE LET cs == [i \in 1..Len(n.items) |-> n.items[i][2]]
                  r == EvAll(cs, 1, at, t, env, <<>>, <<>>) IN
              IF r.ok THEN Good(VDict([i \in 1..Len(n.items) |-> <<VStr(n.items[i][1]), r.v[i]>>]), r.obs) ELSE r
    [] n.op = "each" ->
         IF n.sp = "list" /\ env.mode = "FILL"                        \* a list is a constructor in Fill
         THEN LET r == Ev(n.c, Sub(at, 1), t, env) IN IF r.ok THEN Good(VList(<<r.v>>), r.obs) ELSE r
         ELSE IF env.mode \notin {"AUTO", "FILL"} THEN Bad(Unmodelled(at), <<>>)
         ELSE LET h == Resolve(env.regs, TypeOf(t), "iterate") IN
              IF h = "NONE" THEN Bad(Err("UnregisteredTarget", TRUE, at, <<>>), <<>>)
              ELSE IF h = "iterstr" THEN Bad(Unmodelled(at), <<>>)
              ELSE LET r == EvMap(n.c, Sub(at, 1), IterItems(h, t), 1, [env EXCEPT !.uniq = (n.sp = "uniq")], <<>>, <<>>) IN
                   IF n.sp # "uniq" \/ ~r.ok THEN r                   \* Iter(c).unique().all(): first occurrences only
                   ELSE Good(VList(Dedupe(r.v.v, <<>>)), r.obs)
    [] n.op = "coal" -> EvCoal(n, 1, at, t, env, <<>>)
    [] n.op = "acc" ->
         LET h == Resolve(env.regs, TypeOf(t), "iterate") IN
         IF h = "NONE" THEN Bad(Err(IF n.kind = "fold" THEN "FoldError" ELSE "UnregisteredTarget", TRUE, at, <<>>), <<>>)
         ELSE IF h = "iterstr" THEN Bad(Unmodelled(at), <<>>)
         ELSE EvAcc(n, Sub(at, 1), IterItems(h, t), 1, env, <<>>, <<>>, at)
    [] n.op = "fill" -> LET r == Ev(n.c, Sub(at, 1), t, [env EXCEPT !.mode = "FILL"]) IN [r EXCEPT !.b = <<>>]
    [] n.op = "bind" -> LET r == Ev(n.c, Sub(at, 1), t, env) IN
                        IF r.ok THEN Res(TRUE, t, NoErr, r.obs, <<n.name, r.v>>) ELSE r
    [] n.op = "read" -> IF HasKey(env.vis, n.name) THEN Good(Lookup(env.vis, n.name), <<>>) ELSE Bad(PAE(at), <<>>)
    [] n.op = "scopelit" ->
         IF env.mode # "AUTO" THEN Bad(Unmodelled(at), <<>>) ELSE Good(VDict(<< <<VStr("k"), t>> >>), <<>>)
    [] n.op = "check" ->
         LET r == Ev(SOpcall(n.f), Sub(at, 1), t, [env EXCEPT !.acc = <<>>]) IN
         IF CheckEq(t, n.eq) = "U" THEN Bad(Unmodelled(at), <<>>)
         ELSE IF ~r.ok THEN r
         ELSE IF CheckEq(t, n.eq) = "T" /\ r.v = VInt(1) THEN Good(t, r.obs)
         ELSE Bad(Err("CheckError", TRUE, at, <<>>), r.obs)
    [] n.op = "tplus" -> IF t.k = "list" THEN Good(VList(t.v \o n.v.v), <<>>) ELSE Bad(PAE(at), <<>>)
    [] n.op = "refdef" ->
         LET cat == Sub(at, 1)  bnd == [k |-> "refb", at |-> cat]
             r == Ev(n.c, cat, t, [env EXCEPT !.vis = SetKey(@, RefKey(n.name), bnd)]) IN
         IF r.ok THEN Res(TRUE, r.v, NoErr, r.obs, <<RefKey(n.name), bnd>>) ELSE [r EXCEPT !.b = <<>>]
    [] n.op = "refuse" ->
         IF ~HasKey(env.vis, RefKey(n.name)) THEN Bad(Err("KeyError", FALSE, at, <<>>), <<>>)
         ELSE LET bnd == Lookup(env.vis, RefKey(n.name))
                  r == Ev(NodeAtL(env.root, bnd.at), bnd.at, t, env) IN [r EXCEPT !.b = <<>>]
    [] n.op = "lastvar" ->
         IF env.mode # "AUTO" THEN Bad(Unmodelled(at), <<>>)
         ELSE LET h == Resolve(env.regs, TypeOf(t), "iterate") IN
              IF h = "NONE" THEN Bad(Err("UnregisteredTarget", TRUE, Sub(at, 2), <<>>), <<>>)
              ELSE IF h = "iterstr" THEN Bad(Unmodelled(at), <<>>)
              ELSE LET items == IterItems(h, t) IN
                   Good(IF items = <<>> THEN VInt(n.init) ELSE items[Len(items)],
                        IF n.y THEN <<MkObs(Sub(at, 3), env.d, VList(items), env.rt, "AUTO", env.vis, <<>>)>> ELSE <<>>)
    [] n.op = "arglist" ->                                             \* argument mode: a new list per evaluation
         LET r == EvAll(n.c, 1, at, t, env, <<>>, <<>>) IN IF r.ok THEN Good(VList(r.v), r.obs) ELSE r
    [] n.op = "invoke" ->                                              \* kwfn(**<value of c>, k=v): a new dict
         LET r == Ev(n.c, Sub(at, 1), t, env) IN
         IF ~r.ok THEN [r EXCEPT !.b = <<>>]
         ELSE IF ~IsStrDict(r.v) THEN Bad(Unmodelled(at), r.obs)
         ELSE Good(VDict(SetKey(r.v.v, VStr(n.k), n.v)), r.obs)
    [] OTHER -> Bad(Unmodelled(at), <<>>)

\* (s1, s2, ..) in Auto mode: each step's result is the next step's target; a binding made
\* by a step that is itself a binder is visible to the later steps (and inside them)
EvChain(c, i, at, cur, env, cb, obs) ==
  IF i > Len(c) THEN Good(cur, obs)
  ELSE LET r == Ev(c[i], Sub(at, i), cur, [env EXCEPT !.vis = Merge(env.vis, cb)]) IN
       IF ~r.ok THEN Bad(r.e, obs \o r.obs)
       ELSE EvChain(c, i + 1, at, r.v, env, IF r.b # <<>> THEN SetKey(cb, r.b[1], r.b[2]) ELSE cb, obs \o r.obs)
\* all children on the same target, results collected (dict values, Fill tuples)
EvAll(c, i, at, t, env, acc, obs) ==
  IF i > Len(c) THEN Good(acc, obs)
  ELSE LET r == Ev(c[i], Sub(at, i), t, env) IN
       IF ~r.ok THEN Bad(r.e, obs \o r.obs) ELSE EvAll(c, i + 1, at, t, env, Append(acc, r.v), obs \o r.obs)
\* one child over every item
EvMap(c, cat, items, i, env, acc, obs) ==
  IF i > Len(items) THEN Good(VList(acc), obs)
  ELSE LET r == Ev(c, cat, items[i], [env EXCEPT !.uniq = FALSE]) IN
       IF ~r.ok THEN Bad(r.e, obs \o r.obs)
       ELSE IF env.uniq /\ ~AllScalar(<<r.v>>) THEN Bad(Unmodelled(cat), obs \o r.obs)   \* (lazy: keyed as it is produced)
       ELSE EvMap(c, cat, items, i + 1, env, Append(acc, r.v), obs \o r.obs)
\* Coalesce: first alternative that does not fail with a GlomError; else default; else error
EvCoal(n, i, at, t, env, obs) ==
  IF i > Len(n.c) THEN
    (IF ~n.d.has THEN Bad(Err("CoalesceError", TRUE, at, <<>>), obs)
     ELSE IF n.d.s = <<>> THEN Good(n.d.v, obs)
     ELSE LET r == Ev(n.d.s[1], Sub(at, Len(n.c) + 1), t, env) IN      \* an error in the default is not caught
          IF r.ok THEN Good(r.v, obs \o r.obs) ELSE Bad(r.e, obs \o r.obs))
  ELSE LET r == Ev(n.c[i], Sub(at, i), t, env) IN
       IF r.ok THEN Good(r.v, obs \o r.obs)
       ELSE IF r.e.ge /\ r.e.cls # "UNMODELLED" THEN EvCoal(n, i + 1, at, t, env, obs \o r.obs)
       ELSE Bad(r.e, obs \o r.obs)
\* Group([Probe(f)]) / Fold(T, init=list, op): a fresh list per evaluation, one item at a time
EvAcc(n, cat, items, i, env, acc, obs, at) ==
  IF i > Len(items) THEN Good(VList(acc), obs)
  ELSE LET child == IF n.kind = "group" THEN SProbe(n.f) ELSE SOpcall(n.f)
           r == Ev(child, cat, items[i], [env EXCEPT !.mode = IF n.kind = "group" THEN "GROUP" ELSE @, !.acc = acc]) IN
       IF ~r.ok THEN Bad(r.e, obs \o r.obs)
       ELSE EvAcc(n, cat, items, i + 1, env, Append(acc, r.v), obs \o r.obs, at)

Outcome(ok, v, e, obs) == [ok |-> ok, v |-> v, e |-> e, obs |-> obs]
EvCall(call, st, regs, d) ==
  \* regs: the module-level registrations; the call sees them unless it goes through the Glommer
  LET r == Ev(call.spec, <<>>, call.t, [star |-> st, regs |-> RegsFor(call.via, regs), mregs |-> regs, mode |-> "AUTO",
                                        vis |-> call.sc, d |-> d, acc |-> <<>>, rt |-> call.t, root |-> call.spec, uniq |-> FALSE]) IN
  Outcome(r.ok, r.v, IF r.ok THEN NoErr ELSE [r.e EXCEPT !.ge = TRUE], r.obs)
Iso(call, st, regs) == EvCall(call, st, regs, 0)

\* =====================================================================================
\* 3. MECHANISM
\* =====================================================================================
\* ---- 3a. private part: frames and the micro-steps between two shared accesses ----------
\* a frame names its spec node by position: level lvl of the stack of (nested) calls in progress,
\* path `at` inside that call's spec (frames stay small; the node is looked up when needed)
Frame(op, lvl, at, t, mode, vis, av, sid) ==
  [op |-> op, lvl |-> lvl, at |-> at, t |-> t, sid |-> sid,
   fresh |-> TRUE, ph |-> 0, i |-> 0,
   mode |-> mode,            \* scope[MODE] of this frame (copied from the parent map on entry)
   dm |-> mode,              \* the mode the dispatcher used for this frame
   vis |-> vis,              \* user bindings visible in this frame (the ChainMap chain, flattened)
   cb |-> <<>>,              \* bindings made by completed chain steps (tuple frames)
   cur |-> t, acc |-> <<>>, items |-> <<>>, av |-> av,
   h |-> "", hk |-> "",      \* handlers obtained from the registry for the pending access
   steps |-> <<>>, kids |-> <<>>, si |-> 0, scur |-> VNone,
   sv |-> ""]                \* (mutants only) saved module-level mode

NoPend == [text |-> "", segs |-> <<>>, cstar |-> TRUE, store |-> FALSE, parse |-> <<>>,
           ty |-> "", op |-> "", slot |-> "", h |-> "", reg |-> "glom"]
IdleProc == [st |-> "idle", stack |-> <<>>, ctl |-> "eval", v |-> VNone, e |-> NoErr, b |-> <<>>,
             obs |-> <<>>, stop |-> "", pend |-> NoPend, call |-> 0, star0 |-> TRUE, regs0 |-> <<>>,
             out |-> Outcome(TRUE, VNone, NoErr, <<>>), nc |-> 0,
             calls |-> <<>>]      \* the call in progress and the glom() calls nested in it, outermost first

GlobInit == [mode |-> "AUTO", acc |-> <<>>, spec |-> <<>>]     \* module-level evaluation state: none

X(P, G) == [p |-> P, g |-> G]
Top(P) == P.stack[Len(P.stack)]
SetTop(P, f) == [P EXCEPT !.stack[Len(P.stack)] = f]
PopS(P) == [P EXCEPT !.stack = SubSeq(@, 1, Len(@) - 1)]
Push(P, f) == [P EXCEPT !.stack = Append(@, f), !.ctl = "eval"]
RetB(P, v, b) == [PopS(P) EXCEPT !.ctl = "ret", !.v = v, !.b = b]
Ret(P, v) == RetB(P, v, <<>>)
Raise(P, e) == [PopS(P) EXCEPT !.ctl = "err", !.e = e, !.b = <<>>]
Eval(P, f) == [SetTop(P, f) EXCEPT !.ctl = "eval"]
Stop(P, f, kind, pend) == [SetTop(P, f) EXCEPT !.stop = kind, !.pend = pend, !.ctl = "eval"]
RECURSIVE NodeAt(_, _)
NodeAt(n, path) ==
  IF path = <<>> THEN n
  ELSE LET k == Head(path)  rest == Tail(path) IN
    CASE n.op \in {"tuple", "arglist"}     -> NodeAt(n.c[k], rest)
      [] n.op = "coal"                     -> NodeAt(IF k <= Len(n.c) THEN n.c[k] ELSE n.d.s[1], rest)
      [] n.op = "dict"                     -> NodeAt(n.items[k][2], rest)
      [] n.op \in {"each", "fill", "bind", "invoke", "refdef"} -> NodeAt(n.c, rest)
      [] n.op = "acc"                      -> IF n.kind = "group" THEN SProbe(n.f) ELSE SOpcall(n.f)
      [] n.op = "check"                    -> SOpcall(n.f)
      [] n.op = "lastvar"                  -> SProbe("id")
NodeOf(P, f) == IF f.op = "call" THEN [op |-> "call", call |-> P.calls[f.lvl]]
                ELSE NodeAt(P.calls[f.lvl].spec, f.at)
Child(P, f, cn, k, t, vis, av) == Push(SetTop(P, f), Frame(cn.op, f.lvl, Sub(f.at, k), t, f.mode, vis, av, f.sid))
Depth(P) == Len(P.calls) - 1
\* scope[TargetRegistry].get_handler(op, obj): the registry of the call the frame belongs to
NeedHandler(P, f, ty, op, slot) ==
  Stop(P, f, "tcheck", [NoPend EXCEPT !.ty = ty, !.op = op, !.slot = slot, !.reg = RegistryOf(P.calls[f.lvl].via)])

\* accumulator of an acc frame: private (correct), in a module-level tree keyed by the spec
\* node (mutant "globalacc", Group only), or kept on the spec object (mutant "acconspec", Fold only)
AccKey(f) == <<f.sid, f.at>>
AccWhere(kind) == IF Mutant = "globalacc" /\ kind = "group" THEN "glob"
                  ELSE IF Mutant = "acconspec" /\ kind = "fold" THEN "spec" ELSE "frame"
AccRead(G, f, kind) ==
  CASE AccWhere(kind) = "glob" -> IF HasKey(G.acc, AccKey(f)) THEN Lookup(G.acc, AccKey(f)) ELSE <<>>
    [] AccWhere(kind) = "spec" -> IF HasKey(G.spec, AccKey(f)) THEN Lookup(G.spec, AccKey(f)) ELSE <<>>
    [] OTHER -> f.acc
AccAppend(G, f, kind, v) ==
  CASE AccWhere(kind) = "glob" -> [G EXCEPT !.acc = SetKey(@, AccKey(f), Append(AccRead(G, f, kind), v))]
    [] AccWhere(kind) = "spec" -> [G EXCEPT !.spec = SetKey(@, AccKey(f), Append(AccRead(G, f, kind), v))]
    [] OTHER -> G
\* module-level mode (mutant "globalmode"): wrappers save / set / restore a global
GM == Mutant = "globalmode"
SetGMode(G, m) == IF GM THEN [G EXCEPT !.mode = m] ELSE G

MCall(P, G, f, n) ==
  CASE f.ph = 1 ->                             \* the trace has been rendered: the failed call is over
         X([PopS(P) EXCEPT !.st = "done", !.out = Outcome(FALSE, VNone, P.e, P.obs), !.calls = <<>>], SetGMode(G, f.sv))
    [] P.ctl = "eval" ->                       \* glom(): a fresh root scope, mode AUTO, caller's scope copied in
         X(Push(SetTop(P, [f EXCEPT !.sv = G.mode]),
                Frame(n.call.spec.op, f.lvl, <<>>, n.call.t, "AUTO", n.call.sc, <<>>, n.call.sid)),
           SetGMode(G, "AUTO"))
    [] P.ctl = "ret" ->
         IF Len(P.stack) = 1
         THEN X([PopS(P) EXCEPT !.st = "done", !.out = Outcome(TRUE, P.v, NoErr, P.obs), !.calls = <<>>], SetGMode(G, f.sv))
         ELSE X([Ret(P, P.v) EXCEPT !.calls = SubSeq(@, 1, Len(@) - 1)], SetGMode(G, f.sv))
    [] OTHER ->                                \* the error leaves glom(): it is (made) a GlomError and finalized
         LET e1 == [P.e EXCEPT !.ge = TRUE] IN
         IF Len(P.stack) = 1 /\ HasR(n.call.spec)   \* str(exc) calls the user __repr__ of a spec object: a yield point
         THEN X([Stop(P, [f EXCEPT !.ph = 1], "yield", NoPend) EXCEPT !.e = e1], G)
         ELSE IF Len(P.stack) = 1
         THEN X([PopS(P) EXCEPT !.st = "done", !.out = Outcome(FALSE, VNone, e1, P.obs), !.calls = <<>>], SetGMode(G, f.sv))
         ELSE LET below == P.stack[Len(P.stack) - 1] IN
              X([PopS(P) EXCEPT !.ctl = "err", !.e = Err(e1.cls, TRUE, below.at, <<e1>>), !.b = <<>>,
                                !.calls = SubSeq(@, 1, Len(@) - 1)], SetGMode(G, f.sv))

MProbe(P, G, f, n) ==
  CASE f.ph = 0 ->                             \* invoked: observe, then block in the user code (yield point)
         LET par == P.stack[Len(P.stack) - 1]
             av == IF par.op = "acc" THEN AccRead(G, par, NodeOf(P, par).kind) ELSE <<>>
             o == IF n.op = "opcall" THEN MkObs(f.at, Depth(P), f.t, VNone, "-", <<>>, av)
                  ELSE MkObs(f.at, Depth(P), f.t, P.calls[f.lvl].t, f.dm, f.vis, av) IN
         X([Stop(P, [f EXCEPT !.ph = 1], "yield", NoPend) EXCEPT !.obs = Append(@, o)], G)
    [] f.ph = 1 /\ n.op = "nest" ->          \* the user code calls glom() re-entrantly
         X([Push(SetTop(P, [f EXCEPT !.ph = 2]),
                 Frame("call", Len(P.calls) + 1, <<>>, VNone, "AUTO", <<>>, <<>>, 0)) EXCEPT !.calls = Append(@, n.call)], G)
    [] f.ph = 1 ->
         LET r == ApplyF(n.f, f.t) IN
         X(IF r.ok THEN Ret(P, r.v) ELSE Raise(P, Err(r.exc, FALSE, f.at, <<>>)), G)
    [] OTHER -> X(IF P.ctl = "ret" THEN Ret(P, P.v) ELSE Raise(P, P.e), G)

MTuple(P, G, f, n) ==
  LET fill == f.dm = "FILL" IN
  IF f.dm \notin {"AUTO", "FILL"} THEN X(Raise(P, Unmodelled(f.at)), G)
  ELSE CASE P.ctl = "eval" ->
         IF f.i = Len(n.c) THEN X(Ret(P, IF fill THEN VTup(f.acc) ELSE f.cur), G)
         ELSE X(Child(P, f, n.c[f.i + 1], f.i + 1, IF fill THEN f.t ELSE f.cur,
                      IF fill THEN f.vis ELSE Merge(f.vis, f.cb), <<>>), G)     \* chain_child
    [] P.ctl = "ret" ->
         X(Eval(P, [f EXCEPT !.i = @ + 1, !.cur = IF fill THEN @ ELSE P.v, !.acc = Append(@, P.v),
                             !.cb = IF ~fill /\ P.b # <<>> THEN SetKey(@, P.b[1], P.b[2]) ELSE @]), G)
    [] OTHER -> X(Raise(P, P.e), G)

MDict(P, G, f, n) ==
  IF f.dm \notin {"AUTO", "FILL"} THEN X(Raise(P, Unmodelled(f.at)), G)
  ELSE CASE P.ctl = "eval" ->
         IF f.i = Len(n.items) THEN X(Ret(P, VDict(f.acc)), G)
         ELSE X(Child(P, f, n.items[f.i + 1][2], f.i + 1, f.t, f.vis, <<>>), G)
    [] P.ctl = "ret" -> X(Eval(P, [f EXCEPT !.i = @ + 1, !.acc = Append(@, <<VStr(n.items[f.i + 1][1]), P.v>>)]), G)
    [] OTHER -> X(Raise(P, P.e), G)

MEach(P, G, f, n) ==
  IF n.sp = "list" /\ f.dm = "FILL" THEN
    CASE P.ctl = "eval" -> X(Child(P, f, n.c, 1, f.t, f.vis, <<>>), G)
      [] P.ctl = "ret"  -> X(Ret(P, VList(<<P.v>>)), G)
      [] OTHER -> X(Raise(P, P.e), G)
  ELSE IF f.dm \notin {"AUTO", "FILL"} THEN X(Raise(P, Unmodelled(f.at)), G)
  ELSE CASE f.ph = 0 -> X(NeedHandler(P, [f EXCEPT !.ph = 1], TypeOf(f.t), "iterate", "h"), G)
    [] f.ph = 1 ->
         IF f.h = "NONE" THEN X(Raise(P, Err("UnregisteredTarget", TRUE, f.at, <<>>)), G)
         ELSE IF f.h = "iterstr" THEN X(Raise(P, Unmodelled(f.at)), G)
         ELSE X(Eval(P, [f EXCEPT !.ph = 2, !.items = IterItems(f.h, f.t)]), G)
    [] P.ctl = "eval" ->
         IF f.i < Len(f.items) THEN X(Child(P, f, n.c, 1, f.items[f.i + 1], f.vis, <<>>), G)
         ELSE IF n.sp # "uniq" THEN X(Ret(P, VList(f.acc)), G)
         ELSE X(Ret(P, VList(Dedupe(f.acc, <<>>))), G)        \* the seen-set lives in this evaluation only
    [] P.ctl = "ret" ->
         IF n.sp = "uniq" /\ ~AllScalar(<<P.v>>) THEN X(Raise(P, Unmodelled(Sub(f.at, 1))), G)
         ELSE X(Eval(P, [f EXCEPT !.i = @ + 1, !.acc = Append(@, P.v)]), G)
    [] OTHER -> X(Raise(P, P.e), G)

MCoal(P, G, f, n) ==
  CASE P.ctl = "eval" ->
         IF f.i < Len(n.c) THEN X(Child(P, f, n.c[f.i + 1], f.i + 1, f.t, f.vis, <<>>), G)
         ELSE IF ~n.d.has THEN X(Raise(P, Err("CoalesceError", TRUE, f.at, <<>>)), G)
         ELSE IF n.d.s = <<>> THEN X(Ret(P, n.d.v), G)
         ELSE X(Child(P, [f EXCEPT !.ph = 1], n.d.s[1], Len(n.c) + 1, f.t, f.vis, <<>>), G)   \* arg_val(target, default, scope)
    [] P.ctl = "ret" -> X(Ret(P, P.v), G)
    [] f.ph = 1 -> X(Raise(P, P.e), G)                            \* raised while building the default: not caught
    [] OTHER -> IF P.e.ge /\ P.e.cls # "UNMODELLED"              \* except self.skip_exc (= GlomError)
                THEN X(Eval(P, [f EXCEPT !.i = @ + 1]), G)
                ELSE X(Raise(P, P.e), G)

MAcc(P, G, f, n) ==
  LET group == n.kind = "group"
      restore == IF group THEN SetGMode(G, f.sv) ELSE G IN
  CASE f.ph = 0 ->          \* Group.glomit: scope[MODE] = GROUP; scope[ACC_TREE] = {}   /  Fold._fold: ret = init()
         LET f1 == [f EXCEPT !.ph = 1, !.mode = IF group THEN "GROUP" ELSE @, !.sv = G.mode]
             G1 == IF group THEN SetGMode(G, "GROUP") ELSE G
             G2 == IF Mutant = "globalacc" /\ group THEN [G1 EXCEPT !.acc = <<>>] ELSE G1 IN
         X(NeedHandler(P, f1, TypeOf(f.t), "iterate", "h"), G2)
    [] f.ph = 1 ->
         IF f.h = "NONE" THEN X(Raise(P, Err(IF group THEN "UnregisteredTarget" ELSE "FoldError", TRUE, f.at, <<>>)), restore)
         ELSE IF f.h = "iterstr" THEN X(Raise(P, Unmodelled(f.at)), restore)
         ELSE X(Eval(P, [f EXCEPT !.ph = 2, !.items = IterItems(f.h, f.t)]), G)
    [] P.ctl = "eval" ->
         IF f.i = Len(f.items) THEN X(Ret(P, VList(AccRead(G, f, n.kind))), restore)
         ELSE X(Child(P, f, IF group THEN SProbe(n.f) ELSE SOpcall(n.f), 1, f.items[f.i + 1], f.vis, <<>>), G)
    [] P.ctl = "ret" -> X(Eval(P, [f EXCEPT !.i = @ + 1, !.acc = Append(@, P.v)]), AccAppend(G, f, n.kind, P.v))
    [] OTHER -> X(Raise(P, P.e), restore)

MFill(P, G, f, n) ==
  CASE f.ph = 0 ->          \* Fill.glomit: scope[MODE] = FILL, then the child copies it
         LET f1 == [f EXCEPT !.ph = 1, !.mode = "FILL", !.sv = G.mode] IN
         X(Child(P, f1, n.c, 1, f.t, f.vis, <<>>), SetGMode(G, "FILL"))
    [] P.ctl = "ret" -> X(Ret(P, P.v), SetGMode(G, f.sv))
    [] OTHER -> X(Raise(P, P.e), SetGMode(G, f.sv))

MBind(P, G, f, n) ==
  CASE f.ph = 0 -> X(Child(P, [f EXCEPT !.ph = 1], n.c, 1, f.t, f.vis, <<>>), G)
    [] P.ctl = "ret" -> X(RetB(P, f.t, <<n.name, P.v>>), G)     \* scope.update({name: value}); returns target
    [] OTHER -> X(Raise(P, P.e), G)

MArgList(P, G, f, n) ==
  CASE P.ctl = "eval" ->
         IF f.i = Len(n.c) THEN X(Ret(P, VList(f.acc)), G)
         ELSE X(Child(P, f, n.c[f.i + 1], f.i + 1, f.t, f.vis, <<>>), G)
    [] P.ctl = "ret" -> X(Eval(P, [f EXCEPT !.i = @ + 1, !.acc = Append(@, P.v)]), G)
    [] OTHER -> X(Raise(P, P.e), G)

MInvoke(P, G, f, n) ==
  CASE f.ph = 0 -> X(Child(P, [f EXCEPT !.ph = 1], n.c, 1, f.t, f.vis, <<>>), G)
    [] P.ctl = "ret" ->        \* all_kwargs = {}; all_kwargs.update(<star kwargs>); all_kwargs.update(constants); func(**all_kwargs)
         X(IF IsStrDict(P.v) THEN Ret(P, VDict(SetKey(P.v.v, VStr(n.k), n.v))) ELSE Raise(P, Unmodelled(f.at)), G)
    [] OTHER -> X(Raise(P, P.e), G)

MCheck(P, G, f, n) ==      \* errs is a local list of this evaluation
  CASE f.ph = 0 -> IF CheckEq(f.t, n.eq) = "U" THEN X(Raise(P, Unmodelled(f.at)), G)
                   ELSE X(Child(P, [f EXCEPT !.ph = 1], SOpcall(n.f), 1, f.t, f.vis, <<>>), G)
    [] P.ctl = "ret" -> X(IF CheckEq(f.t, n.eq) = "T" /\ P.v = VInt(1) THEN Ret(P, f.t) ELSE Raise(P, Err("CheckError", TRUE, f.at, <<>>)), G)
    [] OTHER -> X(Raise(P, P.e), G)

MScopeLit(P, G, f, n) ==
  X(IF f.dm # "AUTO" THEN Raise(P, Unmodelled(f.at)) ELSE Ret(P, VDict(<< <<VStr("k"), f.t>> >>)), G)

MTPlus(P, G, f, n) == X(IF f.t.k = "list" THEN Ret(P, VList(f.t.v \o n.v.v)) ELSE Raise(P, PAE(f.at)), G)

MRefDef(P, G, f, n) ==       \* scope[(Ref, name)] = subspec in this frame; then the subspec is evaluated under it
  LET cat == Sub(f.at, 1)  bnd == [k |-> "refb", at |-> cat] IN
  CASE f.ph = 0 -> X(Child(P, [f EXCEPT !.ph = 1], n.c, 1, f.t, SetKey(f.vis, RefKey(n.name), bnd), <<>>), G)
    [] P.ctl = "ret" -> X(RetB(P, P.v, <<RefKey(n.name), bnd>>), G)
    [] OTHER -> X(Raise(P, P.e), G)

MRefUse(P, G, f, n) ==       \* subspec = scope[(Ref, name)]: the frame chain of THIS call only
  CASE f.ph = 0 ->
         IF ~HasKey(f.vis, RefKey(n.name)) THEN X(Raise(P, Err("KeyError", FALSE, f.at, <<>>)), G)
         ELSE LET bnd == Lookup(f.vis, RefKey(n.name))
                  cn == NodeAt(P.calls[f.lvl].spec, bnd.at) IN
              X(Push(SetTop(P, [f EXCEPT !.ph = 1]), Frame(cn.op, f.lvl, bnd.at, f.t, f.mode, f.vis, <<>>, f.sid)), G)
    [] P.ctl = "ret" -> X(Ret(P, P.v), G)
    [] OTHER -> X(Raise(P, P.e), G)

MLast(P, G, f, n) ==      \* the Vars object lives in the frames of this evaluation only
  CASE f.ph = 0 -> IF f.dm # "AUTO" THEN X(Raise(P, Unmodelled(f.at)), G)
                   ELSE X(NeedHandler(P, [f EXCEPT !.ph = 1], TypeOf(f.t), "iterate", "h"), G)
    [] f.ph = 1 ->
         IF f.h = "NONE" THEN X(Raise(P, Err("UnregisteredTarget", TRUE, Sub(f.at, 2), <<>>)), G)
         ELSE IF f.h = "iterstr" THEN X(Raise(P, Unmodelled(f.at)), G)
         ELSE LET items == IterItems(f.h, f.t)
                  last == IF items = <<>> THEN VInt(n.init) ELSE items[Len(items)] IN
              IF n.y THEN X(Child(P, [f EXCEPT !.ph = 2, !.cur = last], SProbe("id"), 3, VList(items), f.vis, <<>>), G)
              ELSE X(Ret(P, last), G)
    [] P.ctl = "ret" -> X(Ret(P, f.cur), G)              \* S.v.n: read from this evaluation's own namespace
    [] OTHER -> X(Raise(P, P.e), G)

MRead(P, G, f, n) ==
  X(IF HasKey(f.vis, n.name) THEN Ret(P, Lookup(f.vis, n.name)) ELSE Raise(P, PAE(f.at)), G)

NextKid(f) ==        \* move the wildcard sub-walk to the next child
  LET ks == Tail(f.kids) IN
  [f EXCEPT !.kids = ks, !.si = f.i + 1, !.scur = IF ks = <<>> THEN VNone ELSE Head(ks), !.h = ""]
MPath(P, G, f, n) ==
  CASE f.ph = 0 ->
         IF f.dm = "FILL" THEN X(Ret(P, VStr(n.text)), G)
         ELSE IF f.dm # "AUTO" THEN X(Raise(P, Unmodelled(f.at)), G)
         ELSE X(Stop(P, [f EXCEPT !.ph = 1], "pread", [NoPend EXCEPT !.text = n.text, !.segs = n.segs]), G)   \* Path.from_text
    [] f.ph = 2 ->                                      \* _t_eval over the parsed steps
         IF f.i > Len(f.steps) THEN X(Ret(P, f.cur), G)
         ELSE LET s == f.steps[f.i] IN
           CASE s.op = "P" ->
                  IF f.h = "" THEN X(NeedHandler(P, f, TypeOf(f.cur), "get", "h"), G)
                  ELSE LET r == HGet(f.h, f.cur, s.arg) IN
                       IF r.ok THEN X(Eval(P, [f EXCEPT !.cur = r.v, !.i = @ + 1, !.h = ""]), G)
                       ELSE IF r.exc = "UNMODELLED" THEN X(Raise(P, Unmodelled(f.at)), G)
                       ELSE X(Raise(P, PAE(f.at)), G)
             [] s.op = "x" ->
                  IF f.cur.k \notin {"dict", "obj"} THEN X(Raise(P, Unmodelled(f.at)), G)
                  ELSE IF f.hk = "" THEN X(NeedHandler(P, f, TypeOf(f.cur), "keys", "hk"), G)
                  ELSE IF f.h = "" THEN X(NeedHandler(P, f, TypeOf(f.cur), "get", "h"), G)
                  ELSE LET ks == KidsOf(f.cur, f.hk, f.h) IN
                       X(Eval(P, [f EXCEPT !.ph = 3, !.kids = ks, !.acc = <<>>, !.h = "", !.si = f.i + 1,
                                           !.scur = IF ks = <<>> THEN VNone ELSE Head(ks)]), G)
             [] OTHER -> X(Raise(P, Unmodelled(f.at)), G)
    [] f.ph = 3 ->                                      \* the rest of the path on every child
         IF f.kids = <<>> THEN X(Ret(P, VList(f.acc)), G)
         ELSE IF f.si > Len(f.steps) THEN X(Eval(P, [NextKid(f) EXCEPT !.acc = Append(f.acc, f.scur)]), G)
         ELSE LET s == f.steps[f.si] IN
           IF s.op # "P" THEN X(Raise(P, Unmodelled(f.at)), G)
           ELSE IF f.h = "" THEN X(NeedHandler(P, f, TypeOf(f.scur), "get", "h"), G)
           ELSE LET r == HGet(f.h, f.scur, s.arg) IN
                IF r.ok THEN X(Eval(P, [f EXCEPT !.scur = r.v, !.si = @ + 1, !.h = ""]), G)
                ELSE IF r.exc = "UNMODELLED" THEN X(Raise(P, Unmodelled(f.at)), G)
                ELSE X(Eval(P, NextKid(f)), G)           \* except PathAccessError: pass
    [] OTHER -> X(Raise(P, Unmodelled(f.at)), G)

\* one private micro-step of a running process that is not waiting for a shared access
Micro(P, G) ==
  LET f0 == Top(P)
      \* _glom: the dispatcher reads the mode of the new frame once
      f == IF f0.fresh THEN [f0 EXCEPT !.fresh = FALSE, !.dm = IF GM THEN G.mode ELSE f0.mode] ELSE f0
      n == NodeOf(P, f)
      op == f.op IN
  CASE op = "call"  -> MCall(P, G, f, n)
    [] op \in {"probe", "opcall", "nest"} -> MProbe(P, G, f, n)
    [] op = "tuple" -> MTuple(P, G, f, n)
    [] op = "dict"  -> MDict(P, G, f, n)
    [] op = "each"  -> MEach(P, G, f, n)
    [] op = "coal"  -> MCoal(P, G, f, n)
    [] op = "acc"   -> MAcc(P, G, f, n)
    [] op = "fill"  -> MFill(P, G, f, n)
    [] op = "bind"  -> MBind(P, G, f, n)
    [] op = "read"  -> MRead(P, G, f, n)
    [] op = "arglist" -> MArgList(P, G, f, n)
    [] op = "lastvar" -> MLast(P, G, f, n)
    [] op = "tplus" -> MTPlus(P, G, f, n)
    [] op = "check" -> MCheck(P, G, f, n)
    [] op = "scopelit" -> MScopeLit(P, G, f, n)
    [] op = "refdef" -> MRefDef(P, G, f, n)
    [] op = "refuse" -> MRefUse(P, G, f, n)
    [] op = "invoke" -> MInvoke(P, G, f, n)
    [] op = "path"  -> MPath(P, G, f, n)
    [] OTHER        -> X(Raise(P, Unmodelled(f.at)), G)

RECURSIVE RunPrivate(_)
RunPrivate(x) == IF x.p.st # "run" \/ x.p.stop # "" THEN x ELSE RunPrivate(Micro(x.p, x.g))

\* ---- 3b. shared part: one function per critical section ---------------------------------
\* S packs the shared variables and the process table
CFind(cache, text) == LET I == {i \in 1..Len(cache) : cache[i].text = text} IN IF I = {} THEN 0 ELSE CHOOSE i \in I : TRUE
CEntry(text, segs, parse, partial) == [text |-> text, segs |-> segs, parse |-> parse, partial |-> partial]
CSet(cache, e) == IF CFind(cache, e.text) = 0 THEN Append(cache, e) ELSE [cache EXCEPT ![CFind(cache, e.text)] = e]
\* one memo per registry (reg = "glom": the default registry, "glommer": the shared Glommer's)
TFind(tc, ty, op, reg) == LET I == {i \in 1..Len(tc) : tc[i].ty = ty /\ tc[i].op = op /\ tc[i].reg = reg} IN
                          IF I = {} THEN 0 ELSE CHOOSE i \in I : TRUE
TSet(tc, ty, op, reg, h) == IF TFind(tc, ty, op, reg) = 0 THEN Append(tc, [ty |-> ty, op |-> op, reg |-> reg, h |-> h])
                            ELSE [tc EXCEPT ![TFind(tc, ty, op, reg)].h = h]

\* cls._CACHE[PATH_STAR]   (mutant "nostarkey": one dict for both settings)
PCsel(S, s) == IF Mutant = "nostarkey" \/ s THEN S.pc.t ELSE S.pc.f
PCput(S, s, cache) == IF Mutant = "nostarkey" \/ s THEN [S.pc EXCEPT !.t = cache] ELSE [S.pc EXCEPT !.f = cache]

Continue(S, p, P) ==
  LET x == RunPrivate(X([P EXCEPT !.stop = "", !.pend = NoPend], S.glob)) IN
  [S EXCEPT !.procs[p] = x.p, !.glob = x.g]
DeliverParse(S, p, P, parse) ==
  LET f == Top(P) IN Continue(S, p, Eval(P, [f EXCEPT !.ph = 2, !.steps = parse, !.i = 1, !.cur = f.t]))
DeliverHandler(S, p, P, h) ==
  LET f == Top(P) IN Continue(S, p, Eval(P, IF P.pend.slot = "hk" THEN [f EXCEPT !.hk = h] ELSE [f EXCEPT !.h = h]))
DeliverError(S, p, P, cls) == Continue(S, p, Raise(P, Err(cls, FALSE, Top(P).at, <<>>)))

\* Path.from_text, first critical section:  cache = cls._CACHE[PATH_STAR]; text not in cache; len(cache) > MAX
PRead(S, p) ==
  LET P == S.procs[p]  cs == S.star  cache == PCsel(S, cs)
      pend == [P.pend EXCEPT !.cstar = cs] IN
  IF CFind(cache, P.pend.text) # 0 THEN [S EXCEPT !.procs[p].stop = "pfetch", !.procs[p].pend = pend]
  ELSE IF Len(cache) > MaxCache THEN [S EXCEPT !.procs[p].stop = "pcreate", !.procs[p].pend = [pend EXCEPT !.store = FALSE]]
  ELSE LET S1 == [S EXCEPT !.procs[p].stop = "pcreate", !.procs[p].pend = [pend EXCEPT !.store = TRUE]] IN
       IF Mutant = "publishearly"        \* the entry is visible before it is complete
       THEN [S1 EXCEPT !.pc = PCput(S, cs, CSet(cache, CEntry(P.pend.text, P.pend.segs, <<>>, TRUE)))]
       ELSE S1
\* create(): reads PATH_STAR again, warns once about '*' when it is off
PCreate(S, p) ==
  LET P == S.procs[p]  s2 == S.star  parse == Parse(P.pend.segs, s2)
      warn == ~s2 /\ ~S.warned /\ HasStarSeg(P.pend.segs)
      S1 == [S EXCEPT !.warned = @ \/ warn, !.nwarn = @ + (IF warn THEN 1 ELSE 0)] IN
  IF P.pend.store THEN [S1 EXCEPT !.procs[p].stop = "pwrite", !.procs[p].pend.parse = parse]
  ELSE DeliverParse(S1, p, P, parse)                    \* cache full: return create() without storing
\* cache[text] = <the created Path>
PWrite(S, p) ==
  LET P == S.procs[p]  cs == P.pend.cstar IN
  [S EXCEPT !.pc = PCput(S, cs, CSet(PCsel(S, cs), CEntry(P.pend.text, P.pend.segs, P.pend.parse, FALSE))),
            !.procs[p].stop = "pfetch"]
\* return cache[text]
PFetch(S, p) ==
  LET P == S.procs[p]  cache == PCsel(S, P.pend.cstar)  i == CFind(cache, P.pend.text) IN
  IF i = 0 THEN DeliverError(S, p, P, "KeyError")
  ELSE IF cache[i].partial THEN DeliverError(S, p, P, "AttributeError")
  ELSE DeliverParse(S, p, P, cache[i].parse)

\* get_handler:  cache_key not in self._type_cache
TCheck(S, p) ==
  LET P == S.procs[p] IN
  [S EXCEPT !.procs[p].stop = IF TFind(S.tc, P.pend.ty, P.pend.op, P.pend.reg) # 0 THEN "tfetch" ELSE "tcompute"]
\* the lookup in the type map / type tree; no handler: UnregisteredTarget is raised and nothing is memoized
TCompute(S, p) ==
  LET P == S.procs[p]  h == Resolve(RegsFor(P.pend.reg, S.regs), P.pend.ty, P.pend.op) IN
  IF h = "NONE" THEN DeliverHandler(S, p, P, "NONE")
  ELSE [S EXCEPT !.procs[p].stop = "twrite", !.procs[p].pend.h = h]
\* self._type_cache[cache_key] = ret
TWrite(S, p) ==
  LET P == S.procs[p] IN
  [S EXCEPT !.tc = TSet(@, P.pend.ty, P.pend.op, P.pend.reg, P.pend.h), !.procs[p].stop = "tfetch"]
\* return self._type_cache[cache_key]
TFetch(S, p) ==
  LET P == S.procs[p]  i == TFind(S.tc, P.pend.ty, P.pend.op, P.pend.reg) IN
  IF i = 0 THEN DeliverError(S, p, P, "KeyError") ELSE DeliverHandler(S, p, P, S.tc[i].h)
\* the user callable returns / goes on
Resume(S, p) == Continue(S, p, S.procs[p])

StopClass(k) == IF k = "yield" THEN "yield" ELSE IF k \in {"pread", "pcreate", "pwrite", "pfetch"} THEN "p" ELSE "t"
ProcStep(S, p) ==
  LET k == S.procs[p].stop IN
  CASE k = "yield"    -> Resume(S, p)
    [] k = "pread"    -> PRead(S, p)
    [] k = "pcreate"  -> PCreate(S, p)
    [] k = "pwrite"   -> PWrite(S, p)
    [] k = "pfetch"   -> PFetch(S, p)
    [] k = "tcheck"   -> TCheck(S, p)
    [] k = "tcompute" -> TCompute(S, p)
    [] k = "twrite"   -> TWrite(S, p)
    [] k = "tfetch"   -> TFetch(S, p)
\* run process p until it is done or stands at a stop point where others may be scheduled
RECURSIVE RunToGate(_, _)
RunToGate(S, p) ==
  LET P == S.procs[p] IN
  IF P.st # "run" \/ StopClass(P.stop) \in Gates THEN S ELSE RunToGate(ProcStep(S, p), p)

StartCall(S, p, c, call) ==
  LET P0 == S.procs[p]
      P == [IdleProc EXCEPT !.st = "run", !.call = c, !.star0 = S.star, !.regs0 = S.regs, !.nc = P0.nc + 1,
                            !.calls = <<call>>,
                            !.stack = <<Frame("call", 1, <<>>, VNone, "AUTO", <<>>, <<>>, 0)>>] IN
  Continue(S, p, P)

\* ---- 3c. the machine ------------------------------------------------------------------------
VARIABLES pathCache, star, starWarned, nwarn, regs, typeCache, glob, world, procs, hist, ntog
vars == <<pathCache, star, starWarned, nwarn, regs, typeCache, glob, world, procs, hist, ntog>>

Procs == 1..NProcs
St == [pc |-> pathCache, star |-> star, warned |-> starWarned, nwarn |-> nwarn, regs |-> regs,
       tc |-> typeCache, glob |-> glob, procs |-> procs]
Set(S) == /\ pathCache' = S.pc /\ star' = S.star /\ starWarned' = S.warned /\ nwarn' = S.nwarn
          /\ regs' = S.regs /\ typeCache' = S.tc /\ glob' = S.glob /\ procs' = S.procs

\* world: a version stamp per pool target / caller scope mapping (bumped by any write to it)
CallOf(c) == Pool[c]
Texts(cache) == [i \in 1..Len(cache) |-> cache[i].text]
EndEvents(S0, S1) ==      \* calls that finished in this step, with the prediction and the cache contents
  LET done == {p \in Procs : S1.procs[p].st = "done" /\ (S0.procs[p].st # "done" \/ S0.procs[p].nc # S1.procs[p].nc)} IN
  IF done = {} THEN <<>>
  ELSE LET p == CHOOSE q \in done : TRUE IN
       << [e |-> "end", p |-> p, c |-> S1.procs[p].call, out |-> S1.procs[p].out,
           pct |-> Texts(S1.pc.t), pcf |-> Texts(S1.pc.f),
           tck |-> LET d == SelectSeq(S1.tc, LAMBDA e : e.reg = "glom") IN      \* the default registry's memo
                   [i \in 1..Len(d) |-> <<d[i].ty, d[i].op, d[i].h>>], nwarn |-> S1.nwarn] >>
Log(ev, S0, S1) == hist' = IF RecHist THEN hist \o <<ev>> \o EndEvents(S0, S1) ELSE hist
Quiescent == \A p \in Procs : procs[p].st # "run"

Init ==
  /\ pathCache = [t |-> <<>>, f |-> <<>>] /\ star = TRUE /\ starWarned = FALSE /\ nwarn = 0
  /\ regs = <<>> /\ typeCache = <<>> /\ glob = GlobInit
  /\ world = [tgts |-> [c \in 1..Len(Pool) |-> 0], scs |-> [c \in 1..Len(Pool) |-> 0]]
  /\ procs = [p \in Procs |-> IdleProc] /\ hist = <<>> /\ ntog = 0

\* a thread calls glom(target, spec, scope=..)
Begin(p, c) ==
  /\ procs[p].st # "run" /\ procs[p].nc < MaxCalls
  /\ LET S1 == RunToGate(StartCall(St, p, c, CallOf(c)), p) IN
     Set(S1) /\ Log([e |-> "begin", p |-> p, c |-> c], St, S1)
  /\ UNCHANGED <<world, ntog>>
\* a running thread is scheduled: it performs its pending shared access / returns from the
\* user callable, and runs on to its next gate
Step(p) ==
  /\ procs[p].st = "run"
  /\ LET S1 == RunToGate(ProcStep(St, p), p) IN
     Set(S1) /\ Log([e |-> "step", p |-> p, k |-> procs[p].stop], St, S1)
  /\ UNCHANGED <<world, ntog>>
\* the same, named by the kind of stop point (for coverage and for reading counterexamples)
YieldReturn(p) == procs[p].stop = "yield" /\ Step(p)
CacheRead(p)   == procs[p].stop \in {"pread", "pfetch"} /\ Step(p)
CacheCreate(p) == procs[p].stop = "pcreate" /\ Step(p)
CacheWrite(p)  == procs[p].stop = "pwrite" /\ Step(p)
MemoRead(p)    == procs[p].stop \in {"tcheck", "tfetch"} /\ Step(p)
MemoCompute(p) == procs[p].stop = "tcompute" /\ Step(p)
MemoWrite(p)   == procs[p].stop = "twrite" /\ Step(p)
\* glom.core.PATH_STAR = not glom.core.PATH_STAR
ToggleStar ==
  /\ ntog < MaxToggles /\ (ToggleAnytime \/ Quiescent)
  /\ star' = ~star /\ ntog' = ntog + 1
  /\ hist' = IF RecHist THEN Append(hist, [e |-> "toggle"]) ELSE hist
  /\ UNCHANGED <<pathCache, starWarned, nwarn, regs, typeCache, glob, world, procs>>
\* glom.register(type, op=handler): the memo is reset
Register(r) ==
  /\ Len(regs) < MaxRegs /\ (RegisterAnytime \/ Quiescent) /\ \A i \in 1..Len(regs) : regs[i] # r
  /\ regs' = Append(regs, r)
  /\ typeCache' = IF Mutant = "noreset" THEN typeCache ELSE SelectSeq(typeCache, LAMBDA e : e.reg # "glom")
  /\ hist' = IF RecHist THEN Append(hist, [e |-> "reg", r |-> r]) ELSE hist
  /\ UNCHANGED <<pathCache, star, starWarned, nwarn, glob, world, procs, ntog>>

Next ==
  \/ \E p \in Procs : \E c \in 1..Len(Pool) : Begin(p, c)
  \/ \E p \in Procs : \/ YieldReturn(p) \/ CacheRead(p) \/ CacheCreate(p) \/ CacheWrite(p)
                      \/ MemoRead(p) \/ MemoCompute(p) \/ MemoWrite(p)
  \/ ToggleStar
  \/ \E r \in RegNames : Register(r)
Spec == Init /\ [][Next]_vars

\* =====================================================================================
\* LAWS (stated on outcomes and observations only; they do not mention frames or caches)
\* =====================================================================================
Expected(p) == Iso(CallOf(procs[p].call), procs[p].star0, procs[p].regs0)
IsPrefix(a, b) == Len(a) <= Len(b) /\ ObsSeqEq(SubSeq(b, 1, Len(a)), a)
OutcomeEq(a, b) == a.ok = b.ok /\ VEq(a.v, b.v) /\ a.e = b.e /\ ObsSeqEq(a.obs, b.obs)
\* C06 (i) / C20: a finished call has exactly the outcome (value, or error class with its
\* origin and the nested error chain) and made exactly the observations of the isolated call
NonInterference == \A p \in Procs : procs[p].st = "done" => OutcomeEq(procs[p].out, Expected(p))
\* ... and at every moment what a running call has observed so far is what it observes alone
ObservesOnlyItself == \A p \in Procs : procs[p].st = "run" => IsPrefix(procs[p].obs, Expected(p).obs)
\* C06 (ii): targets, caller scope mappings and spec values never change
FrameCondition == [][world' = world /\ glob'.spec = glob.spec]_vars
\* C20: there is no module-level evaluation state: what calls share is the caches, nothing else
OnlyCachesShared == glob = GlobInit
\* the universe stays inside the modelled fragment
NoUnmodelled == \A p \in Procs : procs[p].st = "done" => procs[p].out.e.cls # "UNMODELLED"

\* mechanism invariants that make the caches pure memos
PathCacheCoherent ==
  \A s \in BOOLEAN : LET cache == IF s THEN pathCache.t ELSE pathCache.f IN
    \A i \in 1..Len(cache) : ~cache[i].partial /\ cache[i].parse = Parse(cache[i].segs, s)
TypeCacheCoherent ==
  \A i \in 1..Len(typeCache) : typeCache[i].h = Resolve(RegsFor(typeCache[i].reg, regs), typeCache[i].ty, typeCache[i].op)
PathCacheBounded ==
  Len(pathCache.t) <= MaxCache + NProcs /\ Len(pathCache.f) <= MaxCache + NProcs

\* =====================================================================================
\* validation of recorded executions (code -> spec): a row is one interpreter session,
\* events in the order in which they took effect
\* =====================================================================================
Strip(o) == [ok |-> o.ok, v |-> o.v, cls |-> o.e.cls, obs |-> o.obs]
TInit == [pc |-> [t |-> <<>>, f |-> <<>>], star |-> TRUE, warned |-> FALSE, regs |-> <<>>, tc |-> <<>>]
TCache(T, s) == IF s THEN T.pc.t ELSE T.pc.f
TPut(T, s, cache) == IF s THEN [T EXCEPT !.pc.t = cache] ELSE [T EXCEPT !.pc.f = cache]
\* returns <<clause, T'>>; clause = "" when the event is what the specification allows
TraceEvent(T, ev, mc, slack) ==
  CASE ev.e = "toggle" -> <<"", [T EXCEPT !.star = ~@]>>
    [] ev.e = "reg"    -> <<IF ev.r \in RegNames THEN "" ELSE "unknown_registration", [T EXCEPT !.regs = Append(@, ev.r), !.tc = <<>>]>>
    [] ev.e = "call"   ->
         LET want == Strip(Iso(ev.call, T.star, T.regs))  o == ev.out IN
         << IF want.cls = "UNMODELLED" THEN "skip_unmodelled"
            ELSE IF want.ok # o.ok THEN "outcome"
            ELSE IF want.ok /\ ~VEq(want.v, o.v) THEN "value"
            ELSE IF ~want.ok /\ want.cls # o.cls THEN "errclass"
            ELSE IF ~ObsSeqEq(want.obs, o.obs) THEN "observations"
            ELSE "", T >>
    [] ev.e = "warn"   -> <<IF T.warned \/ T.star THEN "warned_again" ELSE "", [T EXCEPT !.warned = TRUE]>>
    [] ev.e = "has"    -> <<IF ev.star # T.star THEN "pc_wrong_dict"
                            ELSE IF ev.res # (CFind(TCache(T, ev.star), ev.text) # 0) THEN "pc_has" ELSE "", T>>
    [] ev.e = "len"    -> <<IF ev.n # Len(TCache(T, ev.star)) THEN "pc_len" ELSE "", T>>
    [] ev.e = "set"    ->
         LET cache == TCache(T, ev.star) IN
         << IF ev.star # T.star THEN "pc_wrong_dict"
            ELSE IF ev.parse # Parse(ev.segs, ev.star) THEN "pc_set_value"
            ELSE IF CFind(cache, ev.text) = 0 /\ Len(cache) > mc + slack THEN "pc_overflow"
            ELSE "", TPut(T, ev.star, CSet(cache, CEntry(ev.text, ev.segs, ev.parse, FALSE))) >>
    [] ev.e = "get"    ->
         LET cache == TCache(T, ev.star)  i == CFind(cache, ev.text) IN
         << IF i = 0 THEN "pc_get_missing" ELSE IF cache[i].parse # ev.parse THEN "pc_get_value" ELSE "", T >>
    [] ev.e = "thas"   -> <<IF ev.res # (TFind(T.tc, ev.ty, ev.op, "glom") # 0) THEN "tc_has" ELSE "", T>>
    [] ev.e = "tset"   -> <<IF ev.h # Resolve(T.regs, ev.ty, ev.op) THEN "tc_set_value" ELSE "",
                            [T EXCEPT !.tc = TSet(@, ev.ty, ev.op, "glom", ev.h)]>>
    [] ev.e = "tget"   -> LET i == TFind(T.tc, ev.ty, ev.op, "glom") IN
                          <<IF i = 0 THEN "tc_get_missing" ELSE IF T.tc[i].h # ev.h THEN "tc_get_value" ELSE "", T>>
    [] OTHER -> <<"unknown_event", T>>
\* row = [events, maxcache (Path._MAX_CACHE of the session), slack (threads - 1: stores that may
\* overshoot the bound because check and store are separate steps)]
RECURSIVE TraceRun(_, _, _, _, _, _)
TraceRun(evs, i, T, mc, slack, skipped) ==
  IF i > Len(evs) THEN [clause |-> IF skipped > 0 THEN "skipped" ELSE "", at |-> skipped]
  ELSE LET r == TraceEvent(T, evs[i], mc, slack) IN
       IF r[1] = "skip_unmodelled" THEN TraceRun(evs, i + 1, r[2], mc, slack, skipped + 1)
       ELSE IF r[1] # "" THEN [clause |-> r[1], at |-> i]
       ELSE TraceRun(evs, i + 1, r[2], mc, slack, skipped)
TraceVerdict(row) == TraceRun(row.events, 1, TInit, row.maxcache, row.slack, 0)
====================================================================================
