CONSTANTS
  Mutant = "none"
INIT TInit
NEXT TNext
CONSTRAINT Check
CHECK_DEADLOCK FALSE
