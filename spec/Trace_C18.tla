--------------------------------- MODULE Trace_C18 ---------------------------------
(* code -> spec for C18 (sequence part): rows {n, oper, obs} recorded from real Path     *)
(* objects of n steps (steps identified by number); the sequence law of GlomRepr is       *)
(* re-evaluated and compared with the observed steps / IndexError.                        *)
EXTENDS GlomRepr, Json, IOUtils

Rows == ndJsonDeserialize(IOEnv.TRACE_FILE)
VARIABLE i
Init == i = 1
Next == i <= Len(Rows) /\ i' = i + 1

St(n) == [j \in 1..n |-> j]
Pred(r) ==
  IF r.oper.o = "index" THEN SeqIndex1(St(r.n), r.oper.i)
  ELSE [ok |-> TRUE, steps |-> SeqSlice(St(r.n), r.oper.sl)]
Verdict(r) ==
  LET p == Pred(r) IN
  IF p.ok # r.obs.ok THEN "indexerror" ELSE IF p.steps # r.obs.steps THEN "steps" ELSE ""
Check ==
  IF i <= Len(Rows)
  THEN LET v == Verdict(Rows[i]) IN
       v = "" \/ PrintT(ToJson([reject |-> i, clause |-> v, pred |-> Pred(Rows[i])]))
  ELSE PrintT(ToJson([done |-> Len(Rows)]))
====================================================================================
