SPECIFICATION Spec
CONSTANTS
  Pool <- C06Pool
  NProcs = 1
  MaxCache = 1
  MaxCalls = 100
  Gates = {}
  ToggleAnytime = FALSE
  RegisterAnytime = FALSE
  RecHist = TRUE
CONSTRAINT Bound
CHECK_DEADLOCK FALSE
PROPERTY FrameCondition
