INIT Init
NEXT Next
INVARIANT Fragment
INVARIANT Decides
INVARIANT Result
INVARIANT Errs
INVARIANT Defaults
INVARIANT Rejects
INVARIANT Passthrough
INVARIANT ShortCircuit
INVARIANT CtorLaw
INVARIANT Unorderable
INVARIANT HistoryFree
INVARIANT CheckContains
CHECK_DEADLOCK FALSE
