--------------------------------- MODULE GlomData ---------------------------------
(* Value universe, object heap and the primitive Python accesses glom performs on   *)
(* targets.  Everything is JSON-native (records, sequences, strings, integers) so    *)
(* that the same operators evaluate cases enumerated by TLC (spec -> code) and rows  *)
(* recorded from the real library (code -> spec, via ndJsonDeserialize).             *)
(*                                                                                   *)
(*   value  ::= [k:"int",i] | [k:"str",s] | [k:"none"] | [k:"bool",b] | [k:"ref",a]  *)
(*            | [k:"frac",n,d] | [k:"sent",s] (SKIP/STOP) | [k:"fn",s]               *)
(*   heap   ::= sequence of cells, address = position                                 *)
(*   cell   ::= [cls, items]; map-like classes (dict, odict, obj) hold a sequence of   *)
(*              <<key value, value>> pairs in insertion order, sequence-like classes  *)
(*              (list, tuple, set, frozenset) hold a sequence of values.              *)
(* Identity is address equality; sharing and cycles are ordinary heap shapes.        *)
EXTENDS Integers, Sequences, FiniteSets, TLC

VInt(i)  == [k |-> "int", i |-> i]
VStr(s)  == [k |-> "str", s |-> s]
VNone    == [k |-> "none"]
VBool(b) == [k |-> "bool", b |-> b]
VRef(a)  == [k |-> "ref", a |-> a]
VFrac(n, d) == [k |-> "frac", n |-> n, d |-> d]
VSent(s) == [k |-> "sent", s |-> s]
VFn(s)   == [k |-> "fn", s |-> s]
SKIP == VSent("SKIP")
STOP == VSent("STOP")

Cell(cls, items) == [cls |-> cls, items |-> items]

MapClasses == {"dict", "odict", "obj", "cobj"}      \* cobj: an attribute object that is also callable
SeqClasses == {"list", "tuple", "set", "frozenset"}
IsRef(v) == v.k = "ref"
ClsOf(heap, v) == IF IsRef(v) THEN heap[v.a].cls ELSE v.k    \* "int", "str", "none", ...

Ok(v)   == [ok |-> TRUE, v |-> v]
Exc(e)  == [ok |-> FALSE, exc |-> e]

\* ---- ordered association lists ---------------------------------------------------
RECURSIVE FindKey(_, _, _)
FindKey(items, key, i) ==
  IF i > Len(items) THEN 0
  ELSE IF items[i][1] = key THEN i ELSE FindKey(items, key, i + 1)
HasKey(items, key) == FindKey(items, key, 1) # 0
Lookup(items, key) == items[FindKey(items, key, 1)][2]
SetKey(items, key, val) ==
  IF HasKey(items, key) THEN [items EXCEPT ![FindKey(items, key, 1)] = <<key, val>>]
  ELSE Append(items, <<key, val>>)
RemoveAt(sq, i) == SubSeq(sq, 1, i - 1) \o SubSeq(sq, i + 1, Len(sq))
DelKey(items, key) == RemoveAt(items, FindKey(items, key, 1))

\* ---- int(x) as used by the default sequence 'get' handler -------------------------
\* decimal strings the universes use; anything else is a ValueError like int('a')
StrIntTab ==
  [s \in {"0", "1", "2", "3", "4", "5", "6", "7", "8", "9",
          "-1", "-2", "-3", "-4", "-5", "-6", "-7", "-8", "-9"} |->
     CASE s = "0" -> 0 [] s = "1" -> 1 [] s = "2" -> 2 [] s = "3" -> 3 [] s = "4" -> 4
       [] s = "5" -> 5 [] s = "6" -> 6 [] s = "7" -> 7 [] s = "8" -> 8 [] s = "9" -> 9
       [] s = "-1" -> -1 [] s = "-2" -> -2 [] s = "-3" -> -3 [] s = "-4" -> -4
       [] s = "-5" -> -5 [] s = "-6" -> -6 [] s = "-7" -> -7 [] s = "-8" -> -8 [] s = "-9" -> -9]
PyInt(v) ==
  CASE v.k = "int"  -> Ok(v.i)
    [] v.k = "bool" -> Ok(IF v.b THEN 1 ELSE 0)
    [] v.k = "str"  -> IF v.s \in DOMAIN StrIntTab THEN Ok(StrIntTab[v.s]) ELSE Exc("ValueError")
    [] OTHER        -> Exc("TypeError")

\* characters of the leaf strings the universes use (TLC cannot index strings)
StrChars == [s \in {"", "s", "uv", "u", "v"} |->
               CASE s = "" -> <<>> [] s = "uv" -> <<"u", "v">> [] OTHER -> <<s>>]

SeqIndex(items, i) ==           \* Python sequence indexing with negative indices
  LET n == Len(items) IN
  IF i >= 0 /\ i < n THEN Ok(items[i + 1])
  ELSE IF i < 0 /\ i >= -n THEN Ok(items[n + i + 1])
  ELSE Exc("IndexError")

\* ---- the three primitive accesses ---------------------------------------------------
\* Python  cur[arg]
GetItem(heap, cur, arg) ==
  IF IsRef(cur) THEN
    LET c == heap[cur.a] IN
    CASE c.cls \in {"dict", "odict"} ->
           IF HasKey(c.items, arg) THEN Ok(Lookup(c.items, arg)) ELSE Exc("KeyError")
      [] c.cls \in {"list", "tuple"} ->
           IF arg.k = "int" THEN SeqIndex(c.items, arg.i)
           ELSE IF arg.k = "bool" THEN SeqIndex(c.items, IF arg.b THEN 1 ELSE 0)
           ELSE Exc("TypeError")
      [] OTHER -> Exc("TypeError")                \* obj / set / frozenset: not subscriptable
  ELSE IF cur.k = "str" /\ cur.s \in DOMAIN StrChars THEN
    IF arg.k = "int" THEN
      LET r == SeqIndex(StrChars[cur.s], arg.i) IN IF r.ok THEN Ok(VStr(r.v)) ELSE r
    ELSE Exc("TypeError")
  ELSE Exc("TypeError")

\* Python  getattr(cur, name)   (name is a value; only instance attributes are modelled:
\* the universes never use names that are methods of the builtin types)
GetAttr(heap, cur, name) ==
  IF name.k # "str" THEN Exc("TypeError")
  ELSE IF IsRef(cur) /\ heap[cur.a].cls \in {"obj", "cobj"} THEN
    LET c == heap[cur.a] IN
    IF HasKey(c.items, name) THEN Ok(Lookup(c.items, name)) ELSE Exc("AttributeError")
  ELSE Exc("AttributeError")

\* the handler the default registry selects for operation 'get' on cur's type:
\*   dict / OrderedDict -> operator.getitem, list / tuple -> cur[int(seg)],
\*   everything else (object) -> getattr
PathGet(heap, cur, seg) ==
  LET cls == ClsOf(heap, cur) IN
  CASE cls \in {"dict", "odict"} -> GetItem(heap, cur, seg)
    [] cls \in {"list", "tuple"} ->
         LET n == PyInt(seg) IN
         IF n.ok THEN SeqIndex(heap[cur.a].items, n.v) ELSE n
    [] OTHER -> GetAttr(heap, cur, seg)

\* children in natural order (mapping values / sequence items / attribute values)
Children(heap, cur) ==
  IF ~IsRef(cur) THEN <<>>
  ELSE LET c == heap[cur.a] IN
       IF c.cls \in MapClasses THEN [i \in 1..Len(c.items) |-> c.items[i][2]] ELSE c.items
====================================================================================
