--------------------------------- MODULE Trace_C05 ---------------------------------
(* code -> spec for C05: rows {tree, plan, lines} where lines is the parsed text of a real   *)
(* error message: per line its depth, kind (T / S / E) and what it shows (target id, spec     *)
(* node path, error class[:planted leaf]).  The frame machine is run on the same tree and     *)
(* plan, its rendering is projected the same way and compared line by line.                   *)
EXTENDS GlomTrace, Json, IOUtils

Rows == ndJsonDeserialize(IOEnv.TRACE_FILE)
VARIABLE i
Init == i = 1
Next == i <= Len(Rows) /\ i' = i + 1

ErrClass(k) == CASE k \in {"new", "same", "copy", "fail"} -> "PlantedError" [] k = "smiss" -> "PathAccessError" [] k = "typ" -> "TypeMatchError"
                 [] k \in {"coal", "coalskip"} -> "CoalesceError" [] k \in {"switch", "mdict", "not"} -> "MatchError" [] OTHER -> "GlomError"
NumStr(n) == CASE n = 1 -> "1" [] n = 2 -> "2" [] n = 3 -> "3" [] n = 4 -> "4" [] n = 5 -> "5" [] n = 6 -> "6"
               [] n = 7 -> "7" [] n = 8 -> "8" [] n = 9 -> "9" [] OTHER -> "?"
Verdict(r) ==
  LET m == Start(r.tree, r.plan, <<>>) IN
  IF m.out # "err" THEN "outcome"
  ELSE LET fr == m.st.frames
           p == Projection(fr, m.st.errs, TraceLines(fr, m.e))
       IN IF Len(p) # Len(r.lines) THEN "line-count"
          ELSE IF \E j \in 1..Len(p) : p[j].d # r.lines[j].d THEN "depth"
          ELSE IF \E j \in 1..Len(p) : p[j].kind # r.lines[j].kind THEN "kind"
          ELSE IF \E j \in 1..Len(p) : p[j].kind = "S" /\ p[j].path # r.lines[j].path THEN "spec-shown"
          ELSE IF \E j \in 1..Len(p) : p[j].kind = "T" /\ Head(p[j].tgt) >= 0 /\ p[j].tgt # r.lines[j].tgt THEN "target-shown"
          ELSE IF \E j \in 1..Len(p) : p[j].kind = "E" /\
                    LET nd == NodeAt(r.tree, NodePath(p[j].path)) IN
                    r.lines[j].e # ErrClass(nd.k) \o (IF p[j].e > 0 THEN ":" \o NumStr(p[j].e) ELSE "") THEN "error-shown"
          ELSE ""
Check ==
  IF i <= Len(Rows)
  THEN LET v == Verdict(Rows[i]) IN v = "" \/ PrintT(ToJson([reject |-> i, clause |-> v]))
  ELSE PrintT(ToJson([done |-> Len(Rows)]))
====================================================================================
