--------------------------------- MODULE Trace_C10 ---------------------------------
(* code -> spec for C10: every row of the ndjson file is one execution recorded from the  *)
(* real library on an input TLC did not choose (seeded random combinator trees to depth 5   *)
(* over a wider atom alphabet, random targets):  {mode, spec, heap, root, obs}.             *)
(* GlomMatch!Ev is re-evaluated on the recorded input; outcome, result, exception class,    *)
(* identity of a passed-through target and the call log of the named predicates are          *)
(* compared with what the library did, and the laws are evaluated on the observation.        *)
EXTENDS GlomMatch, Json, IOUtils

Rows == ndJsonDeserialize(IOEnv.TRACE_FILE)
VARIABLE i
Init == i = 1
Next == i <= Len(Rows) /\ i' = i + 1

Skipped(r) == Ev("auto", TreeOf(r.heap, r.root), IF r.mode = "match" THEN PMatch(r.spec, FALSE, VNone) ELSE r.spec).amb

Verdict(r) ==
  LET t == TreeOf(r.heap, r.root)
      root == IF r.mode = "match" THEN PMatch(r.spec, FALSE, VNone) ELSE r.spec
      o == Ev("auto", t, root)
      ob == r.obs
  IN IF ~InFragment("auto", root) \/ ~StrsOK(t) THEN "fragment"
     ELSE IF o.amb THEN ""
     ELSE IF o.ok # ob.ok THEN "outcome"
     ELSE IF o.ok /\ ~(PyEq(o.v, ob.v) /\ PyEq(ob.v, o.v)) THEN "result"
     ELSE IF o.ok /\ o.same /\ ~ob.same THEN "identity"
     ELSE IF ~o.ok /\ ob.cls \notin o.errs THEN "errclass"
     ELSE IF o.calls # ob.calls THEN "calllog"
     \* the laws, on the observation itself
     ELSE IF Clean(o) /\ ob.ok # Holds("auto", t, root) THEN "law-decides"
     ELSE IF ob.ok /\ ~PyEq(ob.v, Denotes("auto", t, root)) THEN "law-result"
     ELSE ""

Check ==
  IF i <= Len(Rows)
  THEN LET v == Verdict(Rows[i]) IN v = "" \/ PrintT(ToJson([reject |-> i, clause |-> v]))
  ELSE PrintT(ToJson([done |-> Len(Rows),      \* skipped: rows whose outcome depends on an order the documentation leaves open
                      skipped |-> Cardinality({j \in 1..Len(Rows) : Skipped(Rows[j])})]))
====================================================================================
