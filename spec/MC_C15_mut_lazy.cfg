INIT Init
NEXT Next
INVARIANT InvLazyEager
CHECK_DEADLOCK FALSE
