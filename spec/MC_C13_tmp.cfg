\* main configuration: mechanism |= law (modulo the recorded known deviations), memo coherence,
\* isolation, fresh Glommer = pristine default.  bin/check overrides the bounds per tier.
SPECIFICATION Spec
CONSTANT U <- MCUniverse
CONSTANTS
  Ops = {"get", "keys"}
  Mutant = ""
  FamNames = {"mixin"}
  RegSets = {{"default"}, {"g1"}, {"g2"}}
  Dynamic = FALSE
  MaxReg = 1
  MaxLook = 1
  MaxNew = 0
  KwChoices = {{"get", "keys"}, {"get"}}
  LookOps = {"get", "keys"}
  ReReg = FALSE
  AllOrders = FALSE
  PrintUniverse = FALSE
  PosObject = 1
  PosList = 2
  PosOD = 3
  PosDict = 4
  PosTuple = 5
  PosOSK = 6
  PosAI = 7
CHECK_DEADLOCK FALSE
INVARIANT Nearest
