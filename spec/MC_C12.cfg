INIT Init
NEXT Next
INVARIANT NoEarlyWrite
INVARIANT AttachLast
INVARIANT Outcome
INVARIANT SpecCarriesNothing
INVARIANT DelFrame
CHECK_DEADLOCK FALSE
