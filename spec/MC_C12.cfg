INIT Init
NEXT Next
INVARIANT NoEarlyWrite
INVARIANT AttachLast
INVARIANT Outcome
INVARIANT DelFrame
CHECK_DEADLOCK FALSE
