--------------------------------- MODULE Trace_C04 ---------------------------------
(* code -> spec for C04.  Every row of the ndjson file is one execution recorded from   *)
(* the real library on an input TLC did not choose (random chains of constructs, random *)
(* synthesised exception classes whose abstract attributes were measured on Python):     *)
(*   {ctxs, leaf, kw, ev: <<projected record after RaiseAt and after every construct>>,  *)
(*    out: projected record of what left glom()}                                         *)
(* The GlomErrors machine is loaded with the row's spec shape and stepped through its   *)
(* own actions (RaiseAt, Pass / Catch*, TopLevel); after every action the record it      *)
(* holds must be the recorded one (clause = name of the diverging action).  At the top   *)
(* level the LAWS are evaluated on the *observed* outcome (clause law:<name>); an        *)
(* outcome that satisfies the laws but is not what the transcribed mechanism yields is   *)
(* reported as drift.                                                                    *)
EXTENDS GlomErrors, Json, IOUtils

Rows == ndJsonDeserialize(IOEnv.TRACE_FILE)
VARIABLES i, rej
tvars == <<vars, i, rej>>

NoRej == [kind |-> "", clause |-> ""]
Rej(kind, clause) == [kind |-> kind, clause |-> clause]

ProjR(r) == IF r.st = "raised"
            THEN [st |-> "raised", cid |-> r.cls.id, id |-> r.id, glom |-> r.cls.glom]
            ELSE [st |-> "value", val |-> r.val, at |-> IF r.val = "tgt" THEN 0 ELSE r.at]
ProjO(r, acid) == IF r.st = "raised"
            THEN [st |-> "raised", cid |-> r.cls.id, id |-> r.id, glom |-> r.cls.glom,
                  args |-> r.args, w |-> r.w, sub |-> InSeq(acid, r.cls.anc)]
            ELSE [st |-> "value", val |-> r.val, at |-> IF r.val = "tgt" THEN 0 ELSE r.at]

TInit ==
  /\ i = 0 /\ rej = NoRej
  /\ ctxs = <<>> /\ leaf = GlomDoc("MatchError") /\ kw = NoKw /\ x = NoRec /\ arr = NoRec
  /\ lvl = 0 /\ ph = "done" /\ hist = <<>>

Finished == ph \in {"done", "excluded"} \/ rej # NoRej

Load ==
  /\ Finished /\ i < Len(Rows)
  /\ i' = i + 1 /\ rej' = NoRej
  /\ ctxs' = Rows[i + 1].ctxs /\ leaf' = Rows[i + 1].leaf
  /\ kw' = NoKw /\ x' = NoRec /\ arr' = NoRec /\ lvl' = 0 /\ ph' = "init" /\ hist' = <<>>

\* a chain action of the machine, bound to the recorded event
Chain ==
  /\ ~Finished /\ i' = i
  /\ (RaiseAt(Len(ctxs)) \/ Travel)
  /\ LET j == Len(hist') r == Rows[i] IN
     rej' = IF ph' = "excluded" THEN NoRej
            ELSE IF j > Len(r.ev) THEN Rej("chain", "length")
            ELSE IF ProjR(hist'[j].r) # r.ev[j] THEN Rej("chain", hist'[j].a)
            ELSE NoRej

\* the top level: the machine takes the branch its mechanism dictates for the recorded kwargs;
\* the observed outcome is judged by the laws, then compared with the mechanism
TopObserved ==
  /\ ~Finished /\ i' = i
  /\ TopLevel(Rows[i].kw)
  /\ LET r == Rows[i]
         o == r.out
         acid == IF arr'.st = "raised" THEN arr'.cls.id ELSE ""
         law == LawVerdict(r.kw, arr', o, leaf.id)
     IN rej' = IF Len(hist) # Len(r.ev) THEN Rej("chain", "length")
               ELSE IF law # "" THEN Rej("law", law)
               ELSE IF ProjO(o, acid) # ProjO(x', acid) THEN Rej("drift", hist'[Len(hist')].a)
               ELSE NoRej

TNext == Load \/ Chain \/ TopObserved

Check ==
  /\ (rej # NoRej => PrintT(ToJson([reject |-> i, clause |-> rej.clause, kind |-> rej.kind])))
  /\ ((i = Len(Rows) /\ Finished) => PrintT(ToJson([done |-> Len(Rows)])))
====================================================================================
