INIT Init
NEXT Next
INVARIANT VisibilityLaw
INVARIANT GlobalsLaw
INVARIANT RefLaw
INVARIANT VarsLaw
CHECK_DEADLOCK FALSE
CONSTANTS Mutant = "none"
