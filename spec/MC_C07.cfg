INIT Init
NEXT Next
INVARIANT VisibilityLaw
INVARIANT GlobalsLaw
CHECK_DEADLOCK FALSE
CONSTANTS Mutant = "none"
