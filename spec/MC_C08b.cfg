INIT Init
NEXT Next
INVARIANT ShapeLaw
INVARIANT FreshLaw
INVARIANT SpecUntouched
CHECK_DEADLOCK FALSE
