--------------------------------- MODULE Trace_Stack ---------------------------------
(* code -> spec for C05 on workloads nobody in /verif wrote: every glom() call of the       *)
(* repository's own test-suite that ends in an error.  One row = the scope events of the     *)
(* call (GLOM_VERIF hook: enter / error / chain, frames numbered in creation order, targets  *)
(* and exceptions by identity) plus the trace lines of the real message, nested by depth,     *)
(* each with the candidates it may be showing (frames / targets / errors whose rendering is  *)
(* the text of the line).                                                                     *)
(*                                                                                           *)
(* The events are replayed through the frame machine's own actions (Enter, Fail, Chain of    *)
(* GlomFrames), which rebuilds the breadcrumb table; GlomTrace renders it.                    *)
(*   - if the real lines are that rendering (same nesting, same kinds, every line a           *)
(*     candidate for what the model shows), the C05 laws are evaluated on it against the       *)
(*     dynamic parent chain: first / spine / target / branch / branch-error / abandoned;       *)
(*   - otherwise the laws that need no identification of lines are evaluated on the real      *)
(*     lines themselves (real-first / real-spine / real-target / real-branch); if they hold    *)
(*     the row only                                                                            *)
(*     counts as drift of the mechanism model.                                                 *)
EXTENDS GlomTrace, Json, IOUtils

Rows == ndJsonDeserialize(IOEnv.TRACE_FILE)
VARIABLE i
Init == i = 1
Next == i <= Len(Rows) /\ i' = i + 1

Range(sq) == {sq[k] : k \in 1..Len(sq)}
Front(sq) == SubSeq(sq, 1, Len(sq) - 1)

\* ---- replay of the recorded events through the machine's actions -------------------------------
RECURSIVE Replay(_, _, _)
Replay(evs, k, st) ==
  IF k > Len(evs) \/ st.bad # "" THEN st
  ELSE LET ev == evs[k] IN
       IF ev.a = "enter" THEN
         IF ev.f # Len(st.frames) + 1 \/ ev.par > Len(st.frames) THEN [st EXCEPT !.bad = "numbering"]
         ELSE \* own children extend the parent's path; the steps a chain continues with are its siblings
              LET pp == st.frames[ev.par].path
                  path == IF st.frames[ev.par].nopy THEN Append(Front(pp), ev.f) ELSE Append(pp, ev.f)
              IN Replay(evs, k + 1, Enter(st, ev.par, path, <<ev.tgt>>))
       ELSE IF ev.a = "error" THEN
         IF ev.f > Len(st.frames) \/ ev.f < 2 THEN [st EXCEPT !.bad = "numbering"]
         ELSE Replay(evs, k + 1, Fail(st, ev.f, ev.e))
       ELSE \* chain(from = ev.f, to = ev.par)
         IF ev.f > Len(st.frames) THEN [st EXCEPT !.bad = "numbering"]
         ELSE LET ch == Chain(st, ev.f) IN
              IF ch.s # ev.par THEN [st EXCEPT !.bad = "ChainLast"] ELSE Replay(evs, k + 1, ch.st)

MaxE(evs) == LET S == {evs[k].e : k \in 1..Len(evs)} IN CHOOSE m \in S : \A x \in S : x <= m
FirstErr(evs, e) == LET k == CHOOSE k \in 1..Len(evs) : evs[k].a = "error" /\ evs[k].e = e
                                  /\ \A j \in 1..(k - 1) : ~(evs[j].a = "error" /\ evs[j].e = e) IN evs[k].f
Errs(evs) == [e \in 1..MaxE(evs) |->
                [org |-> IF \E k \in 1..Len(evs) : evs[k].a = "error" /\ evs[k].e = e THEN FirstErr(evs, e) ELSE 0,
                 n |-> 0, glom |-> TRUE]]

\* ---- the real lines are the model's rendering ---------------------------------------------------
RECURSIVE Conf(_, _, _)
Conf(fr, mn, rn) ==
  /\ Len(mn) = Len(rn)
  /\ \A j \in 1..Len(mn) :
       /\ mn[j].kind = rn[j].kind
       /\ (mn[j].kind = "T" => fr[mn[j].f].tgt[1] \in Range(rn[j].c))
       /\ (mn[j].kind \in {"S", "B"} => mn[j].f \in Range(rn[j].c))
       /\ (mn[j].kind = "E" => mn[j].e \in Range(rn[j].c))
       /\ Len(mn[j].subs) = Len(rn[j].subs)
       /\ \A b \in 1..Len(mn[j].subs) : Conf(fr, mn[j].subs[b], rn[j].subs[b])

\* ---- laws on the real lines, no identification needed --------------------------------------------
\* the spec lines met following, at every branching spec, the last branch shown; each with the candidates
\* of the Target line in force there (a block inherits the target in force at its parent's branching line)
NoB == [has |-> FALSE, subs |-> <<>>, t |-> <<>>]
RECURSIVE DescT(_, _)
DescT(rn, cur) ==
  LET RECURSIVE Go(_, _, _, _)
      Go(j, c, acc, lastB) ==
        IF j > Len(rn) THEN (IF lastB.has THEN acc \o DescT(lastB.subs, lastB.t) ELSE acc)
        ELSE IF rn[j].kind = "T" THEN Go(j + 1, rn[j].c, acc, lastB)
        ELSE IF rn[j].kind \in {"S", "B"}
             THEN Go(j + 1, c, Append(acc, [c |-> rn[j].c, t |-> c, subs |-> rn[j].subs]),
                     IF rn[j].kind = "B" /\ rn[j].subs # <<>>
                     THEN [has |-> TRUE, subs |-> rn[j].subs[Len(rn[j].subs)], t |-> c] ELSE NoB)
        ELSE Go(j + 1, c, acc, lastB)
  IN Go(1, cur, <<>>, NoB)

RealFirst(r) == Len(r.n) >= 1 /\ r.n[1].kind = "T" /\ r.roottgt \in Range(r.n[1].c)
RealSpine(fr, r, org) ==
  LET P == ParChain(fr, org)
      D == DescT(r.n, <<>>)
  IN /\ Len(D) >= Len(P)
     /\ \A k \in 1..Len(P) : P[k] \in Range(D[k].c)
     /\ \A k \in (Len(P) + 1)..Len(D) : \E f \in Range(D[k].c) : InSeq(org, ParChain(fr, f))
RealTarget(fr, r, org) ==
  LET p == Len(ParChain(fr, org))
      D == DescT(r.n, <<>>)
  IN p <= Len(D) /\ fr[org].tgt[1] \in Range(D[p].t)

\* every branching spec on the way down shows one block per failed attempt of that very frame, in order,
\* each beginning with the attempt's spec and showing the error that ended it (unless that is the error raised)
RECURSIVE AllE(_)
AllE(rn) == UNION {IF rn[j].kind = "E" THEN Range(rn[j].c)
                   ELSE IF rn[j].kind = "B" THEN UNION {AllE(rn[j].subs[b]) : b \in 1..Len(rn[j].subs)} ELSE {}
                   : j \in 1..Len(rn)}
RealBranch(fr, r, org, rootErr) ==
  LET P == ParChain(fr, org)
      D == DescT(r.n, <<>>)
  IN \A k \in 1..Len(P) :
       (k <= Len(D) /\ D[k].subs # <<>>) =>
         LET kids == FailedKids(fr, P[k]) IN
         /\ Len(D[k].subs) = Len(kids)
         /\ \A b \in 1..Len(kids) :
              LET se == SelectSeq(D[k].subs[b], LAMBDA en : en.kind \in {"S", "B"}) IN
              /\ se # <<>> /\ kids[b] \in Range(se[1].c)
              /\ (fr[kids[b]].err # rootErr => fr[kids[b]].err \in AllE(D[k].subs[b]))

Verdict(r) ==
  LET st == Replay(r.events, 1, [frames |-> <<RootFrame(<<r.roottgt>>, <<>>)>>, acts |-> <<>>, bad |-> ""]) IN
  IF st.bad # "" THEN st.bad
  ELSE IF ~r.tail_ok THEN "original-error"
  ELSE LET fr == st.frames
           errs == Errs(r.events)
           org == errs[r.root].org
       IN IF org = 0 \/ Len(fr) < 2 THEN "numbering"
          ELSE LET mn == TraceN(fr, r.root) IN
               IF Conf(fr, mn, r.n)
               THEN IF ~FirstIsRootTarget(fr, mn) THEN "first"
                    ELSE IF ~SpineLaw(fr, mn, org) THEN "spine"
                    ELSE IF ~TargetLaw(fr, mn, org) THEN "target"
                    ELSE IF ~BranchLaw(fr, mn) THEN "branch"
                    ELSE IF ~BranchErrorLaw(fr, errs, mn, r.root) THEN "branch-error"
                    ELSE IF ~AbandonedShown(fr, mn, r.root) THEN "abandoned"
                    ELSE ""
               ELSE IF ~RealFirst(r) THEN "real-first"
                    ELSE IF ~RealSpine(fr, r, org) THEN "real-spine"
                    ELSE IF ~RealTarget(fr, r, org) THEN "real-target"
                    ELSE IF ~RealBranch(fr, r, org, r.root) THEN "real-branch"
                    ELSE "drift"
Check ==
  IF i <= Len(Rows)
  THEN LET v == Verdict(Rows[i]) IN v = "" \/ PrintT(ToJson([reject |-> i, clause |-> v]))
  ELSE PrintT(ToJson([done |-> Len(Rows)]))
====================================================================================
