INIT Init
NEXT Next
INVARIANT LawRefGroupOutsideFindings
INVARIANT LawEvalsDisjoint
INVARIANT LawFreshAtNew
CHECK_DEADLOCK FALSE
