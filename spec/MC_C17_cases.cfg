INIT InitDef
NEXT NextDef
INVARIANT DefDemandOrdered
INVARIANT DefTerminals
CHECK_DEADLOCK FALSE
