INIT TInit
NEXT TNext
CONSTRAINT Check
CHECK_DEADLOCK FALSE
CONSTANTS
  Fixes = {}
  Mutant = "none"
