--------------------------------- MODULE GlomErrors ---------------------------------
(* C04  Exceptions keep their class; glom failures are GlomErrors; default is selective *)
(*                                                                                      *)
(* A *machine*: one exception is raised at the fault leaf of a spec tree (RaiseAt),     *)
(* travels up through the enclosing constructs -- one named action per construct that    *)
(* documents a catch (CatchCoalesce, CatchOr, CatchAnd, CatchNot, CatchMatchDefault,     *)
(* CatchSwitch, CatchCheck, CatchPathGet) or lets it pass (Pass, PassIter) -- and meets  *)
(* the except blocks of glom() (TopSkip / TopBase / TopDebug / TopCopy / TopWrap) under  *)
(* a combination of the keyword arguments default / skip_exc / glom_debug.               *)
(*                                                                                      *)
(* Layout:  1. data (class records, in-flight records, contexts)                         *)
(*          2. catch points: the documented behaviour of every construct (chain part)    *)
(*          3. MECHANISM of glom()'s except blocks, transcribed from glom/core.py         *)
(*          4. LAWS, written from the property statement and the documentation           *)
(*          5. the machine (variables, actions) and the laws as state / action predicates *)
(* Everything is JSON-native (records, sequences, strings, booleans) so the same          *)
(* operators judge TLC-enumerated behaviours (MC_C04) and recorded ones (Trace_C04).      *)
EXTENDS GlomData

CONSTANT Mutant      \* "none" or the name of a deliberately wrong mechanism variant

InSeq(e, sq) == \E j \in 1..Len(sq) : sq[j] = e
Meets(sa, sb) == \E j \in 1..Len(sa) : InSeq(sa[j], sb)

\* ======================================================================================
\* 1. data
\* ======================================================================================
\* An exception class, by the abstract attributes the property talks about:
\*   id    catalogue name (stands for the Python class itself in isinstance tests)
\*   anc   names of the classes it is an instance of (own id first), from the pool used by
\*         except clauses: Exception BaseException GlomError KeyError LookupError ValueError
\*         TypeError OSError MatchError PathAssignError ZeroDivisionError ImportError
\*   exc   subclass of Exception (FALSE: BaseException-only, KeyboardInterrupt-like)
\*   glom  subclass of GlomError
\*   rec   type(e)(*e.args):  "same" (equal args) | "rewrite" (succeeds, other args) | "fail"
\*   cp    copy.copy(e):      "ok" | "rewrite" | "fail"
\*   kind  "builtin" | "user" | "glomdoc" (a documented glom error type raised by glom itself)
Cls(id, more, exc, glom, rec, cp, kind) ==
  [id |-> id, anc |-> <<id>> \o more, exc |-> exc, glom |-> glom, rec |-> rec, cp |-> cp, kind |-> kind,
   truthy |-> TRUE, eq |-> "std"]
\*   truthy  bool(instance): FALSE for classes defining __len__ -> 0 or __bool__ -> False.  No law
\*           mentions it: the truth value of an exception object must not influence anything.
Falsy(c) == [c EXCEPT !.truthy = FALSE]
\*   eq      instance == <foreign object>: "std" (identity), "raises" (a naive value-based __eq__ that
\*           reads an attribute of the other operand), "always" (equal to everything).  No law
\*           mentions it either: glom must tell exception objects apart by identity.
WithEq(c, k) == [c EXCEPT !.eq = k]

BE == <<"BaseException">>
EX == <<"Exception", "BaseException">>
GE == <<"GlomError", "Exception", "BaseException">>

\* the documented glom error types (docs/api.rst, matching.rst, mutation.rst, grouping/reduction)
GlomDoc(id) ==
  CASE id = "PathAccessError"    -> Cls(id, <<"AttributeError", "KeyError", "IndexError", "LookupError">> \o GE, TRUE, TRUE, "same", "ok", "glomdoc")
    [] id = "BadSpec"            -> Cls(id, <<"TypeError">> \o GE, TRUE, TRUE, "same", "ok", "glomdoc")
    [] id = "TypeMatchError"     -> Cls(id, <<"MatchError", "TypeError">> \o GE, TRUE, TRUE, "same", "ok", "glomdoc")
    [] id = "PathDeleteError"    -> Cls(id, <<"PathAssignError">> \o GE, TRUE, TRUE, "same", "ok", "glomdoc")
    [] OTHER                     -> Cls(id, GE, TRUE, TRUE, "same", "ok", "glomdoc")
GlomDocIds == {"PathAccessError", "CoalesceError", "UnregisteredTarget", "BadSpec", "MatchError",
               "TypeMatchError", "CheckError", "FoldError", "PathAssignError", "PathDeleteError"}
TypeErrorCls == Cls("TypeError", EX, TRUE, FALSE, "same", "ok", "builtin")

\* in-flight records
Raised(c, ident) == [st |-> "raised", cls |-> c, id |-> ident, args |-> "same", w |-> FALSE]
Value(v, at)     == [st |-> "value", val |-> v, at |-> at]
IsRaised(x) == x.st = "raised"
IsGlomErr(x) == x.st = "raised" /\ x.cls.glom          \* isinstance(e, GlomError)
IsExc(x)     == x.st = "raised" /\ x.cls.exc           \* isinstance(e, Exception)

\* the wrapper class built by GlomError.wrap: type(name, (exc_type, GlomError), {})
WrapCls(c) == [c EXCEPT !.anc = c.anc \o (IF InSeq("GlomError", c.anc) THEN <<>> ELSE <<"GlomError">>),
                        !.glom = TRUE]

\* except <set of class names>
Matches(c, names) == Meets(c.anc, names)

\* the classes a skip_exc choice stands for; `leafid` = class of the injected exception
SkipSet(skip, leafid) ==
  CASE skip = "exact"     -> <<leafid>>
    [] skip = "other"     -> <<"ZeroDivisionError">>
    [] skip = "tuple"     -> <<"ZeroDivisionError", leafid>>
    [] skip = "tuple_non" -> <<"ZeroDivisionError", "ImportError">>
    [] skip = "glomerror" -> <<"GlomError">>
    [] skip = "exception" -> <<"Exception">>
    [] skip = "keyerror"  -> <<"KeyError">>
    [] skip = "base"      -> <<"BaseException">>
    [] skip = "empty"     -> <<>>                       \* skip_exc=(): given, and skips nothing
    [] OTHER              -> <<>>                       \* "absent"

\* A context = one enclosing construct on the way from the fault leaf to the root.
\*   k    kind; v variant; skip (Coalesce skip_exc choice); sib "none"|"ok" (a later
\*   alternative that succeeds); dflt "absent"|"obj" (the construct's own default)
Ctx(k, v, skip, sib, dflt) == [k |-> k, v |-> v, skip |-> skip, sib |-> sib, dflt |-> dflt]

\* ======================================================================================
\* 2. catch points (documented behaviour of each construct; l = level of the construct)
\* ======================================================================================
\* tuple / dict / list / Pipe / Spec / Auto / Fill / Invoke / Ref / Iter / And / Match
\* without default / last child of Or / Switch value spec: nothing is caught
\* Mutant "eq_compare": the bookkeeping of a chained step (later tuple / Pipe step, Switch value)
\* compares the recorded error with `==`: a naive __eq__ raises AttributeError there
AttrErrCls == Cls("AttributeError", EX, TRUE, FALSE, "same", "ok", "builtin")
UpPass(c, l, x) ==
  IF Mutant = "eq_compare" /\ c.v \in {"tuple2", "pipe", "swval"} /\ IsExc(x) /\ x.cls.eq = "raises"
  THEN Raised(AttrErrCls, "new") ELSE x

\* Coalesce(sub, [alt], skip_exc=.., default=..): "skip_exc: An exception or tuple of
\* exception types to catch and move on to the next subspec. Defaults to GlomError";
\* all subspecs skipped and no default -> CoalesceError
CoalSkipSet(c, leafid) == IF c.skip = "default" THEN <<"GlomError">> ELSE SkipSet(c.skip, leafid)
UpCoalesce(c, l, x, leafid) ==
  IF ~IsRaised(x) THEN x
  ELSE IF Matches(x.cls, CoalSkipSet(c, leafid))
       THEN IF c.sib = "ok" THEN Value("alt", l)
            ELSE IF c.dflt = "obj" THEN Value("dflt", l)
            ELSE Raised(GlomDoc("CoalesceError"), "new")
       ELSE x

\* Or(child, alt): "If GlomError is raised, try the next child"; v = "first": the fault is in
\* a non-last child followed by a passing one; v = "last": in the last child; default=
UpOr(c, l, x) ==
  IF ~IsRaised(x) THEN x
  ELSE IF (Mutant = "or_catches_all" /\ IsExc(x)) \/ IsGlomErr(x)
       THEN IF c.v = "first" THEN Value("alt", l)
            ELSE IF c.dflt = "obj" THEN Value("dflt", l) ELSE x
       ELSE x
\* And(child, default=d)
UpAnd(c, l, x) ==
  IF IsGlomErr(x) /\ c.dflt = "obj" THEN Value("dflt", l) ELSE x
\* Not(child): "Child spec will be expected to raise GlomError (or subtype), in which case
\* the target will be returned"   (a passing child is outside this universe, see MC_C04)
UpNot(c, l, x) == IF IsGlomErr(x) THEN Value("tgt", 0) ELSE x
\* Match(spec, default=d): "The default value to be returned if a match fails"
UpMatchDefault(c, l, x) ==
  IF IsGlomErr(x) /\ c.dflt = "obj" THEN Value("dflt", l) ELSE x
\* Switch(cases, default=d), fault in the key spec of the first case (v="key"); a key spec that
\* raises GlomError does not match; sib="ok": a later case matches; no match -> default or
\* MatchError.  A key spec that passes selects its value spec (Value alt).
UpSwitch(c, l, x) ==
  IF ~IsRaised(x) THEN Value("alt", l)
  ELSE IF IsGlomErr(x)
       THEN IF c.sib = "ok" THEN Value("alt", l)
            ELSE IF c.dflt = "obj" THEN Value("dflt", l)
            ELSE Raised(GlomDoc("MatchError"), "new")
       ELSE x
\* Check(spec): errors of the sub-spec propagate; a passing Check returns its target
UpCheckSpec(c, l, x) == IF IsRaised(x) THEN x ELSE Value("tgt", 0)
\* Check(validate=f): "If one or more return False or raise an exception, the Check will fail"
UpCheckVal(c, l, x) == IF IsExc(x) THEN Raised(GlomDoc("CheckError"), "new") ELSE x
\* 'a.b' path access through the registered get handler: any error of the access is reported
\* as PathAccessError (exc: "Typically ... KeyError, AttributeError, IndexError, or TypeError,
\* and sometimes others")
UpPathGet(c, l, x) == IF IsExc(x) THEN Raised(GlomDoc("PathAccessError"), "new") ELSE x

\* [subspec] over a target that is a one-shot iterator (generator, iterator object): an exception
\* raised by the target's own next() while the list spec walks it is the user's exception and
\* travels on unchanged (only a failing iter() is reported as "failed to iterate").
\* Mutant "iter_wraps": the walk is inside the guard and the error becomes a TypeError.
UpGenIter(c, l, x) ==
  IF Mutant = "iter_wraps" /\ IsExc(x) THEN Raised(TypeErrorCls, "new") ELSE x

\* T[<spec>] / T.method(<spec>): the fault is raised by user code while the index / argument
\* spec of a T operation is evaluated (T[Spec(f)], T[Invoke(f)], T.m(Spec(f))).  That is not an
\* access failure of the step: the access has not been attempted; the exception travels on.
\* Mutant "arg_in_guard": the evaluation sits inside the `[` step's
\* except (KeyError, IndexError, TypeError) and is relabelled PathAccessError.
UpTArg(c, l, x) ==
  IF Mutant = "arg_in_guard" /\ c.v # "call_spec" /\ IsExc(x)
     /\ Matches(x.cls, <<"KeyError", "IndexError", "TypeError">>)
  THEN Raised(GlomDoc("PathAccessError"), "new") ELSE x

\* First(key) / Iter().first(key): the key spec is evaluated on every item; First documents no
\* catch, an error of the key spec travels on as it is.
\* Mutant "firstkey_nested_top": the key runs through a nested top-level glom(), which wraps it.
UpFirstKey(c, l, x) ==
  IF Mutant = "firstkey_nested_top" /\ IsExc(x) /\ ~x.cls.glom /\ x.cls.rec = "same"
  THEN [x EXCEPT !.id = "wrap", !.w = TRUE, !.cls = WrapCls(x.cls)] ELSE x
\* T.__star__().m() / T.__star__()[<spec>] / T.__starstar__().m(): after a wildcard the rest of the
\* path is followed on every child and children where it cannot be *accessed* (PathAccessError) are
\* left out; any other error -- raised by the method called or by the index spec -- travels on.
\* (A fault that is itself a PathAccessError is outside the universe, see MC_C04.)
\* Mutant "star_drops_glomerror": every GlomError is treated as a miss.
UpAfterStar(c, l, x) ==
  IF Mutant = "star_drops_glomerror" /\ IsGlomErr(x) THEN Value("tgt", 0) ELSE x

GlomOnlyCatchers == {"or", "and", "not", "matchdef", "switch"}   \* documented to catch GlomError only

Up(c, l, x, leafid) ==
  CASE c.k = "pass"      -> UpPass(c, l, x)
    [] c.k = "coal"      -> UpCoalesce(c, l, x, leafid)
    [] c.k = "or"        -> UpOr(c, l, x)
    [] c.k = "and"       -> UpAnd(c, l, x)
    [] c.k = "not"       -> UpNot(c, l, x)
    [] c.k = "matchdef"  -> UpMatchDefault(c, l, x)
    [] c.k = "switch"    -> UpSwitch(c, l, x)
    [] c.k = "checkspec" -> UpCheckSpec(c, l, x)
    [] c.k = "checkval"  -> UpCheckVal(c, l, x)
    [] c.k = "pathget"   -> UpPathGet(c, l, x)
    [] c.k = "geniter"   -> UpGenIter(c, l, x)
    [] c.k = "targ"      -> UpTArg(c, l, x)
    [] c.k = "firstkey"  -> UpFirstKey(c, l, x)
    [] c.k = "afterstar" -> UpAfterStar(c, l, x)

\* ======================================================================================
\* 3. MECHANISM: the except blocks of glom()   (glom/core.py, glom() and GlomError.wrap)
\* ======================================================================================
\*   default  = kwargs.pop('default', None if 'skip_exc' in kwargs else _MISSING)
\*   skip_exc = kwargs.pop('skip_exc', () if default is _MISSING else GlomError)
MechDefault(kw) == IF kw.default # "absent" THEN kw.default
                   ELSE IF kw.skip # "absent" THEN "none" ELSE "missing"
\* Mutant "falsy_skip_omitted": `kwargs.pop('skip_exc', None) or <default>` treats () as omitted
MechSkipSet(kw, leafid) == IF kw.skip # "absent" /\ ~(Mutant = "falsy_skip_omitted" /\ kw.skip = "empty")
                           THEN SkipSet(kw.skip, leafid)
                           ELSE IF MechDefault(kw) = "missing" THEN <<>> ELSE <<"GlomError">>
\* ret = default        (the object itself; kw.default names which kind of object the caller
\* passed: "obj" an opaque object, "list" a list, "dictT" a dict holding a T expression that
\* would fail if evaluated, "t" T itself, "ntup" a namedtuple holding a T expression, the falsy
\* ones "zero" 0, "elist" [], "fobj" an object with data whose __bool__ is False; "none" None)
\* Mutant "falsy_default_dropped": `default or None`-style handling of the default
\* Mutant "default_arg_val": ret = arg_val(target, default, scope) -- containers are rebuilt,
\* T-like content is evaluated against the target
TopValue(d) ==
  IF d = "none" THEN Value("none", 0)
  ELSE IF Mutant = "falsy_default_dropped" /\ d \in {"zero", "elist", "fobj"} THEN Value("none", 0)
  ELSE IF Mutant = "default_arg_val" /\ d = "elist" THEN Value("copy", 0)
  ELSE IF Mutant = "default_arg_val" /\ d = "list" THEN Value("copy", 0)
  ELSE IF Mutant = "default_arg_val" /\ d = "t" THEN Value("tgt", 0)
  ELSE IF Mutant = "default_arg_val" /\ d = "dictT" THEN Raised(GlomDoc("PathAccessError"), "new")
  ELSE Value("topdflt", 0)

WrapWouldSucceed(a) == IsExc(a) /\ ~a.cls.glom /\ a.cls.rec # "fail"

\* which except branch handles the arriving record `a`
TopBranch(kw, a, leafid) ==
  IF ~IsRaised(a) THEN "return"
  ELSE LET seen == IF Mutant = "skip_after_wrap" /\ WrapWouldSucceed(a) THEN WrapCls(a.cls) ELSE a.cls
           dflt == IF Mutant = "default_none_absent" /\ MechDefault(kw) = "none" THEN "missing"
                   ELSE MechDefault(kw)
       IN IF Matches(seen, MechSkipSet(kw, leafid)) /\ dflt # "missing" THEN "skip"   \* except skip_exc: ret = default
          ELSE IF ~a.cls.exc THEN "base"                        \* not caught by `except Exception`
          ELSE IF kw.debug /\ Mutant # "debug_copies" THEN "debug"  \* if glom_debug: raise
          ELSE IF a.cls.glom THEN "copy"                        \* err = copy.copy(e)
          ELSE "wrap"                                           \* err = GlomError.wrap(e)

DoSkip(kw, a)  == TopValue(MechDefault(kw))
DoBase(a)      == a
DoDebug(a)     == a
\* try: err = copy.copy(e)          (re-creates the object through cls(*args) unless __copy__)
\*      if err.args != e.args: err = e
\* except Exception: err = e
\* Mutants "copy_unguarded" / "ctor_rerun" are the mechanism before commits 113d6db / 5d8773a.
\* Mutant "copy_hardcodes_base": TypeMatchError.__copy__ built a plain TypeMatchError (pre-875fb2e)
DoCopy(a) ==
  CASE a.cls.cp = "ok"      -> IF Mutant = "copy_hardcodes_base" /\ a.cls.id = "SubTypeMatch"
                               THEN Raised(GlomDoc("TypeMatchError"), "copy") ELSE [a EXCEPT !.id = "copy"]
    [] a.cls.cp = "rewrite" -> IF Mutant = "ctor_rerun" THEN [a EXCEPT !.id = "copy", !.args = "diff"] ELSE a
    [] a.cls.cp = "fail"    -> IF Mutant = "copy_unguarded"
                               THEN [Raised(TypeErrorCls, "new") EXCEPT !.args = "diff"] ELSE a
\* GlomError.wrap: wrapper = type(.., (exc_type, GlomError), {})(*exc.args);
\*                 if wrapper.args != exc.args: return exc
\*                 except Exception: return exc      -> `raise` re-raises the original
DoWrap(a) ==
  LET wc == IF Mutant = "wrap_glom_only"
            THEN [a.cls EXCEPT !.anc = <<"GlomError.wrap">> \o GE, !.glom = TRUE] ELSE WrapCls(a.cls) IN
  CASE a.cls.rec = "same"    -> [a EXCEPT !.id = "wrap", !.w = TRUE, !.cls = wc]
    [] a.cls.rec = "rewrite" -> IF Mutant = "ctor_rerun"
                                THEN [a EXCEPT !.id = "wrap", !.w = TRUE, !.cls = wc, !.args = "diff"] ELSE a
    [] a.cls.rec = "fail"    -> IF Mutant = "wrap_no_fallback"
                                THEN [Raised(TypeErrorCls, "new") EXCEPT !.args = "diff"] ELSE a

\* if err is not None: raise err
\* Mutant "falsy_swallowed": `if err: raise err` -- a falsy error object is not raised and
\* `return ret` fails with UnboundLocalError
UnboundCls == Cls("UnboundLocalError", EX, TRUE, FALSE, "same", "ok", "builtin")
RaiseErr(r) ==
  IF Mutant = "falsy_swallowed" /\ IsRaised(r) /\ r.cls.glom /\ ~r.cls.truthy
  THEN [Raised(UnboundCls, "new") EXCEPT !.args = "diff"] ELSE r

TopOutcome(kw, a, leafid) ==
  LET b == TopBranch(kw, a, leafid) IN
  CASE b = "return" -> a
    [] b = "skip"   -> DoSkip(kw, a)
    [] b = "base"   -> DoBase(a)
    [] b = "debug"  -> DoDebug(a)
    [] b = "copy"   -> RaiseErr(DoCopy(a))
    [] b = "wrap"   -> RaiseErr(DoWrap(a))

\* ======================================================================================
\* 4. LAWS  (from the property statement and glom()'s documentation; a = what reached the
\*    top level, o = what left glom(); they never mention copy / wrap / branches)
\* ======================================================================================
\* "Any exception that leaves glom() is an instance of the class of the exception originally
\*  raised, with the same args"
LawClassKept(kw, a, o) ==
  (IsRaised(a) /\ IsRaised(o)) => (InSeq(a.cls.id, o.cls.anc) /\ o.args = "same")
\* "whenever that class can be rebuilt from its args the raised object is also a GlomError"
\* (errors, i.e. Exception subclasses; glom_debug asks for the original object instead)
Rebuildable(c) == c.rec = "same"
LawGlomIfRebuildable(kw, a, o) ==
  (IsRaised(a) /\ IsRaised(o) /\ ~kw.debug /\ a.cls.exc /\ Rebuildable(a.cls)) => o.cls.glom
\* "failures detected by glom itself are always the documented GlomError subtype"
LawSubtype(kw, a, o) ==
  (IsRaised(a) /\ IsRaised(o) /\ a.cls.kind = "glomdoc") =>
      (o.cls.id = a.cls.id /\ o.cls.glom /\ ~o.w /\ o.cls.id \in GlomDocIds)
\* "default: An optional default to return in the case an exception, specified by skip_exc,
\*  is raised.  skip_exc: An optional exception or tuple of exceptions to ignore and return
\*  default (None if omitted).  If skip_exc and default are both not set, glom raises errors
\*  through."  "When set, if a glom operation fails with a GlomError, the default will be
\*  returned."   -- matching is decided on the error as raised (a), never on a wrapper
LawSkipSet(kw, leafid) == IF kw.skip # "absent" THEN SkipSet(kw.skip, leafid)
                          ELSE IF kw.default # "absent" THEN <<"GlomError">> ELSE <<>>
LawDefaultSelective(kw, a, o, leafid) ==
  IF ~IsRaised(a) THEN o = a                                   \* a result is never replaced
  ELSE IF Matches(a.cls, LawSkipSet(kw, leafid))
       THEN o = (IF kw.default \in {"absent", "none"} THEN Value("none", 0) ELSE Value("topdflt", 0))
       ELSE IsRaised(o)
\* "glom_debug=True propagates the original exception object"
LawDebug(kw, a, o) == (kw.debug /\ IsRaised(a) /\ IsRaised(o)) => o.id = a.id
\* BaseException-only exceptions (KeyboardInterrupt, SystemExit) are not errors to report:
\* the object itself propagates
LawBase(kw, a, o) == (IsRaised(a) /\ IsRaised(o) /\ ~a.cls.exc) => o.id = a.id

LawVerdict(kw, a, o, leafid) ==
  IF ~LawDefaultSelective(kw, a, o, leafid) THEN "DefaultSelective"
  ELSE IF ~LawClassKept(kw, a, o) THEN "ClassKept"
  ELSE IF ~LawSubtype(kw, a, o) THEN "Subtype"
  ELSE IF ~LawGlomIfRebuildable(kw, a, o) THEN "GlomIfRebuildable"
  ELSE IF ~LawDebug(kw, a, o) THEN "Debug"
  ELSE IF ~LawBase(kw, a, o) THEN "Base"
  ELSE ""

\* ======================================================================================
\* 5. the machine
\* ======================================================================================
VARIABLES ctxs,   \* sequence of contexts, root first; the fault leaf is below ctxs[Len(ctxs)]
          leaf,   \* class record of the exception raised at the leaf
          kw,     \* [default, skip, debug], chosen when the top level is reached
          x,      \* the in-flight record
          arr,    \* what reached the top level (x at lvl = 0)
          lvl,    \* next context to be traversed (0 = top level of glom())
          ph,     \* "init" | "up" | "done" | "excluded"
          hist    \* the actions taken, with the projected record after each
vars == <<ctxs, leaf, kw, x, arr, lvl, ph, hist>>

NoKw == [default |-> "absent", skip |-> "absent", debug |-> FALSE]
NoRec == Value("unset", 0)
Ev(a, l, r) == [a |-> a, lvl |-> l, r |-> r]

RaiseAt(n) ==
  /\ ph = "init" /\ n = Len(ctxs)
  /\ x' = Raised(leaf, "inj") /\ lvl' = n /\ ph' = "up"
  /\ hist' = Append(hist, Ev("RaiseAt", n, x'))
  /\ UNCHANGED <<ctxs, leaf, kw, arr>>

Step(kind, name) ==
  /\ ph = "up" /\ lvl > 0 /\ ctxs[lvl].k = kind
  /\ ~(kind = "not" /\ ~IsRaised(x))
  /\ x' = Up(ctxs[lvl], lvl, x, leaf.id)
  /\ lvl' = lvl - 1
  /\ hist' = Append(hist, Ev(name, lvl, x'))
  /\ UNCHANGED <<ctxs, leaf, kw, arr, ph>>
Pass              == Step("pass", "Pass")
CatchCoalesce     == Step("coal", "CatchCoalesce")
CatchOr           == Step("or", "CatchOr")
CatchAnd          == Step("and", "CatchAnd")
CatchNot          == Step("not", "CatchNot")
CatchMatchDefault == Step("matchdef", "CatchMatchDefault")
CatchSwitch       == Step("switch", "CatchSwitch")
CatchCheckSpec    == Step("checkspec", "CatchCheckSpec")
CatchCheckVal     == Step("checkval", "CatchCheckVal")
CatchPathGet      == Step("pathget", "CatchPathGet")
PassIter          == Step("geniter", "PassIter")
PassArg           == Step("targ", "PassArg")
PassFirstKey      == Step("firstkey", "PassFirstKey")
PassAfterStar     == Step("afterstar", "PassAfterStar")
\* Not(child) with a passing child is C10's business (pre-seen defect there): left out
Exclude ==
  /\ ph = "up" /\ lvl > 0 /\ ctxs[lvl].k = "not" /\ ~IsRaised(x)
  /\ ph' = "excluded" /\ UNCHANGED <<ctxs, leaf, kw, x, arr, lvl, hist>>

Top(k, branch, name, out) ==
  /\ ph = "up" /\ lvl = 0
  /\ TopBranch(k, x, leaf.id) = branch
  /\ kw' = k /\ arr' = x /\ x' = out /\ ph' = "done"
  /\ hist' = Append(hist, Ev(name, 0, x'))
  /\ UNCHANGED <<ctxs, leaf, lvl>>
TopReturn(k) == Top(k, "return", "TopReturn", x)
TopSkip(k)   == Top(k, "skip", "TopSkip", DoSkip(k, x))
TopBase(k)   == Top(k, "base", "TopBase", DoBase(x))
TopDebug(k)  == Top(k, "debug", "TopDebug", DoDebug(x))
TopCopy(k)   == Top(k, "copy", "TopCopy", RaiseErr(DoCopy(x)))
TopWrap(k)   == Top(k, "wrap", "TopWrap", RaiseErr(DoWrap(x)))
TopLevel(k)  == TopReturn(k) \/ TopSkip(k) \/ TopBase(k) \/ TopDebug(k) \/ TopCopy(k) \/ TopWrap(k)

Travel == Pass \/ CatchCoalesce \/ CatchOr \/ CatchAnd \/ CatchNot \/ CatchMatchDefault
          \/ CatchSwitch \/ CatchCheckSpec \/ CatchCheckVal \/ CatchPathGet \/ PassIter \/ PassArg \/ PassFirstKey \/ PassAfterStar \/ Exclude

\* ---- the laws as predicates over the machine -------------------------------------------
Done == ph = "done"
InvClassKept         == Done => LawClassKept(kw, arr, x)
InvGlomIfRebuildable == Done => LawGlomIfRebuildable(kw, arr, x)
InvSubtype           == Done => LawSubtype(kw, arr, x)
InvDefaultSelective  == Done => LawDefaultSelective(kw, arr, x, leaf.id)
InvDebug             == Done => LawDebug(kw, arr, x)
InvBase              == Done => LawBase(kw, arr, x)
\* an error that is not a GlomError is never touched by a construct documented to catch
\* GlomError only: the very same object continues upwards
PassThroughLaw ==
  [][(ph = "up" /\ ph' = "up" /\ lvl > 0 /\ IsRaised(x) /\ ~x.cls.glom
      /\ ctxs[lvl].k \in GlomOnlyCatchers) => x' = x]_vars
\* constructs that document no catch at all (plain containers and wrappers, a list spec walking
\* an iterator, the argument specs of a T operation, the key of First, the path after a wildcard) hand on exactly what they received
TransparentLaw ==
  [][(ph = "up" /\ ph' = "up" /\ lvl > 0 /\ ctxs[lvl].k \in {"pass", "geniter", "targ", "firstkey", "afterstar"}) => x' = x]_vars
\* an exception created on the way (not the injected object) is a documented glom type
CreatedAreDocumented ==
  (ph = "up" /\ IsRaised(x) /\ x.id = "new") => x.cls.kind = "glomdoc"
=====================================================================================
