--------------------------------- MODULE Trace_C02 ---------------------------------
(* code -> spec for C02 (and C14): rows {heap, root, ops, obs} recorded from the real    *)
(* library; GlomT!Outcome is re-evaluated on the recorded input and compared field by   *)
(* field with what the library did.                                                     *)
EXTENDS GlomT, Json, IOUtils

Rows == ndJsonDeserialize(IOEnv.TRACE_FILE)
VARIABLE i
Init == i = 1
Next == i <= Len(Rows) /\ i' = i + 1

Verdict(r) ==
  LET p == Outcome(r.heap, r.root, r.ops) o == r.obs IN
  IF p.err = "OUT_OF_MODEL" THEN "skip"
  ELSE IF p.ok # o.ok THEN "outcome"
  ELSE IF p.ok THEN (IF p.v # o.v THEN "value" ELSE "")
  ELSE IF p.err # o.err THEN "errclass"
  ELSE IF p.idx # o.idx THEN "part_idx"
  ELSE IF p.exc # o.exc THEN "exc"
  ELSE ""

Check ==
  IF i <= Len(Rows)
  THEN LET v == Verdict(Rows[i]) IN
       \/ v = ""
       \/ v = "skip" /\ PrintT(ToJson([skip |-> i]))
       \/ v \notin {"", "skip"} /\ PrintT(ToJson([reject |-> i, clause |-> v, pred |-> Outcome(Rows[i].heap, Rows[i].root, Rows[i].ops)]))
  ELSE PrintT(ToJson([done |-> Len(Rows)]))
====================================================================================
