INIT Init
NEXT Next
INVARIANT ModeLaw
INVARIANT ProbeLaw
INVARIANT FrameModes
INVARIANT ArgModeRestored
CHECK_DEADLOCK FALSE
CONSTANTS Mutant = "none"
