--------------------------------- MODULE Trace_C09 ---------------------------------
(* code -> spec for C09: every row of the ndjson file is one execution recorded from the  *)
(* real library on an input TLC did not choose (seeded random patterns deeper than the     *)
(* exhaustive bound, a target derived to conform, one-edit mutations of it, unrelated       *)
(* targets):  {heap, root, pattern, obs}.  GlomMatch!Ev is re-evaluated on the recorded     *)
(* input and every observable C09 names is compared with what the library did.             *)
(* Rejected rows are printed with the failing clause; the run ends with {"done": n}.        *)
EXTENDS GlomMatch, Json, IOUtils

Rows == ndJsonDeserialize(IOEnv.TRACE_FILE)
VARIABLE i
Init == i = 1
Next == i <= Len(Rows) /\ i' = i + 1

DefaultValue == VC("list", <<VInt(77), VTarg(<<>>)>>)          \* Match(p, default=[77, T])

Skipped(r) == Ev("auto", TreeOf(r.heap, r.root), PMatch(r.pattern, FALSE, VNone)).amb \/
              Ev("auto", TreeOf(r.heap, r.root), PMatch(r.pattern, TRUE, DefaultValue)).amb

\* one observed call against one predicted outcome
Judge(o, ob) ==
  IF o.ok # ob.ok THEN "outcome"
  ELSE IF o.ok THEN (IF PyEq(o.v, ob.v) /\ PyEq(ob.v, o.v) THEN "" ELSE "result")
  ELSE IF ob.cls \notin o.errs THEN "errclass" ELSE ""

Verdict(r) ==
  LET t == TreeOf(r.heap, r.root)
      p == r.pattern
      o == Ev("auto", t, PMatch(p, FALSE, VNone))
      od == Ev("auto", t, PMatch(p, TRUE, DefaultValue))
      ob == r.obs
  IN IF ~InFragment("match", p) \/ ~StrsOK(t) THEN "fragment"
     ELSE IF ~ob.unchanged THEN "target-modified"
     ELSE IF o.amb \/ od.amb THEN ""                      \* order-dependent: not compared
     ELSE IF Judge(o, ob.glom) # "" THEN Judge(o, ob.glom)
     ELSE IF Judge(o, ob.verify) # "" THEN "verify-" \o Judge(o, ob.verify)
     ELSE IF ob.matches_raised \/ ob.matches # o.ok THEN "matches"
     ELSE IF Judge(od, ob.default) # "" THEN "default-" \o Judge(od, ob.default)
     \* the same Match object again, after the caller mutated the first result
     ELSE IF ob.has_again /\ Judge(EvAgain("auto", t, t, PMatch(p, FALSE, VNone)), ob.again) # "" THEN "again"
     \* the laws, on the observation itself
     ELSE IF Clean(o) /\ (ob.glom.ok # Holds("match", t, p)) THEN "law-conforms"
     ELSE IF ob.glom.ok /\ ~HasNodeDefault(p) /\ ~Extends(ob.glom.v, t) THEN "law-unchanged"
     ELSE IF ob.glom.ok /\ ~HasNodeDefault(p) /\ ~HasOptDefault(p) /\ ~PyEq(ob.glom.v, t) THEN "law-unchanged"
     ELSE IF ~ob.glom.ok /\ ob.glom.cls = "TypeMatchError" /\ ~(ob.typeerror /\ ob.matcherror) THEN "law-typematcherror"
     ELSE IF ~ob.glom.ok /\ Clean(o) /\ ~ob.matcherror THEN "law-matcherror"
     ELSE ""

Check ==
  IF i <= Len(Rows)
  THEN LET v == Verdict(Rows[i]) IN v = "" \/ PrintT(ToJson([reject |-> i, clause |-> v]))
  ELSE PrintT(ToJson([done |-> Len(Rows),      \* skipped: rows whose outcome depends on an order the documentation leaves open
                      skipped |-> Cardinality({j \in 1..Len(Rows) : Skipped(Rows[j])})]))
====================================================================================
