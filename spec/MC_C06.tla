---------------------------------- MODULE MC_C06 ----------------------------------
(* C06, sequential configuration of GlomCalls: one process makes a history of calls     *)
(* drawn from a pool, interleaved with PATH_STAR toggles and registrations.  Gates = {}  *)
(* makes one TLC step of a whole call, so a state is a history (recorded in hist with    *)
(* the predicted outcome and cache contents after every call) and the dump of all states *)
(* is the set of all histories up to MaxHist actions, replayed by harness/c06.py.         *)
EXTENDS GlomCalls, Json

CONSTANTS PoolSize, PoolFrom, MaxHist

T1  == VDict(<< <<VStr("a"), VDict(<< <<VStr("b"), VInt(1)>>, <<VStr("*"), VInt(2)>> >>)>>, <<VStr("*"), VInt(3)>> >>)
OA  == VObj("A", << <<VStr("a"), VInt(1)>>, <<VStr("b"), VInt(2)>> >>)
L12 == VList(<<VInt(1), VInt(2)>>)
L5  == VList(<<VInt(5)>>)
TFALSY == VDict(<< <<VStr("a"), VInt(0)>>, <<VStr("b"), VStr("")>>, <<VStr("c"), VBool(FALSE)>>, <<VStr("d"), VTup(<<>>)>> >>)
P(text, segs) == SPath(text, segs)

TOPT == VDict(<< <<VStr("opts"), VDict(<< <<VStr("a"), VInt(1)>> >>)>>, <<VStr("n"), VInt(2)>> >>)
\* one spec OBJECT (sid 7) holding a list argument with sub-specs, called on two targets
ArgSpec == SCoal(<<P("x", <<"x">>)>>, DefaultArgs(<<SProbe("id"), SRead("k")>>))

FullPool == <<
  Call(OA, <<>>, 2, P("a", <<"a">>)),                                      \* registry-sensitive (get)
  Call(T1, << <<"k", VInt(7)>> >>, 3,                                      \* dict + Coalesce default container + caller scope
       SDict(<< <<"p", P("a.b", <<"a", "b">>)>>,
                <<"q", SCoal(<<P("x", <<"x">>)>>, Default(VList(<<>>)))>>,
                <<"r", SRead("k")>> >>)),
  Call(L12, <<>>, 4, SAcc("group", "inc")),                                \* Group accumulators
  Call(OA, <<>>, 6, SEach("iter", SProbe("id"))),                          \* registry-sensitive (iterate), Iter
  Call(T1, << <<"k", VInt(7)>> >>, 7, ArgSpec),                            \* list argument with sub-specs (arg_val) ...
  Call(L5, << <<"k", VInt(8)>> >>, 7, ArgSpec),                            \* ... the same object on another target / scope
  Call(TOPT, <<>>, 9, SInvoke(P("opts", <<"opts">>), "k", VInt(9))),       \* Invoke: star-kwargs from the target, then constants
  Call(OA, <<>>, 15, P("*", <<"*">>)),                                     \* wildcard over a registrable class (keys / get handlers)
  Call(L12, <<>>, 16, SLast(0)),                                           \* a Vars object bound, assigned into and read ...
  Call(VList(<<>>), <<>>, 16, SLast(0)),                                   \* ... the same spec object on an empty target
  Call(L12, <<>>, 17, STPlus(VList(<<VInt(9)>>))),                         \* T + [9]: a list operand owned by the target
  Call(T1, <<>>, 18, SDict(<< <<"p", SRefDef("n", P("a.b", <<"a", "b">>))>> >>)),   \* a spec that defines the Ref name n ...
  Call(T1, <<>>, 19, SRefUse("n")),                                        \* ... and one that uses n without defining it
  Call(VList(<<VInt(1), VInt(2), VInt(1)>>), <<>>, 20, SEach("uniq", SProbe("id"))),   \* Iter().unique(): a seen-set per evaluation
  Call(OA, <<>>, 21, SAcc("fold", "inc")),                                 \* a Fold on a non-iterable target (FoldError) ...
  Call(OA, <<>>, 22, SEach("list", SProbe("id"))),                         \* ... and plain iteration of the same type (UnregisteredTarget)
  Call(L5, <<>>, 23, SProbe("boomA")),                                     \* two callables raising DISTINCT exception classes
  Call(L5, <<>>, 24, SProbe("boomB")),                                     \* that have the same __name__
  Call(VInt(3), <<>>, 25, SScopeLit),                                      \* an empty literal as scope value, written through the scope ...
  Call(VInt(2), <<>>, 25, SScopeLit),                                      \* ... the same spec object on another target
  \* falsy-but-meaningful intermediate values: each is the value of its path, never replaced by a default
  Call(TFALSY, <<>>, 26, SDict(<< <<"p", SCoal(<<P("a", <<"a">>)>>, Default(VInt(9)))>>, <<"q", SCoal(<<P("b", <<"b">>)>>, Default(VInt(9)))>>,
                               <<"r", SCoal(<<P("c", <<"c">>)>>, Default(VInt(9)))>>, <<"s", SEach("list", SProbe("inc"))>> >>)),
  Call(VGen(<<VInt(1), VInt(0), VBool(TRUE)>>), <<>>, 27, SEach("uniq", SProbe("id"))),     \* a one-shot iterator; 1 == True
  Call(VGen(<<VInt(2), VInt(0)>>), <<>>, 28, SAcc("group", "inc")),                         \* ... consumed by a Group
  Call(VList(<<VHostile(1), VHostile(2), VInt(0)>>), <<>>, 29, SEach("list", SProbe("id"))), \* objects with a hostile __eq__ flow through by identity
  Call(L12, <<>>, 30, SDict(<< <<"last", SCoal(<<P("-1", <<"-1">>)>>, NoDefault)>>, <<"len", SCoal(<<P("2", <<"2">>)>>, Default(VNone))>>,
                            <<"first", P("0", <<"0">>)>> >>)),                              \* index boundaries: -1, exactly the length, 0
  Call(VList(<<>>), <<>>, 31, SAcc("group", "inc")),                       \* a Group that aggregates nothing: a new empty result each time
  Call(T1, <<>>, 1, P("*", <<"*">>)),                                      \* star-sensitive
  Call(L5, <<>>, 4, SAcc("group", "inc")),                                 \* the same spec object on another target
  Call(T1, <<>>, 10, P("a.*", <<"a", "*">>)),                              \* star-sensitive, 2 segments
  Call(L12, <<>>, 11, SAcc("fold", "inc")),                                \* Fold accumulator
  Call(T1, <<>>, 12, STuple(<<P("a", <<"a">>), SBind("x", P("b", <<"b">>)),
                             SEach("list", SProbe("id")),
                             SFill(STuple(<<SProbe("id"), P("x", <<"x">>), SRead("x")>>))>>)),
  Call(T1, <<>>, 13, SCoal(<<SNest(Call(T1, <<>>, 14, P("a.x", <<"a", "x">>))), P("a.b", <<"a", "b">>)>>, NoDefault))
>>
C06Pool == SubSeq(FullPool, PoolFrom, PoolFrom + PoolSize - 1)

NActs == procs[1].nc + ntog + Len(regs)
Bound == NActs <= MaxHist
\* fine-grained configuration (MC_C06_fine.cfg, Gates = all): complete histories are printed so that
\* the harness can count which steps and branches of the mechanism were taken (vacuity check)
PrintHistory == (Quiescent /\ NActs = MaxHist) => PrintT(ToJson([hist |-> hist]))
\* the harness reads the pool from TLC's output (printed once at start-up)
ASSUME PrintT(ToJson([pool |-> C06Pool]))
====================================================================================
