\* faithful transcription of glom()'s except blocks (Fix = FALSE is set by the harness);
\* the laws listed here hold on it; ClassKept / GlomIfRebuildable are checked in MC_C04_laws.cfg
INIT Init
NEXT Next
INVARIANT CatalogueOK
INVARIANT VerdictConsistent
INVARIANT InvSubtype
INVARIANT InvDefaultSelective
INVARIANT InvDebug
INVARIANT InvBase
INVARIANT CreatedAreDocumented
PROPERTY PassThroughLaw
CHECK_DEADLOCK FALSE
