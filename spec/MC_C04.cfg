\* the transcription of glom()'s except blocks (Mutant = "none", set by the harness together with the
\* bounds) against every law of C04; the same run is dumped for the replay into the real library
INIT Init
NEXT Next
INVARIANT CatalogueOK
INVARIANT VerdictConsistent
INVARIANT InvClassKept
INVARIANT InvGlomIfRebuildable
INVARIANT InvSubtype
INVARIANT InvDefaultSelective
INVARIANT InvDebug
INVARIANT InvBase
INVARIANT CreatedAreDocumented
PROPERTY PassThroughLaw
PROPERTY TransparentLaw
CHECK_DEADLOCK FALSE
