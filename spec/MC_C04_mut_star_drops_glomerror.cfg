\* spec mutant: the mechanism variant "star_drops_glomerror" (see GlomErrors.tla) must violate a law
CONSTANTS
  Mutant = "star_drops_glomerror"
  MinDepth = 0
  MaxDepth = 1
  Rich = TRUE
  KwMode = "full"
INIT Init
NEXT Next
INVARIANT CatalogueOK
INVARIANT VerdictConsistent
INVARIANT InvClassKept
INVARIANT InvGlomIfRebuildable
INVARIANT InvSubtype
INVARIANT InvDefaultSelective
INVARIANT InvDebug
INVARIANT InvBase
INVARIANT CreatedAreDocumented
PROPERTY PassThroughLaw
PROPERTY TransparentLaw
CHECK_DEADLOCK FALSE
