---------------------------------- MODULE MC_C10 ----------------------------------
(* Bounded universe for C10: combinator trees (And / Or / Not / Switch, constructor and   *)
(* operator forms, with and without defaults) of depth <= Depth over atoms                 *)
(*   M op c, M, M(T[..]) op c, T[..] (succeeding / failing), named predicates (returning   *)
(*   True / False, raising), Check, and -- under Match(..) -- types and literals,           *)
(* x targets realising every truth assignment of the atoms; and Check over all keyword      *)
(* subsets.  phase 0 -> 1 chooses (mode, tree), phase 1 -> 2 the target; `pred` holds the     *)
(* outcome GlomMatch!Ev predicts (result, permitted error classes, call log).               *)
EXTENDS GlomMatch

CONSTANTS Depth,     \* 1 | 2 | 3
          Wide       \* TRUE: more targets, ternary And / Or at depth 1

Targets ==
  {VInt(0), VInt(1), VBool(TRUE), VStr("a"), VNone,
   VC("dict", << Entry(VStr("a"), VInt(1)) >>), VC("dict", << Entry(VStr("a"), VInt(0)) >>), VC("list", <<>>)} \cup
  (IF Wide THEN {VInt(2), VStr(""), VC("dict", <<>>), VC("list", <<VInt(1)>>),
                 VC("dict", << Entry(VStr("a"), VStr("a")) >>)} ELSE {})

NoDef == VNone
A == VStr("a")
Yes == PPred("yes", 0)
No == PPred("no", 0)
Boom == PPred("boom", 0)
Truthy == PPred("truthy", 0)
CheckInt == PCheck(<<>>, <<"int">>, <<>>, FALSE, <<>>, FALSE, NoDef)

\* Check(T['a'], ..): the conditions apply to the sub-target, the target is passed through
CheckSubInt == PCheckS(<<A>>, "list", <<"int">>, <<>>, <<>>, FALSE, <<>>, FALSE, NoDef)
CheckSubEqD == PCheckS(<<A>>, "list", <<>>, <<>>, <<VInt(1)>>, FALSE, <<>>, TRUE, VInt(9))
\* atoms with a meaning in both modes
AtomsAny == {PM(">", VInt(0)), PM("==", VInt(1)), PMTruthy, PM("<=", VInt(1)),
             PMR("<", VInt(0)),                                   \* 0 < M
             PMSub(<<A>>, "==", VInt(1)), PMSubT(<<A>>), PTGet(<<A>>), PTGet(<<VStr("bb")>>),
             PMSub(<<VSlice(1)>>, "==", VStr("")),               \* M(T[1:]) == ''  (the documented idiom)
             Yes, No, Boom, CheckInt, CheckSubInt, CheckSubEqD}
\* in Auto mode a nested Match switches its sub-spec to match mode (with / without a default)
AtomsAutoOnly == {PMatch(PType("int"), FALSE, NoDef), PMatch(PType("str"), TRUE, VInt(9))}
\* under Match(..) also types, literals (and predicates decide by truthiness)
AtomsMatchOnly == {PType("int"), PType("str"), PLit(VInt(1)), PLit(A), Truthy, PPred("recip", 0)}
Atoms(mode) == IF mode = "match" THEN AtomsAny \cup AtomsMatchOnly ELSE AtomsAny \cup AtomsAutoOnly
\* the small alphabets used below depth 1: passing / failing / failing with a non-Match
\* GlomError / logging / raising a foreign error
Small(mode) == {PM(">", VInt(0)), PTGet(<<VStr("bb")>>), Yes} \cup
               (IF Wide THEN {PMSub(<<A>>, "==", VInt(1))} ELSE {}) \cup
               (IF mode = "match" THEN {PType("int")} ELSE {Boom})
Tiny(mode) == {PM(">", VInt(0)), IF mode = "match" THEN No ELSE PTGet(<<VStr("bb")>>), Yes}

\* value specs of Switch cases: a constant, the target, a logging callable, a failing access
Vals == {PVal(VInt(7)), PTGet(<<>>), Yes, PTGet(<<VStr("bb")>>)}

\* which operands let Python's & | ~ build the combinator (the left operand must be M, an
\* M expression or a combinator)
OpLeft(p) == p.op \in {"m", "mtruthy", "msub", "and", "or", "not"}
D == VInt(9)       \* the default value used throughout

BoolForms(c) ==      \* And / Or over the children c in every form
  {PAnd(c, "ctor", FALSE, NoDef), PAnd(c, "ctor", TRUE, D), POr(c, "ctor", FALSE, NoDef), POr(c, "ctor", TRUE, D)} \cup
  (IF OpLeft(c[1]) THEN {PAnd(c, "op", FALSE, NoDef), POr(c, "op", FALSE, NoDef)} ELSE {})
NotForms(c) == {PNot(c, "ctor")} \cup (IF OpLeft(c) THEN {PNot(c, "op")} ELSE {})
\* Switch([(key, val), ..]) and Switch({key: val, ..}) (key specs hashable and distinct)
SwitchForms(cases) ==
  {PSwitch(cases, FALSE, NoDef), PSwitch(cases, TRUE, D)} \cup
  (IF \A i \in 1..Len(cases) : Hashable(cases[i][1]) /\ cases[i][1].op # "pred" /\ \A j \in 1..(i - 1) : cases[i][1] # cases[j][1]
   THEN {PSwitchF(cases, "dict", FALSE, NoDef)} ELSE {})

\* defaults are argument values: containers holding T are resolved against the target and
\* built afresh ({'a': T}, (T, 9), [])
ArgDefaults == {VC("dict", << Entry(A, VTarg(<<>>)) >>), VC("tuple", <<VTarg(<<>>), VInt(9)>>), VC("list", <<>>)}
DefaultForms(mode) ==
  UNION {{PAnd(c, "ctor", TRUE, d), POr(c, "ctor", TRUE, d), PSwitch(<< <<c[1], c[2]>> >>, TRUE, d)}
           : c \in [1..2 -> Small(mode)], d \in ArgDefaults} \cup
  {PAnd(<<PM(">", VInt(0))>>, "ctor", TRUE, VC("list", <<VTarg(<<A>>)>>))}         \* [T['a']]: may itself fail

\* depth 1 over the full atom set
D1(mode) ==
  DefaultForms(mode) \cup
  UNION {BoolForms(c) : c \in [1..2 -> Atoms(mode)]} \cup
  (IF Wide THEN UNION {BoolForms(c) : c \in [1..3 -> Small(mode)]} ELSE {}) \cup
  UNION {NotForms(c) : c \in Atoms(mode)} \cup
  UNION {SwitchForms(<< <<k, v>> >>) : k \in Atoms(mode), v \in Vals} \cup
  UNION {SwitchForms(<< <<k1, v1>>, <<k2, v2>> >>) : k1 \in Small(mode), k2 \in Small(mode), v1 \in Vals, v2 \in Vals}

\* depth-1 trees over the small alphabet: the operands of depth 2
S1(mode, L) ==
  UNION {BoolForms(c) : c \in [1..2 -> L]} \cup UNION {NotForms(c) : c \in L} \cup
  UNION {SwitchForms(<< <<k, v>> >>) : k \in L, v \in {PVal(VInt(7)), Yes}}
Over(X, L) ==      \* one more level: a combinator with one operand from X and the others from L
  UNION {BoolForms(<<x, a>>) \cup BoolForms(<<a, x>>) : x \in X, a \in L} \cup
  UNION {NotForms(x) : x \in X} \cup
  UNION {SwitchForms(<< <<x, v>> >>) \cup SwitchForms(<< <<a, x>> >>) \cup SwitchForms(<< <<a, v>>, <<x, v>> >>)
           : x \in X, a \in L, v \in {Yes}}
\* the outermost level of depth 3: constructor / operator forms without default variants
OverLight(X, L) ==
  UNION {{PAnd(<<x, a>>, "ctor", FALSE, NoDef), POr(<<x, a>>, "ctor", FALSE, NoDef), PAnd(<<x, a>>, "op", FALSE, NoDef),
          POr(<<x, a>>, "op", FALSE, NoDef), PAnd(<<a, x>>, "ctor", FALSE, NoDef), POr(<<a, x>>, "ctor", TRUE, D)}
           : x \in {y \in X : OpLeft(y)}, a \in L} \cup
  UNION {NotForms(x) : x \in X} \cup
  {PSwitch(<< <<x, Yes>> >>, TRUE, D) : x \in X}
D2(mode) == Over(S1(mode, Small(mode)), Small(mode))
D3(mode) == OverLight(Over(S1(mode, Tiny(mode)), Tiny(mode)), Tiny(mode))

\* double negation in every form over the depth-1 trees (whose results and defaults differ from
\* the target): Not yields the target, so ~~x passes exactly when x does and yields the target
DoubleNot(mode) == UNION {NotForms(y) : y \in UNION {NotForms(x) : x \in S1(mode, Small(mode)) \cup Atoms(mode)}}

Trees(mode) == Atoms(mode) \cup D1(mode) \cup DoubleNot(mode) \cup (IF Depth >= 2 THEN D2(mode) ELSE {}) \cup (IF Depth >= 3 THEN D3(mode) ELSE {})

\* Check over all keyword subsets (equal_to and one_of exclude each other)
\* (defaults: none, a constant, and argument values -- [T], {'a': T}, [] -- on every failing path)
CheckDefaults == {<<FALSE, NoDef>>, <<TRUE, D>>, <<TRUE, VC("list", <<VTarg(<<>>)>>)>>,
                  <<TRUE, VC("dict", << Entry(A, VTarg(<<>>)) >>)>>, <<TRUE, VC("list", <<>>)>>}
Checks ==
  {PCheckS(sub, IF sub = <<>> THEN "list" ELSE "tuple", ty, inst, vals[1], vals[2], validate, df[1], df[2]) :
     sub \in {<<>>, <<A>>}, df \in CheckDefaults,
     ty \in {<<>>, <<"int">>, <<"int", "str">>},
     inst \in {<<>>, <<"int">>, <<"str", "dict">>},
     vals \in {<< <<>>, FALSE >>, << <<VInt(1)>>, FALSE >>, << <<VInt(1), A>>, TRUE >>, << <<A>>, TRUE >>},
     \* (validators returning True / False / 0, raising ValueError, and -- depending on the target --
     \* ZeroDivisionError / TypeError (1 / x > 0) or IndexError / KeyError / TypeError (x[0] == 'a'))
     validate \in {<<>>, <<Yes>>, <<No>>, <<PPred("zero", 0)>>, <<Boom>>, <<Yes, No>>, <<Truthy, Yes>>,
                   <<PPred("recip", 0)>>, <<PPred("head", 0)>>}}

\* hardening: falsy-but-meaningful values as targets, sub-results and defaults (None included, as
\* an ordinary value), falsy / subclassed containers, values with a hostile ==, and the boundary
\* values of index and slice steps
HardTargets ==
  {VAny, VGrumpy, VC("flist", <<VInt(1)>>), VC("flist", <<>>), VC("fdict", << Entry(A, VInt(1)) >>), VC("fdict", << Entry(A, VInt(0)) >>),
   VC("ntuple", <<VInt(1)>>), VStr(""), VC("tuple", <<>>), VInt(-1), VBool(FALSE), VC("list", <<VInt(1)>>), VC("list", <<VAny>>),
   VC("dict", << Entry(A, VC("list", <<>>)) >>), VC("dict", << Entry(A, VNone) >>), VC("list", <<VInt(0), VInt(1)>>)}
FalsyValues == {VInt(0), VStr(""), VNone, VBool(FALSE), VC("tuple", <<>>), VC("list", <<>>)}
HardChecks ==
  {PCheck(<<>>, <<>>, <<>>, FALSE, <<>>, FALSE, NoDef), PCheck(<<>>, <<>>, <<VInt(1)>>, FALSE, <<>>, FALSE, NoDef),
   PCheck(<<>>, <<>>, <<VInt(0)>>, FALSE, <<>>, FALSE, NoDef), PCheck(<<>>, <<>>, <<VInt(1), A>>, TRUE, <<>>, FALSE, NoDef),
   PCheckS(<<>>, "tuple", <<>>, <<>>, <<VInt(0), VStr("")>>, TRUE, <<>>, FALSE, NoDef),
   PCheck(<<"list">>, <<>>, <<>>, FALSE, <<>>, FALSE, NoDef), PCheck(<<>>, <<"list">>, <<>>, FALSE, <<>>, FALSE, NoDef),
   PCheck(<<"dict">>, <<>>, <<>>, FALSE, <<>>, FALSE, NoDef), PCheck(<<>>, <<"dict", "tuple">>, <<>>, FALSE, <<>>, FALSE, NoDef),
   PCheck(<<>>, <<>>, <<>>, FALSE, <<Truthy>>, FALSE, NoDef), PCheckS(<<A>>, "list", <<>>, <<>>, <<>>, FALSE, <<>>, FALSE, NoDef)} \cup
  {PCheck(<<"str">>, <<>>, <<>>, FALSE, <<>>, TRUE, d) : d \in FalsyValues} \cup
  {PCheck(<<>>, <<>>, <<>>, FALSE, <<No>>, TRUE, d) : d \in {VNone, VInt(0)}} \cup
  \* whatever a validator raises is a failed condition
  {PCheck(<<>>, <<>>, <<>>, FALSE, <<v>>, df[1], df[2]) :
     v \in {PPred("boom_attr", 0), PPred("recip", 0), PPred("head", 0)}, df \in {<<FALSE, NoDef>>, <<TRUE, VInt(0)>>}} \cup
  {POr(<<PCheck(<<>>, <<>>, <<>>, FALSE, <<PPred("recip", 0)>>, FALSE, NoDef), PVal(VInt(7))>>, "ctor", FALSE, NoDef)}
HardSpecs ==
  HardChecks \cup
  {PMTruthy, PNot(PMTruthy, "ctor"), PNot(PMTruthy, "op"), PM("==", VInt(1)), PM("!=", VInt(1)), PMR("==", VInt(1)), PM("==", VInt(0)),
   PMSubT(<<A>>), PMSub(<<A>>, "==", VInt(0)), PMSub(<<A>>, "==", VNone), PTGet(<<A>>),
   \* a falsy result is a result: Or yields the first passing child's, And the last one's, Switch the value spec's
   POr(<<PVal(VInt(0)), PVal(VInt(1))>>, "ctor", FALSE, NoDef), POr(<<PVal(VNone), PVal(VInt(1))>>, "ctor", FALSE, NoDef),
   POr(<<PTGet(<<A>>), PVal(VInt(1))>>, "ctor", FALSE, NoDef), PAnd(<<PMTruthy, PVal(VStr(""))>>, "ctor", FALSE, NoDef),
   PAnd(<<PVal(VInt(0)), PVal(VInt(1))>>, "ctor", FALSE, NoDef),
   PSwitch(<< <<PVal(VInt(0)), PVal(VNone)>>, <<PMTruthy, PVal(VInt(1))>> >>, FALSE, NoDef),
   PSwitch(<< <<PM("==", VInt(1)), PVal(VInt(0))>> >>, TRUE, VBool(FALSE)), PSwitch(<< <<PMTruthy, PTGet(<<>>)>> >>, TRUE, VNone)} \cup
  \* falsy defaults are defaults
  {POr(<<PM(">", VInt(5))>>, "ctor", TRUE, d) : d \in FalsyValues} \cup {PAnd(<<PM(">", VInt(5))>>, "ctor", TRUE, d) : d \in {VNone, VInt(0)}} \cup
  {PMatch(PType("str"), TRUE, d) : d \in FalsyValues} \cup
  \* boundary values of index and slice steps: 0, -1, the length, one beyond
  {PTGet(<<VInt(i)>>) : i \in {0, 1, 2, -1, -2, -3}} \cup {PTGet(<<VSlice(n)>>) : n \in {0, 1, 2, 3}} \cup
  {PMSub(<<VSlice(n)>>, "==", VStr("")) : n \in {0, 2}} \cup {PMSub(<<VInt(-1)>>, "==", VInt(1))}

\* construction: Optional(key) / Required(key) over key patterns, and the table of other
\* documented constructor refusals
WrapKeys == {PLit(A), PLit(VInt(1)), PType("int"), PType("object"), PTuple(<<PLit(A), PLit(VInt(1))>>),
             PTuple(<<PLit(A), PType("int")>>), PTuple(<<>>), PM(">", VInt(0)),
             PTuple(<<PLit(A), PTuple(<<PLit(VInt(1)), PType("int")>>)>>),       \* nested: the inner member decides
             PTuple(<<PLit(A), PTuple(<<PLit(VInt(1)), PLit(VInt(1))>>)>>),
             PFrozenset(<<PTuple(<<PLit(VInt(1)), PType("int")>>)>>),
             POr(<<PLit(A), PLit(VStr("b"))>>, "ctor", FALSE, NoDef), PRegex("ra", "match")}
Ctors == {PWrap(kd, k) : kd \in {"optional", "required"}, k \in WrapKeys} \cup
         {PWrap(k1, PWrap(k2, PLit(A))) : k1 \in {"optional", "required"}, k2 \in {"optional"}} \cup
         {[op |-> "ctor", name |-> n] : n \in DOMAIN CtorTable}
CtorPredict(p) == [ctor |-> IF p.op = "wrap" THEN Constructs(p) ELSE CtorTable[p.name]]

\* specs evaluated twice: ONE spec object on a first and then a second target (specs carry no
\* memory: the second outcome is that of a fresh object).  Or / Switch over three children with
\* distinct results, and -- under Match(..) -- over predicates that log their calls
ReAtoms == {PM(">", VInt(0)), PM("==", VStr("a")), PMTruthy}
Tagged(c) == [i \in 1..3 |-> PAnd(<<c[i], PVal(VInt(i))>>, "ctor", FALSE, NoDef)]
RePreds == {PPred("isnum", 0), Truthy, PPred("falsy", 0)}
Reused(m) ==
  UNION {{POr(Tagged(c), "ctor", FALSE, NoDef), POr(Tagged(c), "ctor", TRUE, VC("list", <<VTarg(<<>>)>>)),
          PSwitch([i \in 1..3 |-> <<c[i], PVal(VInt(i))>>], TRUE, VC("dict", << Entry(A, VC("list", <<>>)) >>))}
           : c \in [1..3 -> ReAtoms]} \cup
  (IF m = "match" THEN {POr(c, "ctor", FALSE, NoDef) : c \in [1..3 -> RePreds]} ELSE {})

VARIABLES mode, spec, target, pred, phase, target2, pred2
vars == <<mode, spec, target, pred, phase, target2, pred2>>

Init == mode = "auto" /\ spec = PMTruthy /\ target = VNone /\ pred = Dumped(Ev("auto", VNone, PMTruthy)) /\ phase = 0
        /\ target2 = VNone /\ pred2 = Dumped(Ev("auto", VNone, PMTruthy))
ChooseSpec ==
  /\ phase = 0 /\ phase' = 1
  /\ \/ \E m \in {"auto", "match"} : mode' = m /\ \E p \in Trees(m) : spec' = Label(p, 1)
     \/ mode' = "auto" /\ spec' \in Checks
     \/ mode' = "ctor" /\ spec' \in Ctors
     \/ mode' = "auto" /\ spec' \in HardSpecs
     \/ \E m \in {"auto", "match"} : mode' = m /\ \E p \in Reused(m) : spec' = Label(p, 1)
  /\ UNCHANGED <<target, pred, target2, pred2>>
\* under Match(..) the tree is the pattern of a Match wrapper
Root == IF mode = "match" THEN PMatch(spec, FALSE, VNone) ELSE spec
ChooseTarget ==
  /\ phase = 1 /\ phase' = 2
  /\ IF mode = "ctor" THEN target' = VNone /\ pred' = CtorPredict(spec)
     ELSE target' \in (IF mode = "auto" /\ spec \in HardSpecs THEN Targets \cup HardTargets ELSE Targets)
          /\ pred' = Dumped(Ev("auto", target', Root))
  /\ UNCHANGED <<mode, spec, target2, pred2>>
\* the same spec object once more, on a second target
\* (the shape of the Reused family, tested structurally: cheaper than membership)
IsReused ==
  \/ /\ spec.op = "or" /\ Len(spec.c) = 3
     /\ \/ \A i \in 1..3 : spec.c[i].op = "and" /\ Len(spec.c[i].c) = 2 /\ spec.c[i].c[2].op = "val"
        \/ \A i \in 1..3 : spec.c[i].op = "pred"
  \/ spec.op = "switch" /\ Len(spec.cases) = 3
  \/ spec.op = "check" /\ spec.hasdef /\ spec.def = VC("list", <<>>) /\ spec.sub = <<>> /\ spec.inst = <<>>    \* a fresh [] each time
EvaluateAgain ==
  /\ phase = 2 /\ mode # "ctor" /\ IsReused /\ phase' = 3
  /\ target2' \in Targets
  /\ pred2' = Dumped(EvAgain("auto", target, target2', Root))
  /\ UNCHANGED <<mode, spec, target, pred>>
Next == ChooseSpec \/ ChooseTarget \/ EvaluateAgain

\* ---- laws ---------------------------------------------------------------------------------
Case == phase >= 2 /\ mode # "ctor"
O == Undumped(pred)
Kid(i) == Ev(mode, target, spec.c[i])
Fragment == mode = "ctor" \/ (InFragment("auto", Root) /\ StrsOK(target))
\* exactly one of Optional(k) and Required(k) can be built for a key pattern k (equality keys
\* are required unless Optional, the others optional unless Required)
CtorLaw == phase = 2 /\ mode = "ctor" /\ spec.op = "wrap" /\ spec.key.op # "wrap" =>
             LET other == PWrap(IF spec.kind = "optional" THEN "required" ELSE "optional", spec.key) IN
             (pred.ctor = "ok") # (Constructs(other) = "ok")
\* whatever a validator of a Check raises is a failed condition (CheckError or the default), never
\* an error of its own: only the == of equal_to / one_of itself may raise through a Check
CheckContains == Case /\ spec.op = "check" /\ TGet(target, spec.sub, 1).ok
                      /\ (\A i \in 1..Len(spec.vals) : ~EqRaises(TGet(target, spec.sub, 1).v, spec.vals[i])) => ~Foreign(O)
\* specs carry no memory: evaluated again, a spec object decides like a fresh one
HistoryFree == phase = 3 => Undumped(pred2) = Ev("auto", target2, Root)
\* a comparison Python itself refuses is not a rejection: its TypeError comes out unchanged
Unorderable == Case /\ spec.op = "m" /\ (IF spec.refl THEN PyCmp(spec.cmp, spec.rhs, target) ELSE PyCmp(spec.cmp, target, spec.rhs)) = "E"
                 => O.errs = {"TypeError"}
\* the tree decides like the boolean expression it denotes (defaults: always passes)
Decides == Case => LawDecides("auto", target, Root, O)
\* And -> last child's result, Or -> first passing child's, Not / M -> the target, Switch -> the
\* value spec of the first passing case, default where the condition fails
Result == Case => LawResult("auto", target, Root, O)
Errs == Case => LawErrs(O) /\ ~O.amb
\* each honours its default: with a default no GlomError leaves the node
\* (Switch: when no case matched)
\* (Check: when its sub-spec can be evaluated)
Defaults == Case /\ HasDef(spec) /\ (spec.op = "switch" => \A i \in 1..Len(spec.cases) : ~Holds(mode, target, spec.cases[i][1]))
                 /\ (spec.op = "check" => TGet(target, spec.sub, 1).ok)
                 /\ (spec.op # "check" => ArgVal(target, spec.def).ok)        \* (a default that can be evaluated)
              => ~Caught(O)
\* rejections by the combinators are MatchErrors, Check's are CheckErrors; child errors
\* propagate as themselves
Rejects == Case /\ ~O.ok /\ Clean(O) /\ (HasDef(spec) /\ spec.op # "check" => ArgVal(target, spec.def).ok) =>
  /\ (spec.op \in {"not", "m", "mtruthy"} => O.errs = {"MatchError"})
  /\ (spec.op = "switch" /\ (\A i \in 1..Len(spec.cases) : ~Holds(mode, target, spec.cases[i][1])) => O.errs = {"MatchError"})
  /\ (spec.op = "check" => O.errs = (IF TGet(target, spec.sub, 1).ok THEN {"CheckError"} ELSE {"PathAccessError"}))
  /\ (spec.op = "or" => "MatchError" \in O.errs /\
                        O.errs \subseteq {"MatchError"} \cup UNION {Kid(i).errs : i \in 1..Len(spec.c)})
  /\ (spec.op = "and" => \E i \in 1..Len(spec.c) : ~Kid(i).ok /\ O.errs = Kid(i).errs /\ \A j \in 1..(i - 1) : Kid(j).ok)
\* M comparisons, Not, Check and Regex hand back the target object itself
Passthrough == /\ (Case /\ O.ok /\ spec.op \in {"m", "mtruthy", "msub", "msubt", "not"} => O.same /\ O.v = target)
               /\ (Case /\ O.ok /\ spec.op = "check" /\ Core(mode, target, spec) => O.same /\ O.v = target)
\* short-circuit, on the call log of the named predicates (ids are positions, all distinct)
ShortCircuit == Case /\ ~Foreign(O) =>
  /\ (spec.op = "or" /\ (\E i \in 1..Len(spec.c) : Kid(i).ok) =>
        LET f == MinOf({i \in 1..Len(spec.c) : Kid(i).ok}) IN
        /\ \A j \in (f + 1)..Len(spec.c) : PredIds(spec.c[j]) \cap Called(O) = {}
        /\ O.calls = Flat([j \in 1..f |-> Kid(j).calls]))
  /\ (spec.op = "and" /\ (\E i \in 1..Len(spec.c) : ~Kid(i).ok) =>
        LET f == MinOf({i \in 1..Len(spec.c) : ~Kid(i).ok}) IN
        \A j \in (f + 1)..Len(spec.c) : PredIds(spec.c[j]) \cap Called(O) = {})
  /\ (spec.op = "switch" =>
        LET P == {i \in 1..Len(spec.cases) : Holds(mode, target, spec.cases[i][1])} IN
        \A i \in 1..Len(spec.cases) :
           /\ (P = {} \/ i # MinOf(P) => PredIds(spec.cases[i][2]) \cap Called(O) = {})    \* only that value spec
           /\ (P # {} /\ i > MinOf(P) => PredIds(spec.cases[i][1]) \cap Called(O) = {}))   \* no later key spec
====================================================================================
