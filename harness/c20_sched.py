"""Deterministic thread scheduler for C20.

Instrumented callables / custom specs / strings call ctx.gate() at their yield points.  With a
Sched installed, a thread that reaches a gate parks there (tells the scheduler, then waits for
its own semaphore); the scheduler runs exactly one thread at a time and releases them in the
order of a TLC behaviour: begin(p) starts thread p and waits until it parks or finishes,
step(p) releases p's gate and waits until it parks again or finishes.  No settrace, no
hooks in glom, no wall-clock decisions (timeouts only guard against machinery deadlocks).
"""
import threading

import vlib

TIMEOUT = 900      # only a guard against machinery deadlocks (the machine may be heavily loaded)


class Sched:
    def __init__(self, ctx, n):
        self.ctx = ctx
        self.n = n
        self.local = threading.local()
        self.signal = [threading.Semaphore(0) for _ in range(n + 1)]   # parked or finished
        self.go = [threading.Semaphore(0) for _ in range(n + 1)]
        self.done = [False] * (n + 1)
        self.parked = [False] * (n + 1)
        self.result = [None] * (n + 1)
        self.error = [None] * (n + 1)
        self.threads = [None] * (n + 1)
        self.gates = [0] * (n + 1)
        self.free = False
        ctx.gate_fn = self.gate

    # -- called in the worker threads -------------------------------------------------------
    def gate(self):
        p = getattr(self.local, 'p', None)
        if p is None or self.free:
            return
        self.gates[p] += 1
        self.parked[p] = True
        self.signal[p].release()
        self.go[p].acquire()
        self.parked[p] = False

    def _run(self, p, fn):
        self.local.p = p
        try:
            self.result[p] = fn()
        except BaseException as e:      # noqa: machinery problem inside the thread
            self.error[p] = e
        finally:
            self.done[p] = True
            self.signal[p].release()

    # -- called by the scheduler ---------------------------------------------------------------
    def _wait(self, p):
        if not self.signal[p].acquire(timeout=TIMEOUT):
            raise vlib.MachineryError('thread %d neither parked nor finished within %ds' % (p, TIMEOUT))

    def begin(self, p, fn):
        t = threading.Thread(target=self._run, args=(p, fn), daemon=True)
        self.threads[p] = t
        t.start()
        self._wait(p)

    def step(self, p):
        """release thread p's gate; False if p is not parked at a gate (already finished)"""
        if self.done[p] or not self.parked[p]:
            return False
        self.go[p].release()
        self._wait(p)
        return True

    def drain(self):
        """let every thread run to completion (used after a schedule mismatch and at the end)"""
        self.free = True
        for p in range(1, self.n + 1):
            if self.threads[p] is not None and not self.done[p]:
                self.go[p].release()
        for p in range(1, self.n + 1):
            if self.threads[p] is not None:
                self.threads[p].join(TIMEOUT)
                if self.threads[p].is_alive():
                    raise vlib.MachineryError('thread %d did not finish' % p)
