"""C08 (b): Fill mode and argument position rebuild plain containers with the same type and shape.

spec -> code: spec/MC_C08b.tla enumerates every literal container graph over NCells cells (dict,
list, tuple, set, frozenset; items: strings, numbers, T, Spec(T), a callable, references -- with
self-referential / mutually cyclic lists and dicts in argument position); GlomShape!FillV / ArgV
predict the rebuilt graph and TLC checks the shape, freshness and spec-untouched laws.  Each case is
replayed: Fill(spec) for Fill mode; Coalesce(default=spec), Call(args=(spec,)), S(v=spec) and
Assign(val=spec) for argument position.  The result is compared with the predicted graph by
bisimulation (types, lengths, order, sharing, cycles), leaves by identity.
"""
import glom
from glom import T, S, Spec, Fill, Coalesce, Call, Assign

import codec
import vlib


def tag(t):
    return 'called'


class SHeap(codec.Heap):
    def val(self, v):
        if v['k'] == 'T':
            return T
        if v['k'] == 'T0':
            if not hasattr(self, '_t0'):
                self._t0 = T[0]
            return self._t0
        if v['k'] == 'spec':
            if not hasattr(self, '_spec'):
                self._spec = Spec(T)
            return self._spec
        return codec.Heap.val(self, v)

    def project(self, o, fresh=None):
        if o is T:
            return {'k': 'T'}
        if o is getattr(self, '_t0', None):
            return {'k': 'T0'}
        if isinstance(o, Spec):
            return {'k': 'spec'}
        return codec.Heap.project(self, o, fresh)


class Box:
    """hashable attribute target for Assign (T[0] on it is 'B')"""
    def __getitem__(self, i):
        return 'B'


class Fail:
    def glomit(self, target, scope):
        raise glom.GlomError('planted')


def ident(x):
    return x


POSITIONS = {
    'fill': [('Fill', lambda spec: (Fill(spec), 'TGT'))],
    'arg': [('Coalesce-default', lambda spec: (Coalesce(Fail(), default=spec), 'TGT')),
            ('Call-args', lambda spec: (Call(ident, args=(spec,)), 'TGT')),
            ('S-bind', lambda spec: ((S(v=spec), S.v), 'TGT')),
            ('Assign-val', lambda spec: ((Assign('x', spec), 'x'), None))],
}


def bisim(cells, mv, obj, heap, pos, tgt, m2r, r2m):
    """model value mv (over result cells) vs real object obj"""
    k = mv['k']
    if k == 'ref':
        a = mv['a']
        c = cells[a - 1]
        mutable = c['cls'] in ('dict', 'list', 'set')     # identity of immutables is not observable
        if mutable:
            if a in m2r:
                return None if m2r[a] == id(obj) else 'sharing differs at cell %d' % a
            if id(obj) in r2m:
                return 'object shared in the result but not in the prediction (cell %d)' % a
            m2r[a] = id(obj)
            r2m[id(obj)] = a
        cls = {'dict': dict, 'list': list, 'tuple': tuple, 'set': set, 'frozenset': frozenset}[c['cls']]
        if type(obj) is not cls:
            return 'type %s, expected %s' % (type(obj).__name__, c['cls'])
        if mutable and id(obj) in heap.ids:
            return 'a container of the spec itself was handed out'
        if len(obj) != len(c['items']):
            return 'length %d, expected %d' % (len(obj), len(c['items']))
        if cls is dict:
            for (mk, mvv), (rk, rv) in zip(c['items'], obj.items()):
                w = bisim(cells, mk, rk, heap, pos, tgt, m2r, r2m) or bisim(cells, mvv, rv, heap, pos, tgt, m2r, r2m)
                if w:
                    return w
            return None
        if cls in (set, frozenset):
            want = sorted('<target>' if x == {'k': 'str', 's': 'TGT'} else repr(scalar(x, heap)) for x in c['items'])
            got = sorted('<target>' if (x is tgt or (isinstance(tgt, str) and x == tgt)) else repr(x) for x in obj)
            return None if want == got else 'set items %s, expected %s' % (got, want)
        for mi, ri in zip(c['items'], obj):
            w = bisim(cells, mi, ri, heap, pos, tgt, m2r, r2m)
            if w:
                return w
        return None
    if mv == {'k': 'str', 's': 'T'} and not isinstance(tgt, str):
        return None if obj == 'B' else 'T[0] leaf evaluated to %r' % (obj,)
    if mv == {'k': 'str', 's': 'TGT'}:
        return None if (obj is tgt or (isinstance(tgt, str) and obj == tgt)) else 'T-like leaf evaluated to %r, not the target' % (obj,)
    want = scalar(mv, heap)
    if want is obj or (not callable(want) and want == obj and type(want) is type(obj)):
        return None
    return 'leaf %r, expected %r' % (obj, want)


def scalar(mv, heap):
    if mv['k'] == 'fn':
        return heap.fns[mv['s']]
    return heap.val(mv)


def norm(cells):
    import json
    return [dict(c, items=sorted(c['items'], key=lambda x: json.dumps(x, sort_keys=True)))
            if c['cls'] in ('set', 'frozenset') else c for c in cells]


def worker(states):
    out = dict(n=0, nontrivial=0, bad=[], samples=[])
    for st in states:
        if st['phase'] != 1:
            continue
        cells, pos, pred = st['heap'], st['pos'], st['pred']
        for name, mk in POSITIONS[pos]:
            heap = SHeap(cells, fns={'tag': tag})
            spec = heap.objs[1]
            gspec, target = mk(spec)
            if name == 'Assign-val':
                target = Box()
            out['n'] += 1
            out['nontrivial'] += len(cells[0]['items']) >= 1
            case = dict(cells=cells, pos=pos, position=name, pred_root=pred['v'])
            try:
                res = glom.glom(target, gspec)
            except Exception as e:
                out['bad'].append(dict(why='%s raised %r' % (name, e), case=case))
                continue
            why = bisim_top(pred['cells'], pred['v'], res, heap, pos, name, target)
            if not why and norm(heap.snapshot()) != norm(cells):
                why = 'the spec containers were modified'
            if why:
                case['observed'] = repr(res)[:300]
                out['bad'].append(dict(why='%s via %s' % (why, name), case=case))
            elif len(out['samples']) < 1 and len(cells) >= 2 and pos == 'arg':
                out['samples'].append(dict(case, observed=repr(res)[:200]))
    return out


def bisim_top(pcells, pv, res, heap, pos, name, tgtobj):
    return bisim(pcells, pv, res, heap, pos, tgtobj, {}, {})


def run(check, tier, seed):
    consts = dict(NCells=2)
    res, results = vlib.map_states('MC_C08b', worker, constants=consts)
    check.add_tlc(res, 'MC_C08b %s' % consts)
    import c08
    for r in results:
        check.cov['evaluations'] += r['n']
        check.cov['distinct_nontrivial'] += r['nontrivial']
        check.validated(r['n'] - len(r['bad']))
        for s in r['samples']:
            check.sample(s, limit=8)
        for b in r['bad']:
            check.violation(b['case'], b['why'], matcher=c08.match_finding)
