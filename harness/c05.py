"""C05  Error messages carry a faithful target-spec trace down to the failing spec.

spec -> code: spec/MC_C05.tla explores, tree by tree, a machine in which the environment decides
leaf by leaf whether it fails (every position of a planted failure, every pattern of earlier
recovered failures) over spec shapes mixing tuple, Pipe, dict, Coalesce, Or, And, Not, Switch, Fill.
For every failing call spec/GlomTrace.tla renders the trace from the frame table (transcribed
_unpack_stack / format_target_spec_trace) and TLC checks six laws of the rendering against the
dynamic parent chain (first line, spine, target received, branches, branch errors, abandoned
branches), and that two mechanism mutants violate them.  Every case is replayed with real specs:
the text of str(error) is parsed line by line into (depth, kind, what is shown) and must equal the
projection of the model's rendering; the exact text (ticks and marks) is compared too (difference
there alone = DRIFT); the message must end with the class and message of the original error.
code -> spec: random deeper trees / plans are run, the parsed traces are validated by TLC
(spec/Trace_C05.tla) against the rendering of the same frame machine.
"""
import random
import re

import glom
from glom.core import bbrepr, TRACE_WIDTH, GlomError

import frames
import vlib

PROP = 'C05'
HEAD = ['error raised while processing, details below.', ' Target-spec trace (most recent last):']


def node_at(tree, path):
    for i in path:
        if i == 0:
            return None
        tree = tree['c'][i - 1]
    return tree


def spec_at(obs, path):
    """the real spec object built for a node path of the realised tree (recorded at construction: the
    harness never walks the library's spec objects through their attributes)"""
    path = tuple(path)
    if path and path[-1] == 0:
        return None
    return obs['prebuilt'][1].by_path[path]


def tgt_repr(t, spec, tree):
    """repr of an abstract target id"""
    if t and t[0] >= 0:
        return repr(frames.Tok(t))
    return None      # containers built during the call: compared by kind only


ERR_CLASS = {'new': 'PlantedError', 'same': 'PlantedError', 'copy': 'PlantedError', 'fail': 'PlantedError', 'coalskip': 'CoalesceError', 'smiss': 'PathAccessError', 'typ': 'TypeMatchError',
             'coal': 'CoalesceError', 'switch': 'MatchError', 'not': 'MatchError', 'mdict': 'MatchError'}


def expected_projection(st, obs):
    tree = st['tree']
    out = []
    for l in st['res']['lines']:
        if l['kind'] == 'E':
            nd = node_at(tree, l['eorg'])
            out.append((l['d'], 'E', ERR_CLASS[nd['k']] + (':%d' % l['en'] if l['en'] else '')))
        elif l['kind'] == 'T':
            out.append((l['d'], 'T', tgt_repr(l['tgt'], None, tree)))
        else:
            out.append((l['d'], 'S', payload(spec_at(obs, l['path']))))
    return out


def payload(v):
    return bbrepr(v).replace("\\'", "'")


def has_kind(tree, kinds):
    return tree['k'] in kinds or any(has_kind(c, kinds) for c in tree['c'])


def parse_trace(msg):
    lines = msg.split('\n')
    if lines[:2] != HEAD:
        return None, 'message does not start with the trace header'
    body = []
    notes = []
    for s in lines[2:]:
        if s.startswith('(note for planted ') and body:
            notes.append((len(body), s))      # second line of the branch error listed just before
            continue
        # trace lines are ' ' + indent/tick characters; the tail of the Python traceback follows
        if len(s) < 3 or s[0] != ' ' or s[1] not in '-|+\\X':
            break
        body.append(s)
    out = []
    for s in body:
        if not s.startswith(' '):
            return None, 'unexpected trace line %r' % s
        j = s.index(' ', 1)
        depth = j - 2
        rest = s[j + 1:]
        if rest.startswith('Target: '):
            out.append((depth, 'T', rest[8:]))
        elif rest.startswith('Spec: '):
            out.append((depth, 'S', rest[6:]))
        else:
            m = re.match(r'(?:[\w.]*\.)?(\w+)(?:: (.*))?$', rest)
            cls = m.group(1) if m else rest
            n = re.match(r'planted (\d+)$', m.group(2) or '') if m else None
            out.append((depth, 'E', cls + (':%s' % n.group(1) if n and n.group(1) != '0' else '')))
    parse_trace.notes = notes
    return (out, body, lines), None


def render_expected(st, spec, width):
    """exact expected text lines from the model lines (ticks, marks, truncation like glom's own)"""
    tree = st['tree']
    texts = []
    for l in st['res']['lines']:
        d = l['d']
        indent = ' ' + '|' * d
        tick = '+ ' if l['kind'] == 'B' else ('| ' if d else '- ')
        if l['kind'] == 'E':
            texts.append([indent + tick, None, l])
            continue
        label = 'Target: ' if l['kind'] == 'T' else 'Spec: '
        texts.append([indent + tick + label, l, l])
    return texts


def apply_marks(s, marks):
    for col, ch in marks:
        s = s[:col] + ch + s[col + 1:]
    return s


SUFFIX = re.compile(r'\.\.\.( \(len=\d+\))?$')


def shows(shown, full):
    """the payload of a trace line is the repr itself, or a faithful prefix of it marked as truncated"""
    if shown == full:
        return True
    m = SUFFIX.search(shown)
    return bool(m) and full.startswith(shown[:m.start()]) and len(shown) < len(full)


def width_law(kind, shown, line, width):
    """Target / Spec lines fit the width; a payload is cut only when it would not fit, and then the line
    uses the whole width (error lines are never cut)"""
    if kind not in ('T', 'S'):
        return None
    if len(line) > width:
        return 'trace line wider than the width %d: %r' % (width, line[:60])
    if SUFFIX.search(shown) and len(line) != width:
        return 'a truncated line does not use the whole width %d (length %d): %r' % (width, len(line), line[:60])
    return None


def check_widths(st, obs, proj):
    """long / non-ASCII root target and other widths: same lines, every payload a faithful (possibly
    truncated) rendering, no line wider than the width"""
    big = frames.execute(st['tree'], st['plan'], hook=False, big_root=True)
    if big['out'] != 'err':
        return 'with a long root target the call succeeded'
    try:
        msg = str(big['error'])
    except Exception as ex:
        return 'str(error) raised %s for a long non-ASCII root target' % type(ex).__name__
    parsed, why = parse_trace(msg)
    if why:
        return why + ' (long root target)'
    bproj, body, lines = parsed
    if [(d, k) for d, k, _ in bproj] != [(d, k) for d, k, _ in proj]:
        return 'a long root target changes the structure of the trace'
    full = repr(frames.BigTok.__new__(frames.BigTok, (0,))) if False else 't0<' + '\u00e9\u4e16' * 90 + '>'
    for (d, k, text), line in zip(bproj, body):
        w = width_law(k, text, line, TRACE_WIDTH)
        if w:
            return w
        if k == 'T' and text.startswith('t0<') and not shows(text, full):
            return 'truncated target %r is not a faithful prefix of its repr' % (text[:60],)
    # other widths through the formatter the message is built with
    e = big['error']
    scope, wrapped = getattr(e, '_scope', None), getattr(e, '_GlomError__wrapped', None)
    if scope is not None and hasattr(glom.core, 'format_target_spec_trace'):
        for w in (50, 64, 200):
            try:
                text = glom.core.format_target_spec_trace(scope, wrapped, width=w)
            except Exception as ex:
                return 'format_target_spec_trace(width=%d) raised %s' % (w, type(ex).__name__)
            wl = text.split('\n')
            if len(wl) != len(body):
                return 'width %d changes the number of trace lines (%d vs %d)' % (w, len(wl), len(body))
            for l, (d, k, _) in zip(wl, bproj):
                j = l.index(' ', 1)
                rest = l[j + 1:]
                shown = rest[8:] if rest.startswith('Target: ') else rest[6:] if rest.startswith('Spec: ') else rest
                wv = width_law(k, shown, l, w)
                if wv:
                    return 'width %d: %s' % (w, wv)
    # a root target whose __len__ fails: the message is still produced, truncated without a length
    bad = frames.execute(st['tree'], st['plan'], hook=False, big_root='badlen')
    if bad['out'] != 'err':
        return 'with a root target whose len() fails the call succeeded'
    try:
        bmsg = str(bad['error'])
    except Exception as ex:
        return 'str(error) raised %s for a long root target whose __len__ raises' % type(ex).__name__
    parsed2, why2 = parse_trace(bmsg)
    if why2:
        return why2 + ' (root target whose __len__ raises)'
    if [(d, k) for d, k, _ in parsed2[0]] != [(d, k) for d, k, _ in proj]:
        return 'a root target whose __len__ raises changes the structure of the trace'
    for (d, k, text), line in zip(parsed2[0], parsed2[1]):
        if k == 'T' and text.startswith('t0<') and (not shows(text, full) or len(line) != TRACE_WIDTH):
            return 'a long target whose __len__ raises is not shown as a faithful truncated prefix: %r' % (text[:60],)
    # planted errors glom() cannot copy (a GlomError subclass whose constructor does not take its .args): the
    # original object is finalized in place; same trace, and the message still ends with type and message
    uc = frames.execute(st['tree'], st['plan'], hook=False, uncopyable=True)
    if uc['out'] != 'err':
        return 'with uncopyable planted errors the call succeeded'
    try:
        umsg = str(uc['error'])
    except Exception as ex:
        return 'str(error) raised %s for an error that cannot be copied' % type(ex).__name__
    parsed4, why4 = parse_trace(umsg)
    if why4:
        return why4 + ' (uncopyable errors)'
    if [(d, k, t.replace('UncopyableError', 'PlantedError')) for d, k, t in parsed4[0]] != proj:
        return 'an error that cannot be copied changes the lines of the trace: %s vs %s' % (parsed4[0], proj)
    utail = umsg.split('\n')[-1]
    if 'str() failed' in utail or (st['res']['rootn'] and st['res'].get('rootglom', True) and not utail.endswith('planted %d' % st['res']['rootn'])):
        return 'the message of an error that cannot be copied ends with %r' % (utail,)
    # root targets whose repr fits the line and must be shown as it is: a collections.deque (reprlib has a
    # limit of its own for it), True and '' (objects that are also attributes of the builtins module), and a
    # target whose repr fills a depth-0 line exactly
    if not has_kind(st['tree'], ('copy', 'iter', 'consume', 'typ')):      # (typ: True is an int)
        import collections
        frames.ExactTok.WIDTH[0] = TRACE_WIDTH
        exact = object.__new__(frames.ExactTok)
        exact.ident, exact.eqclass = (0,), (0,)
        for kind, want in (('deque', repr(collections.deque([frames.Tok((0, 1)), frames.Tok((0, 2)), 3, 4, 5, 6, 7, 8, 9]))),
                           ('true', 'True'), ('emptystr', "''"), ('exact', repr(exact))):
            dq = frames.execute(st['tree'], st['plan'], hook=False, big_root=kind)
            if dq['out'] != 'err':
                return 'with a %s root target the call succeeded' % kind
            try:
                dmsg = str(dq['error'])
            except Exception as ex:
                return 'str(error) raised %s for a %s root target' % (type(ex).__name__, kind)
            parsed5, why5 = parse_trace(dmsg)
            if why5:
                return why5 + ' (%s root target)' % kind
            if [(d, k) for d, k, _ in parsed5[0]] != [(d, k) for d, k, _ in proj]:
                return 'a %s root target changes the structure of the trace' % kind
            for (d, k, text), (_, _, ptext) in zip(parsed5[0], proj):
                if k == 'T' and ptext == 't0' and (d == 0 or kind != 'exact') and text != want:
                    return 'a %s root target is shown as %r, its repr %r fits the line' % (kind, text, want)
                if k == 'T' and ptext == 't0' and d > 0 and kind == 'exact' and not shows(text, want):
                    return 'a long root target is shown as %r, not a faithful prefix of its repr' % (text[:60],)
    # errors carrying a note (PEP 678): every branch error line still shows type and message, its note follows
    nt = frames.execute(st['tree'], st['plan'], hook=False, notes=True)
    if nt['out'] != 'err':
        return 'with notes on the planted errors the call succeeded'
    try:
        nmsg = str(nt['error'])
    except Exception as ex:
        return 'str(error) raised %s when the errors carry notes' % type(ex).__name__
    parsed3, why3 = parse_trace(nmsg)
    got_notes = list(parse_trace.notes)
    if why3:
        return why3 + ' (errors with notes)'
    if parsed3[0] != proj:
        return 'a note on the errors changes the lines of the trace: %s vs %s' % (parsed3[0], proj)
    want_notes = [(i + 1, '(note for planted %s)' % t.split(':')[1]) for i, (d, k, t) in enumerate(proj)
                  if k == 'E' and t.startswith('PlantedError:')]
    if got_notes != want_notes:
        return 'notes of the branch errors: got %s, expected %s' % (got_notes, want_notes)
    # the message ends with the type and the FULL message of the original error, also when that message
    # has several lines, blank lines or caret-only lines
    res = st['res']
    if res['rootn']:
        ml = frames.execute(st['tree'], st['plan'], hook=False, multiline_for=res['rootn'])
        if ml['out'] == 'err':
            try:
                tail = str(ml['error']).split('\n')[-4:]
            except Exception as ex:
                return 'str(error) raised %s for a multi-line error message' % type(ex).__name__
            want = ('planted %d\n  in detail:\n\n      ^' % res['rootn']).split('\n')
            if not tail[0].endswith(want[0]) or tail[1:] != want[1:]:
                return 'the message does not end with the full multi-line message of the original error: %r' % (tail,)
    return None


def check_case(st, widths=False):
    tree, plan, res = st['tree'], st['plan'], st['res']
    obs = frames.execute(tree, plan)
    case = dict(tree=tree, plan=plan, text=repr(obs['spec']), res=res)
    if obs['out'] != 'err':
        return 'the call succeeded, expected an error', case, None
    e = obs['error']
    try:
        msg = str(e)
    except Exception as ex:
        return 'str(error) raised %s instead of producing the message' % type(ex).__name__, case, None
    case['message'] = msg.split('\nTraceback')[0]
    parsed, why = parse_trace(msg)
    if why:
        return why, case, None
    proj, body, lines = parsed
    exp = expected_projection(st, obs)
    drift = None
    # projection: depth, kind, what is shown
    if len(proj) != len(exp):
        return 'trace has %d lines, expected %d: %s vs %s' % (len(proj), len(exp), proj, exp), case, None
    for i, (p, x) in enumerate(zip(proj, exp)):
        if p[0] != x[0] or p[1] != x[1]:
            return 'line %d is %s at depth %d, expected %s at depth %d' % (i + 1, p[1], p[0], x[1], x[0]), case, None
        if x[2] is not None and p[2] != x[2]:
            if p[1] == 'E' or len(x[2]) + 20 < TRACE_WIDTH:
                return 'line %d shows %s, expected %s' % (i + 1, p[2], x[2]), case, None
            if not x[2].startswith(p[2].split('... (len=')[0].rstrip('.')):
                return 'line %d shows %s, not a prefix of %s' % (i + 1, p[2], x[2]), case, None
    # last line: class and message of the original error
    nd = node_at(tree, res['org'])
    cls = ERR_CLASS[nd['k']] if res.get('rootglom', True) else 'AlienError'
    if not isinstance(e, GlomError):
        return 'the error raised by glom() is a bare %s, not a GlomError' % type(e).__name__, case, None
    last = lines[-1]
    if cls not in last:
        return 'message ends with %r, expected the %s that was raised' % (last, cls), case, None
    if cls in ('PlantedError', 'AlienError') and not last.endswith('planted %d' % res['rootn']):
        return 'message ends with %r, expected planted %d' % (last, res['rootn']), case, None
    if cls == 'PathAccessError' and 'nope' not in last:
        return 'message ends with %r, which does not describe the failing access' % (last,), case, None
    # exact text (ticks / marks): drift only
    for s, l in zip(body, res['lines']):
        d = l['d']
        indent = ' ' + '|' * d
        tick = '+ ' if l['kind'] == 'B' else ('| ' if d else '- ')
        want = apply_marks(indent + tick, l['marks'])
        if not s.startswith(want[:len(indent) + 2]):
            drift = 'line %r: expected prefix %r' % (s, want)
            break
    if widths:
        w = check_widths(st, obs, proj)
        if w:
            return w, case, None
        # the very same spec objects evaluated a second time: nothing of the first failure may leak into
        # the second trace
        again = frames.execute(tree, plan, hook=False, prebuilt=obs['prebuilt'])
        if again['out'] != 'err':
            return 'a second evaluation of the same spec objects succeeded', case, None
        try:
            msg2 = str(again['error'])
        except Exception as ex:
            return 'str(error) of a second evaluation raised %s' % type(ex).__name__, case, None
        strip = lambda m: re.sub(r'0x[0-9a-f]+', '0x', m.split('\nTraceback')[0])
        if strip(msg2) != strip(msg):
            return 'a second evaluation of the same spec objects gives another message: %r' % (strip(msg2)[:400],), case, None
    return None, case, drift


def match_finding(f, case):
    m = f['match']
    if m.get('kind') == 'root_error_from_kind':
        return case.get('root_kind') == m['node_kind']
    return False




def replay(path):
    """re-run one stored case (bin/check C05 --replay <file>) against the library as it is now"""
    import json
    blob = json.load(open(path))
    st = _state_of(blob['case'])
    if st is None:
        print('REPLAY property=C05: %s holds a recorded observation, not a case of the enumerated universe; it was rejected with: %s'
              % (path, str(blob.get('why'))[:300]))
        print('(the file alone does not allow the case to be re-executed: re-run bin/check C05 to observe the library again)')
        return 2
    out = _replay_states([st])
    if out['bad']:
        print('VIOLATION property=C05 replay=%s' % path)
        print('  why: %s' % (str(out['bad'][0]['why'])[:400],))
        return 1
    print('REPLAY property=C05: the stored case agrees with the specification now (%s)' % path)
    return 0


def _state_of(case):
    if all(k in case for k in ('tree', 'plan', 'res')):
        return dict(tree=case['tree'], plan=case['plan'], res=case['res'], phase=1)
    return None


def _replay_states(states):
    out = dict(n=0, bad=[])
    for st in states:
        why, case, _ = check_case(st, widths=True)       # (with every variant of the sampled cases)
        if why:
            out['bad'].append(dict(why='%s in %s plan %s' % (why, case['text'], st['plan']), case=case))
    return out


def worker(states):
    out = dict(n=0, nontrivial=0, bad=[], drift=[], samples=[])
    for st in states:
        res = st['res']
        if st['phase'] != 1 or res['out'] != 'err' or res['used'] > len(st['plan']):
            continue
        why, case, drift = check_case(st, widths=(out['n'] % 7 == 0))
        out['n'] += 1
        nontrivial = len(res['lines']) >= 4
        out['nontrivial'] += nontrivial
        if why:
            case['root_kind'] = node_at(st['tree'], res['org'])['k']
            out['bad'].append(dict(why='%s in %s plan %s' % (why, case['text'], st['plan']), case=case))
        else:
            if drift:
                out['drift'].append(dict(why=drift, text=case['text']))
            if nontrivial and len(out['samples']) < 1 and any(l['kind'] == 'B' for l in res['lines']):
                out['samples'].append(dict(text=case['text'], plan=st['plan'], message=case['message']))
    return out


# ---- code -> spec -------------------------------------------------------------------------------
def rand_tree(rng, depth):
    if depth == 0 or rng.random() < 0.2:
        return {'k': rng.choice(['new', 'same', 'new', 'same', 'copy', 'smiss']), 'a': '', 'c': []}
    k = rng.choice(['tup', 'tup', 'pipe', 'dict', 'coal', 'coal', 'coalskip', 'or', 'and', 'not', 'switch', 'fill'])
    # (lazy Iter shapes are enumerated by MC_C05 at positions where the root target flows in)

    def sub():
        return rand_tree(rng, depth - 1)
    if k in ('not', 'fill'):
        return {'k': k, 'a': '', 'c': [sub()]}
    if k == 'switch':
        return {'k': k, 'a': '', 'c': [sub() for _ in range(2 * rng.randint(1, 2))]}
    return {'k': k, 'a': '', 'c': [sub() for _ in range(rng.randint(1 if k not in ('or',) else 2, 3))]}


def record(check, n, seed):
    rng = random.Random(seed)
    rows = []
    tries = 0
    while len(rows) < n and tries < 50 * n:
        tries += 1
        tree = rand_tree(rng, rng.randint(2, 4))
        plan = [rng.choice(['ok', 'ok', 'ok', 'err', 'err', 'alien']) for _ in range(rng.randint(0, 8))]
        obs = frames.execute(tree, plan)
        if obs['out'] != 'err':
            continue
        try:
            msg = str(obs['error'])
        except Exception as ex:
            check.violation(dict(tree=tree, plan=plan, text=repr(obs['spec']), root_kind='str-failed'),
                            'str(error) raised %s instead of producing the message: %r plan %s' % (type(ex).__name__, obs['spec'], plan),
                            matcher=match_finding)
            continue
        parsed, why = parse_trace(msg)
        if why:
            check.violation(dict(tree=tree, plan=plan, text=repr(obs['spec'])), why, matcher=match_finding)
            continue
        proj, body, lines = parsed
        # what each line shows, as node path / target id / error class, by matching reprs
        index = {}
        for pth, sp in obs['prebuilt'][1].by_path.items():
            index[pth] = payload(sp)
        plines = []
        ok = True
        for d, kind, text in proj:
            if kind == 'S':
                cands = [p for p, r in index.items() if r == text or (len(r) > len(text) - 20 and r.startswith(text.split('... (len=')[0]))]
                exact = [p for p, r in index.items() if r == text]
                cands = exact or cands
                if len(cands) != 1:
                    ok = False      # ambiguous (identical sub-specs): not comparable by text
                    break
                plines.append({'d': d, 'kind': 'S', 'path': list(cands[0]), 'tgt': [], 'e': ''})
            elif kind == 'T':
                m = re.match(r't([\d.]+)$', text)
                plines.append({'d': d, 'kind': 'T', 'path': [], 'tgt': [int(x) for x in m.group(1).split('.')] if m else [-1], 'e': ''})
            else:
                plines.append({'d': d, 'kind': 'E', 'path': [], 'tgt': [], 'e': text})
        if not ok:
            continue
        rows.append(dict(tree=tree, plan=plan, lines=plines, text=repr(obs['spec']), last=lines[-1][-60:]))
    rejects = vlib.validate_rows(check, 'Trace_C05', rows, 'random-trees', chunk=500)
    for row, rej in rejects:
        check.violation(dict(tree=row['tree'], plan=row['plan'], lines=row['lines'], text=row['text'], clause=rej['clause'],
                             root_kind=rej.get('rootkind', '')),
                        'recorded error trace rejected by the specification (%s): %s plan %s' % (rej['clause'], row['text'], row['plan']),
                        matcher=match_finding)
    if rows:
        check.sample(dict(kind='recorded', text=rows[0]['text'], plan=rows[0]['plan'], lines=rows[0]['lines']), limit=6)
    return len(rows)


def repo_test_stacks(check):
    """code -> spec on the repository's own tests: every glom() call that ends in an error is recorded
    (scope events + the real message, harness/verif_stack_plugin.py); TLC replays the events through the
    frame machine and evaluates the C05 laws on the message (spec/Trace_Stack.tla)"""
    import json
    import os
    import shutil
    import subprocess
    import tempfile
    repo = os.environ.get('GLOM_REPO', '/repo')
    scratch = tempfile.mkdtemp(prefix='glomverif_repostacks_')
    try:
        out = os.path.join(scratch, 'rows.ndjson')
        env = dict(os.environ, GLOM_VERIF='1', VERIF_STACK_OUT=out,
                   PYTHONPATH=repo + os.pathsep + os.path.join(vlib.VERIF, 'harness'))
        p = subprocess.run(['/venv/bin/python', '-m', 'pytest', '-q', '-p', 'no:cacheprovider', '-p', 'verif_stack_plugin',
                            '--deselect', 'glom/test/test_cli.py::test_main', 'glom/test'],
                           cwd=repo, env=env, capture_output=True, text=True, timeout=900)
        if not os.path.exists(out):
            raise vlib.MachineryError('the repository tests did not produce a stack file:\n' + p.stdout[-800:] + p.stderr[-800:])
        rows = [json.loads(l) for l in open(out)]
    finally:
        shutil.rmtree(scratch, ignore_errors=True)
    good = [r for r in rows if 'events' in r]
    if len(good) < 60:
        raise vlib.MachineryError('only %d failing glom() calls recorded from the repository tests' % len(good))
    for r in rows:
        if 'events' in r:
            continue
        check.cov['evaluations'] += 1
        if 'recorder' in r.get('skipped', ''):
            raise vlib.MachineryError('the stack recorder failed: %s' % r['skipped'])
        if r.get('skipped') == 'no trace header' and not r.get('own_str'):
            check.violation(dict(kind='repo-test-message', test=r.get('test'), message=r.get('message'), cls=r.get('cls')),
                            'the message of an error raised by glom() in %s has no target-spec trace: %r'
                            % (r.get('test'), r.get('message')), matcher=match_finding)
        elif 'unparsed' in r:
            check.violation(dict(kind='repo-test-message', test=r.get('test'), message=r.get('message')),
                            'the trace lines of an error raised in %s do not nest (%s)' % (r.get('test'), r['unparsed']),
                            matcher=match_finding)
    check.cov['evaluations'] += len(good)
    rejects = vlib.validate_rows(check, 'Trace_Stack', good, 'repo-test-stacks', chunk=40)
    drift = 0
    for row, rej in rejects:
        if rej['clause'] == 'drift':
            drift += 1
            check.validated(1)
            check.extra.setdefault('repo_test_stack_drift', []).append(row['message'][:400])
            continue
        check.violation(dict(kind='repo-test-stack', test=row.get('test'), events=row['events'][:60], message=row['message'], clause=rej['clause']),
                        'the message of an error raised in %s breaks the %s law: %s'
                        % (row.get('test'), rej['clause'], row['message'][:300]), matcher=match_finding)
    check.extra['repo_test_failing_calls'] = len(good)
    check.extra['repo_test_stack_drift_rows'] = drift
    check.extra['repo_test_branching_messages'] = sum(1 for r in good if any(e['kind'] == 'B' for e in r['n']))


def run_mutants(check):
    rejected = []
    for m in ('nowalk', 'noforgive', 'lazydup'):
        res = vlib.run_tlc('MC_C05', cfg='MC_C05_' + m, constants=dict(MaxDepth=2, SecondDepth=0, MaxLeaves=4, Rich='TRUE', Alien='FALSE'))
        if not res['violated']:
            raise vlib.MachineryError('mechanism mutant %s not rejected by the C05 laws' % m)
        rejected.append('%s -> %s' % (m, res['violated']))
    check.extra['spec_mutants_rejected'] = rejected


def main(tier, seed):
    check = vlib.Check(PROP, tier, seed)
    runs = {'quick': [dict(MaxDepth=2, SecondDepth=0, MaxLeaves=4, Rich='TRUE', Alien='FALSE'),
                      dict(MaxDepth=2, SecondDepth=0, MaxLeaves=4, Rich='FALSE', Alien='TRUE')],
            'thorough': [dict(MaxDepth=2, SecondDepth=0, MaxLeaves=5, Rich='TRUE', Alien='FALSE'),
                         dict(MaxDepth=2, SecondDepth=0, MaxLeaves=4, Rich='TRUE', Alien='TRUE'),
                         dict(MaxDepth=2, SecondDepth=1, MaxLeaves=4, Rich='FALSE', Alien='FALSE')]}[tier]
    results = []
    for consts in runs:
        res, rs = vlib.map_states('MC_C05', worker, constants=consts)
        check.add_tlc(res, 'MC_C05 %s' % consts)
        results += rs
    consts = runs
    ndrift = 0
    for r in results:
        check.cov['evaluations'] += r['n']
        check.cov['distinct_nontrivial'] += r['nontrivial']
        check.validated(r['n'] - len(r['bad']))
        ndrift += len(r['drift'])
        for d in r['drift'][:1]:
            check.extra.setdefault('drift_examples', []).append(d)
        for s in r['samples']:
            check.sample(s)
        for b in r['bad']:
            check.violation(b['case'], b['why'], matcher=match_finding)
    check.extra['drift_replayed'] = ndrift
    run_mutants(check)
    repo_test_stacks(check)
    check.extra['recorded_rows'] = record(check, {'quick': 1500, 'thorough': 15000}[tier], seed)
    check.extra['constants'] = consts
    check.assumptions += ['payload text (reprs) is glom\'s own bbrepr of the real spec / target objects; truncation is accepted as a prefix',
                          'the wording of error messages is not compared, only class and, for planted errors, identity']
    return check.finish(rule='TLC explores every tree of depth <= MaxDepth over 7 binary composites, Not and Fill x every leaf-by-leaf '
                        'failure plan; each failing complete run is replayed; non-trivial = trace of at least 4 lines', exhaustive=True)
