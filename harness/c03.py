"""C03  Auto-mode restructuring is compositional in its sub-specs.

spec -> code: TLC enumerates spec trees bottom-up (spec/MC_C03.tla, several constructor
families / bounds) x a family of targets, evaluates GlomAuto!Eval and checks the
compositional laws (GlomAuto part 3) as invariants on every case; every case is rebuilt as
a real glom spec with instrumented callables, run, and the observed outcome (value graph up
to renaming of the cells glom built, error class, call log) is compared with the prediction.
code -> spec: random deeper specs (depth <= 5), generated type-directed against random
nested targets with the real library as a guide, are run and the recorded rows are validated
by TLC (spec/Trace_C03.tla) with the same Eval.
"""
import json
import random
import sys
import time

import glom
from glom import T, Spec, Val, Coalesce, Call, Invoke, Ref, Pipe, Fill, Auto, GlomError

import codec
import vlib
import c03_gen

PROP = 'C03'

EXC = {'GlomError': glom.GlomError, 'PathAccessError': glom.PathAccessError,
       'CoalesceError': glom.CoalesceError, 'UnregisteredTarget': glom.UnregisteredTarget,
       'KeyError': KeyError, 'IndexError': IndexError, 'LookupError': LookupError,
       'AttributeError': AttributeError, 'ValueError': ValueError, 'TypeError': TypeError,
       'Exception': Exception}


# ---- hardening: hostile / odd target classes (semantics: GlomAuto ObjLike, "gen") --------------------
class EqAll(codec.Obj):
    """claims to be equal to everything (== is not identity)"""
    def __eq__(self, other):
        return True

    def __ne__(self, other):
        return False
    __hash__ = object.__hash__


class EqRaise(codec.Obj):
    """comparison with anything that is not of its own class raises"""
    def __eq__(self, other):
        if type(other) is not type(self):
            raise TypeError('EqRaise compared with %s' % type(other).__name__)
        return self is other

    def __ne__(self, other):
        return not self.__eq__(other)
    __hash__ = object.__hash__


class SlotObj:
    """attribute object without __dict__, falsy although it holds data"""
    __slots__ = ('a', 'b', 'k', 'n', 'z', 'e', 'h', 'j', 'o', 'g', 'f')

    def __bool__(self):
        return False


class OneShot:
    """one-shot iterator with a pull counter (pulled = items actually handed out)"""
    def __init__(self, items):
        self._items = list(items)
        self.pulled = 0

    def __iter__(self):
        return self

    def __next__(self):
        if self.pulled >= len(self._items):
            raise StopIteration
        self.pulled += 1
        return self._items[self.pulled - 1]


PLAIN_X = dict(codec.PLAIN, eqall=EqAll, eqraise=EqRaise)
# second pass: every container / object class is a subclass that overrides __getitem__ / attribute access
# (codec.LOGGING) AND is falsy whatever it holds (codec._falsy); OrderedDicts have an order of their own
HARD_X = dict(codec.FALSY_LOGGING, eqall=codec._falsy(EqAll), eqraise=codec._falsy(EqRaise))


def make_heap(cells, classes, fns):
    """codec.Heap plus one-shot iterator cells ('gen'): built as a list, then swapped for a OneShot in
    every container that refers to it"""
    gens = [a for a, c in enumerate(cells, 1) if c['cls'] == 'gen']
    if classes is HARD_X and all(set(k['s'] for k, _ in c['items']) <= set(SlotObj.__slots__)
                                 for c in cells if c['cls'] == 'obj'):
        classes = dict(classes, obj=SlotObj)          # attribute objects without __dict__
    if not gens:
        return codec.Heap(cells, classes, fns)
    cells2 = [dict(cls='list', items=c['items']) if c['cls'] == 'gen' else c for c in cells]
    heap = codec.Heap(cells2, classes, fns)
    heap.cells = cells
    heap._keep = []
    for a in gens:
        lst = heap.objs[a]
        g = OneShot(lst)
        for b, o in heap.objs.items():
            if o is lst:
                continue
            if isinstance(o, dict):
                for k in [k for k, v in dict.items(o) if v is lst]:
                    dict.__setitem__(o, k, g)
            elif isinstance(o, list):
                for i in [i for i, v in enumerate(list.__iter__(o)) if v is lst]:
                    list.__setitem__(o, i, g)
            elif isinstance(o, (tuple, set, frozenset)):
                if any(v is lst for v in tuple.__iter__(o) if isinstance(o, tuple)) :
                    raise Unconstructible('one-shot iterator inside an immutable cell')
            else:
                for name in [n for n in (getattr(type(o), '__slots__', None) or vars(o).keys())
                             if getattr_raw(o, n) is lst]:
                    object.__setattr__(o, name, g)
        heap._keep.append(lst)
        del heap.ids[id(lst)]
        heap.objs[a] = g
        heap.ids[id(g)] = a
    return heap


def getattr_raw(o, n):
    try:
        return object.__getattribute__(o, n)
    except AttributeError:
        return None


def scramble(o, depth=3):
    """mutate what an evaluation handed out (see warm-up in observe)"""
    if depth == 0:
        return
    if isinstance(o, list):
        for x in list.__iter__(o):
            scramble(x, depth - 1)
        list.append(o, 'MUTATED')
    elif isinstance(o, dict):
        for x in list(dict.values(o)):
            scramble(x, depth - 1)
        dict.__setitem__(o, 'MUTATED', 'MUTATED')
    elif isinstance(o, set):
        set.add(o, 'MUTATED')


# ---- the library of user callables (semantics: GlomAuto!FnApply) ---------------------------
def mk_fns(log):
    def ident(t):
        return t

    def inc(t):
        return t + 1

    def size(t):
        return len(t)

    def is_none(t):
        return t is None

    def is_int(t):
        return isinstance(t, int)

    def ret_None(t):
        return None

    def ret_SKIP(t):
        return glom.SKIP

    def ret_STOP(t):
        return glom.STOP

    def raise_KeyError(t):
        raise KeyError('boom')

    def raise_ValueError(t):
        raise ValueError('boom')

    def raise_GlomError(t):
        raise GlomError('boom')

    def echo(*a, **kw):
        return [list(a), dict(kw)]

    def mk0():
        return 0

    def pair(x, y=7):
        return [x, y]

    class Tagged(codec.Obj):
        """a specifier CLASS (it defines glomit): used as a spec the class object is an ordinary callable"""
        def __init__(self, *a, **kw):
            log.append(('Tagged', a, kw))
            if len(a) != 1 or kw:
                raise TypeError('Tagged() takes exactly one argument')
            self.x = a[0]

        def glomit(self, target, scope):
            return self.x

    def wrap(impl):
        name = impl.__name__

        def f(*a, **kw):
            log.append((name, a, kw))       # logged before the body runs (holds the arguments alive)
            return impl(*a, **kw)
        f.__name__ = name
        return f
    return dict(Tagged=Tagged, **{f.__name__: wrap(f) for f in (ident, inc, size, is_none, is_int, ret_None, ret_SKIP, ret_STOP,
                                          raise_KeyError, raise_ValueError, raise_GlomError, echo,
                                          mk0, pair)})


# ---- abstract spec -> real glom spec ----------------------------------------------------------
import collections
PAIR = collections.namedtuple('PAIR', 'x y')


def skipval(heap, v):
    return [] if v['k'] == 'elist' else {} if v['k'] == 'edict' else heap.val(v)


class Unconstructible(Exception):
    """the abstract tree denotes no glom spec (the constructor refuses it)"""


def build(ast, heap):
    op = ast['op']
    b = lambda a: build(a, heap)
    if op == 'path':
        assert ast['text'] == '.'.join(ast['segs'])
        return ast['text']
    if op == 't':
        t = T
        for st in ast['steps']:
            a = heap.val(st['arg'])
            t = t[a] if st['op'] == '[' else getattr(t, a)
        return t
    if op == 'const':
        return heap.val(ast['v'])
    if op == 'fn':
        return heap.fns[ast['name']]
    if op == 'val':
        return Val(heap.val(ast['v']))
    if op == 'dict':
        d = codec.OrderedDict() if ast['ordered'] else {}
        for key, kid in zip(ast['keys'], ast['kids']):
            d[heap.val(key['v']) if key['lit'] else b(key['s'])] = b(kid)
        assert len(d) == len(ast['kids'])
        return d
    if op == 'list':
        return [b(k) for k in ast['kids']]
    if op == 'tuple':
        return tuple(b(k) for k in ast['kids'])
    if op == 'ntuple':
        return PAIR(*[b(k) for k in ast['kids']])           # a tuple subclass whose constructor takes fields
    if op == 'pipe':
        return Pipe(*[b(k) for k in ast['kids']])
    if op == 'spec':
        return Spec(b(ast['kids'][0]))
    if op == 'fill':
        return Fill(b(ast['kids'][0]))
    if op == 'auto':
        return Auto(b(ast['kids'][0]))
    if op == 'inspect':
        kw = dict(recursive=ast['rec'], echo=ast['echo'])
        if ast['bp']:
            kw['breakpoint'] = heap.fns[ast['bp']]
        if ast['pm']:
            kw['post_mortem'] = heap.fns[ast['pm']]
        return glom.Inspect(b(ast['kids'][0]), **kw)
    if op == 'set':
        try:
            items = [b(k) for k in ast['kids']]
            return frozenset(items) if ast['frozen'] else set(items)
        except TypeError:
            raise Unconstructible('unhashable spec inside a set')
    if op == 'sget':
        return getattr(glom.S, ast['name']) if ast['form'] == '.' else glom.S[ast['name']]
    if op == 'sset':
        return glom.S(**{n: b(k) for n, k in zip(ast['names'], ast['kids'])})
    if op == 'aset':
        return getattr(glom.A, ast['name'])
    if op == 'specs':
        return Spec(b(ast['kids'][0]), scope={n: heap.val(v) for n, v in ast['scope']})
    if op == 'ref':
        return Ref(ast['name'], b(ast['kids'][0])) if ast['def'] else Ref(ast['name'])
    if op == 'coalesce':
        kw = {}
        d, sk = ast['dflt'], ast['skip']
        if d['kind'] == 'arg':
            kw['default'] = b(d['a'])
        elif d['kind'] == 'factory':
            kw['default_factory'] = heap.fns[d['name']]
        if sk['kind'] == 'val':
            kw['skip'] = skipval(heap, sk['v'])
        elif sk['kind'] == 'tuple':
            kw['skip'] = tuple(skipval(heap, v) for v in sk['vs'])
        elif sk['kind'] == 'pred':
            kw['skip'] = heap.fns[sk['name']]
        if ast['skipexc'] != ['GlomError']:
            ex = tuple(EXC[c] for c in ast['skipexc'])
            kw['skip_exc'] = ex[0] if len(ex) == 1 else ex
        return Coalesce(*[b(k) for k in ast['kids']], **kw)
    if op == 'call':
        return Call(b(ast['func']), b(ast['args']), b(ast['kwargs']))
    if op == 'invoke':
        inv = Invoke(b(ast['func']))
        for c in ast['chunks']:
            if c['c'] == 'C':
                inv = inv.constants(*[heap.val(v) for v in c['args']],
                                    **{k['s']: heap.val(v) for k, v in c['kw']})
            elif c['c'] == 'S':
                inv = inv.specs(*[b(a) for a in c['args']], **{k['s']: b(v) for k, v in c['kw']})
            else:                      # (a literal None means "not given", as in the model)
                a = b(c['args'][0]) if c['args'] else None
                k = b(c['kw'][0]) if c['kw'] else None
                if a is None and k is None:
                    raise Unconstructible('star() without args and kwargs')
                inv = inv.star(args=a, kwargs=k)
        return inv
    raise vlib.MachineryError('unknown spec op %r' % (op,))


# ---- run the real library and project what C03 names ---------------------------------------------
NO_OPTS = {'dflt': [], 'skipexc': [], 'scope': []}


def observe(cells, root, ast, opts=NO_OPTS, hard=False):
    """hard: second-pass conditions.  The targets are instances of subclasses of the builtin containers that
    override item / attribute access and are falsy whatever they hold, and the spec object has been used
    before: it was evaluated on an equal but distinct target graph and on 0, and everything those
    evaluations handed out was mutated.  Neither must change what the spec means now."""
    log = []
    out = []
    fns = mk_fns(log)
    heap = make_heap(cells, HARD_X if hard else PLAIN_X, fns)
    spec = build(ast, heap)
    target = heap.val(root)
    if hard:
        twin = make_heap(cells, HARD_X, fns)
        glom.core.print = lambda *a: None
        limit = sys.getrecursionlimit()
        sys.setrecursionlimit(220)           # (a warm-up that recurses without end is cut short: its outcome is not used)
        try:
            for wt in (twin.val(root), 0):
                try:
                    scramble(glom.glom(wt, spec))
                except Exception:
                    pass
                for _, a, kwa in log:
                    for x in list(a) + list(kwa.values()):
                        if id(x) not in twin.ids:
                            scramble(x)
                del log[:]
        finally:
            sys.setrecursionlimit(limit)
            del glom.core.print
    kw = {}
    if opts['dflt']:
        kw['default'] = heap.val(opts['dflt'][0])
    if opts['skipexc']:
        ex = tuple(EXC[c] for c in opts['skipexc'][0])
        kw['skip_exc'] = ex[0] if len(ex) == 1 else ex
    if opts['scope']:
        kw['scope'] = {n: heap.val(v) for n, v in opts['scope']}

    def report(*a):
        # Inspect prints '---', 'path:  ' <list>, 'target:' <target>, 'output:' <result>; the printed
        # objects themselves are kept (and projected like call arguments), wording is not compared
        if a and a[0] == 'target:':
            out.append(('in', a[1]))
        elif a and a[0] == 'output:':
            out.append(('out', a[1]))
    glom.core.print = report          # module-level name shadows the builtin for glom.core only
    try:
        res = glom.glom(target, spec, **kw)
        ok, exc = True, ''
    except RecursionError:
        return {'skip': 'div'}
    except Exception as e:
        ok, exc, res = False, codec.exc_class_name(e), None
    finally:
        del glom.core.print
    fresh = {'cells': [], 'ids': {}}
    plog = []
    for name, a, kw in log:
        plog.append({'fn': name, 'args': [heap.project(x, fresh) for x in a],
                     'kw': [[{'k': 'str', 's': k}, heap.project(v, fresh)] for k, v in kw.items()]})
    pout = [{'k': k, 'v': heap.project(x, fresh)} for k, x in out]
    v = heap.project(res, fresh) if ok else {'k': 'none'}
    gens = [[a, heap.objs[a].pulled] for a, c in enumerate(cells, 1) if c['cls'] == 'gen']
    return {'ok': ok, 'v': v, 'exc': exc, 'log': plog, 'out': pout, 'gens': gens, 'cells': fresh['cells'], 'skip': ''}


FIELDS = (('ok', 'outcome'), ('exc', 'error class'), ('log', 'call log'), ('out', 'Inspect reports'), ('gens', 'iterator pulls'), ('v', 'value'),
          ('cells', 'value graph'))


def compare(pred, obs):
    for f, what in FIELDS:
        if pred[f] != obs[f]:
            return '%s: predicted %s observed %s' % (what, json.dumps(pred[f])[:300], json.dumps(obs[f])[:300])
    return None


def nontrivial(ast):
    """a composite whose parts are not all leaves of the same kind: depth >= 2"""
    return c03_gen.depth(ast) >= 2


TARGET_HEAP = None
# the second pass (subclassed falsy targets, spec object used before and its results mutated) costs about
# four plain replays: the quick tier runs it on every fourth case (every second case of the hardening
# universes), the thorough tier on every case
SECOND_PASS_EVERY = 4
ALWAYS_SECOND = ('q_falsy', 'q_falsyc', 'q_falsy2', 'q_hard', 'q_hardc', 'q_idx')


def worker(states):
    res = dict(fams={}, bad=[], samples=[], n=0)
    for st in states:
        if st.get('phase') != 1:
            continue
        out = res['fams'].setdefault(st['fam'], dict(cases=0, skipped={}, nontrivial=0, ok=0, outcomes={}))
        pred, ast, root = st['pred'], st['stack'][0]['s'], st['root']
        if pred['skip']:
            out['skipped'][pred['skip']] = out['skipped'].get(pred['skip'], 0) + 1
            continue
        try:
            obs = observe(TARGET_HEAP, root, ast, st['opts'])
        except Unconstructible:
            out['skipped']['unconstructible'] = out['skipped'].get('unconstructible', 0) + 1
            continue
        out['cases'] += 1
        if nontrivial(ast):
            out['nontrivial'] += 1
        key = 'ok' if pred['ok'] else pred['exc']
        out['outcomes'][key] = out['outcomes'].get(key, 0) + 1
        why = 'model says terminating, library hit RecursionError' if obs['skip'] else compare(pred, obs)
        hard = False
        res['n'] += 1
        every = SECOND_PASS_EVERY if st['fam'] not in ALWAYS_SECOND else min(2, SECOND_PASS_EVERY)
        if not why and res['n'] % every == 0:
            # second pass: falsy / overriding container subclasses as targets, spec object used before
            hard = True
            obs = observe(TARGET_HEAP, root, ast, st['opts'], hard=True)
            why = 'model says terminating, library hit RecursionError' if obs['skip'] else compare(pred, obs)
            if why:
                why = '[second pass: subclassed falsy targets, reused spec] ' + why
        if why:
            res['bad'].append(dict(why=why, case=dict(universe=st['fam'], heap=TARGET_HEAP, root=root, spec=ast,
                                                      opts=st['opts'], hard=hard, pred=pred, obs=obs)))
        else:
            out['ok'] += 1
            if len(res['samples']) < 1 and pred['ok'] and pred['log'] and pred['cells'] and c03_gen.depth(ast) >= 3:
                res['samples'].append(dict(universe=st['fam'], root=root, spec=ast, shown=c03_gen.show(ast), pred=pred))
    return res


# ---- code -> spec --------------------------------------------------------------------------------
def record(check, n, seed):
    import signal

    def stuck(*_):
        raise vlib.MachineryError('a generated spec ran for more than 20 s: %s' % c03_gen.show(ast))
    rng = random.Random(seed)
    rows = []
    guide_fail = 0
    ast = None
    signal.signal(signal.SIGALRM, stuck)
    while len(rows) < n:
        signal.alarm(20)
        cells, root = c03_gen.rand_target(rng)
        gen = c03_gen.Gen(rng, cells, lambda ast, tgt_obj, heap: glom.glom(tgt_obj, build(ast, heap)), mk_fns,
                          make_heap=lambda cs, fns: make_heap(cs, PLAIN_X, fns))
        ast = gen.spec(root, rng.randint(2, 5))
        opts = gen.top_opts()
        try:
            hard = rng.random() < 0.5
            obs = observe(cells, root, ast, opts, hard=hard)
        except Unconstructible:
            continue
        if obs['skip']:
            guide_fail += 1
            continue
        obs.pop('skip')
        rows.append(dict(heap=cells, root=root, spec=ast, opts=opts, hard=hard, obs=obs))
    signal.alarm(0)
    rejects = vlib.validate_rows(check, 'Trace_C03', rows, 'random-specs')
    skipped = 0
    for row, rej in rejects:
        row['_rejected'] = True
        if rej['clause'].startswith('skip:'):
            skipped += 1          # outside the modelled fragment: not judged (and not counted as validated)
            continue
        check.violation(dict(row=row, clause=rej['clause']),
                        'recorded execution rejected by the specification: clause %s' % rej['clause'],
                        matcher=match_finding)
    check.extra['recorded_rows'] = len(rows)
    check.extra['recorded_rows_dropped_recursion_limit'] = guide_fail
    check.extra['recorded_rows_outside_fragment'] = skipped
    check.extra['recorded_depth_histogram'] = c03_gen.histogram(c03_gen.depth(r['spec']) for r in rows)
    check.extra['recorded_outcomes'] = c03_gen.histogram(('ok' if r['obs']['ok'] else r['obs']['exc']) for r in rows)
    for row in rows:
        if c03_gen.depth(row['spec']) >= 4 and row['obs']['ok'] and row['obs']['log']:
            check.sample(dict(kind='recorded', **{k: v for k, v in row.items() if k != '_rejected'}), limit=6)
            break
    return rows


def corrupted_row_is_rejected(check, rows):
    """machinery self-test: take a row the specification ACCEPTED, drop one call from its recorded
    log: the specification must now reject it.  Returns None when no accepted row is available
    (e.g. everything is being rejected: then there is nothing this self-test could add)."""
    import copy
    good = [r for r in rows if not r.get('_rejected') and r['obs']['ok'] and r['obs']['log']]
    if not good:
        return None
    row = copy.deepcopy(good[0])
    row['obs']['log'] = row['obs']['log'][1:]
    tmp = vlib.Check(PROP, check.tier, check.seed)
    rej = vlib.validate_rows(tmp, 'Trace_C03', [row], 'corrupted')
    return len(rej) == 1 and rej[0][1]['clause'] == 'calllog'


def match_finding(f, case):
    return False


# ---- universes (defined in spec/MC_C03.tla, operator Conf) ------------------------------------------
FAMILIES = {
    'quick': ['q_nest', 'q_pairs', 'q_leaves', 'q_coal1', 'q_calls', 'q_modes', 'q_ref',
              'q_coaln1', 'q_coaln2', 'q_chains', 'q_inspect', 'q_scope', 'q_sets', 'q_top', 'q_refscope',
              'q_falsy', 'q_falsyc', 'q_falsy2', 'q_hard', 'q_hardc', 'q_idx', 'q_cls'],
    'thorough': ['t_nest', 't_nest5', 't_leaves', 't_coal', 't_calls', 't_callnest', 't_modes', 't_ref',
                 'q_coaln1', 'q_coaln2', 't_chains', 't_inspect', 't_scope', 't_sets', 't_top', 't_refscope',
                 't_falsy', 't_hard', 't_hard2', 'q_falsyc', 'q_falsy2', 'q_hardc', 'q_idx', 'q_cls'],
}
# wrong mechanism variants (GlomAuto env.mut) and the small universe on which TLC must report
# the law violated
MUTANTS = [('tuple_skip_breaks', 'm_chain'), ('coalesce_eager', 'm_coal'), ('dict_stop_skips', 'm_dict'),
           ('invoke_first', 'm_invoke'), ('inspect_twice', 'm_inspect'), ('top_default_any', 'm_top'),
           ('set_as_list', 'm_set'), ('sset_not_forward', 'm_scope'), ('ref_global', 'm_ref'),
           ('list_drains_after_stop', 'm_gen'), ('sentinel_by_eq', 'm_sent')]


def tla_set(names):
    return '{%s}' % ', '.join('"%s"' % n for n in names)


def _case_chunk(text):
    """parse only the finished cases (phase 1) of a dump chunk: the intermediate states of the tree
    construction are the majority and carry nothing to replay"""
    import re
    blocks = re.split(r'^(?=State \d+:\n)', text, flags=re.M)
    keep = ''.join(b for b in blocks if '/\\ phase = 1' in b)
    return worker(vlib._parse_chunk_text(keep)) if keep else dict(fams={}, bad=[], samples=[])


def map_cases(families, timeout=7200, heap='3g'):
    """TLC with -dump on the given universes, then replay of every dumped case in parallel (like
    vlib.map_states; the target heap printed by the specification is installed before forking)"""
    global TARGET_HEAP
    import multiprocessing as mp
    import os
    import shutil
    import tempfile
    scratch = tempfile.mkdtemp(prefix='glomverif_c03_')
    try:
        path = os.path.join(scratch, 'states')
        res = vlib.run_tlc('MC_C03', cfg='MC_C03_base', timeout=timeout, heap=heap, extra=('-dump', path),
                           constants=dict(Families=tla_set(families), Mutant='"none"'))
        vlib.tlc_must_pass(res, 'MC_C03 %s' % (families,))
        TARGET_HEAP = [j for j in res['json'] if 'targetheap' in j][0]['targetheap']
        with mp.get_context('fork').Pool(vlib.NCPU) as pool:
            results = list(pool.imap_unordered(_case_chunk, vlib._dump_chunks(path + '.dump')))
        return res, results
    finally:
        shutil.rmtree(scratch, ignore_errors=True)


def run_families(check, families, heap='3g'):
    res, results = map_cases(families, heap=heap)
    check.add_tlc(res, 'MC_C03 %s' % ' '.join(families))
    per = {}
    for r in results:
        for fam, t in r['fams'].items():
            tot = per.setdefault(fam, dict(cases=0, nontrivial=0, ok=0, skipped={}, outcomes={}))
            for k in ('cases', 'nontrivial', 'ok'):
                tot[k] += t[k]
            for d in ('skipped', 'outcomes'):
                for k, v in t[d].items():
                    tot[d][k] = tot[d].get(k, 0) + v
        for s in r['samples']:
            check.sample(s, limit=3)
        for b in r['bad']:
            check.violation(b['case'], b['why'], matcher=match_finding)
    for fam in families:
        tot = per.get(fam)
        if not tot or tot['cases'] == 0:
            raise vlib.MachineryError('universe %s produced no cases' % fam)
        check.cov['evaluations'] += tot['cases']
        check.cov['distinct_nontrivial'] += tot['nontrivial']
        check.validated(tot['ok'])
    check.extra['universes'] = dict(sorted(per.items()))
    return per


def main(tier, seed):
    global SECOND_PASS_EVERY
    SECOND_PASS_EVERY = 4 if tier == 'quick' else 1
    check = vlib.Check(PROP, tier, seed)
    t0 = time.time()
    run_families(check, FAMILIES[tier], heap='3g' if tier == 'quick' else '6g')
    check.extra['wall_spec_to_code_s'] = round(time.time() - t0, 1)
    t0 = time.time()
    rows = record(check, {'quick': 6000, 'thorough': 40000}[tier], seed)
    check.extra['wall_code_to_spec_s'] = round(time.time() - t0, 1)
    selftest = corrupted_row_is_rejected(check, rows)
    check.extra['corrupted_row_rejected'] = selftest
    if selftest is False and not check.violations:      # (a detection is never masked by a self-test)
        raise vlib.MachineryError('a corrupted recorded row was not rejected by Trace_C03')
    if tier == 'thorough':
        mut = {}
        for name, fam in MUTANTS:
            res = vlib.run_tlc('MC_C03', cfg='MC_C03_base',
                               constants=dict(Families=tla_set([fam]), Mutant='"%s"' % name))
            mut[name] = res['violated']
            if res['violated'] not in ('Laws', 'TopLaw', 'Once'):
                raise vlib.MachineryError('spec mutant %s: expected TLC to report Laws / TopLaw / Once violated on %s, got %r'
                                          % (name, fam, res['violated']))
        check.extra['spec_mutants_detected_by_tlc'] = mut
    check.assumptions += [
        'user callables come from a fixed library (ident, inc, size, is_none, is_int, ret_SKIP, ret_STOP, raise_*, '
        'echo, mk0, pair) whose semantics are TLA+ operators; they do not mutate their arguments',
        'equality between two distinct containers, hashing of tuples, truthiness of sentinels, iteration order of '
        'sets with more than one element, OrderedDict templates in Fill / argument mode and identity of the empty '
        'tuple are outside the modelled fragment: such cases are flagged by the model and not compared',
        'chains whose non-last direct step is Fill / Auto / a defining Ref are excluded (scope chaining: C07 / C08)',
        'Ref recursion is cut off by a fuel of 8 unfoldings per path (deeper cases are dropped, not compared)',
        'within one dict entry the value spec is evaluated before a T / Spec key (as the code does); the laws only '
        'order whole entries',
        'T steps are attribute / item access with literal arguments (arithmetic, calls, wildcards: C02 / C14)',
        'TLC, the Json community module and the codec are trusted',
    ]
    return check.finish(rule='TLC builds every spec tree within the depth / node / width bounds of each configuration '
                        'by constructor choice (postfix stack machine) and pairs it with every root of the target family; '
                        'each case is replayed with instrumented callables; non-trivial = nesting depth >= 2; recorded '
                        'rows are random type-directed specs of depth <= 5 on random targets',
                        exhaustive=True)


def replay(path):
    with open(path) as f:
        v = json.load(f)
    case = v['case']
    if 'row' in case:
        case = dict(heap=case['row']['heap'], root=case['row']['root'], spec=case['row']['spec'],
                    opts=case['row'].get('opts', NO_OPTS), hard=case['row'].get('hard', False), pred=None,
                    recorded=case['row']['obs'])
    opts = case.get('opts', NO_OPTS)
    obs = observe(case['heap'], case['root'], case['spec'], opts, hard=case.get('hard', False))
    print('spec   :', c03_gen.show(case['spec']))
    print('top-level:', json.dumps(opts))
    print('target :', json.dumps(case['root']), 'in heap', json.dumps(case['heap']))
    print('observed:', json.dumps(obs))
    if case.get('pred'):
        print('predicted:', json.dumps(case['pred']))
        why = compare(case['pred'], obs)
        print('verdict:', why or 'agrees')
        return 1 if why else 0
    tmp = vlib.Check(PROP, 'quick', 0)
    obs.pop('skip', None)
    rej = vlib.validate_rows(tmp, 'Trace_C03', [dict(heap=case['heap'], root=case['root'], spec=case['spec'], opts=opts, obs=obs)], 'replay')
    print('verdict:', 'rejected: %s' % rej[0][1] if rej else 'accepted by the specification')
    return 1 if rej else 0
