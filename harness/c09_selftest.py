"""Self-test of the C09 / C10 binding (run by hand, not by bin/check):
hand-made semantic mutants of glom/matching.py are applied to a scratch copy of the repository
(tempfile, removed afterwards; /repo is never touched); for each the repository's own tests are
run (does the suite notice?) and `bin/check <Cxx> --tier quick` must print VIOLATION.

usage:  /venv/bin/python harness/c09_selftest.py [C09|C10] [mutant-name ...]
"""
import os
import shutil
import subprocess
import sys
import tempfile

VERIF = os.path.dirname(os.path.dirname(os.path.abspath(__file__)))

MUTANTS = {
    'C09': [
        ('dict-exact-type', "    if not isinstance(target, dict):\n        raise TypeMatchError(type(target), dict)",
         "    if type(target) is not dict:\n        raise TypeMatchError(type(target), dict)"),
        ('callable-exception-propagates', "        except Exception as e:\n            raise MatchError(\n                \"{0}({1!r}) did not validate (got exception {2!r})\"",
         "        except TypeError as e:\n            raise MatchError(\n                \"{0}({1!r}) did not validate (got exception {2!r})\""),
        ('default-when-present', "    for key in set(defaults) - set(result):", "    for key in set(defaults):"),
        ('type-exact', "        if not isinstance(target, spec):\n            raise TypeMatchError(type(target), spec)",
         "        if type(target) is not spec and spec is not object:\n            raise TypeMatchError(type(target), spec)"),
        ('later-keys-after-value-mismatch',
         "            try:\n                key = scope[glom](key, spec_key, scope)\n            except GlomError:\n                pass\n"
         "            else:\n                result[key] = scope[glom](val, spec[maybe_spec_key], chain_child(scope))\n",
         "            try:\n                key2 = scope[glom](key, spec_key, scope)\n"
         "                val2 = scope[glom](val, spec[maybe_spec_key], chain_child(scope))\n            except GlomError:\n                pass\n"
         "            else:\n                key = key2\n                result[key] = val2\n"),
        ('defaults-written-into-target', "        result[key] = arg_val(target, defaults[key], scope)",
         "        result[key] = target[key] = arg_val(target, defaults[key], scope)"),
        ('regex-fullmatch-is-match', "                match_func = regex.fullmatch", "                match_func = regex.match"),
        ('tuple-length-unchecked', "        if len(target) != len(spec):", "        if len(target) < len(spec):"),
    ],
    'C10': [
        ('or-returns-last', "        for child in self.children[:-1]:\n            try:  # one child must match without exception\n"
         "                return scope[glom](target, child, scope)\n            except GlomError:\n                pass\n"
         "        return scope[glom](target, self.children[-1], scope)",
         "        res = _MISSING\n        for child in self.children:\n            try:\n                res = scope[glom](target, child, scope)\n"
         "            except GlomError as e:\n                err = e\n        if res is _MISSING:\n            raise err\n        return res"),
        ('and-returns-first', "            result = scope[glom](target, child, scope)\n        return result",
         "            r = scope[glom](target, child, scope)\n            if child is self.children[0]:\n                result = r\n        return result"),
        ('switch-falls-through', "            return scope[glom](target, valspec, chain_child(scope))",
         "            try:\n                return scope[glom](target, valspec, chain_child(scope))\n            except GlomError:\n                continue"),
        ('one-of-identity', "        if self.vals and target not in self.vals:",
         "        if self.vals and not any(target is v for v in self.vals):"),
        ('ge-is-gt', "            (op == 'g' and lhs >= rhs) or", "            (op == 'g' and lhs > rhs) or"),
        ('msub-returns-subvalue', "        matched = (\n            (op == '=' and lhs == rhs) or",
         "        if type(self.lhs) is _MSubspec:\n            target = lhs\n        matched = (\n            (op == '=' and lhs == rhs) or"),
        ('check-type-isinstance', "        if self.types and type(target) not in self.types:",
         "        if self.types and not isinstance(target, tuple(self.types)):"),
        ('bool-default-catches-everything', "        try:\n            return self._glomit(target, scope)\n        except GlomError:",
         "        try:\n            return self._glomit(target, scope)\n        except Exception:"),
    ],
}


def run(prop, names):
    results = []
    for name, old, new in MUTANTS[prop]:
        if names and name not in names:
            continue
        tmp = tempfile.mkdtemp(prefix='glom_selftest_')
        try:
            repo = os.path.join(tmp, 'repo')
            shutil.copytree('/repo', repo, ignore=shutil.ignore_patterns('.git', '__pycache__'))
            path = os.path.join(repo, 'glom', 'matching.py')
            text = open(path).read()
            if text.count(old) != 1:
                raise SystemExit('mutant %s: pattern occurs %d times' % (name, text.count(old)))
            open(path, 'w').write(text.replace(old, new))
            t = subprocess.run(['/venv/bin/python', '-m', 'pytest', '-q', '-x', '-p', 'no:cacheprovider', 'glom/test',
                                '--deselect', 'glom/test/test_cli.py'], cwd=repo, capture_output=True, text=True)
            suite = 'suite FAILS' if t.returncode else 'suite passes'
            env = dict(os.environ, GLOM_REPO=repo)
            c = subprocess.run([os.path.join(VERIF, 'bin', 'check'), prop, '--tier', 'quick'], env=env, capture_output=True, text=True)
            viol = [l for l in c.stdout.splitlines() if l.startswith('VIOLATION') or l.strip().startswith('why:')]
            verdict = 'DETECTED' if c.returncode == 1 and viol else 'MISSED (exit %d)' % c.returncode
            results.append((name, suite, verdict))
            print('%s %-34s %-12s %s' % (prop, name, suite, verdict))
            for l in viol[:2]:
                print('     ', l[:200])
            sys.stdout.flush()
        finally:
            shutil.rmtree(tmp, ignore_errors=True)
    return results


if __name__ == '__main__':
    run(sys.argv[1], sys.argv[2:])
