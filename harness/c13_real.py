"""C13 helper: the real side of the binding.

* Universe: builds real Python classes from the class table of the specification
  (spec/MC_C13.tla, ClassTab) or from a randomly generated table, and checks / observes the
  class relations (issubclass, isinstance, autodiscovery) the specification works with.
* Env: the registries of one behaviour (module-level default registry, Glommer(),
  Glommer(register_default_types=False)); register / observe through the public API; the
  process-global default registry is restored to its import-time state before every behaviour.
* handlers are tagged with (type name, serial); builtin handlers are recognised by their effect
  on a crafted target (the same effect the builtin function has when applied directly).
"""
import abc
import collections
import gc
import operator
import types
from collections import OrderedDict

import glom
import glom.core as gcore
import glom.mutation as gmut
from glom import Glommer, Assign, Delete, T, Path, Iter
from glom.core import (TargetRegistry, UnregisteredTarget, PathAccessError, PathAssignError,
                       _AbstractIterable, _ObjStyleKeys, _DEFAULT_SCOPE)

import vlib

ALL_OPS = ['get', 'iterate', 'keys', 'assign', 'delete']
X_OPS = ['cauto', 'cplain']      # operations added with register_op by a behaviour: with / without autodiscovery
BUILTIN_REAL = {'object': object, 'dict': dict, 'list': list, 'tuple': tuple, 'OrderedDict': OrderedDict,
                '_AbstractIterable': _AbstractIterable, '_ObjStyleKeys': _ObjStyleKeys, 'generator': types.GeneratorType}
DUCKS = ('_AbstractIterable', '_ObjStyleKeys')


def custom_default(target):
    """what the autodiscovery function of the custom operation 'cauto' finds for every type but tuples"""
    return 'custom-default'


def cauto_discover(type_obj):
    return False if issubclass(type_obj, tuple) else custom_default


# builtin handler functions <-> the names the specification uses
BUILTIN_FN = {'getattr': getattr, 'getitem': operator.getitem, 'seqitem': gcore._get_sequence_item,
              'iter': iter, 'dictkeys': dict.keys, 'odkeys': OrderedDict.keys,
              'objkeys': _ObjStyleKeys.get_keys, 'setattr': setattr, 'setitem': operator.setitem,
              'setseq': gmut._set_sequence_item, 'delattr': delattr, 'delitem': operator.delitem,
              'delseq': gmut._del_sequence_item, 'customdefault': custom_default}
BUILTIN_BY_OP = {'get': ['getattr', 'getitem', 'seqitem'], 'iterate': ['iter'], 'keys': ['dictkeys', 'odkeys', 'objkeys'],
                 'assign': ['setattr', 'setitem', 'setseq'], 'delete': ['delattr', 'delitem', 'delseq'],
                 'cauto': ['customdefault'], 'cplain': []}
PROBED_OPS = ('keys', 'cauto', 'cplain')     # observed through a custom specifier that returns the handler itself
FALSE_H = {'o': 'False', 'n': 0}
CALLS = []        # (type name, serial, op) of every user handler that ran
ITER_ALL = Iter().all()     # one streaming spec object, reused for every 'iterate' observation of the process
ON_CALL = []      # at most one callable, run (once) from inside the next user handler that is called (re-entrancy)
PULLS = []        # one entry per item pulled from a generator target


def fn_tag(h):
    """abstract tag of a handler object found in a registry"""
    if h is False:
        return dict(FALSE_H)
    t = getattr(h, 'c13_tag', None)
    if t is not None:
        return {'o': t[0], 'n': t[1]}
    for name, f in BUILTIN_FN.items():
        if h is f:
            return {'o': name, 'n': 0}
    raise vlib.MachineryError('handler %r is not one the C13 universe knows' % (h,))


def _called(tname, n, op):
    CALLS.append((tname, n, op))
    if ON_CALL:
        ON_CALL.pop()()          # e.g. a registration made while the handler runs


_RESULT = {'get': lambda: 'U', 'iterate': lambda: iter(()), 'keys': lambda: ['0'], 'assign': lambda: None,
           'delete': lambda: None, 'cauto': lambda: 'U', 'cplain': lambda: 'U'}


class FalsyHandler:
    """a handler object that is callable but falsy and claims to be equal to everything: a registry must treat
    handlers by identity (`is False` means 'not supported', nothing else does)"""
    def __init__(self, op, tname, n):
        self.op, self.c13_tag = op, (tname, n)

    def __bool__(self):
        return False

    def __eq__(self, other):
        return True

    def __ne__(self, other):
        return False

    def __hash__(self):
        return 7

    def __call__(self, *args):
        _called(self.c13_tag[0], self.c13_tag[1], self.op)
        return _RESULT[self.op]()


def mk_handler(op, tname, n):
    """a handler tagged (type name, serial): plain functions for odd serials, falsy callable objects for even ones"""
    if n % 2 == 0:
        return FalsyHandler(op, tname, n)

    def h(*args):
        _called(tname, n, op)
        return _RESULT[op]()
    h.c13_tag = (tname, n)
    return h


class Probe:
    """custom specifier (documented extension route): which handler does the registry in scope hand out for the
    target and this operation ('keys' and the operations added with register_op have no other public consumer
    that shows the handler)"""
    def __init__(self, op):
        self.op = op

    def glomit(self, target, scope):
        return scope[TargetRegistry].get_handler(self.op, target)


def _falsy(self):
    return False


def _gen_target():
    PULLS.append(1)
    yield 'EL'


class _QuackMeta(type):
    def __instancecheck__(cls, obj):
        return hasattr(obj, 'quack')


def _iter_method(self):
    return iter(('EL',))


class Universe:
    """real classes for a class table {name: {bases, dict, iter, kind, [special, virt, quack, abstract, eph]}}
    special: 'abc' (abc.ABCMeta class other classes are registered with: virt), 'instancecheck' (duck type by
    metaclass __instancecheck__: objects with an attribute `quack`), 'namedtuple', 'generator' (the builtin type);
    eph: the class object is thrown away and rebuilt for every instance (types created and destroyed between
    operations: addresses get reused).  Instances of the user classes are falsy (__bool__ returns False) although
    they hold data."""

    def __init__(self, classes):
        self.classes = classes
        self.real = dict(BUILTIN_REAL)
        todo = [n for n in classes if n not in self.real]
        while todo:
            progress = False
            for n in list(todo):
                if all(b in self.real for b in classes[n]['bases']):
                    self.real[n] = self._build(n)   # may raise TypeError
                    todo.remove(n)
                    progress = True
            if not progress:
                raise vlib.MachineryError('class table has a cycle / unknown base: %s' % todo)
        for n, c in classes.items():
            for v in c.get('virt', ()):
                self.real[v].register(self.real[n])
        self.abstract = [n for n, c in classes.items() if c.get('abstract')]
        self.concrete = [n for n in self.real if n not in DUCKS and n not in self.abstract]
        self.types = list(self.real)
        self.name = {cls: n for n, cls in self.real.items()}
        self._sig = {}

    def _build(self, n):
        c = self.classes[n]
        bases = tuple(self.real[b] for b in c['bases'])
        sp = c.get('special')
        if sp == 'namedtuple':
            return collections.namedtuple(n, ['f0'])
        ns = {'__bool__': _falsy}
        if not c['dict']:
            ns['__slots__'] = ()
        if c['iter']:
            ns['__iter__'] = _iter_method
        if list(c['bases']) == ['object']:
            ns['0'] = 'CATTR'
        if c.get('quack'):
            ns['quack'] = True
        meta = abc.ABCMeta if sp == 'abc' else _QuackMeta if sp == 'instancecheck' else type
        return meta(n, bases, ns)

    # -- instances -----------------------------------------------------------------------
    def make(self, tname):
        c = self.classes.get(tname, {})
        if c.get('eph'):
            # a new class object every time; the previous one becomes garbage as soon as no registry memo holds it
            old = self.real[tname]
            self.name.pop(old, None)
            cls = self.real[tname] = self._build(tname)
            for v in c.get('virt', ()):
                self.real[v].register(cls)
            self.name[cls] = tname
            del old
            self._rebuilt = getattr(self, '_rebuilt', 0) + 1
            if self._rebuilt % 25 == 0:
                gc.collect()     # class objects sit in reference cycles: only the collector frees them (and their ids)
        cls = self.real[tname]
        if tname == 'generator':
            return _gen_target()
        if c.get('special') == 'namedtuple':
            return cls('IDX')
        if issubclass(cls, OrderedDict):
            obj = cls([('0', 'ITEM')])
        elif issubclass(cls, dict):
            obj = cls({'0': 'ITEM'})
        elif issubclass(cls, list):
            obj = cls(['IDX'])
        elif issubclass(cls, tuple):
            obj = cls(('IDX',))
        else:
            obj = cls()
        if hasattr(obj, '__dict__'):
            obj.__dict__['0'] = 'ATTR'
        return obj

    @staticmethod
    def state(obj):
        return (type(obj).__name__,
                list(obj.items()) if isinstance(obj, dict) else list(obj) if isinstance(obj, (list, tuple)) else None,
                sorted(vars(obj).items()) if hasattr(obj, '__dict__') else None)

    # -- observed class relations ----------------------------------------------------------
    def observed_tables(self):
        sub = {a: sorted(b for b in self.types if issubclass(self.real[a], self.real[b])) for a in self.types}
        inst = {a: sorted(c for c in self.types if isinstance(self.make(a), self.real[c])) for a in self.concrete}
        auto = self._auto_table()
        mro = {a: [self.name[c] for c in self.real[a].__mro__] for a in self.concrete}
        return dict(sub=sub, inst=inst, auto=auto, mro=mro)

    def _auto_table(self):
        """handler autodiscovered for (op, type).  Shortcut: the registry's autodiscovery functions, if its private
        representation still offers them; otherwise derived from public behaviour: what a bare Glommer does for an
        instance of T after a keyword-less register(T) (the two duck types cannot be instantiated: their documented
        object-like defaults are used)."""
        try:
            reg = TargetRegistry(register_default_types=False)
            dreg = _DEFAULT_SCOPE[TargetRegistry]
            autof = {'get': reg._op_auto_map['get'], 'iterate': reg._op_auto_map['iterate'],
                     'assign': dreg._op_auto_map['assign'], 'delete': dreg._op_auto_map['delete'],
                     'keys': lambda t: False, 'cauto': cauto_discover, 'cplain': lambda t: False}
            return {op: {t: fn_tag(autof[op](self.real[t]))['o'] for t in self.types} for op in ALL_OPS + X_OPS}
        except Exception:
            UNOBSERVABLE['autodiscovery functions'] = UNOBSERVABLE.get('autodiscovery functions', 0) + 1
        duck = {'get': 'getattr', 'iterate': 'False', 'keys': 'False', 'assign': 'setattr', 'delete': 'delattr'}
        auto = {op: {} for op in ALL_OPS + X_OPS}
        for t in self.types:
            auto['cauto'][t] = fn_tag(cauto_discover(self.real[t]))['o']     # the harness's own functions
            auto['cplain'][t] = 'False'
            if t in DUCKS or t in self.abstract:
                for op in ALL_OPS:
                    auto[op][t] = duck[op]
                continue
            env = Env(self, restore=False)
            env.new('g2')
            env.g['g2'].register(self.real[t])
            for op in ALL_OPS:
                tags = self.consistent_tags(env.observe('g2', op, t), op, t)
                if not tags:
                    raise vlib.MachineryError('autodiscovered %s handler of %s has no recognisable effect' % (op, t))
                auto[op][t] = tags[0]['o']
        return auto

    def verify(self, doc):
        """the specification's derived tables must equal what Python says about the real classes"""
        obs = self.observed_tables()
        for k in ('sub', 'inst', 'auto', 'mro'):
            want = doc[k]
            if k in ('sub', 'inst'):
                want = {a: sorted(v) for a, v in want.items()}
            if want != obs[k]:
                diff = [(a, want.get(a), obs[k].get(a)) for a in set(want) | set(obs[k]) if want.get(a) != obs[k].get(a)]
                raise vlib.MachineryError('class table %s of the specification disagrees with Python: %s' % (k, diff[:3]))

    # -- expected effect of a handler on a fresh instance ----------------------------------
    def sig(self, h, op, tname):
        """what glom() shows when handler h (abstract tag) is used for `op` on an instance of tname"""
        key = (h['o'], h['n'], op, tname)
        if key in self._sig:
            return self._sig[key]
        if h['n'] != 0:
            s = ('user', h['o'], h['n'])
        elif h['o'] == 'False':
            s = ('unreg',)
        elif op in PROBED_OPS:
            s = ('h', h['o'])
        else:
            f = BUILTIN_FN[h['o']]
            obj = self.make(tname)
            try:
                if op == 'get':
                    s = ('ok', f(obj, '0'))
                elif op == 'iterate':
                    try:
                        s = ('ok', list(f(obj)))
                    except Exception:
                        s = ('exc', 'iterfail')
                elif op == 'assign':
                    f(obj, '0', 'NEW')
                    s = ('ok', self.state(obj))
                else:
                    f(obj, '0')
                    s = ('ok', self.state(obj))
            except Exception as e:
                s = ('exc', type(e).__name__)
        self._sig[key] = s
        return s

    def star_sig(self, out, tname):
        """what glom(obj, T.__star__()) shows when the children of an instance of tname are enumerated with the
        handlers of outcome `out` ({via, k, g, i}): the user handlers called, in order, and the children"""
        obj = self.make(tname)
        calls, children = [], []

        def call(h, op, *args):
            if h['n']:
                calls.append((h['o'], h['n'], op))
                return {'keys': ['0'], 'get': 'U', 'iterate': iter(())}[op]
            return BUILTIN_FN[h['o']](obj, *args)
        if out['via'] == 'keys+get':
            try:
                for key in call(out['k'], 'keys'):
                    try:
                        children.append(call(out['g'], 'get', key))
                    except Exception:
                        pass
            except Exception:
                pass
        elif out['via'] == 'iterate':
            try:
                children.extend(call(out['i'], 'iterate'))
            except Exception:
                pass
        return ('star', tuple(calls), children)

    def consistent_tags(self, sig, op, tname):
        """builtin / user handler tags whose effect equals the observed one"""
        if sig[0] == 'user':
            return [{'o': sig[1], 'n': sig[2]}]
        if sig[0] == 'unreg':
            return [dict(FALSE_H)]
        if sig[0] == 'h':
            return [{'o': sig[1], 'n': 0}]
        return [{'o': o, 'n': 0} for o in BUILTIN_BY_OP[op] if self.sig({'o': o, 'n': 0}, op, tname) == sig]


def _clone(x):
    """copy of the containers (dicts of any kind, lists, sets, tuples), sharing keys, types and handler objects"""
    if isinstance(x, dict):
        return type(x)((k, _clone(v)) for k, v in x.items())
    if isinstance(x, (list, set, frozenset)):
        return type(x)(_clone(v) for v in x)
    if type(x) is tuple:
        return tuple(_clone(v) for v in x)
    return x


# the module-level registry is process-global: whatever attributes it has right after import (this module imports
# glom before anything can have used it) are its pristine state; no attribute is named
_DEFAULT_REG = _DEFAULT_SCOPE[TargetRegistry]
_PRISTINE = {k: _clone(v) for k, v in vars(_DEFAULT_REG).items()}
UNOBSERVABLE = {}      # parts of the private representation the harness could not read (mechanism comparison skipped)


def restore_default_registry():
    """every attribute found at import is replaced by a copy of its pristine value, attributes that appeared later
    are deleted"""
    d = vars(_DEFAULT_REG)
    d.clear()
    for k, v in _PRISTINE.items():
        d[k] = _clone(v)


def known_order():
    """iteration order of the set of known types register_op('assign') saw when glom.mutation was imported in this
    process: the default types inserted into a fresh set in their registration order (feeds only the transcribed
    mechanism: shape of the assign / delete trees)"""
    known = set([object, dict, list, tuple, OrderedDict, _AbstractIterable, _ObjStyleKeys])
    return [t.__name__ for t in known]


class Env:
    """the registries of one behaviour"""

    def __init__(self, universe, restore=True):
        self.u = universe
        self.g = {}
        self.specs = {}
        self.pulled = False
        if restore:
            restore_default_registry()

    def new(self, r):
        self.g[r] = Glommer() if r == 'g1' else Glommer(register_default_types=False)

    def registry(self, r):
        return _DEFAULT_SCOPE[TargetRegistry] if r == 'default' else self.g[r].scope[TargetRegistry]

    def live(self, r):
        return r == 'default' or r in self.g

    def register(self, r, tname, ops, exact, n, off=()):
        kw = {op: (False if op in off else mk_handler(op, tname, n)) for op in ops}
        if r == 'default':
            if exact:
                glom.register(self.u.real[tname], exact=True, **kw)
            else:
                glom.register(self.u.real[tname], **kw)
        else:
            if exact:
                self.g[r].register(self.u.real[tname], exact=True, **kw)
            else:
                self.g[r].register(self.u.real[tname], **kw)

    def register_op(self, r, op):
        """extension route: add an operation to the registry of a Glommer, with / without autodiscovery"""
        reg = self.g[r].scope[TargetRegistry]
        if op == 'cauto':
            reg.register_op('cauto', cauto_discover)
        else:
            reg.register_op(op)

    def _spec(self, op):
        """one spec object per operation and behaviour, evaluated again and again on different targets"""
        if op not in self.specs:
            self.specs[op] = (Path('0') if op == 'get' else [T] if op == 'iterate' else Assign('0', 'NEW') if op == 'assign'
                              else Delete('0') if op == 'delete' else Probe(op))
        return self.specs[op]

    def observe(self, r, op, tname):
        """the public-API call(s) that need the `op` handler for an instance of tname -> signature.  'iterate' is asked
        for twice: through the list spec [T] and through ONE Iter() spec object shared by all behaviours of the process
        (ITER_ALL); the second call finds the memo filled by the first, so the machine makes the same step; the two
        answers must agree, a deviating second answer is the one reported"""
        pending = bool(ON_CALL)
        sig = self._observe(r, op, tname, self._spec(op))
        fired = pending and not ON_CALL       # a registration was made from inside the handler: the next lookup is a new step
        if op == 'iterate' and not fired:
            sig2 = self._observe(r, op, tname, ITER_ALL)
            if sig2 != sig:
                return sig2
        return sig

    def _observe(self, r, op, tname, spec):
        obj = self.u.make(tname)
        del CALLS[:]
        del PULLS[:]
        run = glom.glom if r == 'default' else self.g[r].glom
        try:
            res = run(obj, spec)
        except UnregisteredTarget:
            sig = ('unreg',)
        except (PathAccessError, PathAssignError) as e:
            sig = ('exc', type(e.exc).__name__)
        except TypeError:
            if op != 'iterate':
                raise
            sig = ('exc', 'iterfail')
        else:
            if op in PROBED_OPS:
                t = fn_tag(res)
                sig = ('user', t['o'], t['n']) if t['n'] else ('h', t['o'])
            elif op == 'get':
                sig = ('ok', res)
            elif op == 'iterate':
                sig = ('ok', list(res))
                res.append('mutated by the caller')       # the returned list belongs to the caller
            else:
                sig = ('ok', self.u.state(obj))
        self.pulled = bool(PULLS) and op not in ('iterate',)     # a target consumed by a lookup that does not iterate
        if CALLS:
            if len(CALLS) != 1 or CALLS[0][2] != op:
                return ('calls',) + tuple(CALLS)
            sig = ('user', CALLS[0][0], CALLS[0][1])
        return sig

    def observe_star(self, r, tname):
        """one wildcard step through the public API: which user handlers ran, which children came out"""
        obj = self.u.make(tname)
        del CALLS[:]
        run = glom.glom if r == 'default' else self.g[r].glom
        try:
            res = run(obj, T.__star__())
        except Exception as e:
            return ('exc', type(e).__name__)
        return ('star', tuple(CALLS), list(res))

    # -- projection of the mechanism state (optional: private representation) ---------------
    def project(self, r, ops):
        """{auto, map, tree, cache} as far as the private attributes can be read in the shape the transcribed
        mechanism talks about; a part that cannot be read is left out and counted in UNOBSERVABLE"""
        name = self.u.name
        out = {}

        def ptree(t):
            return [{'t': name[k], 'sub': ptree(v)} for k, v in t.items()]

        def part(key, f):
            try:
                out[key] = f(self.registry(r))
            except Exception:
                UNOBSERVABLE[key] = UNOBSERVABLE.get(key, 0) + 1
        part('auto', lambda reg: [op for op in reg._op_auto_map if op in ops])
        part('map', lambda reg: {op: [{'t': name[k], 'h': fn_tag(h)} for k, h in reg._op_type_map.get(op, {}).items()]
                                 for op in ops})
        part('tree', lambda reg: {op: ptree(reg._op_type_tree.get(op, {})) for op in ops})
        part('cache', lambda reg: [{'t': name.get(k[0]) or k[0].__name__, 'op': k[1], 'h': fn_tag(h)} for k, h in reg._type_cache.items()
                                   if k[1] in ops])
        return out

    def cached(self, r, op, tname):
        """memoised handler for (type, op), or None when the memo cannot be read"""
        try:
            return fn_tag(self.registry(r)._type_cache.get((self.u.real[tname], op), False))
        except Exception:
            UNOBSERVABLE['cache'] = UNOBSERVABLE.get('cache', 0) + 1
            return None
