"""C14  Wildcards enumerate children / descendants once, tolerate misses, terminate.

spec -> code: spec/MC_C14.tla enumerates every target graph over two cells of the container
classes (all sharing / self-cycle / mutual-cycle shapes) plus a hand-written family (sets, tuples,
strings, attribute objects, a mapping whose element access raises) x every path up to a length
bound with at least one wildcard at every position; GlomT!Outcome (the BFS law: the value itself,
then descendants breadth-first, every container expanded exactly once) is replayed into glom in
every spelling ('a.*.b' text, Path(...) with star objects, pure T).
code -> spec: random graphs with cycles (1-12 cells) x random wildcard paths validated by TLC
(spec/Trace_C02.tla evaluates the same GlomT!Outcome).
"""
import random

import glom
from glom import Path, T

import codec
import tspec
import vlib
import c01
from c02 import observe, compare

PROP = 'C14'


class BadDict(dict):
    """element access raises for key 'b'"""
    def __getitem__(self, k):
        if k == 'b':
            raise RuntimeError('bad element')
        return dict.__getitem__(self, k)


class BadList(list):
    """a sequence whose iteration raises when it reaches the item '!' (the items before it have been produced);
    no instance __dict__, so that it is a sequence and nothing else for the registry"""
    __slots__ = ()

    def __iter__(self):
        for v in list.__iter__(self):
            if isinstance(v, str) and v == '!':
                raise RuntimeError('iteration failed part-way')
            yield v


CLASSES = dict(codec.PLAIN, baddict=BadDict, badlist=BadList)


class SlotTuple(tuple):
    """like a namedtuple: a tuple subclass without an instance __dict__ (__slots__ = ())"""
    __slots__ = ()

    def __bool__(self):        # ... and falsy whatever it holds
        return False


class SlotList(list):
    """a sequence that keeps extra state in __slots__ and has no instance __dict__"""
    __slots__ = ('extra',)

    def __bool__(self):
        return False


# the same abstract sequences realised by such subclasses: children are still the items
SLOTTED = dict(CLASSES, tuple=SlotTuple, list=SlotList, dict=codec._falsy(dict), obj=codec._falsy(codec.Obj))


def spellings(ops, heap):
    out = []
    kinds = [o['op'] for o in ops]
    if all(k in ('x', 'X') or (k == 'P' and o['arg']['k'] == 'str' and '.' not in o['arg']['s']
                               and o['arg']['s'] not in ('*', '**'))
           for k, o in zip(kinds, ops)):
        text = '.'.join('*' if k == 'x' else '**' if k == 'X' else o['arg']['s'] for k, o in zip(kinds, ops))
        out.append(('text', text))

    def part(o):
        k = o['op']
        if k == 'P':
            return heap.val(o['arg'])
        if k == 'x':
            return T.__star__()
        if k == 'X':
            return T.__starstar__()
        return tspec.build_t([o], heap)
    out.append(('Path', Path(*[part(o) for o in ops])))
    if 'P' not in kinds:
        out.append(('T', tspec.build_t(ops, heap)))
    return out


def reachable_from_self(cells, a):
    seen = set()

    def kids(b):
        c = cells[b - 1]
        vals = [it[1] for it in c['items']] if c['cls'] in ('dict', 'odict', 'obj', 'baddict') else c['items']
        return [v['a'] for v in vals if v['k'] == 'ref']
    todo = kids(a)
    while todo:
        b = todo.pop()
        if b == a:
            return True
        if b not in seen:
            seen.add(b)
            todo.extend(kids(b))
    return False


def match_finding(f, case):
    m = f['match']
    if m.get('kind') == 'starstar_on_cyclic_value':
        if not any(o['op'] == 'X' for o in case['ops']):
            return False
        cells = case['heap']
        return any(reachable_from_self(cells, a) for a in range(1, len(cells) + 1))
    return False


def worker(states):
    out = dict(n=0, cases=0, nontrivial=0, skipped=0, bad=[], samples=[])
    for st in states:
        if st['phase'] != 1:
            continue
        pred, ops = st['pred'], st['ops']
        out['cases'] += 1
        if pred['err'] == 'OUT_OF_MODEL':
            out['skipped'] += 1
            continue
        if len(ops) >= 2:
            out['nontrivial'] += 1
        names = [n for n, _ in spellings(ops, codec.Heap(st['heap'], CLASSES, fns=tspec.FNS))]
        has_seq = True      # (the second realisation also makes every container falsy)
        variants = [(n, CLASSES) for n in names] + ([(names[-1] + '/slotted', SLOTTED)] if has_seq and names else [])
        for name, classes in variants:
            heap = codec.Heap(st['heap'], classes, fns=tspec.FNS)
            name = name.split('/')[0]
            spec = dict(spellings(ops, heap))[name]
            obs = observe(heap, st['root'], spec)
            out['n'] += 1
            why = compare(pred, obs)
            if not why and heap.snapshot() != st['heap']:
                why = 'target mutated'
            if why:
                out['bad'].append(dict(why='%s for %r [%s]' % (why, spec, name),
                                       case=dict(heap=st['heap'], root=st['root'], ops=ops, pred=pred, obs=obs,
                                                 spelling=name, text=repr(spec))))
            elif len(out['samples']) < 1 and len(ops) == 2 and pred['ok'] and len(st['heap']) > 2:
                out['samples'].append(dict(heap=st['heap'], text=repr(spec), pred=pred))
        # the same steps rooted in the scope: S['v'] names the target, every child of a wildcard is the
        # target of the remaining steps (positions of failures count the S['v'] step as well)
        if all(o['op'] != 'P' for o in ops) and pred['ok']:
            heap = codec.Heap(st['heap'], CLASSES, fns=tspec.FNS)
            spec = tspec.build_t(ops, heap, root=glom.S['v'])
            try:
                res = glom.glom(None, spec, scope={'v': heap.val(st['root'])})
                obs = {'ok': True, 'v': tspec.canon(heap, res), 'err': '', 'idx': -1, 'exc': ''}
            except Exception as e:
                obs = {'ok': False, 'v': {'k': 'none'}, 'err': codec.exc_class_name(e), 'idx': -1, 'exc': ''}
            out['n'] += 1
            if obs['ok'] != pred['ok'] or obs['v'] != pred['v']:
                out['bad'].append(dict(why='rooted in the scope the same steps give %s, expected %s for %r [S]' % (obs, pred['v'], spec),
                                       case=dict(heap=st['heap'], root=st['root'], ops=ops, pred=pred, obs=obs, spelling='S', text=repr(spec))))
    return out




def replay(path):
    """re-run one stored case (bin/check C14 --replay <file>) against the library as it is now"""
    import json
    blob = json.load(open(path))
    st = _state_of(blob['case'])
    if st is None:
        print('REPLAY property=C14: %s holds a recorded observation, not a case of the enumerated universe; it was rejected with: %s'
              % (path, str(blob.get('why'))[:300]))
        print('(the file alone does not allow the case to be re-executed: re-run bin/check C14 to observe the library again)')
        return 2
    out = _replay_states([st])
    if out['bad']:
        print('VIOLATION property=C14 replay=%s' % path)
        print('  why: %s' % (str(out['bad'][0]['why'])[:400],))
        return 1
    print('REPLAY property=C14: the stored case agrees with the specification now (%s)' % path)
    return 0


def _state_of(case):
    if all(k in case for k in ('heap', 'root', 'ops', 'pred')):
        return dict(heap=case['heap'], root=case['root'], ops=case['ops'], pred=case['pred'], phase=1)
    return None


def _replay_states(states):
    return worker(states)


def rand_path(rng, cells):
    def s(x):
        return {'k': 'str', 's': x}
    ops = []
    for _ in range(rng.randint(1, 5)):
        r = rng.random()
        if r < 0.3:
            ops.append({'op': 'x', 'arg': {'k': 'none'}})
        elif r < 0.5:
            ops.append({'op': 'X', 'arg': {'k': 'none'}})
        elif r < 0.8:
            ops.append({'op': 'P', 'arg': s(rng.choice(c01.KEYS + ['x', '-1']))})
        elif r < 0.9:
            ops.append({'op': '[', 'arg': {'a': 'lit', 'v': rng.choice([{'k': 'int', 'i': rng.randint(-2, 2)},
                                                                      s(rng.choice(c01.KEYS))])}})
        else:
            ops.append({'op': '.', 'arg': s(rng.choice(c01.KEYS))})
    if not any(o['op'] in 'xX' for o in ops):
        ops.insert(rng.randint(0, len(ops)), {'op': rng.choice('xX'), 'arg': {'k': 'none'}})
    if sum(o['op'] == 'X' for o in ops) > 2:     # keep result sizes polynomial
        ops = [o for o in ops if o['op'] != 'X'][:3] + [{'op': 'X', 'arg': {'k': 'none'}}]
    return ops


def record(check, n, seed):
    rng = random.Random(seed)
    rows = []
    while len(rows) < n:
        cells = c01.rand_heap(rng)
        if len(cells) > 8 and rng.random() < 0.5:
            continue
        # one list in four graphs becomes a list whose iteration raises part-way (at a random position)
        lists = [c for c in cells if c['cls'] == 'list']
        if lists and rng.random() < 0.25:
            c = rng.choice(lists)
            c['cls'] = 'badlist'
            c['items'].insert(rng.randint(0, len(c['items'])), {'k': 'str', 's': '!'})
        ops = rand_path(rng, cells)
        root = {'k': 'ref', 'a': 1}
        heap = codec.Heap(cells, CLASSES, fns=tspec.FNS)
        name, spec = rng.choice(spellings(ops, heap))
        obs = observe(heap, root, spec)
        if len(repr(obs)) > 20000:
            continue
        rows.append(dict(heap=cells, root=root, ops=ops, obs=obs, text=repr(spec), spelling=name))
    rejects = vlib.validate_rows(check, 'Trace_C02', rows, 'random-wildcards', chunk=2000)
    for row, rej in rejects:
        check.violation(dict(heap=row['heap'], root=row['root'], ops=row['ops'], obs=row['obs'], text=row['text'],
                             clause=rej['clause'], pred=rej.get('pred')),
                        'recorded execution rejected by the specification (clause %s): %s' % (rej['clause'], row['text']),
                        matcher=match_finding)
    for row in rows[:2]:
        check.sample(dict(kind='recorded', heap=row['heap'], text=row['text'], obs=row['obs']), limit=6)
    return len(rows)


def main(tier, seed):
    check = vlib.Check(PROP, tier, seed)
    consts = {'quick': dict(MaxPath=2, NCells=2), 'thorough': dict(MaxPath=3, NCells=2)}[tier]
    res, results = vlib.map_states('MC_C14', worker, constants=consts)
    check.add_tlc(res, 'MC_C14 %s' % consts)
    for r in results:
        check.cov['evaluations'] += r['n']
        check.cov['distinct_nontrivial'] += r['nontrivial']
        check.validated(r['n'] - len(r['bad']))
        for s in r['samples']:
            check.sample(s)
        for b in r['bad']:
            check.violation(b['case'], b['why'], matcher=match_finding)
    nrec = record(check, {'quick': 6000, 'thorough': 60000}[tier], seed)
    check.extra['recorded_rows'] = nrec
    check.extra['constants'] = consts
    check.assumptions += ['sets in targets hold small ints only (iteration order = value order)',
                          'Assign/Delete through wildcards are exercised by the C11/C12 checks',
                          'TLC, the Json community module and the codec are trusted']
    return check.finish(rule='TLC enumerates every 2-cell graph over {dict, list, obj} with <= 2 slots per cell plus a '
                        'hand-written family x every path <= MaxPath over 7 step kinds with >= 1 wildcard; replayed in every '
                        'spelling; non-trivial = wildcard plus at least one more step', exhaustive=True)
