"""Concrete side of spec/GlomCalls.tla (shared by c06.py and c20.py).

* values:  abstract value  <->  Python object   (build_value / project_value)
* specs:   spec AST        ->  real glom spec   (Builder.spec)
* Probe / NestProbe / OpGate: the instrumented custom specs and callables.  They record
  what they can see of *their own* evaluation (target, mode, visible user bindings, the
  accumulator they feed, nesting depth), then call ctx.gate() - a yield point a scheduler
  may block - and then compute their result.
* run_call: one glom() call -> abstract outcome (+ scrubbed error text)
* deep snapshots (structure + object identity) of targets, spec objects and scope dicts
* LogDict: dict subclass that logs membership / len / store / fetch on glom's caches
"""
import re
import threading

import glom
from glom import A as GA, Check, Coalesce, Fill, Invoke, Iter, Ref, S, Spec, T, Fold, Vars
from glom.core import MODE, ROOT, Path, TargetRegistry, _DEFAULT_SCOPE
from glom.grouping import Group, ACC_TREE

import codec

NAME_ORDER = ('k', 'x', 'y')


class A:
    """user class 'A' of the model (attribute object, registrable)"""
    def __repr__(self):
        return 'A(%s)' % ', '.join('%s=%r' % kv for kv in vars(self).items())


def _bump(v, d):
    return v + d if type(v) is int else v


def h1(o, name):
    return _bump(getattr(o, name), 10)


def h2(o, name):
    return _bump(getattr(o, name), 20)


def h3(o, name):
    return _bump(getattr(o, name), 30)


def itvals(o):
    return iter(list(vars(o).values()))


def itrev(o):
    return iter(list(vars(o).values())[::-1])


def keysa(o):
    return [k for k in vars(o) if k == 'a']


def kwfn(**kw):
    """the function of the model's Invoke node"""
    return dict(kw)


# every registration names exactly one op; the ...x ones are exact=True
REGS = {'Aget1': dict(get=h1), 'Aget2': dict(get=h2), 'Aiter': dict(iterate=itvals),
        'Aget3x': dict(get=h3, exact=True), 'Aiterx': dict(iterate=itrev, exact=True), 'Akeys': dict(keys=keysa)}
HANDLER_NAMES = {}


def handler_name(h):
    import operator
    from glom.core import _get_sequence_item, _ObjStyleKeys
    table = {id(operator.getitem): 'getitem', id(_get_sequence_item): 'seqitem', id(getattr): 'getattr',
             id(h1): 'h1', id(h2): 'h2', id(h3): 'h3', id(itvals): 'itvals', id(itrev): 'itrev', id(iter): 'iter',
             id(dict.keys): 'dictkeys', id(keysa): 'keysa', id(_ObjStyleKeys.get_keys): 'objkeys'}
    if h is False:
        return 'NONE'
    return table.get(id(h), 'other:' + getattr(h, '__name__', repr(h)))


def type_name(t):
    return {dict: 'dict', list: 'list', tuple: 'tuple', int: 'int', str: 'str', type(None): 'none', bool: 'bool',
            A: 'A', Hostile: 'hostile', OneShotGen: 'gen'}.get(t, 'other:' + t.__name__)


def apply_registration(r):
    glom.register(A, **REGS[r])


# ---- values ---------------------------------------------------------------------------
class Hostile:
    """an object whose __eq__ is hostile: odd n: equal to everything; even n: raises on any foreign
    operand.  The model knows it by identity (n) only."""

    def __init__(self, n):
        self.n = n

    def __eq__(self, other):
        if self.n % 2:
            return True
        if type(other) is not Hostile:
            raise TypeError('Hostile(%d) cannot be compared with %s' % (self.n, type(other).__name__))
        return self is other

    def __ne__(self, other):
        return not self.__eq__(other)

    def __hash__(self):
        return 1000 + self.n

    def __repr__(self):
        return 'Hostile(%d)' % self.n


class OneShotGen:
    """a one-shot iterator that counts pulls; a pull after it reported exhaustion is a fault"""

    def __init__(self, items, model):
        self._items, self._model, self._i, self.pulls, self._ended = items, model, 0, 0, False

    def __iter__(self):
        return self

    def __next__(self):
        self.pulls += 1
        if self._i < len(self._items):
            self._i += 1
            return self._items[self._i - 1]
        if self._ended:
            raise RuntimeError('one-shot iterator pulled after exhaustion')
        self._ended = True
        raise StopIteration

    def __repr__(self):
        return 'OneShotGen(%d items)' % len(self._items)


class SubList(list):
    """a list subclass overriding item access and iteration (same meaning)"""

    def __getitem__(self, i):
        return list.__getitem__(self, i)

    def __iter__(self):
        return iter([list.__getitem__(self, i) for i in range(len(self))])


def _sub_dict(pairs):
    """an OrderedDict in the given order whose underlying raw dict order differs"""
    from collections import OrderedDict
    pairs = list(pairs)
    od = OrderedDict(pairs[1:] + pairs[:1])
    if len(pairs) > 1:
        od.move_to_end(pairs[0][0], last=False)
    return od


# spellings of the builtin containers of a target / caller scope: the law does not distinguish them
CLASSES = {
    'plain': dict(list=list, tuple=tuple, dict=lambda pairs: dict(pairs)),
    'falsy': dict(list=codec._falsy(list), tuple=codec._falsy(tuple), dict=lambda pairs, c=codec._falsy(dict): c(pairs)),
    'sub': dict(list=SubList, tuple=tuple, dict=_sub_dict),
}


def build_value(v, spelling='plain'):
    k = v['k']
    cls = CLASSES[spelling]
    if k == 'int':
        return v['i']
    if k == 'str':
        return v['s']
    if k == 'none':
        return None
    if k == 'bool':
        return v['b']
    if k == 'hostile':
        return Hostile(v['n'])
    if k == 'gen':
        return OneShotGen([build_value(x, spelling) for x in v['v']], v)
    if k == 'list':
        return cls['list']([build_value(x, spelling) for x in v['v']])
    if k == 'tuple':
        return cls['tuple']([build_value(x, spelling) for x in v['v']])
    if k == 'dict':
        return cls['dict']([(build_value(a, spelling), build_value(b, spelling)) for a, b in v['v']])
    if k == 'obj':
        o = A()
        for a, b in v['v']:
            setattr(o, build_value(a, spelling), build_value(b, spelling))
        return o
    raise ValueError('unknown value %r' % (v,))


def project_value(o, depth=0):
    if depth > 12:
        return {'k': 'opaque', 's': 'deep'}
    if o is None:
        return {'k': 'none'}
    if type(o) is bool:
        return {'k': 'bool', 'b': o}
    if type(o) is int:
        return {'k': 'int', 'i': o} if abs(o) < 2 ** 30 else {'k': 'opaque', 's': 'bigint'}
    if type(o) is str:
        return {'k': 'str', 's': o}
    if isinstance(o, Hostile):
        return {'k': 'hostile', 'n': o.n}
    if isinstance(o, OneShotGen):
        return o._model
    if isinstance(o, list):
        return {'k': 'list', 'v': [project_value(x, depth + 1) for x in list.__iter__(o)]}
    if isinstance(o, tuple):
        return {'k': 'tuple', 'v': [project_value(x, depth + 1) for x in tuple.__iter__(o)]}
    if isinstance(o, dict):
        return {'k': 'dict', 'v': [[project_value(a, depth + 1), project_value(b, depth + 1)] for a, b in o.items()]}
    if type(o) is A:
        return {'k': 'obj', 'cls': 'A', 'v': [[project_value(a, depth + 1), project_value(b, depth + 1)]
                                               for a, b in vars(o).items()]}
    return {'k': 'opaque', 's': type(o).__name__}


# ---- context: gating and per-thread observation log ---------------------------------------
class Ctx:
    """what the instrumented objects talk to.  gate() is a no-op unless a scheduler installs
    one; observations go to a per-thread list."""

    def __init__(self):
        self.local = threading.local()
        self.gate_fn = None
        self.glommer = glom.Glommer()      # the ONE shared Glommer instance of via="glommer" calls

    def do_glom(self, bc):
        target = bc.fresh_target()
        if bc.via == 'glommer':
            return self.glommer.glom(target, bc.spec)
        if bc.via == 'spec':           # through the ONE Spec object of this sid
            return bc.specobj.glom(target, scope=bc.scope)
        return glom.glom(target, bc.spec, scope=bc.scope)

    def start_call(self):
        self.local.obs = []
        self.local.depth = 0
        self.local.kept = []
        self.local.last_result = None

    def obs(self):
        return self.local.obs

    def gate(self):
        if self.gate_fn is not None:
            self.gate_fn()

    def observe(self, at, target, root_target, mode, names, acc):
        self.local.obs.append({'at': list(at), 'd': self.local.depth, 't': project_value(target),
                               'rt': root_target, 'mode': mode, 'names': names, 'acc': acc})


def _boom_class():
    class Boom(Exception):
        pass
    return Boom


BoomA, BoomB = _boom_class(), _boom_class()      # two distinct classes, both named 'Boom'


def error_class(e):
    """the class observation of an error: which of the same-named user classes it is an
    instance of, else the most specific well-known class name"""
    a, b = isinstance(e, BoomA), isinstance(e, BoomB)
    if a or b:
        return 'BoomA+BoomB' if a and b else ('BoomA' if a else 'BoomB')
    return codec.exc_class_name(e)


def _apply(f, t):
    if f == 'id':
        return t
    if f == 'inc':
        return t + 1
    if f == 'boom':
        raise ValueError('boom')
    if f == 'boomA':
        raise BoomA('boom')
    if f == 'boomB':
        raise BoomB('boom')
    raise AssertionError(f)


class Probe:
    """custom spec (glomit extension point)"""

    def __init__(self, ctx, at, f):
        self.ctx, self.at, self.f = ctx, tuple(at), f

    def _observe(self, target, scope):
        mode = scope[MODE]
        names = [[k, project_value(scope[k])] for k in NAME_ORDER if k in scope]
        acc = []
        tree = scope.get(ACC_TREE)
        if getattr(mode, '__name__', '') == 'GROUP' and isinstance(tree, dict):
            lists = [v for v in tree.values() if type(v) is list]
            if lists:
                acc = [project_value(x) for x in lists[0]]
        try:
            rt = project_value(scope[ROOT][glom.T])          # S[ROOT][T]: the target glom() was called with
        except Exception as e:      # noqa
            rt = {'k': 'opaque', 's': 'no root: %s' % type(e).__name__}
        self.ctx.observe(self.at, target, rt, getattr(mode, '__name__', repr(mode)), names, acc)

    def glomit(self, target, scope):
        self._observe(target, scope)
        self.ctx.gate()
        return _apply(self.f, target)

    def __repr__(self):
        return 'Probe(%s,%r)' % ('.'.join(map(str, self.at)), self.f)


class RProbe(Probe):
    """a probe whose __repr__ is a yield point while an error trace is being rendered (once per
    rendering: run_call arms the gate right before str(exc))"""

    def __repr__(self):
        loc = self.ctx.local
        if getattr(loc, 'render_gate', False):
            loc.render_gate = False
            self.ctx.gate()
        return 'RProbe(%s)' % '.'.join(map(str, self.at))


class NestProbe(Probe):
    """custom spec whose user code calls glom() re-entrantly"""

    def __init__(self, ctx, at, inner, log=False):
        Probe.__init__(self, ctx, at, 'nest')
        self.inner = inner          # BuiltCall
        self.log = log              # render the inner call's error (str(e)) before re-raising it

    def glomit(self, target, scope):
        self._observe(target, scope)
        self.ctx.gate()
        loc = self.ctx.local
        loc.depth += 1
        try:
            return self.ctx.do_glom(self.inner)
        except Exception as e:      # noqa: what a logging callable does
            if self.log:            # "log it": render now, keep the object, look at it again later
                self.ctx.local.kept.append((e, scrub(str(e))))
            raise
        finally:
            loc.depth -= 1


class OpGate:
    """the op callable of a Fold: op(acc, item) -> acc"""

    def __init__(self, ctx, at, f):
        self.ctx, self.at, self.f = ctx, tuple(at), f

    def __call__(self, acc, item):
        self.ctx.observe(self.at, item, {'k': 'none'}, '-', [], [project_value(x) for x in acc])
        self.ctx.gate()
        acc.append(_apply(self.f, item))
        return acc

    def __repr__(self):
        return 'OpGate(%s,%r)' % ('.'.join(map(str, self.at)), self.f)


class VGate:
    """the validator callable of a Check: observes, yields, returns True / False"""

    def __init__(self, ctx, at, f):
        self.ctx, self.at, self.f = ctx, tuple(at), f

    def __call__(self, target):
        self.ctx.observe(self.at, target, {'k': 'none'}, '-', [], [])
        self.ctx.gate()
        return self.f == 'vtrue'

    def __repr__(self):
        return 'VGate(%s,%r)' % ('.'.join(map(str, self.at)), self.f)


class BuiltCall:
    def fresh_target(self):
        """the target of the next evaluation: one-shot iterators are made anew for every call"""
        if self.ast['t'].get('k') == 'gen':
            return build_value(self.ast['t'], self.spelling)
        return self.target

    def __init__(self, target, spec, scope, ast, specobj=None):
        self.target, self.spec, self.scope, self.ast, self.specobj = target, spec, scope, ast, specobj
        self.via = ast.get('via', 'glom')
        self.spelling = ast.get('spelling', 'plain')
        if self.via == 'glommer' and scope:
            raise ValueError('calls through the Glommer take no caller scope')


class Builder:
    """real objects for calls; one spec object per sid (the same object is reused by every
    call with that sid), one target / scope object per pool entry"""

    def __init__(self, ctx, text_factory=None):
        self.ctx = ctx
        self.specs = {}
        self.specobjs = {}
        # ids of every container the USER (this builder) put into a spec: targets / scopes of nested calls,
        # default values, literal operands, constants.  They belong to the spec whatever attribute keeps them
        self.user_ids = set()
        self._keep = []
        self.text_factory = text_factory or (lambda text, at: text)

    def call(self, c):
        sid = c['sid']
        if sid not in self.specs:
            self.specs[sid] = self.spec(c['spec'], ())
            register_baseline(self.specs[sid])
        if c.get('via') == 'spec' and sid not in self.specobjs:
            self.specobjs[sid] = Spec(self.specs[sid])
            register_baseline(self.specobjs[sid])
        sp = c.get('spelling', 'plain')
        return self._own(BuiltCall(build_value(c['t'], sp), self.specs[sid], {k: build_value(v, sp) for k, v in c['sc']}, c,
                         self.specobjs.get(sid) if c.get('via') == 'spec' else None))

    def _own(self, x):
        self._keep.append(x)
        if isinstance(x, BuiltCall):
            reachable_ids(x.target, self.user_ids)
            reachable_ids(x.scope, self.user_ids)
        else:
            reachable_ids(x, self.user_ids)
        return x

    def spec(self, n, at):
        op = n['op']
        if op == 'path':
            if n['text'].split('.') != list(n['segs']):
                raise ValueError('segs do not match text: %r' % (n,))
            return self.text_factory(n['text'], at)
        if op == 'probe':
            return RProbe(self.ctx, at, n['f']) if n.get('r') else Probe(self.ctx, at, n['f'])
        if op == 'nest':
            return NestProbe(self.ctx, at, self.call(n['call']), bool(n.get('log')))
        if op == 'tuple':
            return tuple(self.spec(c, at + (i,)) for i, c in enumerate(n['c'], 1))
        if op == 'dict' and n.get('sp') == 'invoke':     # one Invoke object, one .specs() step per item
            inv = Invoke(kwfn)
            for i, (k, c) in enumerate(n['items'], 1):
                inv = inv.specs(**{k: self.spec(c, at + (i,))})
            return inv
        if op == 'dict':
            return {k: self.spec(c, at + (i,)) for i, (k, c) in enumerate(n['items'], 1)}
        if op == 'each':
            sub = self.spec(n['c'], at + (1,))
            if n['sp'] == 'uniq':
                return Iter(sub).unique().all()
            return [sub] if n['sp'] == 'list' else Iter(sub).all()
        if op == 'coal':
            subs = [self.spec(c, at + (i,)) for i, c in enumerate(n['c'], 1)]
            if n['d']['has'] and n['d']['s']:
                return Coalesce(*subs, default=self.spec(n['d']['s'][0], at + (len(subs) + 1,)))
            if n['d']['has']:
                return Coalesce(*subs, default=self._own(build_value(n['d']['v'])))
            return Coalesce(*subs)
        if op == 'arglist':        # a list ARGUMENT (argument mode rebuilds it and evaluates the sub-specs)
            return [self.spec(c, at + (i,)) for i, c in enumerate(n['c'], 1)]
        if op == 'scopelit':       # an empty literal container as a scope value, written through the scope
            return (S(seen={}), GA.seen['k'], S.seen)
        if op == 'check':
            return Check(equal_to=self._own(build_value(n['eq'])), validate=VGate(self.ctx, at + (1,), n['f']))
        if op == 'tplus':          # T arithmetic with a container operand
            return T + self._own(build_value(n['v']))
        if op == 'refdef':
            return Ref(n['name'], self.spec(n['c'], at + (1,)))
        if op == 'refuse':
            return Ref(n['name'])
        if op == 'lastvar':        # a scope variable object: bound, assigned into per item, read
            if n.get('y'):         # ... with a yield point between the writes and the read
                return (S(v=Vars({'n': n['init']})), [GA.v.n], Probe(self.ctx, at + (3,), 'id'), S.v.n)
            return (S(v=Vars({'n': n['init']})), [GA.v.n], S.v.n)
        if op == 'invoke':         # star-kwargs first, then constants
            return Invoke(kwfn).star(kwargs=self.spec(n['c'], at + (1,))).constants(**{n['k']: self._own(build_value(n['v']))})
        if op == 'acc':
            if n['kind'] == 'group':
                return Group([Probe(self.ctx, at + (1,), n['f'])])
            return Fold(T, init=list, op=OpGate(self.ctx, at + (1,), n['f']))
        if op == 'fill':
            return Fill(self.spec(n['c'], at + (1,)))
        if op == 'bind':
            return S(**{n['name']: Spec(self.spec(n['c'], at + (1,)))})
        if op == 'read':
            return S[n['name']]
        raise ValueError('unknown spec node %r' % (n,))


# ---- one call ------------------------------------------------------------------------------
_ADDR = re.compile(r'0x[0-9a-fA-F]+')


def scrub(text):
    return _ADDR.sub('0x?', text)


def run_call(ctx, bc):
    """glom(target, spec, scope=..) -> abstract outcome {ok, v, cls, obs} and error text"""
    ctx.start_call()
    try:
        res = ctx.do_glom(bc)
    except Exception as e:          # noqa: the class is the observation
        try:
            ctx.local.render_gate = True      # rendering the trace: a yielding __repr__ may park once
            text = scrub(str(e))
        except Exception as e2:     # pragma: no cover
            text = '<str failed: %r>' % (e2,)
        finally:
            ctx.local.render_gate = False
        return {'ok': False, 'v': {'k': 'none'}, 'cls': error_class(e), 'obs': ctx.obs()}, text + _kept_changed(ctx)
    ctx.local.last_result = res
    return {'ok': True, 'v': project_value(res), 'cls': '', 'obs': ctx.obs()}, _kept_changed(ctx)


def _kept_changed(ctx):
    """errors of inner calls that a logging callable rendered and kept: an error object is the
    inner call's outcome and must still read the same after the outer call has finished"""
    bad = 0
    for e, text0 in ctx.local.kept:
        try:
            if scrub(str(e)) != text0:
                bad += 1
        except Exception:   # noqa
            bad += 1
    return '\n<<%d inner error object(s) changed after they were raised>>' % bad if bad else ''


def strip_pred(out):
    """the comparable part of a model outcome [ok, v, e, obs]"""
    return {'ok': out['ok'], 'v': out['v'], 'cls': out['e']['cls'], 'obs': out['obs']}


# ---- deep snapshots: structure and identity --------------------------------------------------
# attribute names every spec object had when it was built: id(obj) -> (obj, names).  A private
# attribute ('_...') that appears on such an object only later is a lazily filled cache of the
# object - not part of the spec's value - and is left out of the comparison, together with
# whatever hangs below it.  Attributes that existed at construction, public attributes, repr(spec)
# and the identity / structure of contained containers are always compared.
_BASELINE = {}


def _attr_items(o):
    attrs = []
    d = getattr(o, '__dict__', None)
    if isinstance(d, dict):
        attrs.extend(sorted(d.items(), key=lambda kv: str(kv[0])))
    for cls in type(o).__mro__:
        for s in getattr(cls, '__slots__', ()) or ():
            if isinstance(s, str) and hasattr(o, s) and s not in ('__dict__', '__weakref__'):
                attrs.append((s, getattr(o, s)))
    if type(o).__name__ == 'TType':
        attrs.append(('__ops__', o.__ops__))
    return attrs


def _is_leaf(o):
    return (o is None or isinstance(o, (int, str, float, bool, bytes, set, frozenset, Ctx, OneShotGen))
            or (callable(o) and not hasattr(o, 'glomit') and not isinstance(o, (OpGate, VGate))))


def register_baseline(o, depth=0):
    """record the attribute names of every object of a freshly built spec"""
    if _is_leaf(o) or depth > 40:
        return
    t = type(o)
    if t in (list, tuple):
        if id(o) in _BASELINE:
            return
        _BASELINE[id(o)] = (o, None)
        for x in o:
            register_baseline(x, depth + 1)
    elif t is dict:
        if id(o) in _BASELINE:
            return
        _BASELINE[id(o)] = (o, None)
        for k, v in o.items():
            register_baseline(k, depth + 1)
            register_baseline(v, depth + 1)
    else:
        if id(o) in _BASELINE:
            return
        items = _attr_items(o)
        # (a private attribute that is None at construction is a cache declared up front: dropped too)
        _BASELINE[id(o)] = (o, frozenset(str(k) for k, v in items if not (str(k).startswith('_') and v is None)))
        for _, v in items:
            register_baseline(v, depth + 1)


def _private(name):
    name = str(name)
    return name.startswith('_') and not (name.startswith('__') and name.endswith('__'))


def reachable_ids(o, seen, depth=0, public_only=False):
    """ids of everything reachable from o.  public_only: do not follow private ('_x') attributes of
    objects - what hangs only below those is internal state of the object, not part of the value
    the user wrote (containers the user passed in are registered separately, see Zoo.lit)"""
    if _is_leaf(o) and not isinstance(o, (set, frozenset)) or depth > 30 or id(o) in seen:
        return
    seen.add(id(o))
    if isinstance(o, dict):
        for k, v in dict.items(o):
            reachable_ids(k, seen, depth + 1, public_only)
            reachable_ids(v, seen, depth + 1, public_only)
    elif isinstance(o, (list, tuple, set, frozenset)):
        for x in list(o):
            reachable_ids(x, seen, depth + 1, public_only)
    else:
        for name, v in _attr_items(o):
            if not (public_only and _private(name)):
                reachable_ids(v, seen, depth + 1, public_only)


def _late_private(o, name):
    base = _BASELINE.get(id(o))
    return (base is not None and base[0] is o and base[1] is not None
            and name.startswith('_') and name not in base[1])


def snapshot(o, seen=None, depth=0):
    """nested tuples describing the object graph reachable from o: (type, id, contents);
    scalars by value.  Two snapshots are equal iff structure, values and identities agree
    (modulo private attributes that spec objects acquired after construction, see _BASELINE)."""
    if seen is None:
        seen = {}
    if o is None or isinstance(o, (int, str, float, bool, bytes)):
        return ('v', type(o).__name__, o)
    if id(o) in seen:
        return ('ref', id(o))
    seen[id(o)] = True
    if depth > 40:
        return ('deep', id(o))
    t = type(o)
    if isinstance(o, (list, tuple)):      # (subclasses too: raw contents, not what overridden methods say)
        raw = list.__iter__(o) if isinstance(o, list) else tuple.__iter__(o)
        return (t.__name__, id(o), tuple(snapshot(x, seen, depth + 1) for x in raw))
    if isinstance(o, dict):
        return (t.__name__, id(o), tuple((snapshot(k, seen, depth + 1), snapshot(v, seen, depth + 1)) for k, v in dict.items(o)),
                tuple(snapshot(k, {}, depth + 1) for k in o.keys()) if t is not dict else ())
    if t in (set, frozenset):
        return (t.__name__, id(o), tuple(sorted(repr(x) for x in o)))
    if callable(o) and not hasattr(o, 'glomit') and not isinstance(o, (OpGate, VGate)):
        return ('callable', id(o))
    if isinstance(o, (Ctx, OneShotGen)):
        return ('ctx', id(o))
    # spec objects / user objects: attribute graph (__dict__ and __slots__)
    attrs = [(k, v) for k, v in _attr_items(o) if not _late_private(o, str(k))]
    return ('obj', t.__name__, id(o), tuple((str(k), snapshot(v, seen, depth + 1)) for k, v in attrs))


def snap_call(bc):
    try:
        rp = repr(bc.spec)
    except Exception as e:   # pragma: no cover
        rp = 'repr failed %r' % (e,)
    return dict(target=snapshot(bc.target), spec=(snapshot(bc.spec), snapshot(bc.specobj)), spec_repr=scrub(rp), scope=snapshot(bc.scope))


def snap_diff(a, b):
    return [k for k in ('target', 'spec', 'spec_repr', 'scope') if a[k] != b[k]]


# ---- cache observation ---------------------------------------------------------------------------
class EventLog:
    """events in the order in which they took effect (operation and log entry under one lock)"""

    def __init__(self):
        self.lock = threading.RLock()
        self.events = []

    def add(self, ev):
        self.events.append(ev)


def path_ops(p):
    try:
        ops = p.path_t.__ops__
    except AttributeError:          # an entry that is not (yet) a complete Path
        return [{'op': '?', 'arg': 'incomplete'}]
    out = []
    for i in range(1, len(ops), 2):
        op, arg = ops[i], ops[i + 1]
        out.append({'op': op, 'arg': arg if op == 'P' and isinstance(arg, str) else ''})
    return out


class PathLogDict(dict):
    """stands in for Path._CACHE[star]"""

    def __init__(self, log, star):
        dict.__init__(self)
        self._log, self._star = log, star

    def __contains__(self, k):
        with self._log.lock:
            r = dict.__contains__(self, k)
            self._log.add({'e': 'has', 'star': self._star, 'text': str(k), 'res': r})
            return r

    def __len__(self):
        with self._log.lock:
            n = dict.__len__(self)
            self._log.add({'e': 'len', 'star': self._star, 'n': n})
            return n

    def __setitem__(self, k, v):
        with self._log.lock:
            dict.__setitem__(self, k, v)
            self._log.add({'e': 'set', 'star': self._star, 'text': str(k), 'segs': str(k).split('.'),
                           'parse': path_ops(v)})

    def __getitem__(self, k):
        with self._log.lock:
            try:
                v = dict.__getitem__(self, k)
            except KeyError:        # a failed fetch is a membership test that said "absent"
                self._log.add({'e': 'has', 'star': self._star, 'text': str(k), 'res': False})
                raise
            self._log.add({'e': 'get', 'star': self._star, 'text': str(k), 'parse': path_ops(v)})
            return v


class TypeLogDict(dict):
    """stands in for TargetRegistry._type_cache"""

    def __init__(self, log):
        dict.__init__(self)
        self._log = log

    def __contains__(self, k):
        with self._log.lock:
            r = dict.__contains__(self, k)
            self._log.add({'e': 'thas', 'ty': type_name(k[0]), 'op': k[1], 'res': r})
            return r

    def __setitem__(self, k, v):
        with self._log.lock:
            dict.__setitem__(self, k, v)
            self._log.add({'e': 'tset', 'ty': type_name(k[0]), 'op': k[1], 'h': handler_name(v)})

    def __getitem__(self, k):
        with self._log.lock:
            try:
                v = dict.__getitem__(self, k)
            except KeyError:
                self._log.add({'e': 'thas', 'ty': type_name(k[0]), 'op': k[1], 'res': False})
                raise
            self._log.add({'e': 'tget', 'ty': type_name(k[0]), 'op': k[1], 'h': handler_name(v)})
            return v


# Everything below touches PRIVATE representation of glom's caches.  It is mechanism-level and
# optional: when an attribute is missing or has another shape the part is skipped and named in
# UNOBSERVABLE (reported in the evidence as mechanism_unobservable); it is never a failure and
# never a violation.  The law-level verdicts use public behaviour only.
UNOBSERVABLE = set()


def default_registry():
    try:
        reg = _DEFAULT_SCOPE[TargetRegistry]
    except Exception:   # noqa
        reg = None
    if reg is None or not isinstance(getattr(reg, '_type_cache', None), dict):
        UNOBSERVABLE.add('TargetRegistry._type_cache')
        return None
    return reg


def _path_cache():
    cache = getattr(Path, '_CACHE', None)
    if (isinstance(cache, dict) and set(cache.keys()) == {True, False}
            and all(isinstance(v, dict) for v in cache.values())):
        return cache
    UNOBSERVABLE.add('Path._CACHE')
    return None


def set_max_cache(n):
    """Path._MAX_CACHE := the model constant (only changes when the memo stops growing)"""
    if type(getattr(Path, '_MAX_CACHE', None)) is int:
        Path._MAX_CACHE = n
    else:
        UNOBSERVABLE.add('Path._MAX_CACHE')


def pristine_problem():
    """why this interpreter does not look freshly imported (None if it does); looks only at
    what is observable"""
    if getattr(glom.core, 'PATH_STAR', True) is not True:
        return 'PATH_STAR is off'
    cache = _path_cache()
    if cache is not None and any(len(v) for v in cache.values()):
        return 'the path cache is not empty'
    if getattr(Path, '_STAR_WARNED', False):
        return 'the wildcard warning was already given'
    return None


def install_logs(log, type_cache=True):
    """replace glom's cache dicts (objects held in glom's own attributes) by logging ones
    (type_cache=False: the session uses container subclasses the model does not name)"""
    if _path_cache() is not None:
        Path._CACHE = {True: PathLogDict(log, True), False: PathLogDict(log, False)}
    reg = default_registry()
    if reg is not None and type_cache:
        reg._type_cache = TypeLogDict(log)


def register_logged(r, log=None):
    apply_registration(r)
    reg = default_registry()
    if reg is not None and log is not None and getattr(log, 'type_cache', True) and not isinstance(reg._type_cache, TypeLogDict):
        # register() installed a new memo dict: keep observing it (contents preserved, unlogged)
        new = TypeLogDict(log)
        for k, v in dict.items(reg._type_cache):
            dict.__setitem__(new, k, v)
        reg._type_cache = new


def cache_state():
    """what the model calls pathCache / typeCache, read from the real objects (None: unobservable)"""
    cache, reg = _path_cache(), default_registry()
    if cache is None or reg is None:
        return None
    try:
        return dict(pct=[str(k) for k in dict.keys(cache[True])],
                    pcf=[str(k) for k in dict.keys(cache[False])],
                    tck=[[type_name(k[0]), k[1], handler_name(v)] for k, v in dict.items(reg._type_cache)])
    except Exception:   # noqa
        UNOBSERVABLE.add('cache contents')
        return None


def observability():
    """(run in a child) which mechanism-level observations are unavailable on this glom"""
    install_logs(EventLog())
    set_max_cache(1)
    cache_state()
    return sorted(UNOBSERVABLE)
# ---- vacuity: which steps / branches of the mechanism did a set of recorded histories take -------
STEP_KINDS = {'begin', 'toggle', 'reg', 'yield', 'pread', 'pcreate', 'pwrite', 'pfetch',
              'tcheck', 'tcompute', 'twrite', 'tfetch'}


def mechanism_coverage(hists):
    """counts per step kind and per branch (cache hit, bypass when full, memo hit, no handler)
    over fine-grained single-process histories"""
    import collections
    cnt = collections.Counter()
    for h in hists:
        ks = [ev.get('k', ev['e']) for ev in h if ev['e'] != 'end']
        cnt.update(ks)
        for a, b in zip(ks, ks[1:] + ['$']):
            if a == 'pread' and b == 'pfetch':
                cnt['branch:path-cache hit'] += 1
            if a == 'pread' and b == 'pcreate':
                cnt['branch:path-cache miss'] += 1
            if a == 'pcreate' and b != 'pwrite':
                cnt['branch:bypass when full'] += 1
            if a == 'tcheck' and b == 'tfetch':
                cnt['branch:memo hit'] += 1
            if a == 'tcompute' and b != 'twrite':
                cnt['branch:no handler, nothing memoized'] += 1
    return dict(cnt)


def require_coverage(cov):
    import vlib
    need = STEP_KINDS | {'branch:path-cache hit', 'branch:path-cache miss', 'branch:bypass when full',
                         'branch:memo hit', 'branch:no handler, nothing memoized'}
    missing = sorted(k for k in need if not cov.get(k))
    if missing:
        raise vlib.MachineryError('vacuity: mechanism steps / branches never taken: %s' % missing)


# ---- the "rendered and re-raised" nesting variant ---------------------------------------------
def has_log(n):
    """does the spec contain a nested call whose callable renders the inner error?"""
    if isinstance(n, dict):
        if n.get('op') == 'nest' and n.get('log'):
            return True
        return any(has_log(v) for v in n.values())
    if isinstance(n, list):
        return any(has_log(v) for v in n)
    return False


def unlogged(n):
    """the same call without the str(e): the law says outcome and error text are the same"""
    if isinstance(n, dict):
        return {k: (False if k == 'log' and n.get('op') == 'nest' else unlogged(v)) for k, v in n.items()}
    if isinstance(n, list):
        return [unlogged(v) for v in n]
    return n
