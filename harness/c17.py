"""C17  Iter pipelines equal the itertools composition, stay lazy, never mutate specs.

spec -> code
  * MC_C17.cfg: every (base stage, stage sequence, source) TLC enumerates carries the law's
    prediction (GlomStream Part A): outputs for every k <= KMax, END, Demand / DemandLA per k,
    first(), all().  Each case is built as a real Iter spec, run on an instrumented source
    (pull counter, budget on infinite sources) and compared.
  * MC_C17_pull.cfg: the pull machine (Part B) is run by TLC on every case with the PM laws as
    invariants; halted states carry the machine's event interleaving, which is compared with the
    interleaving observed on the real code (a mismatch there alone is DRIFT, not a violation).
  * MC_C17_build.cfg: every Derive history (Part C); the same derivations are made on real Iter /
    Invoke objects: new object each time, repr of every earlier spec unchanged, behaviour of
    every spec = the model's meaning.
code -> spec
  * seeded random pipelines (longer, other parameters, random sources) are run and their
    observations + pull/emit interleavings are judged by TLC (Trace_C17): law first, machine second.
"""
import multiprocessing as mp
import os
import random
import re
import shutil
import tempfile
from concurrent.futures import ThreadPoolExecutor

from glom import Iter, Invoke, T

import vlib
import c17_lib as L

PROP = 'C17'
INF = 999
BASE_CONST = {'DefMutant': '"none"', 'PullMutant': '"none"', 'BuildMutant': '"none"', 'Slim': 'FALSE'}

TIERS = {
    'quick': dict(
        cases=dict(MaxStages=3, Horizon=16, KMax=6, Wide='FALSE', MaxDerive=1),
        laws=dict(MaxStages=2, Horizon=16, KMax=6, Wide='FALSE', MaxDerive=1),
        pull=dict(MaxStages=2, Horizon=16, KMax=6, Wide='FALSE', MaxDerive=1),
        cases2=dict(MaxStages=1, Horizon=16, KMax=6, Wide='TRUE', MaxDerive=1),
        pulldump=dict(MaxStages=1, Horizon=16, KMax=6, Wide='TRUE', MaxDerive=1, Slim='TRUE'),
        build=dict(MaxStages=1, Horizon=16, KMax=6, Wide='FALSE', MaxDerive=3),
        rows=1600, chunk=200),
    'thorough': dict(
        cases=dict(MaxStages=4, Horizon=16, KMax=6, Wide='FALSE', MaxDerive=1),
        cases2=dict(MaxStages=1, Horizon=20, KMax=6, Wide='TRUE', MaxDerive=1),
        cases3=dict(MaxStages=2, Horizon=12, KMax=6, Wide='TRUE', MaxDerive=1, Slim='TRUE'),
        laws=dict(MaxStages=3, Horizon=16, KMax=6, Wide='FALSE', MaxDerive=1),
        pull=dict(MaxStages=2, Horizon=24, KMax=6, Wide='FALSE', MaxDerive=1),
        pull2=dict(MaxStages=1, Horizon=24, KMax=6, Wide='TRUE', MaxDerive=1),
        pull3=dict(MaxStages=3, Horizon=16, KMax=6, Wide='FALSE', MaxDerive=1),     # safety laws only
        pulldump=dict(MaxStages=2, Horizon=16, KMax=6, Wide='FALSE', MaxDerive=1),
        build=dict(MaxStages=1, Horizon=16, KMax=6, Wide='FALSE', MaxDerive=4),
        rows=12000, chunk=800),
}


def run_tlc(*a, **kw):
    """vlib.run_tlc; a JVM killed from outside (SIGKILL: the machine ran out of memory) is started again"""
    import time
    for attempt in range(3):
        res = vlib.run_tlc(*a, **kw)
        if res['rc'] not in (-9, 137):
            return res
        time.sleep(20 * (attempt + 1))
    return res


def consts(d, **over):
    c = dict(BASE_CONST)
    c.update({k: str(v) for k, v in d.items()})
    c.update(over)
    return c


# ---- TLC with -dump, processed in parallel -----------------------------------------------------
class Dump:
    heap = '2g'

    def __init__(self, cfg, constants, workers, label, coverage=False):
        self.cfg, self.constants, self.workers, self.label = cfg, constants, workers, label
        self.coverage = coverage
        self.scratch = tempfile.mkdtemp(prefix='glomverif_c17_')
        self.path = os.path.join(self.scratch, 'states')
        self.res = None

    def run(self):
        self.res = run_tlc('MC_C17', cfg=self.cfg, constants=self.constants, workers=self.workers,
                                extra=('-dump', self.path), heap=self.heap, timeout=3000, coverage=self.coverage)
        return self

    def close(self):
        shutil.rmtree(self.scratch, ignore_errors=True)


_JOB = None


def _wk(text):
    worker, keep = _JOB
    if keep is not None:
        blocks = re.split(r'^(?=State \d+:\n)', text, flags=re.M)
        text = ''.join(b for b in blocks if keep in b)
        if not text:
            return None
    return worker(vlib._parse_chunk_text(text))


def process_dump(d, worker, keep=None):
    global _JOB
    vlib.tlc_must_pass(d.res, d.label)
    _JOB = (worker, keep)
    try:
        with mp.get_context('fork').Pool(vlib.NCPU) as pool:
            return [r for r in pool.imap_unordered(_wk, vlib._dump_chunks(d.path + '.dump', 2 << 20))
                    if r is not None]
    finally:
        _JOB = None


# ---- judging one observation against the law's prediction ---------------------------------------
def outs_agree(P, obs, kd):
    o = obs['outs']
    if o[:min(kd, len(o))] != P['xs'][:min(kd, P['n'])]:
        return 'outputs'
    if obs['ended'] and len(o) + 1 <= kd and not (P['ended'] and P['n'] == len(o)):
        return 'end'
    if P['ended'] and P['n'] < kd and not (obs['ended'] and len(o) == P['n']):
        return 'end'
    return ''


def judge_one(pred, obs, kmax):
    """-> (clause, detail, drift) ; clause '' = the law holds on this observation"""
    demLA, dem = pred['demLA'], pred['dem']
    if obs['exc']:
        return 'exception', 'unexpected %s' % obs['exc'], ''
    ncalls = len(obs['pulled']) - 1
    if ncalls < 0:
        return 'laziness', 'glom() itself pulled beyond the horizon (DemandLA(0)=%d)' % demLA[0], ''
    kd = 0
    while kd < ncalls and demLA[kd + 1] != INF:
        kd += 1
    why = outs_agree(pred, obs, kd)
    if why:
        return why, 'first %d call(s): predicted %s%s, observed %s%s' % (
            kd, pred['xs'][:kd], ' END' if pred['ended'] and pred['n'] < kd else '',
            obs['outs'][:kd], ' END' if obs['ended'] else ''), ''
    for k in range(kd + 1):
        if obs['pulled'][k] > demLA[k]:
            return 'laziness', 'after %d call(s) %d source events pulled, DemandLA=%d (Demand=%d)' % (
                k, obs['pulled'][k], demLA[k], dem[k]), ''
    if obs['budget'] and ncalls + 1 <= kmax and demLA[ncalls + 1] != INF:
        return 'laziness', 'call %d ran beyond the horizon, DemandLA=%d' % (ncalls + 1, demLA[ncalls + 1]), ''
    drift = ''
    for k in range(kd + 1):
        if dem[k] != INF and obs['pulled'][k] < dem[k]:
            drift = 'pulled %d < Demand %d after %d call(s)' % (obs['pulled'][k], dem[k], k)
    return '', '', drift


def judge_iter(pred, obs, kmax):
    return judge_one(pred, obs, kmax)


def small_pred(pred):
    return {k: pred[k] for k in ('n', 'ended', 'xs', 'dem', 'demLA', 'first', 'all')}


def check_def_case(st, out):
    pipe, srcd, pred = st['pipe'], st['srcd'], st['pred']
    kmax, horizon = st['kmax'], out['horizon']
    out['cases'] += 1
    if pred['bad']:
        out['illtyped'] += 1
        return
    if pred['demLA'][0] == INF:
        out['undetermined'] += 1
        return
    nontrivial = len(pipe) >= 2
    if nontrivial:
        out['nontrivial'] += 1
    for st_ in pipe:
        out['kinds'][st_['kind']] = out['kinds'].get(st_['kind'], 0) + 1
    alt_sp = (len(pipe) + len(srcd['items'])) % 2 == 1
    sub = len(pipe) % 2 == 0            # lists / tuples of the source represented by subclass instances
    spec = L.build_iter(pipe, alt_sp)
    base = dict(kind='def', pipe=pipe, srcd=srcd, kmax=kmax, horizon=horizon, pred=small_pred(pred))

    def bad(clause, detail, **kw):
        out['bad'].append(dict(why='%s: %s' % (clause, detail), case=dict(base, clause=clause, **kw)))

    obs = L.run_iter(spec, srcd, kmax, horizon, bind_in_spec=not alt_sp, sub=sub)
    out['n'] += 1
    clause, detail, drift = judge_iter(pred, obs, kmax)
    if drift:
        out['drift'].append(dict(kind='def', pipe=pipe, srcd=srcd, what=drift))
    if clause:
        bad(clause, detail, obs=obs, call='iterate')
        return
    if len(out['samples']) < 1 and len(pipe) >= 3 and pred['n'] >= 2:
        out['samples'].append(dict(base, obs=obs, spec=repr(spec)))
    # first(key, default) for every predicted (key, default) pair: the first item for which key holds - the
    # item itself - else the default; all(): the whole list, terminating exactly when the pipeline ends
    if [(t['p'], t['d']) for t in pred['first']] != [(p_, V(d_)) for p_, d_ in FIRST_VARIANTS]:
        raise vlib.MachineryError('FIRST_VARIANTS differs from GlomStream!FirstVariants')
    terms = [('first', i, t) for i, t in enumerate(pred['first'])] + [('all', 0, pred['all'])]
    for kind, i, t in terms:
        if not (t['det'] and t['demLA'] != INF):
            continue
        tspec = terminal_spec(spec, kind, t)
        r = L.run_terminal(tspec, srcd, horizon, bind_in_spec=alt_sp, sub=sub)
        out['n'] += 1
        res = judge_terminal(kind, t, pred['xs'], r)
        if res:
            robs = dict(exc=r['exc'], budget=r['budget'], pulled=r['pulled'], v=L.enc(r['v']))
            bad(res[0], res[1], call=kind if kind == 'all' else 'first(%s, default=%s)' % (t['p'], L.dec(t['d'])), obs=robs)
        elif kind == 'all' and srcd['kind'] == 'fin':
            # the SAME spec object evaluated again after its first result was mutated, on the same data held
            # by an ordinary iterable (list / tuple / list subclass overriding __iter__ / falsy list subclass
            # holding the data / generator), items represented the other way
            mutate(r['v'])
            tk = L.TARGET_KINDS[(len(pipe) + len(srcd['items']) + pred['n']) % len(L.TARGET_KINDS)]
            r2 = L.run_terminal(tspec, srcd, horizon, bind_in_spec=not alt_sp, sub=not sub, target=tk)
            out['n'] += 1
            res = judge_terminal(kind, dict(t, demLA=INF), pred['xs'], r2)
            if res:
                bad('reuse', 'second evaluation of the same spec object (after the first result was mutated, target held '
                    'by a %s): %s' % (tk, res[1]), call='all twice', target=tk,
                    obs=dict(exc=r2['exc'], v=L.enc(r2['v'])))


def mutate(v):
    """append to a returned list and to every list inside it"""
    if type(v) is list:
        for x in list(v):
            mutate(x)
        v.append(99)
    elif isinstance(v, tuple):
        for x in v:
            mutate(x)


def terminal_spec(spec, kind, t):
    if kind == 'all':
        return spec.all()
    if t['p'] == 'T' and t['d'] == {'k': 'none'}:
        return spec.first()
    return spec.first(L.FNS[t['p']], default=L.dec(t['d']))


def judge_terminal(kind, t, xs, r):
    """'' if the observed terminal call r agrees with the prediction t (and xs for all()), else (clause, detail)"""
    if r['exc'] or r['budget']:
        return kind, '%s() raised %s' % (kind, r['exc'] or 'beyond horizon')
    if kind == 'first':
        want, got = t['v'], L.enc(r['v'])
    else:
        want = xs
        got = [L.enc(x) for x in r['v']] if type(r['v']) is list else L.enc(r['v'])
    if got != want:
        clause = kind
        return clause, '%s(%s) returned %s, predicted %s' % (kind, t.get('p', ''), got, want)
    if r['pulled'] > t['demLA']:
        return 'laziness', '%s() pulled %d source events, DemandLA=%d' % (kind, r['pulled'], t['demLA'])
    return ''


def new_out(horizon=0):
    return dict(n=0, cases=0, nontrivial=0, illtyped=0, undetermined=0, bad=[], drift=[], samples=[],
                horizon=horizon, kinds={})


def make_def_worker(horizon):
    def worker(states):
        out = new_out(horizon)
        for st in states:
            check_def_case(st, out)
        out['drift'] = out['drift'][:5] + [None] * max(0, len(out['drift']) - 5)
        return out
    return worker


# ---- pull machine: interleavings ------------------------------------------------------------------
def make_pull_worker(horizon):
    def worker(states):
        out = new_out(horizon)
        for st in states:
            if st['phase'] != 2:
                continue
            out['cases'] += 1
            pipe, srcd = st['pipe'], st['srcd']
            if len(pipe) >= 2:
                out['nontrivial'] += 1
            spec = L.build_iter(pipe)
            obs = L.run_iter(spec, srcd, st['kmax'], horizon + 2, want_ev=True)
            out['n'] += 1
            case = dict(kind='pull', pipe=pipe, srcd=srcd, kmax=st['kmax'], machine=dict(ev=st['ev'], outs=st['outs'], fin=st['fin']),
                        obs=obs)
            clause, detail, _ = judge_iter(st['pred'], obs, st['kmax'])
            if clause:
                out['bad'].append(dict(why='%s: %s' % (clause, detail), case=dict(case, clause=clause)))
            elif obs['outs'] != st['outs'] or obs['ended'] != (st['fin'] == 'end'):
                out['bad'].append(dict(why='outputs: machine (checked against the law) handed out %s fin=%s, real code %s ended=%s'
                                       % (st['outs'], st['fin'], obs['outs'], obs['ended']),
                                       case=dict(case, clause='outputs')))
            elif obs['ev'] != st['ev']:
                out['drift'].append(dict(kind='pull', pipe=pipe, srcd=srcd, what='interleaving: machine %s real %s'
                                         % (''.join(st['ev']), ''.join(obs['ev']))))
            elif len(out['samples']) < 1 and len(pipe) >= 3 and len(st['ev']) > 8:
                out['samples'].append(dict(kind='pull', pipe=pipe, srcd=srcd, ev=''.join(st['ev']), outs=st['outs']))
        out['drift'] = out['drift'][:5] + [None] * max(0, len(out['drift']) - 5)
        return out
    return worker


# ---- builder machine --------------------------------------------------------------------------------
KINDS = ['base', 'map', 'filter', 'slice', 'takewhile', 'dropwhile', 'chunked', 'windowed', 'split', 'unique', 'flatten']
PULL_ACTIONS = ['StartPull', 'PConsumerPull', 'PPrefill', 'PBuild', 'PStagePull', 'PEmit', 'PEnd', 'FinishPull']
PROBES = [[1, 2, 0, 3, 1], [3, None, 2, 2]]
PROBE_TARGET = [5, 6]


def behaviour(obj, cls):
    from glom import glom
    if cls == 'iter':
        res = []
        for p in PROBES:
            try:
                first = glom(list(p), obj.all())
                e1 = [L.enc(x) for x in first]
                mutate(first)                               # the first result is mutated ...
                e2 = [L.enc(x) for x in glom(tuple(p), obj.all())]      # ... and the same spec object evaluated again
                res.append(e1 if e1 == e2 else 'unstable: %s then %s' % (e1, e2))
            except Exception as e:
                res.append('exc:' + type(e).__name__)
        return res
    a, kw = glom(list(PROBE_TARGET), obj)
    return dict(pos=[L.enc(x) for x in a], kw=[[L.enc(k), L.enc(v)] for k, v in sorted(kw.items())])


def check_build_state(st, out):
    objs, hist, pred = st['objs'], st['bhist'], st['pred']
    out['cases'] += 1
    reused = len({h['o'] for h in hist}) < len(hist)
    if reused:
        out['nontrivial'] += 1
    o1 = objs[0]
    real = [L.base_spec(dict(f=o1['sub'], b=1 if o1['given'] else 0, v=o1['sent'])), Invoke(L.echo)]
    reprs = [repr(x) for x in real]
    behs = [behaviour(x, o['cls']) for x, o in zip(real, objs)]
    case = dict(kind='build', state=dict(objs=objs, bhist=hist, pred=pred))

    def bad(why, **kw):
        out['bad'].append(dict(why=why, case=dict(case, **kw)))
    ok = True
    for n, h in enumerate(hist):
        parent = real[h['o'] - 1]
        m = h['meth']
        new = L.add_stage(parent, m['st']) if m['m'] == 'stage' else L.invoke_method(parent, m)
        if any(new is x for x in real):
            bad('Derive %d returned an existing spec object instead of a new one' % (n + 1), clause='identity')
            ok = False
        real.append(new)
        now = [repr(x) for x in real[:-1]]
        if now != reprs:
            j = [a != b for a, b in zip(now, reprs)].index(True)
            bad('repr of spec %d changed from %s to %s by derivation %d' % (j + 1, reprs[j], now[j], n + 1),
                clause='repr')
            ok = False
        reprs = now + [repr(new)]
        # behaviour (not only repr) of every earlier spec, re-run after this derivation
        nowb = [behaviour(x, o['cls']) for x, o in zip(real[:-1], objs)]
        if nowb != behs:
            j = [a != b for a, b in zip(nowb, behs)].index(True)
            bad('behaviour of spec %d (%s) changed from %s to %s by derivation %d' % (j + 1, reprs[j], behs[j], nowb[j], n + 1),
                clause='frame')
            ok = False
        behs = nowb + [behaviour(new, objs[len(real) - 1]['cls'])]
    out['n'] += 1
    if not ok:
        return
    for j, (obj, p) in enumerate(zip(real, pred)):
        got = behaviour(obj, p['cls'])
        if p['cls'] == 'iter':
            for pi, (g, want) in enumerate(zip(got, p['outs'])):
                if want['bad']:
                    continue
                if g != want['xs']:
                    bad('spec %d (%s) on probe %s yields %s, its meaning yields %s'
                        % (j + 1, reprs[j], PROBES[pi], g, want['xs']), clause='behaviour', spec=j + 1)
                    break
        else:
            if got['pos'] != p['pos'] or got['kw'] != p['kw']:
                bad('Invoke spec %d (%s) calls with %s, its meaning is pos=%s kw=%s' % (j + 1, reprs[j], got, p['pos'], p['kw']),
                    clause='behaviour', spec=j + 1)
    if len(out['samples']) < 1 and len(hist) >= 3 and reused:
        out['samples'].append(dict(kind='build', hist=hist, reprs=[re.sub(r' at 0x[0-9a-f]+', '', r) for r in reprs]))


def build_worker(states):
    out = new_out()
    for st in states:
        check_build_state(st, out)
    return out


# ---- code -> spec: random pipelines -----------------------------------------------------------------
def V(x):
    return L.enc(x)


def S(kind, f='', a=0, b=0, c=0, v=None):
    return dict(kind=kind, f=f, a=a, b=b, c=c, v=V(v))


def rand_stage(rng, depth, n=5):
    """-> (stage, new nesting depth); depth = how many list levels the items have (type-directed so
    that most pipelines are well-typed; ~8% are left to chance)"""
    wild = rng.random() < 0.08

    def size(lo, hi):            # a size parameter: small, or at the boundary of the source length n
        return max(lo, rng.choice([n - 1, n, n + 1])) if rng.random() < 0.3 else rng.randint(lo, hi)
    kinds = ['map', 'filter', 'slice', 'limit', 'takewhile', 'dropwhile', 'chunked', 'windowed', 'split', 'unique', 'flatten']
    while True:
        k = rng.choice(kinds)
        if k == 'flatten' and depth == 0 and not wild:
            continue
        if k == 'unique' and depth > 0 and not wild:
            continue
        break
    nested = depth >= 1 or wild          # items are (mostly) lists / tuples: partial keys x[0], len(x) make sense
    if k == 'map':
        f = rng.choice(['inc', 'skip_odd', 'dup', 'T', 'stop_at2', 'mod2', 'inc_tup', 'inc_spec', 'inc_S']
                       + (['item0_T', 'item0_str', 'item0', 'item0_spec', 'cnt0_T', 'cnt0'] if nested else []))
        d = depth + 1 if f == 'dup' else max(depth - 1, 0) if f.startswith('item0') else 0 if f.startswith('cnt0') else depth
        return S('map', f), d
    if k == 'filter':
        return S('filter', rng.choice(['T', 'lt2', 'odd', 'lt2_check', 'lt2_spec', 'lt2_tup', 'lt2_S', 'even', 'notnone']
                                      + (['item0_T', 'isempty', 'cnt0_T'] if nested else []))), depth
    if k == 'slice':
        start = size(0, 3)
        stop = rng.choice([-1, -1, start, start + 1, start + 2, start + 4, 6])
        return S('slice', 'slice', start, stop, rng.randint(1, 3)), depth
    if k == 'limit':
        return S('slice', rng.choice(['limit', 'limit', 'slice1']), 0, size(0, 5), 1), depth
    if k in ('takewhile', 'dropwhile'):
        return S(k, rng.choice(['T', 'lt2', 'odd', 'lt2_tup', 'lt2_spec', 'lt2_S', 'odd_spec', 'notnone']
                               + (['item0_T', 'item0_str', 'cnt0_T', 'item0'] if nested else []))), depth
    if k == 'chunked':
        fill = rng.choice(['no', None, 0])
        return S('chunked', '', size(1, 4), 0 if fill == 'no' else 1, 0, None if fill == 'no' else fill), depth + 1
    if k == 'windowed':
        return S('windowed', '', min(size(1, 4), 9)), depth + 1
    if k == 'split':
        mode = rng.choice(['none', 'none', 'scalar', 'set', 'fn'] if depth == 0 or wild else ['none', 'scalar', 'fn'])
        # (a scalar separator None *is* the grouping mode, so scalar separators are ints)
        sep = None if mode == 'none' else rng.choice([0, 1]) if mode == 'scalar' else \
            rng.choice(['odd', 'lt2', 'isempty', 'notnone']) if mode == 'fn' else rng.choice([None, 0, 1])
        return S('split', mode, 0, rng.choice([-1, -1, 1, 2, 3]), 0, sep), depth + 1
    if k == 'unique':
        return S('unique', rng.choice(['T', 'mod2', 'mod2_tup', 'mod2_S'] + (['item0_spec', 'cnt0_T'] if nested else []))), depth
    return S('flatten'), max(depth - 1, 0)


def rand_source(rng):
    r = rng.random()
    atoms = [0, 1, 2, 3, 4, None, 1, 2] + ([L.WILD, L.NULL, 1] if rng.random() < 0.25 else []) \
        + ([False, True, 0] if rng.random() < 0.3 else [])
    if r < 0.2:
        return dict(kind='count', items=[]), 0
    if r < 0.35:
        return dict(kind='cyc', items=[V(rng.choice(atoms)) for _ in range(rng.randint(1, 5))]), 0
    if r < 0.5:
        items = [rng.choice([list, list, tuple, L.FalsyList])(rng.choice(atoms) for _ in range(rng.randint(0, 3)))
                 for _ in range(rng.randint(0, 6))]
        return dict(kind='fin', items=[V(x) for x in items]), 1
    return dict(kind='fin', items=[V(rng.choice(atoms)) for _ in range(rng.randint(0, 12))]), 0


# the (key, default) pairs of first() the specification predicts for every case (GlomStream!FirstVariants)
FIRST_VARIANTS = [('T', None), ('notnone', 7), ('even', []), ('isempty', 0), ('item0_T', 7), ('lt2_S', 7)]


def rand_row(rng, horizon=24):
    srcd, depth = rand_source(rng)
    sub = rng.choice(['T', 'T', 'T', 'inc', 'skip_odd', 'stop_at2', 'dup', 'inc_spec', 'inc_S'] + (['item0_T', 'cnt0_T'] if depth else []))
    given = rng.random() < 0.3
    sent = rng.choice([0, None, 2, 3]) if given else L.STOP
    pipe = [dict(kind='base', f=sub, a=0, b=1 if given else 0, c=0, v=V(sent))]
    depth = depth + 1 if sub == 'dup' else 0 if sub in ('item0_T', 'cnt0_T') else depth
    for _ in range(rng.randint(0, 6)):
        st, depth = rand_stage(rng, depth, len(srcd['items']) if srcd['kind'] == 'fin' else 5)
        pipe.append(st)
    return dict(pipe=pipe, srcd=srcd, kmax=rng.randint(0, 10), horizon=horizon)


def record_rows(n, seed):
    rng = random.Random(seed)
    rows, dropped = [], 0
    while len(rows) < n:
        row = rand_row(rng)
        spec = L.build_iter(row['pipe'], alt_spelling=rng.random() < 0.5)
        bind = rng.random() < 0.5          # scope bound by S(..) earlier in the spec / passed with scope=
        sub = rng.random() < 0.5           # lists / tuples of the source as subclass instances
        obs = L.run_iter(spec, row['srcd'], row['kmax'], row['horizon'], want_ev=True, bind_in_spec=bind, sub=sub)
        if not obs['exc'] and not obs['pulled']:
            dropped += 1        # undetermined already at glom() (budget)
            continue
        # (a run that raised is recorded too: the specification accepts it only if the pipeline is ill-typed)
        obs['mech'] = not obs['budget'] and not obs['exc']
        obs['exc'] = bool(obs['exc'])
        row['obs'] = obs
        # one terminal call on the same pipeline: first(key, default) for one of the predicted pairs, or all()
        term = dict(kind='none', idx=0, v=V(None), pulled=0, budget=False)
        choice = rng.randint(0, len(FIRST_VARIANTS) + 1)
        if choice >= 1 and not obs['exc']:
            kind = 'first' if choice <= len(FIRST_VARIANTS) else 'all'
            t = dict(p=FIRST_VARIANTS[choice - 1][0], d=V(FIRST_VARIANTS[choice - 1][1])) if kind == 'first' else {}
            r = L.run_terminal(terminal_spec(spec, kind, t), row['srcd'], row['horizon'], bind_in_spec=not bind, sub=not sub)
            if not r['exc']:
                v = V(None) if r['budget'] else V(r['v'])
                term = dict(kind=kind, idx=choice if kind == 'first' else 0, v=v, pulled=r['pulled'], budget=r['budget'])
        row['term'] = term
        rows.append(row)
    return rows, dropped


def validate_trace(check, rows, label, chunk):
    """-> (rejects [(row, record)], skipped)"""
    scratch = tempfile.mkdtemp(prefix='glomverif_c17rows_')
    chunks = [rows[i:i + chunk] for i in range(0, len(rows), chunk)]
    rejects, skipped = [], 0
    try:
        def one(ci):
            path = os.path.join(scratch, 'rows_%d.ndjson' % ci)
            vlib.write_ndjson(path, chunks[ci])
            return ci, run_tlc('Trace_C17', workers=1, env={'TRACE_FILE': path}, timeout=3000, heap='1g')
        with ThreadPoolExecutor(max_workers=min(8, len(chunks))) as ex:
            for ci, res in ex.map(one, range(len(chunks))):
                vlib.tlc_must_pass(res, 'Trace_C17 chunk %d' % ci)
                done = [j for j in res['json'] if 'done' in j]
                if not done or done[-1]['done'] != len(chunks[ci]):
                    raise vlib.MachineryError('Trace_C17 consumed %s of %d rows' % (done, len(chunks[ci])))
                check.add_tlc(res, 'Trace_C17[%s#%d]' % (label, ci))
                skipped += done[-1]['skipped']
                seen = set()
                for j in res['json']:
                    if 'reject' in j and j['reject'] not in seen:
                        seen.add(j['reject'])
                        rejects.append((chunks[ci][j['reject'] - 1], j))
    finally:
        shutil.rmtree(scratch, ignore_errors=True)
    return rejects, skipped


# ---- findings ------------------------------------------------------------------------------------------
def match_finding(f, case):
    """no known finding is open for C17: every disagreement with the law is a VIOLATION"""
    return False


# ---- main -------------------------------------------------------------------------------------------------
def corrupted_rows():
    """self-test of the trace checker, independent of the implementation: a hand-written correct
    execution of Iter().map(inc) on [1, 2, 3] (must be accepted), a copy with a wrong output (must be
    rejected by the law) and a copy with one more source pull in the interleaving (must be rejected
    by the pull machine only)"""
    import copy
    good = dict(pipe=[S('base', 'T', 0, 0, 0, L.STOP), S('map', 'inc')],
                srcd=dict(kind='fin', items=[V(1), V(2), V(3)]), kmax=4, horizon=24,
                obs=dict(outs=[V(2), V(3), V(4)], ended=True, pulled=[0, 1, 2, 3, 4], budget=False, exc=False,
                         ev=['b', 'p', 'e', 'p', 'e', 'p', 'e', 'x', 'f'], mech=True),
                term=dict(kind='all', idx=0, v=V([2, 3, 4]), pulled=4, budget=False))
    a = copy.deepcopy(good)
    a['obs']['outs'][1] = V(77)
    b = copy.deepcopy(good)
    b['obs']['ev'].insert(3, 'p')
    return [good, a, b]


def spec_mutants(check):
    runs = [('MC_C17', dict(DefMutant='"first_or_default"'), 'def:first_or_default (a falsy match is replaced by the default)'),
            ('MC_C17_pull', dict(PullMutant='"tkey_called"', Wide='TRUE', MaxStages=1), 'pull:tkey_called (T-expression key called, not glommed)'),
            ('MC_C17_pull', dict(PullMutant='"check_passes"', Wide='TRUE', MaxStages=1), 'pull:check_passes (Check key of filter ignored)'),
            ('MC_C17_pull', dict(PullMutant='"sepfn_ignored"', Wide='TRUE', MaxStages=1), 'pull:sepfn_ignored (callable separator never separates)'),
            ('MC_C17_pull', dict(PullMutant='"skey_unscoped"', Wide='TRUE', MaxStages=1), 'pull:skey_unscoped (a key reading S is not evaluated in the running scope)'),
            ('MC_C17_pull', dict(PullMutant='"filter_ne"', Wide='TRUE', MaxStages=1), 'pull:filter_ne (filter lets the item\'s own != decide)'),
            ('MC_C17_pull', dict(PullMutant='"unique_identity"', Wide='TRUE', MaxStages=1), 'pull:unique_identity (unique keeps 1 and True apart)'),
            ('MC_C17_pull', dict(PullMutant='"flatten_skips_falsy"', Wide='TRUE', MaxStages=1), 'pull:flatten_skips_falsy (a falsy container holding data is skipped)'),
            ('MC_C17_pull', dict(PullMutant='"reverse"'), 'pull:reverse'),
            ('MC_C17_pull', dict(PullMutant='"takewhile_drain"'), 'pull:takewhile_drain'),
            ('MC_C17_build', dict(BuildMutant='"inplace"'), 'build:inplace'),
            ('MC_C17_build', dict(BuildMutant='"sharekw"'), 'build:sharekw'),
            ('MC_C17_build', dict(BuildMutant='"dropsentinel"'), 'build:dropsentinel (_add_op before 54a8dd1)')]
    base = dict(MaxStages=2, Horizon=16, KMax=6, Wide='FALSE', MaxDerive=3)

    def one(r):
        cfg, over, label = r
        return label, run_tlc('MC_C17', cfg=cfg, constants=consts(base, **over), workers=4, timeout=1500)
    out = {}
    with ThreadPoolExecutor(max_workers=3) as ex:
        for label, res in ex.map(one, runs):
            if not res['violated']:
                raise vlib.MachineryError('spec mutant %s: TLC did not report a law violated' % label)
            if label.startswith('build:dropsentinel') and res['violated'] != 'LawExtends':
                raise vlib.MachineryError('spec mutant %s violated %s, expected LawExtends' % (label, res['violated']))
            out[label] = res['violated']
    check.extra['spec_mutants_detected'] = out


def main(tier, seed):
    check = vlib.Check(PROP, tier, seed)
    cfgd = TIERS[tier]
    Dump.heap = '6g' if tier == 'thorough' else '2g'
    jobs = [Dump('MC_C17_cases', consts(cfgd['cases']), 8, 'cases'),
            Dump('MC_C17_pull', consts(cfgd['pulldump']), 4, 'pull'),
            Dump('MC_C17_build', consts(cfgd['build']), 2, 'build', coverage=(tier == 'thorough'))]
    if 'cases2' in cfgd:
        jobs.append(Dump('MC_C17_cases', consts(cfgd['cases2']), 6, 'cases-wide'))
    if 'cases3' in cfgd:
        jobs.append(Dump('MC_C17_cases', consts(cfgd['cases3']), 6, 'cases-wide-deep'))
    rows, dropped = record_rows(cfgd['rows'], seed)
    bad_rows = corrupted_rows()
    cover = tier == 'thorough'
    try:
        with ThreadPoolExecutor(max_workers=10) as ex:
            futs = [ex.submit(j.run) for j in jobs]
            laws = ex.submit(run_tlc, 'MC_C17', cfg='MC_C17', constants=consts(cfgd['laws']), workers=4, heap='2g',
                             timeout=3000, coverage=cover)
            plaws = [(k, ex.submit(run_tlc, 'MC_C17', cfg='MC_C17_pull_safety' if k == 'pull3' else 'MC_C17_pull',
                                   constants=consts(cfgd[k]), workers=8 if k == 'pull3' else 6,
                                   timeout=6000, heap='6g' if tier == 'thorough' else '2g', coverage=cover and k == 'pull2'))
                     for k in ('pull', 'pull2', 'pull3') if k in cfgd]
            tr = ex.submit(validate_trace, check, rows, 'random-pipelines', cfgd['chunk'])
            trbad = ex.submit(validate_trace, vlib.Check(PROP, tier, seed), bad_rows, 'corrupted', 10)
            for f in futs:
                f.result()
            res_laws = vlib.tlc_must_pass(laws.result(), 'MC_C17 (laws of the definition)')
            for k, f in plaws:
                r_ = vlib.tlc_must_pass(f.result(), 'MC_C17_pull (pull machine satisfies the laws) %s' % k)
                check.add_tlc(r_, 'MC_C17_pull laws %s' % cfgd[k])
                if r_['coverage']:
                    missing = [a for a in PULL_ACTIONS if not r_['coverage'].get(a)]
                    if missing:
                        raise vlib.MachineryError('pull machine actions never taken: %s' % missing)
            rejects, skipped = tr.result()
            rej_bad, _ = trbad.result()
        check.add_tlc(res_laws, 'MC_C17 laws %s' % cfgd['laws'])
        # -- corrupted rows must be rejected, with the right kind of clause
        clauses = sorted((r[1]['reject'], r[1]['clause']) for r in rej_bad)
        if [c[0] for c in clauses] != [2, 3] or clauses[0][1] != 'outputs' or not clauses[1][1].startswith('drift'):
            raise vlib.MachineryError('trace checker self-test: expected row 1 accepted, row 2 rejected by the law, '
                                      'row 3 rejected by the machine; got %s' % clauses)
        check.extra['corrupted_rows_rejected'] = clauses
        # -- recorded executions
        drift = []
        for row, rej in rejects:
            if rej['clause'].startswith('drift'):
                drift.append(dict(kind='trace', pipe=row['pipe'], srcd=row['srcd'], what=rej['clause'], ev=''.join(row['obs']['ev'])))
                continue
            check.violation(dict(kind='trace', clause=rej['clause'], **row),
                            'recorded execution rejected by the specification: clause %s' % rej['clause'],
                            matcher=match_finding)
        check.validated(len(rows) - skipped - len(rejects))
        check.cov['evaluations'] += len(rows)
        check.extra['recorded_rows'] = dict(rows=len(rows), dropped_undetermined_at_glom=dropped, skipped_illtyped_by_spec=skipped,
                                            rejected=len(rejects))
        for row in rows[:1]:
            check.sample(dict(kind='recorded', **row), limit=8)
        # -- dumps
        workers = {'cases': make_def_worker(cfgd['cases']['Horizon']), 'pull': make_pull_worker(cfgd['pull']['Horizon']),
                   'build': build_worker}
        if 'cases2' in cfgd:
            workers['cases-wide'] = make_def_worker(cfgd['cases2']['Horizon'])
        if 'cases3' in cfgd:
            workers['cases-wide-deep'] = make_def_worker(cfgd['cases3']['Horizon'])
        stats = {}
        for j in jobs:
            results = process_dump(j, workers[j.label], keep='/\\ phase = 2' if j.label == 'pull' else None)
            check.add_tlc(j.res, '%s %s' % (j.cfg, j.constants))
            agg = dict(cases=0, runs=0, nontrivial=0, illtyped=0, undetermined=0, violating=0, drift=0, kinds={})
            for r in results:
                for k_, n_ in r['kinds'].items():
                    agg['kinds'][k_] = agg['kinds'].get(k_, 0) + n_
                agg['cases'] += r['cases']
                agg['runs'] += r['n']
                agg['nontrivial'] += r['nontrivial']
                agg['illtyped'] += r['illtyped']
                agg['undetermined'] += r['undetermined']
                agg['drift'] += len(r['drift'])
                drift.extend(d for d in r['drift'] if d)
                agg['violating'] += len(r['bad'])
                for s in r['samples']:
                    check.sample(s, limit=8)
                for b in r['bad']:
                    check.violation(b['case'], b['why'], matcher=match_finding)
                check.validated(r['cases'] - r['illtyped'] - r['undetermined'] - len({str(b['case'].get('pipe')) + str(b['case'].get('srcd')) + str(b['case'].get('state', {}).get('bhist')) for b in r['bad']}))
            check.cov['evaluations'] += agg['runs']
            check.cov['distinct_nontrivial'] += agg['nontrivial']
            stats[j.label] = agg
            if agg['cases'] == 0:
                raise vlib.MachineryError('no cases in the %s dump' % j.label)
            if j.label == 'cases':
                missing = [k_ for k_ in KINDS if not agg['kinds'].get(k_)]
                if missing:
                    raise vlib.MachineryError('stage kinds never exercised in a well-typed case: %s' % missing)
            if j.label == 'build' and j.res['coverage'] and not j.res['coverage'].get('DeriveFrom'):
                raise vlib.MachineryError('builder action Derive never taken')
        check.extra['replay'] = stats
        ndrift = sum(s['drift'] for s in stats.values()) + sum(1 for d in drift if d.get('kind') == 'trace')
        check.extra['drift'] = dict(count=ndrift, examples=drift[:5])
        if ndrift:
            print('DRIFT property=%s: %d execution(s) satisfy the law but not the mechanism model, e.g. %s'
                  % (PROP, ndrift, drift[:1]))
    finally:
        for j in jobs:
            j.close()
    if tier == 'thorough':
        spec_mutants(check)
    check.extra['constants'] = {k: v for k, v in cfgd.items() if isinstance(v, dict)}
    check.assumptions += [
        'stage keys / subspecs come from a fixed function library (inc, skip_odd, stop_at2, dup, mod2, item0, cnt0, lt2, odd, notnone, even, isempty, T), each in the spellings a glom spec can take (callable, T expression, path string, tuple, Spec, Check for filter, Invoke(..).specs(T, S.var) reading the running scope); every real call runs under the scope {cut: 2, one: 1}, passed with scope= or bound by S(..) earlier in the same spec; keys resolved by the registered handlers of a Glommer instance are not modelled; items include two objects with hostile == / != (equal to everything; comparisons yield a falsy object), both unhashable; pipelines in which a key raises (x[0] / x.count(0) on a wrong item) are ill-typed and skipped, also under filter, where glom turns the error into SKIP',
        'ill-typed pipelines (flatten over a non-iterable, unique / set-separator split over an unhashable item anywhere inside the horizon) are outside the law and skipped; exceptions are not compared',
        'split(maxsplit=0) (boltons yields the iterator itself) and string items are outside the universe',
        'SKIP / STOP are control values: a pipeline in which the SKIP or STOP object itself travels as an ordinary stream item (produced by a .map function) is outside the contract and skipped like an ill-typed one; there glom differs from the plain composition: glom([1], Iter().map(lambda x: SKIP).first(lambda x: True)) returns the map iterator (a tuple step yielding SKIP is skipped), glom([1], Iter().map(lambda x: SKIP).filter(lambda x: True).all()) == [] (filter tests "result is not SKIP")',
        'sentinels are small ints / None, for which identity and equality coincide',
        'infinite sources are looked at up to Horizon items; a request whose DemandLA lies beyond it is not judged',
        'the look-ahead allowed on top of Demand is the documented one: size-1 items for windowed (filled at creation), step-1 items for slice with a step',
        'a mismatch of the exact pull/emit interleaving with the pull machine alone is reported as DRIFT, not as a violation',
        'TLC, the Json community module and the value codec are trusted']
    return check.finish(rule='TLC enumerates every (base stage, stage sequence, source) within the constants and every Derive history; '
                        'each case is run on the real library (iterate k<=KMax, first(), all()); recorded rows are seeded random pipelines. '
                        'non-trivial = at least one chained stage (def/pull cases) or a history that derives twice from the same spec (builder); '
                        'distinct by TLC state fingerprint', exhaustive=True)


def replay(path):
    import json
    with open(path) as f:
        v = json.load(f)
    case = v['case']
    print('why:', v['why'])
    kind = case.get('kind')
    if kind in ('def', 'pull', 'trace'):
        spec = L.build_iter(case['pipe'])
        print('spec:', repr(spec), ' sentinel=%r' % (spec.sentinel,))
        obs = L.run_iter(spec, case['srcd'], case['kmax'], case.get('horizon', 24), want_ev=True)
        print('observed:', obs)
        if kind == 'def':
            out = new_out(case['horizon'])
            check_def_case(dict(pipe=case['pipe'], srcd=case['srcd'], kmax=case['kmax'], pred=dict(case['pred'], bad=False)), out)
            for b_ in out['bad']:
                print('still disagrees:', b_['why'])
            print('verdict now:', 'disagrees' if out['bad'] else 'agrees with the law')
            return 1 if out['bad'] else 0
        if kind == 'pull':
            same = obs['outs'] == case['machine']['outs']
            print('machine:', case['machine'])
            return 0 if same else 1
        print('recorded:', case['obs'])
        rej, _ = validate_trace(vlib.Check(PROP, 'quick', 0), [dict((k, case[k]) for k in ('pipe', 'srcd', 'kmax', 'horizon')) | {'obs': dict(obs, mech=not obs['budget'] and not obs['exc'], exc=bool(obs['exc'])), 'term': case.get('term', dict(kind='none', idx=0, v=V(None), pulled=0, budget=False))}], 'replay', 1)
        print('TLC verdict now:', [r[1] for r in rej] or 'accepted')
        return 1 if any(not r[1]['clause'].startswith('drift') for r in rej) else 0
    if kind == 'build':
        out = new_out()
        check_build_state(case['state'], out)
        print('history:', case['state']['bhist'])
        for b in out['bad']:
            print('still disagrees:', b['why'])
        return 1 if out['bad'] else 0
    print('unknown case kind')
    return 2
