"""C09  Match succeeds exactly on conforming targets and returns them unchanged.

spec -> code: every (pattern, target) case TLC enumerates from spec/MC_C09.tla -- with the
outcome GlomMatch!Ev predicts for glom(t, Match(p)) and glom(t, Match(p, default=[77, T])) -- is
replayed into the real library: glom(), Match.verify(), Match.matches(), Match(default=), the
same Match object evaluated again after the caller mutated the first result,
result compared with ==, exception class against the permitted classes, target heap
snapshot before/after.
code -> spec: seeded random deeper patterns with a derived conforming target and one-edit
mutations of it are run through the real library; the recorded rows are validated by TLC
(spec/Trace_C09.tla re-evaluates Ev on every row).
"""
import json
import random
import zlib

import glom
from glom import Match

import vlib
import c09_build as B
import c09_gen as G

PROP = 'C09'
DEFAULT_TREE = {'k': 'c', 'cls': 'list', 'items': [{'k': 'int', 'i': 77}, {'k': 'targ', 'steps': []}]}   # default=[77, T]


SLOW_EVERY = 1      # failing cases: verify() / matches() (two more full error paths) on every n-th case


def run_case(pattern, tree, full=True, shared=None):
    """Run the real library on one case; returns the observation record.  shared: a Match object
    that was used before (the glom() call goes through it instead of a fresh one)."""
    target = B.tree_py(tree)
    before = B.snapshot(target)
    ctx = B.Ctx()
    obs = {}

    def call(name, fn, **kw):
        spec, failed = B.build(pattern, ctx, wrap=lambda s: Match(s, **kw))
        obs[name] = failed if failed else B.observe(lambda: fn(spec))
    if shared is not None:
        obs['glom'] = B.observe(lambda: glom.glom(target, shared))
        obs['_target'] = target
    else:
        call('glom', lambda m: glom.glom(target, m))
    if full or obs['glom']['ok']:
        call('verify', lambda m: m.verify(target))
        call('matches', lambda m: m.matches(target))
    call('default', lambda m: glom.glom(target, m), default=B.arg_py(DEFAULT_TREE))
    if obs['glom']['ok'] and B.has_default(pattern):
        # ONE Match object evaluated, its result mutated by the caller, evaluated again
        m, failed = B.build(pattern, ctx, wrap=Match)
        if failed:
            obs['again'] = failed
        else:
            first = B.observe(lambda: glom.glom(target, m))
            if first['ok']:
                B.poison(first['res'], target)
            obs['again'] = B.observe(lambda: glom.glom(target, m))
    obs['unchanged'] = B.snapshot(target) == before
    return obs


def judge_outcome(o, ob, what):
    """o: predicted outcome (GlomMatch outcome record), ob: observation of one call."""
    if o['ok'] != ob['ok']:
        return '%s: predicted %s, observed %s' % (what, 'success' if o['ok'] else 'failure %s' % sorted(o['errs']),
                                                   'success' if ob['ok'] else ob['cls'])
    if o['ok']:
        exp = B.tree_py(o['v'])
        if not (ob['res'] == exp and exp == ob['res']):
            return '%s: result %r is not equal to the predicted %r' % (what, ob['res'], exp)
    elif not B.class_ok(o['errs'], ob):
        return '%s: raised %s (MatchError=%s TypeError=%s GlomError=%s), permitted %s' % (
            what, ob['cls'], ob['is_match'], ob['is_type'], ob['is_glom'], sorted(o['errs']))
    return None


def judge(pred, obs):
    """-> list of (call, why) disagreements"""
    o, od = pred['o'], pred['od']
    if o['amb'] or od['amb']:
        return []
    bad = []
    for call, what, oo in (('glom', 'glom(t, Match(p))', o), ('verify', 'Match(p).verify(t)', o),
                           ('default', 'glom(t, Match(p, default=[77, T]))', od),
                           ('again', 'glom(t, m) again after the first result of the same m = Match(p) was mutated', pred['o2'])):
        if call in obs:
            w = judge_outcome(oo, obs[call], what)
            if w:
                bad.append((call, w))
    if 'matches' in obs:
        m = obs['matches']
        if not m['ok'] or m['res'] is not o['ok']:
            bad.append(('matches', 'Match(p).matches(t) gave %s, predicted %s' % (m.get('res', m.get('cls')), o['ok'])))
    if not obs['unchanged']:
        bad.append(('unchanged', 'target modified'))
    return bad


def nontrivial(st):
    return st['pattern']['op'] not in ('lit', 'type') and st['target']['k'] == 'c'


def worker(states):
    try:
        return _worker(states)
    except Exception:            # an exception escaping a pool worker would hang the pool
        import traceback
        return dict(error=traceback.format_exc())


def _worker(states):
    out = dict(n=0, cases=0, nontrivial=0, amb=0, ok=0, fail=0, tme=0, foreign=0, bad=[], samples=[], by_op={})
    for st in states:
        if st.get('phase') != 2:
            continue
        out['cases'] += 1
        pred = st['pred']
        if pred['o']['amb']:
            out['amb'] += 1
        if nontrivial(st):
            out['nontrivial'] += 1
        cnt = out['by_op'].setdefault(st['pattern']['op'], [0, 0])
        cnt[0 if pred['o']['ok'] else 1] += 1
        if pred['o']['ok']:
            out['ok'] += 1
        else:
            out['fail'] += 1
            out['tme'] += 'TypeMatchError' in pred['o']['errs']
            out['foreign'] += 'TypeError' in pred['o']['errs']
        full = SLOW_EVERY == 1 or zlib.crc32(json.dumps([st['pattern'], st['target']], sort_keys=True).encode()) % SLOW_EVERY == 0
        obs = run_case(st['pattern'], st['target'], full)
        out['n'] += len(obs) - 1
        if len(out['samples']) < 1 and nontrivial(st) and pred['o']['ok']:
            out['samples'].append(dict(pattern=st['pattern'], target=st['target'], pred=pred))
        for call, why in judge(pred, obs):
            out['bad'].append(dict(why=why, case=dict(kind='spec->code', call=call, pattern=st['pattern'], target=st['target'],
                                                      pred=pred, obs={k: B.json_safe(v) for k, v in obs.items() if isinstance(v, dict)})))
    return out


# ---- code -> spec -----------------------------------------------------------------------------
def record_seq(pattern, trees, how=''):
    """ONE Match object used on the targets in sequence; after every use the caller mutates the
    containers of the result.  Each use is a row of its own (a pattern object carries no memory)."""
    m, failed = B.build(pattern, B.Ctx(), wrap=Match)
    if failed:
        return [record_row(pattern, t, how) for t in trees]
    rows = []
    for k, tree in enumerate(trees):
        row = record_row(pattern, tree, how, shared=m)
        row['nth_use'] = k + 1
        rows.append(row)
    return rows


def record_row(pattern, tree, how='', shared=None):
    obs = run_case(pattern, tree, shared=shared)
    cells, root = B.tree_cells(tree)

    def enc(ob):
        if ob['ok']:
            return {'ok': True, 'v': B.py_tree(ob['res']), 'cls': '', 'site': ''}
        return {'ok': False, 'v': {'k': 'none'}, 'cls': ob['cls'], 'site': ob['site']}
    g = obs['glom']
    row = dict(heap=cells, root=root, pattern=pattern, how=how,
               obs=dict(glom=enc(g), verify=enc(obs['verify']), default=enc(obs['default']),
                        again=enc(obs.get('again', g)), has_again='again' in obs,
                        matches=bool(obs['matches'].get('res')) if obs['matches']['ok'] else False,
                        matches_raised=not obs['matches']['ok'],
                        unchanged=obs['unchanged'],
                        typeerror=bool(not g['ok'] and g['is_type']),
                        matcherror=bool(not g['ok'] and g['is_match'])))
    if shared is not None and g['ok']:
        B.poison(g['res'], obs['_target'])          # (after the row was encoded)
    return row


def record(check, n, seed):
    rng = random.Random(seed)
    inputs = []
    kinds = dict(conforming=0, mutated=0, unrelated=0)
    kinds['eqmix'] = 0
    while sum(len(i[1]) for i in inputs) < n:
        if rng.random() < 0.05:
            p, t = G.gen_eqmix(rng)
            kinds['eqmix'] += 1
            inputs.append((p, [t], 'eqmix'))
            continue
        p = G.gen_pattern(rng, rng.randint(1, 4))
        t = G.conforming(rng, p)
        if t is None:
            t = G.rand_tree(rng, 2)
            kind = 'unrelated'
        else:
            r = rng.random()
            if r < 0.45:
                kind = 'conforming'
            elif r < 0.9:
                t = G.mutate(rng, t)
                kind = 'mutated'
            else:
                t = G.rand_tree(rng, 2)
                kind = 'unrelated'
        kinds[kind] += 1
        if rng.random() < 0.02:
            t = {'k': 'grumpy'}                      # a target whose == raises on foreign operands
        ts = [t]
        if rng.random() < 0.2:                       # the same Match object on two or three targets in a row
            ts += [G.mutate(rng, t) if rng.random() < 0.6 else G.rand_tree(rng, 2) for _ in range(rng.randint(1, 2))]
            kinds['reused'] = kinds.get('reused', 0) + 1
        inputs.append((p, ts, kind))
    rows = [r for rs in B.pmap(record_seq, [(B.normalize(p), ts, how) for p, ts, how in inputs]) for r in rs][:n]
    rejects, skipped = B.validate_rows(check, 'Trace_C09', rows, 'random-patterns')
    check.extra['recorded_rows_not_judged_order_dependent'] = skipped
    for row, rej in rejects:
        row['_rejected'] = True
        check.violation(dict(kind='code->spec', row=row, clause=rej['clause']),
                        'recorded execution rejected by the specification: clause %s' % rej['clause'],
                        matcher=match_finding)
    nconf = sum(1 for r in rows if r['obs']['glom']['ok'])
    check.extra['recorded'] = dict(rows=len(rows), kinds=kinds, observed_success=nconf)
    for row in rows[:2]:
        check.sample(dict(kind='recorded', **row), limit=6)
    if nconf < len(rows) // 10 or nconf > len(rows) * 9 // 10:
        check.extra.setdefault('problems', []).append('recorded rows are one-sided: %d of %d succeed' % (nconf, len(rows)))
    return rows


def corrupt_selftest(check, rows):
    """A recorded row (accepted as recorded) with one corrupted observation must be rejected by
    Trace_C09."""
    for row in rows:
        if not row.get('_rejected') and row['obs']['glom']['ok'] and row['obs']['glom']['v']['k'] == 'c':
            bad = json.loads(json.dumps(row))
            bad['obs']['glom']['ok'] = False
            bad['obs']['glom']['cls'] = 'MatchError'
            bad['obs']['glom']['v'] = {'k': 'none'}
            tmp = vlib.Check(PROP, 'selftest', 0)
            rej = vlib.validate_rows(tmp, 'Trace_C09', [row, bad], 'corrupt')
            check.extra['corrupted_row_rejected'] = [j['clause'] for r, j in rej if r is bad]
            if [r is bad for r, _ in rej] != [True] and not check.violations:
                raise vlib.MachineryError('corrupted recorded row not rejected (rejects=%r)' % ([j for _, j in rej],))
            return
    if not check.violations:
        raise vlib.MachineryError('no row to corrupt')


def match_finding(f, case):
    """No known finding is open for C09 (Not raising a bare GlomError is repaired in the repository
    and lives on as the spec mutant not_glomerror); any disagreement is a VIOLATION."""
    return False


MUTANTS = [('opt_default_always', ('Result', 'Unchanged', 'Decides')), ('dict_try_later', ('Decides',)),
           ('required_ignored', ('Decides',)), ('type_exact', ('Decides',)),
           ('not_glomerror', ('ErrClass',)),      # glom's behaviour before its repair
           # one plausible wrong mechanism per further construct
           ('nested_match_default_ignored', ('Decides', 'Result')),      # Match nested in a pattern
           ('regex_flags_ignored', ('Decides',)), ('regex_default_search', ('Decides',)),
           ('regex_nonstr_typematcherror', ('ErrClass',)),               # Regex on a non-string
           ('m_reflected_unswapped', ('Decides',)),                      # constant op M
           ('keys_by_precedence', ('Decides', 'Result')),                # several candidate keys: insertion order
           ('opt_default_validated', ('Decides',)),                      # Optional(key, default=)
           ('type_keys_required', ('Decides',)),                         # type / object catch-all keys are optional
           ('set_family_loose', ('Decides', 'ErrClass')),                # set vs frozenset patterns
           ('tuple_length_unchecked', ('Decides',)),                     # tuples are fixed-length
           ('unorderable_is_rejection', ('ErrClass',)),                  # unorderable operands
           ('callable_some_exceptions', ('ErrClass',)),                  # whatever a callable raises is a rejection
           ('cmp_by_complement', ('Decides',)),                          # partial orders (sets): > is not "not <="
           ('default_aliased', ('Again',)),                              # Optional / Match defaults are built afresh
           ('default_not_evaluated', ('Default', 'Result')),             # defaults are argument values (T resolved)
           # hardening: a truth test is not an emptiness test, isinstance is not an exact-type test, falsy defaults count
           ('truthy_by_len', ('Decides',)), ('container_exact_type', ('Decides',)), ('falsy_default_missing', ('Decides', 'Default'))]



def main(tier, seed):
    check = vlib.Check(PROP, tier, seed)
    B.check_tables()
    problems = check.extra.setdefault('problems', [])      # machinery complaints; fatal unless a violation is reported
    universes = {'quick': [dict(TDepth=2, PDepth=1, Wide='FALSE')],
                 'thorough': [dict(TDepth=2, PDepth=3, Wide='FALSE'), dict(TDepth=1, PDepth=1, Wide='TRUE')]}[tier]
    global SLOW_EVERY
    SLOW_EVERY = {'quick': 4, 'thorough': 3}[tier]
    results = []
    for consts in universes:
        consts['Mutant'] = '"none"'
        res, rs = vlib.map_states('MC_C09', worker, constants=consts)
        check.add_tlc(res, 'MC_C09 %s' % consts)
        results += rs
    tot = dict(amb=0, ok=0, fail=0, tme=0, foreign=0, cases=0)
    by_op = {}
    for r in results:
        if 'error' in r:
            raise vlib.MachineryError('replay worker failed:\n' + r['error'])
        check.cov['evaluations'] += r['n']
        check.cov['distinct_nontrivial'] += r['nontrivial']
        check.validated(r['cases'] - r['amb'] - len({json.dumps([b['case']['pattern'], b['case']['target']], sort_keys=True)
                                                    for b in r['bad']}))
        for k in tot:
            tot[k] += r[k]
        for op, (a, b) in r['by_op'].items():
            c = by_op.setdefault(op, [0, 0])
            c[0] += a
            c[1] += b
        for s in r['samples']:
            check.sample(s)
        for b in r['bad']:
            check.violation(b['case'], b['why'], matcher=match_finding)
    check.extra['cases'] = dict(total=tot['cases'], predicted_success=tot['ok'], predicted_failure=tot['fail'],
                                typematcherror_permitted=tot['tme'], foreign_typeerror=tot['foreign'],
                                not_compared_order_dependent=tot['amb'],
                                by_root_pattern_kind={op: dict(success=a, failure=b) for op, (a, b) in sorted(by_op.items())})
    # vacuity: every pattern family is met by conforming and by non-conforming targets
    families = ('lit', 'type', 'regex', 'pred', 'm', 'mtruthy', 'and', 'or', 'not', 'list', 'set', 'frozenset', 'tuple', 'dict')
    if min(tot['ok'], tot['fail'], tot['tme'], tot['foreign']) == 0 or any(min(by_op.get(f, [0, 0])) == 0 for f in families):
        problems.append('vacuous universe: %r %r' % (tot, by_op))
    rows = record(check, {'quick': 6000, 'thorough': 40000}[tier], seed)
    corrupt_selftest(check, rows)
    if tier == 'thorough':
        mconsts = dict(TDepth=1, PDepth=1, Wide='FALSE')
        for name, laws in MUTANTS:
            r = vlib.run_tlc('MC_C09', constants=dict(mconsts, Mutant='"%s"' % name))
            if r['violated'] not in laws:
                raise vlib.MachineryError('spec mutant %s: expected a violation of %s, TLC says %r' % (name, laws, r['violated']))
            check.extra.setdefault('spec_mutants', {})[name] = r['violated']
    check.extra['constants'] = universes
    check.assumptions += [
        'strings are drawn from {"", a, b, aa, ab, ba, bb}; Regex semantics are three explicit tables cross-checked against re',
        'an ordering comparison Python itself refuses (TypeError, e.g. "a" > 0) is not a rejection by the matcher: the '
        'TypeError must propagate unchanged; such cases are compared on the exception class only',
        'where several independent parts of a container fail (items, entries, missing required keys) or a set is '
        'iterated, the documentation does not say which failure is reported: any of their classes is permitted; cases '
        'where that order decides between a GlomError and a foreign error are enumerated but not compared',
        'results are compared with == (the property says "equal"), not by class of the rebuilt containers',
        'values whose == raises occur only as whole targets; values == to everything not as dict keys / set elements',
        'defaults that are instances of dict / list subclasses (OrderedDict ...) are outside the universe: argument mode '
        'rebuilds exact builtin containers only, by design',
        'alternatives of set / frozenset patterns are hashable leaves; no floats, bytes or user classes',
        'TLC, the Json community module and the codec are trusted']
    if problems and not check.violations:
        raise vlib.MachineryError('; '.join(problems))
    return check.finish(rule='TLC enumerates every (pattern, target) pair within the constants: all patterns of the stated '
                        'families up to PDepth x all target values up to TDepth; each is replayed through glom(), '
                        'verify(), matches() and Match(default=); non-trivial = composite pattern and container '
                        'target; distinct by TLC state fingerprint', exhaustive=True)


def replay(path):
    with open(path) as f:
        v = json.load(f)
    case = v['case']
    if case.get('kind') == 'code->spec':
        row = case['row']
        tree = G.untree(row['heap'], row['root'])
        new = record_row(row['pattern'], tree)
        print(json.dumps(dict(recorded_then=row['obs'], observed_now=new['obs']), indent=1))
        tmp = vlib.Check(PROP, 'replay', 0)
        rej = vlib.validate_rows(tmp, 'Trace_C09', [new], 'replay')
        print('rejected by the specification: %s' % [j for _, j in rej])
        return 1 if rej else 0
    obs = run_case(case['pattern'], case['target'])
    bad = judge(case['pred'], obs)
    print(json.dumps(dict(pattern=case['pattern'], target=case['target'], predicted=case['pred'],
                          observed={k: B.json_safe(v) for k, v in obs.items() if isinstance(v, dict)}), indent=1, default=str))
    for call, why in bad:
        print('DISAGREES:', why)
    return 1 if bad else 0
