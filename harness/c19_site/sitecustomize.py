"""Loaded by `python -m glom` children of harness/c19.py (this directory is first on
PYTHONPATH): installs the C19 audit hook before glom is imported.  Inactive unless
C19_AUDIT_LOG is set."""
import os
import sys

_log = os.environ.get('C19_AUDIT_LOG')
if _log:
    import importlib.util
    _p = os.path.join(os.path.dirname(os.path.dirname(os.path.abspath(__file__))), 'c19_audit.py')
    _spec = importlib.util.spec_from_file_location('c19_audit', _p)
    _mod = importlib.util.module_from_spec(_spec)
    _spec.loader.exec_module(_mod)
    sys.modules['c19_audit'] = _mod
    _fd = os.open(_log, os.O_WRONLY | os.O_CREAT | os.O_APPEND, 0o600)
    _mod.install()
    _mod.arm(os.environ.get('C19_SPEC', ''), os.environ.get('C19_TOKEN', ''), _fd)
